"""C30 — a smart server never waits for bytes beyond the current request
(breezy/bzr/smart/protocol.py next_read_size of every decoder, medium.py
SmartServerPipeStreamMedium._serve_one_request_unguarded, message.py
ConventionalResponseHandler._read_more, client read_body_bytes / read_streamed_body).

Lean side (Props/C30.lean, decoders shared with C29): for LengthPrefixedBodyDecoder,
ChunkedBodyDecoder, ProtocolThreeDecoder (server and client side) and the protocol
1/2 server request machine, proved for ALL messages, read patterns and short-read
schedules: (a) encoder-independent bound `1 <= hint` and `hint + |unused afterwards|
<= |q|` for every resting state and every continuation q that completes the message;
(b) while a well-formed message arrives in arbitrary reads the hint is between 1 and
the number of message bytes not yet delivered and the exit test is false; (c) the
exit test (finished_reading / hint == 0) is true once the message is complete;
(d) the reading loop never blocks, terminates and consumes exactly the message.

T2: the REAL loops are run over an in-memory pipe that returns
`max(1, min(SCHED[i], n))` bytes for `read(n)`:
  lp   SmartClientRequestProtocolOne.read_body_bytes
  ck   SmartClientRequestProtocolTwo.read_streamed_body
  v3c  ConventionalResponseHandler._wait_for_response_end -> _read_more
  v3s  SmartServerPipeStreamMedium._build_protocol + _serve_one_request_unguarded (v3)
  req  the same medium with protocol 1 and protocol 2 requests
and the sequence of requested sizes and the outcome are compared with the model's
`pipeLoop` under the same schedule.  Raw decoders are additionally traced read by
read against the model (state, next_read_size, ...), including malformed input.

Oracle (no model): every `read(n)` issued by the real code must have `n <=` bytes
left in the current message (otherwise a pipe read blocks forever), the loop must
stop exactly at the end of the message (a sentinel after it must not be touched),
and along raw decoder traces `1 <= next_read_size() <= remaining` until the end.

Mutants this check was built against (each caught with a concrete input; H stayed clean):
  M1 LengthPrefixed.next_read_size: `bytes_left + 5` -> `+ 6`
  M2 LengthPrefixed.next_read_size: expecting_length `6` -> `7` (needs a short read after the
     first digit of an empty body)
  M3 Chunked.next_read_size: `bytes_left + 4` -> `+ 5`
  M4 Chunked.next_read_size: expecting_length with empty buffer `2` -> `5`
  M5 ProtocolThreeDecoder: `_NeedMoreBytes(end_of_bytes)` -> `end_of_bytes + 2`
  M6 ProtocolThreeDecoder.__init__: initial `len(MESSAGE_VERSION_THREE) + 4` -> `+ 8`
  M7 pipe medium: `bytes_to_read = max(protocol.next_read_size(), 16)` unless 0
  M8 SmartServerRequestProtocolOne.next_read_size: `return 1` -> `return 2`
  M9 ConventionalResponseHandler._read_more: read_bytes(max(next_read_size, 64))
  M10 ProtocolThreeDecoder `_NeedMoreBytes(end_of_bytes)` -> `end_of_bytes + 1`: never blocks
     (an `e` always follows) — caught by T2 only (tie broken, no failing input exists)
  H  next_read_size branches reordered / `5 - len(trailer)` written as `len(b"done\\n") - ...`.
"""
import io

from vlib import env
from vlib.lean import hexb, unhex

from checks import c29

THEOREMS = [
    "lp_hint_bound", "lp_no_overread", "lp_done_exactly_at_end", "lp_loop_consumes_exactly",
    "ck_hint_bound", "ck_no_overread", "ck_done_exactly_at_end", "ck_loop_consumes_exactly",
    "v3_hint_bound", "v3s_no_overread", "v3s_zero_exactly_at_end", "v3s_loop_consumes_exactly",
    "v3c_no_overread", "v3c_zero_exactly_at_end", "v3c_loop_consumes_exactly",
    "req_hint_bound", "req_no_overread", "req_zero_exactly_at_end", "req_loop_consumes_exactly",
]
RULE = ("well-formed messages of every protocol version (bodies 0-5000 bytes over the delimiter alphabet, 0-4 "
        "chunks with optional failure, v3 requests/responses with 0-3 body parts) read by the real loops over a "
        "pipe with a short-read schedule (1-byte, full, random patterns), plus read-by-read traces of the raw "
        "decoders; a case is distinct by (kind, message, schedule / segmentation); non-trivial = the message "
        "needs more than one read")
ASSUMPTIONS = list(c29.ASSUMPTIONS) + [
    "a pipe read(n) returns between 1 and n bytes while the peer still has bytes to send and blocks otherwise; "
    "reads are capped at 64 KiB by the medium (bodies in loop cases stay below that)",
]
TRUSTED = [
    "the OS pipe / ssh channel is an in-memory object with the short-read semantics above",
    "request dispatch is replaced by two test verbs registered in request.request_handlers",
]

SENTINEL = b"\xfe\xfdSENTINEL-NEXT-MESSAGE"


class SchedPipe:
    """read(n) -> max(1, min(sched[i], n)) bytes; records (n, bytes left in the message)"""

    def __init__(self, data, msg_len, sched):
        self.data = data
        self.msg_len = msg_len
        self.sched = sched or [0]
        self.pos = 0
        self.i = 0
        self.requests = []

    def read(self, n):
        self.requests.append((n, max(0, self.msg_len - self.pos)))
        if n is None or n <= 0:
            # read(-1)/read(0) on a pipe: until EOF / nothing — would block or spin
            return b""
        k = max(1, min(self.sched[self.i % len(self.sched)], n))
        self.i += 1
        r = self.data[self.pos:self.pos + k]
        self.pos += len(r)
        return r

    def close(self):
        pass


def gsched(rng):
    style = rng.choice(["one", "full", "rand", "rand", "pat"])
    if style == "one":
        return [1]
    if style == "full":
        return [1 << 20]
    if style == "pat":
        return [rng.choice([1, 2, 3, 5, 1 << 20]) for _ in range(rng.randint(1, 4))]
    return [rng.choice([1, 1, 2, 3, 4, 7, 16, 1 << 20]) for _ in range(rng.randint(2, 9))]


def oracle_reads(ctx, case, pipe, msg_len, what):
    """the property itself, on the reads the real code issued"""
    for idx, (n, left) in enumerate(pipe.requests):
        if n is None or n <= 0:
            ctx.violation(case, "%s: read(%r) requested with %d bytes of the message left" % (what, n, left))
            return False
        if n > left:
            ctx.violation(case, "%s: read #%d asks for %d bytes but only %d remain in the current message — "
                          "a pipe read would block" % (what, idx, n, left))
            return False
    if pipe.pos != msg_len:
        ctx.violation(case, "%s: loop ended after consuming %d bytes of a %d byte message" % (what, pipe.pos, msg_len))
        return False
    return True


def hints_str(reqs):
    return ",".join(str(n) for n, _ in reqs) or "-"


def gbody(ctx, rng):
    b = c29.gbody(ctx, rng)
    return b[:5000]


# ---------------------------------------------------------------- real loops

def loop_lp(ctx, b, rng, body, sched):
    p = c29._proto()
    msg = b"%d\n" % len(body) + body + b"done\n"
    pipe = SchedPipe(msg + SENTINEL, len(msg), sched)
    from breezy.bzr.smart import medium
    m = medium.SmartSimplePipesClientMedium(pipe, io.BytesIO(), "verif:///")
    req = m.get_request()
    req.finished_writing()
    c = p.SmartClientRequestProtocolOne(req)
    case = dict(kind="loop-lp", body=hexb(body), sched=sched)
    try:
        got = c.read_body_bytes()
    except Exception as e:
        ctx.violation(case, "read_body_bytes raised %s: %s" % (type(e).__name__, e))
        got = None
    ok = oracle_reads(ctx, case, pipe, len(msg), "client read_body_bytes")
    if ok and got != body:
        ctx.violation(case, "read_body_bytes returned %r for body %r" % (got[:40], body[:40]))
    ctx.case(case, len(pipe.requests) > 1)
    ctx.count("loop:lp")
    ctx.count("reads:%d" % min(len(pipe.requests), 12))
    out = hints_str(pipe.requests) + " finished/-/T"
    b.add(case, "pipe lp - ~ %s %s 0" % (hexb(msg), ",".join(map(str, sched))), out)


def loop_ck(ctx, b, rng, chunks, fail, sched):
    p = c29._proto()
    msg = c29.real_stream_bytes(chunks, fail)
    pipe = SchedPipe(msg + SENTINEL, len(msg), sched)
    from breezy.bzr.smart import medium
    m = medium.SmartSimplePipesClientMedium(pipe, io.BytesIO(), "verif:///")
    req = m.get_request()
    req.finished_writing()
    c = p.SmartClientRequestProtocolTwo(req)
    case = dict(kind="loop-ck", chunks=[hexb(x) for x in chunks], fail=None if fail is None else [hexb(x) for x in fail], sched=sched)
    got = None
    try:
        got = list(c.read_streamed_body())
    except Exception as e:
        ctx.violation(case, "read_streamed_body raised %s: %s" % (type(e).__name__, e))
    ok = oracle_reads(ctx, case, pipe, len(msg), "client read_streamed_body")
    if ok and got is not None:
        exp = [("d", x) for x in chunks] + ([("f", tuple(fail))] if fail is not None else [])
        g = [("d", x) if isinstance(x, bytes) else ("f", tuple(x.args)) for x in got]
        if g != exp:
            ctx.violation(case, "read_streamed_body yielded %r, sent %r" % (g[:5], exp[:5]))
    ctx.case(case, len(pipe.requests) > 1)
    ctx.count("loop:ck")
    ctx.count("reads:%d" % min(len(pipe.requests), 12))
    b.add(case, "pipe ck - ~ %s %s 0" % (hexb(msg), ",".join(map(str, sched))), hints_str(pipe.requests) + " finished/-/T")


def v3_wire(hdr, parts):
    data = c29.be32(len(hdr)) + hdr
    for k, v in parts:
        data += b"o" + bytes([v]) if k == "o" else k.encode() + c29.be32(len(v)) + v
    return data + b"e"


def loop_v3c(ctx, b, rng, hdr, parts, sched):
    from breezy.bzr.smart import medium, message
    p = c29._proto()
    msg = p.MESSAGE_VERSION_THREE + v3_wire(hdr, parts)
    pipe = SchedPipe(msg + SENTINEL, len(msg), sched)
    m = medium.SmartSimplePipesClientMedium(pipe, io.BytesIO(), "verif:///")
    req = m.get_request()
    req.finished_writing()
    h = message.ConventionalResponseHandler()
    d = p.ProtocolThreeDecoder(h, expect_version_marker=True)
    h.setProtoAndMediumRequest(d, req)
    case = dict(kind="loop-v3c", hdr=hexb(hdr), parts=[[k, v if k == "o" else hexb(v)] for k, v in parts], sched=sched)
    try:
        h._wait_for_response_end()
    except Exception as e:
        ctx.violation(case, "_wait_for_response_end raised %s: %s" % (type(e).__name__, str(e)[:200]))
    oracle_reads(ctx, case, pipe, len(msg), "client _read_more (v3)")
    ctx.case(case, len(pipe.requests) > 1)
    ctx.count("loop:v3c")
    ctx.count("reads:%d" % min(len(pipe.requests), 12))
    b.add(case, "pipe v3c - ~ %s %s 0" % (hexb(msg), ",".join(map(str, sched))), hints_str(pipe.requests) + " finished/-/T")


def server_medium(pipe):
    from breezy.bzr.smart import medium
    return medium.SmartServerPipeStreamMedium(pipe, io.BytesIO(), c29.backing(), timeout=4.0)


def loop_v3s(ctx, b, rng, hdr, args, bodies, sched):
    """a conventional v3 request through the real pipe medium and request handler"""
    from fastbencode import bencode
    p = c29._proto()
    parts = [("s", bencode(args))] + [("b", x) for x in bodies]
    rest = v3_wire(hdr, parts)
    msg = p.MESSAGE_VERSION_THREE + rest
    pipe = SchedPipe(msg + SENTINEL, len(msg), sched)
    m = server_medium(pipe)
    case = dict(kind="loop-v3s", hdr=hexb(hdr), args=[hexb(a) for a in args], bodies=[hexb(x) for x in bodies], sched=sched)
    del c29.LOG[:]
    try:
        proto = m._build_protocol()
        nline = len(pipe.requests)
        m._serve_one_request_unguarded(proto)
    except Exception as e:
        ctx.violation(case, "pipe medium raised %s: %s" % (type(e).__name__, str(e)[:200]))
        nline = len(p.MESSAGE_VERSION_THREE)
    ok = oracle_reads(ctx, case, pipe, len(msg), "SmartServerPipeStreamMedium (v3 request)")
    ev = [e for e in c29.LOG if e[0] in ("body", "nobody")]
    if ok and len(ev) != 1:
        ctx.violation(case, "pipe medium dispatched %d requests for one message" % len(ev))
    ctx.case(case, len(pipe.requests) > 1)
    ctx.count("loop:v3s")
    ctx.count("reads:%d" % min(len(pipe.requests), 12))
    b.add(case, "pipe v3s - - %s %s %d" % (hexb(rest), ",".join(map(str, sched)), nline),
          hints_str(pipe.requests[nline:]) + " finished/-/T")


def loop_req(ctx, b, rng, version, w, args, body, sched):
    p = c29._proto()
    line = b"\x01".join(args) + b"\n"
    tail = (b"%d\n" % len(body) + body + b"done\n") if w else b""
    marker = p.REQUEST_VERSION_TWO if version == 2 else b""
    msg = marker + line + tail
    pipe = SchedPipe(msg + SENTINEL, len(msg), sched)
    m = server_medium(pipe)
    case = dict(kind="loop-req", version=version, w=w, args=[hexb(a) for a in args], body=None if body is None else hexb(body), sched=sched)
    del c29.LOG[:]
    nline = None
    try:
        proto = m._build_protocol()
        nline = len(pipe.requests)
        m._serve_one_request_unguarded(proto)
    except Exception as e:
        ctx.violation(case, "pipe medium raised %s: %s" % (type(e).__name__, str(e)[:200]))
    ok = oracle_reads(ctx, case, pipe, len(msg), "SmartServerPipeStreamMedium (v%d request)" % version)
    ev = [e for e in c29.LOG if e[0] in ("body", "nobody")]
    if ok and (len(ev) != 1 or list(ev[0][1]) != list(args[1:]) or (ev[0][2] if ev[0][0] == "body" else None) != body):
        ctx.violation(case, "pipe medium served %r for request args=%r body=%r" % (ev, args, body))
    ctx.case(case, len(pipe.requests) > 1)
    ctx.count("loop:req-v%d" % version)
    ctx.count("reads:%d" % min(len(pipe.requests), 12))
    if nline is None:
        nline = len(marker or line)
    if version == 1:
        pre, rem = hexb(line), tail
    else:
        pre, rem = "-", line + tail
    b.add(case, "pipe req %s %s %s %s %d" % ("T" if w else "F", pre, hexb(rem), ",".join(map(str, sched)), nline),
          hints_str(pipe.requests[nline:]) + " finished/-/T")


# ---------------------------------------------------------------- read-by-read traces of the raw decoders

def oracle_trace(ctx, case, impl, segs, msg_len, zero_when_done, what):
    """along a trace string produced by c29.run_*: 1 <= hint <= remaining until the end,
    completion reported exactly at the end"""
    steps = impl.split(" ")[0].split(";")
    used = 0
    for seg, st in zip(segs, steps):
        used += len(seg)
        if st.startswith("E:"):
            ctx.violation(case, "%s failed on a well-formed message (%s)" % (what, st))
            return
        f = st.split("/")
        nrs, fin = int(f[-1]), f[-3] == "T"
        left = msg_len - used
        if left > 0:
            if fin or (zero_when_done and nrs == 0):
                ctx.violation(case, "%s reports completion with %d bytes of the message still to come" % (what, left))
                return
            if nrs < 1 or nrs > left:
                ctx.violation(case, "%s: next_read_size()=%d with %d bytes of the message left (after %d bytes)" % (what, nrs, left, used))
                return
        else:
            if not fin or (zero_when_done and nrs != 0):
                ctx.violation(case, "%s does not report completion at the end of the message (finished=%s, next_read_size=%d)" % (what, fin, nrs))
                return


def trace_cases(ctx, b, rng):
    from fastbencode import bencode
    p = c29._proto()
    # LP
    body = gbody(ctx, rng)
    msg = b"%d\n" % len(body) + body + b"done\n"
    segs = c29.cut(rng, msg)
    mask = "".join(rng.choice("01") for _ in segs)
    out, d, _ = c29.run_lp(segs, mask)
    case = dict(kind="trace-lp", body=hexb(body), segs=[hexb(s) for s in segs], mask=mask)
    oracle_trace(ctx, case, out, segs, len(msg), False, "LengthPrefixedBodyDecoder")
    ctx.case(case, len(segs) > 1)
    ctx.count("trace:lp")
    b.add(case, "lp %s %s" % (c29.hseg(segs), mask), out)
    # CK
    chunks = [gbody(ctx, rng) if rng.random() < 0.2 else c29.gbytes(rng, 0, 9) for _ in range(rng.randint(0, 4))]
    fail = [c29.gbytes(rng, 0, 6) for _ in range(rng.randint(0, 3))] if rng.random() < 0.3 else None
    msg = c29.real_stream_bytes(chunks, fail)
    segs = c29.cut(rng, msg)
    out, d, _ = c29.run_ck(segs, "".join(rng.choice("01") for _ in segs))
    case = dict(kind="trace-ck", chunks=[hexb(x) for x in chunks], fail=None if fail is None else [hexb(x) for x in fail],
                segs=[hexb(s) for s in segs])
    oracle_trace(ctx, case, out, segs, len(msg), False, "ChunkedBodyDecoder")
    ctx.case(case, len(segs) > 1)
    ctx.count("trace:ck")
    b.add(case, "ck %s" % c29.hseg(segs), out)
    # V3 (recording handler, arbitrary part sequences)
    marker = rng.random() < 0.5
    hdr = bencode({c29.gbytes(rng, 1, 4): c29.gbytes(rng, 0, 5) for _ in range(rng.randint(0, 2))})
    parts = []
    for _ in range(rng.randint(0, 5)):
        k = rng.choice("obs")
        parts.append((k, rng.choice(b"SEC\x00e") if k == "o" else c29.gen_struct(rng) if k == "s" else gbody(ctx, rng)))
    msg = (p.MESSAGE_VERSION_THREE if marker else b"") + v3_wire(hdr, parts)
    segs = c29.cut(rng, msg)
    out, d, h = c29.run_v3(marker, segs)
    case = dict(kind="trace-v3", marker=marker, hdr=hexb(hdr), parts=[[k, v if k == "o" else hexb(v)] for k, v in parts],
                segs=[hexb(s) for s in segs])
    oracle_trace(ctx, case, out, segs, len(msg), True, "ProtocolThreeDecoder")
    # hint of the freshly constructed decoder
    d0 = p.ProtocolThreeDecoder(c29.make_rec(), expect_version_marker=marker)
    try:
        n0 = d0.next_read_size()
    except Exception as e:
        n0 = None
        ctx.violation(case, "fresh ProtocolThreeDecoder.next_read_size() raised %s" % type(e).__name__)
    if n0 is not None and not (1 <= n0 <= len(msg)):
        ctx.violation(case, "fresh ProtocolThreeDecoder asks for %d bytes, message has %d" % (n0, len(msg)))
    ctx.case(case, len(segs) > 1)
    ctx.count("trace:v3")
    b.add(case, "v3 %s %s" % ("T" if marker else "F", c29.hseg(segs)), out)
    # protocol 1 server
    w = rng.random() < 0.6
    args = [b"C29.b" if w else b"C29.n"] + c29.gargs(rng, True)
    body = gbody(ctx, rng) if w else None
    msg = b"\x01".join(args) + b"\n" + (b"%d\n" % len(body) + body + b"done\n" if w else b"")
    segs = c29.cut(rng, msg)
    out, sp = c29.run_req(w, segs)
    case = dict(kind="trace-req", w=w, args=[hexb(a) for a in args], body=None if body is None else hexb(body),
                segs=[hexb(s) for s in segs])
    oracle_trace(ctx, case, out, segs, len(msg), True, "SmartServerRequestProtocolOne")
    ctx.case(case, len(segs) > 1)
    ctx.count("trace:req")
    b.add(case, "req %s %s" % ("T" if w else "F", c29.hseg(segs)), out)
    # malformed input: the model must follow the code (hints included) — no oracle
    if rng.random() < 0.25:
        data = rng.choice([
            b"%d\n" % rng.randint(0, 5) + c29.gbytes(rng, 0, 12, b"doneX\n12"),
            c29.corrupt_line(rng) + b"\n" + c29.gbytes(rng, 0, 6),
        ])
        segs = c29.cut(rng, data)
        mask = "0" * len(segs)
        out, _, _ = c29.run_lp(segs, mask)
        case = dict(kind="trace-lp-bad", data=hexb(data), segs=[hexb(s) for s in segs])
        ctx.case(case, True)
        ctx.count("trace:lp-bad")
        b.add(case, "lp %s %s" % (c29.hseg(segs), mask), out)
        data = rng.choice([
            b"chunked\n" + c29.corrupt_line(rng) + b"\n" + c29.gbytes(rng, 0, 5) + b"END\n",
            c29.gbytes(rng, 0, 10, b"chunkedX") + b"\n3\nabcEND\n",
            b"chunked\n2\nab" + c29.gbytes(rng, 0, 6, b"END\nR0"),
        ])
        segs = c29.cut(rng, data)
        out, _, _ = c29.run_ck(segs, "0" * len(segs))
        case = dict(kind="trace-ck-bad", data=hexb(data), segs=[hexb(s) for s in segs])
        ctx.case(case, True)
        ctx.count("trace:ck-bad")
        b.add(case, "ck %s" % c29.hseg(segs), out)


def loop_cases(ctx, b, rng):
    from fastbencode import bencode
    loop_lp(ctx, b, rng, gbody(ctx, rng), gsched(rng))
    chunks = [gbody(ctx, rng) if rng.random() < 0.2 else c29.gbytes(rng, 0, 9) for _ in range(rng.randint(0, 4))]
    fail = [c29.gbytes(rng, 0, 6) for _ in range(rng.randint(0, 3))] if rng.random() < 0.3 else None
    loop_ck(ctx, b, rng, chunks, fail, gsched(rng))
    # v3 response as the real responder would write it (shapes the response handler accepts)
    hdr = bencode({b"Software version": b"x"}) if rng.random() < 0.5 else bencode({})
    parts = [("o", rng.choice(b"SE")), ("s", c29.gen_struct(rng))]
    nb = rng.choice([0, 0, 1, 2, 3])
    for _ in range(nb):
        parts.append(("b", gbody(ctx, rng)))
    if nb and rng.random() < 0.35:
        parts += [("o", ord("E")), ("s", c29.gen_struct(rng))]
    loop_v3c(ctx, b, rng, hdr, parts, gsched(rng))
    w = rng.random() < 0.6
    args = [b"C29.b" if w else b"C29.n"] + c29.gargs(rng, False)
    bodies = [gbody(ctx, rng) for _ in range(rng.choice([0, 1, 1, 2, 3]))] if w else []
    loop_v3s(ctx, b, rng, bencode({b"k": c29.gbytes(rng, 0, 4)}), args, bodies, gsched(rng))
    w = rng.random() < 0.6
    args = [b"C29.b" if w else b"C29.n"] + c29.gargs(rng, True)
    loop_req(ctx, b, rng, rng.choice([1, 2]), w, args, gbody(ctx, rng) if w else None, gsched(rng))


def corpus_cases(ctx, b):
    rng = ctx.rng
    from fastbencode import bencode
    for sched in ([1], [1 << 20], [2], [1, 1 << 20], [3, 1]):
        for body in (b"", b"a", b"done\n", b"0123456789"):
            loop_lp(ctx, b, rng, body, sched)
            loop_req(ctx, b, rng, 1, True, [b"C29.b"], body, sched)
            loop_req(ctx, b, rng, 2, True, [b"C29.b", b"x"], body, sched)
        loop_req(ctx, b, rng, 1, False, [b"C29.n"], None, sched)
        loop_req(ctx, b, rng, 2, False, [b"C29.n", b"ab"], None, sched)
        loop_req(ctx, b, rng, 1, False, [b"C29.n", b"a"], None, sched)
        for chunks, fail in (([], None), ([b""], None), ([b"ab", b""], [b"x"]), ([b"a" * 17], [])):
            loop_ck(ctx, b, rng, chunks, fail, sched)
        loop_v3c(ctx, b, rng, bencode({}), [], sched)
        loop_v3c(ctx, b, rng, bencode({}), [("o", 83), ("s", bencode([b"ok"]))], sched)
        loop_v3c(ctx, b, rng, bencode({}), [("o", 83), ("s", bencode([b"ok"])), ("b", b""), ("b", b"xyz")], sched)
        loop_v3s(ctx, b, rng, bencode({}), [b"C29.n"], [], sched)
        loop_v3s(ctx, b, rng, bencode({}), [b"C29.b"], [b""], sched)
        loop_v3s(ctx, b, rng, bencode({}), [b"C29.b", b"a"], [b"abc", b""], sched)


def run(ctx, n=None):
    c29.register_verbs()
    rng = ctx.rng
    b = c29.Batch()
    corpus_cases(ctx, b)
    n = n or ctx.pick(1500, 12000)
    for _ in range(n):
        loop_cases(ctx, b, rng)
        trace_cases(ctx, b, rng)
    ctx.diff(b.cases, b.lines, b.outs)


def widen(ctx):
    run(ctx, n=4000)


def replay(ctx, case):
    c29.register_verbs()
    rng = ctx.rng
    b = c29.Batch()
    k = case.get("kind")
    ub = lambda s: None if s is None else unhex(s)
    parts = lambda ps: [(kk, v if kk == "o" else unhex(v)) for kk, v in ps]
    if k == "loop-lp":
        loop_lp(ctx, b, rng, ub(case["body"]), case["sched"])
    elif k == "loop-ck":
        loop_ck(ctx, b, rng, [unhex(x) for x in case["chunks"]], None if case["fail"] is None else [unhex(x) for x in case["fail"]], case["sched"])
    elif k == "loop-v3c":
        loop_v3c(ctx, b, rng, ub(case["hdr"]), parts(case["parts"]), case["sched"])
    elif k == "loop-v3s":
        loop_v3s(ctx, b, rng, ub(case["hdr"]), [unhex(a) for a in case["args"]], [unhex(x) for x in case["bodies"]], case["sched"])
    elif k == "loop-req":
        loop_req(ctx, b, rng, case["version"], case["w"], [unhex(a) for a in case["args"]], ub(case["body"]), case["sched"])
    elif k in ("trace-lp", "trace-ck", "trace-v3", "trace-req"):
        segs = [unhex(s) for s in case["segs"]]
        n = sum(len(s) for s in segs)
        if k == "trace-lp":
            out, _, _ = c29.run_lp(segs, case["mask"])
            oracle_trace(ctx, case, out, segs, n, False, "LengthPrefixedBodyDecoder")
            b.add(case, "lp %s %s" % (c29.hseg(segs), case["mask"]), out)
        elif k == "trace-ck":
            out, _, _ = c29.run_ck(segs, "0" * len(segs))
            oracle_trace(ctx, case, out, segs, n, False, "ChunkedBodyDecoder")
            b.add(case, "ck %s" % c29.hseg(segs), out)
        elif k == "trace-v3":
            out, _, _ = c29.run_v3(case["marker"], segs)
            oracle_trace(ctx, case, out, segs, n, True, "ProtocolThreeDecoder")
            b.add(case, "v3 %s %s" % ("T" if case["marker"] else "F", c29.hseg(segs)), out)
        else:
            out, _ = c29.run_req(case["w"], segs)
            oracle_trace(ctx, case, out, segs, n, True, "SmartServerRequestProtocolOne")
            b.add(case, "req %s %s" % ("T" if case["w"] else "F", c29.hseg(segs)), out)
    else:
        return dict(case=case, note="malformed-trace cases are replayed by re-running the check with the same seed")
    model = ctx.model(b.lines) if b.lines else []
    return dict(case=case, impl=b.outs, model=model, agree=b.outs == model,
                oracle_failures=[v["what"] for v in ctx.violations])
