import BreezyVerif.Driver.C29Handle
/-! C29 driver executable; the line protocol is documented in `Driver/C29Handle.lean`
(shared with the C30 driver). -/
namespace BreezyVerif.C29

def handle : List String → String := handleLine

end BreezyVerif.C29

def main : IO Unit := BreezyVerif.runDriver BreezyVerif.C29.handle
