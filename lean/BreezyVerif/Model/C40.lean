import BreezyVerif.Common
import BreezyVerif.Model.C03
/-
C40 — bundles and merge directives reproduce what they carry.

Three executable models (core Lean only):

1. **Bundle write / install at record level** over the abstract repository of
   `Model/C03` (revisions ↦ parents+metadata token, inventories ↦ entries,
   texts ↦ content token).
   * `bundleRevs` is `graph.find_unique_ancestors(target, [base])` with ghosts
     stripped (`BundleWriteOperation.__init__`, `BundleSerializerV08.write_bundle`):
     the source-present ancestry of `target` minus everything reachable from
     `base`.  The ancestry walk is `C33.bfs` (the proved model of vcsgraph's
     searcher), as in C03.
   * `writeV4`: `BundleWriteOperation.do_write` — one revision record and one
     inventory record per bundled revision, target revision last, and the text
     records selected by `fileids_altered_by_revision_ids`: for CHK (2a)
     repositories the inventory entries that differ from every inventory of a
     boundary parent (`C03.streamEntries`), for XML-inventory repositories the
     entries whose text revision is one of the bundled revisions.
   * `installV4`: `RevisionInstaller._install_in_write_group` — every record is
     added; a key the repository already holds keeps its value.
   * `write09` / `install09`: the patch-based format: one record per revision
     (revision, its tree = inventory, the base it is a delta against: the
     explicit base for the target, the *last* parent otherwise);
     `install_bundle` skips revisions the repository has, rebuilds the tree on
     the base tree (`NoSuchRevision` when the base is absent) and
     `install_revision` adds the revision, the inventory and every text of the
     inventory that the repository lacks.
   mpdiff / bz2 / container / patch text encodings are bzrformats and stdlib
   code: they are exercised by the correspondence run, not modelled.

2. **Merge directive format 2** (`MergeDirective.from_lines`,
   `MergeDirective2._from_lines`, `BaseMergeDirective._to_lines`,
   `MergeDirective2.to_lines`) at byte level: header line, stanza block,
   `# \n`, `# Begin patch\n` + `patch.splitlines(True)`, `# Begin bundle\n` +
   `bundle.splitlines(True)`.  The stanza codec (`rio.Stanza`,
   `rio_patch.to_patch_lines` / `read_patch_stanza`, compiled bzrformats code)
   is a parameter `Codec` with a stated round-trip law.

3. **Patch verification** (`MergeDirective2._verify_patch`): both patches are
   normalised with `re.sub(b"\r\n?", b"\n")` then `re.sub(b" *\n", b"\n")`
   and compared.
-/
namespace BreezyVerif.C40

open BreezyVerif.C03 (Rev FileId TextKey Entry RevRec Inv Repo get hasRev graph reach anc invOrEmpty
  Exclusion streamEntries)

/-! ## 1. bundles -/

/-- `find_unique_ancestors(target, [base])`, ghosts stripped -/
def bundleRevs (src : Repo) (base target : Rev) : List Rev :=
  (anc src target).filter fun k => !decide (k ∈ reach (graph src) [base])

/-- which text records a v4 bundle carries -/
inductive TextSel where
  /-- CHK inventories (2a): `iter_interesting_nodes` against the boundary parents -/
  | chk (x : Exclusion)
  /-- XML inventories (knit / pack formats): `revision=` is one of the bundled revisions -/
  | xml
  deriving DecidableEq, Repr

def bundleEntries (sel : TextSel) (src : Repo) (m : List Rev) : List Entry :=
  match sel with
  | .chk x => streamEntries x src m
  | .xml => (m.flatMap (invOrEmpty src)).filter fun e => decide (e.trev ∈ m)

structure Bundle where
  revs : List (Rev × RevRec)
  invs : List (Rev × Inv)
  texts : List (TextKey × Nat)
  deriving DecidableEq, Repr

inductive Err where
  /-- the source lacks an inventory or a text of a bundled revision -/
  | sourceIncomplete
  /-- 0.9: the tree a revision is a delta against is not available -/
  | noSuchRevision
  deriving DecidableEq, Repr

/-- target revision last (`revision_order.remove(target); append(target)`) -/
def targetLast (m : List Rev) (target : Rev) : List Rev :=
  if target ∈ m then m.filter (· ≠ target) ++ [target] else m

def writable (sel : TextSel) (src : Repo) (m : List Rev) : Bool :=
  m.all (fun k => (get src.invs k).isSome) &&
    (bundleEntries sel src m).all fun e => (get src.texts e.key).isSome

def writeV4 (sel : TextSel) (src : Repo) (base target : Rev) : Except Err Bundle :=
  let m := bundleRevs src base target
  if !writable sel src m then .error .sourceIncomplete
  else .ok
    { revs := (targetLast m target).filterMap fun k => (get src.revs k).map fun v => (k, v)
      invs := m.filterMap fun k => (get src.invs k).map fun v => (k, v)
      texts := (bundleEntries sel src m).filterMap fun e => (get src.texts e.key).map fun c => (e.key, c) }

/-- `RevisionInstaller.install`: the repository afterwards and the returned
target revision (the last revision record; `None` for an empty bundle) -/
def installV4 (b : Bundle) (tgt : Repo) : Repo × Option Rev :=
  ({ revs := tgt.revs ++ b.revs, invs := tgt.invs ++ b.invs, texts := tgt.texts ++ b.texts },
   (b.revs.getLast?).map (·.1))

/-- one revision of a 0.8 / 0.9 bundle -/
structure Rec09 where
  rev : Rev
  info : RevRec
  inv : Inv
  /-- the tree the actions are relative to; `0` = `null:` -/
  base : Rev
  /-- content of every file of the tree, as the patches reproduce it -/
  texts : List (TextKey × Nat)
  deriving DecidableEq, Repr

/-- `forced_bases = {target: base}`, otherwise `rev.parent_ids[-1]` / `null:` -/
def baseOf (base target k : Rev) (r : RevRec) : Rev :=
  if k = target then base else r.parents.getLast?.getD 0

/-- `_write_revisions`: `revision_tree(rev)` and `revision_tree(base)` must exist -/
def rec09 (src : Repo) (base target k : Rev) : Except Err Rec09 :=
  match get src.revs k, get src.invs k with
  | some r, some inv =>
    let b := baseOf base target k r
    if b ≠ 0 ∧ (!hasRev src b || (get src.invs b).isNone) then .error .noSuchRevision
    else if !(inv.all fun e => (get src.texts e.key).isSome) then .error .sourceIncomplete
    else .ok ⟨k, r, inv, b, inv.filterMap fun e => (get src.texts e.key).map fun c => (e.key, c)⟩
  | _, _ => .error .sourceIncomplete

/-- the records, target first (the writer emits reverse topological order) -/
def write09 (src : Repo) (base target : Rev) : Except Err (List Rec09) :=
  ((targetLast (bundleRevs src base target) target).reverse).mapM (rec09 src base target)

/-- `install_bundle` rebuilds each tree on its base tree: the base must be in
the repository or be installed earlier.  The real reader installs
`reversed(real_revisions)` and the writer emits vcsgraph's `iter_topo_order`
(external), so a base inside the bundle always precedes its dependants; the
model checks the dependency itself instead of an order. -/
def deps09ok (rs : List Rec09) (tgt : Repo) : Bool :=
  rs.all fun r => hasRev tgt r.rev || r.base == 0 || hasRev tgt r.base || rs.any (·.rev == r.base)

/-- `install_bundle` + `install_revision`: revisions the repository has are
skipped; for the others the revision, the inventory and the texts of the
inventory are added (a key the repository already holds keeps its value:
only missing texts are added, `RevisionAlreadyPresent` for an inventory is swallowed) -/
def install09 (rs : List Rec09) (tgt : Repo) : Except Err Repo :=
  if !deps09ok rs tgt then .error .noSuchRevision
  else
    let new := rs.filter fun r => !hasRev tgt r.rev
    .ok { revs := tgt.revs ++ new.map (fun r => (r.rev, r.info))
          invs := tgt.invs ++ new.map (fun r => (r.rev, r.inv))
          texts := tgt.texts ++ new.flatMap (·.texts) }

/-- the v0.9 bundle for `(base, target)` written from `src` and installed into `tgt` -/
def roundtrip09 (src tgt : Repo) (base target : Rev) : Except Err Repo :=
  match write09 src base target with
  | .error e => .error e
  | .ok rs => install09 rs tgt

/-! ## 2. merge directive, format 2 -/

abbrev Line := Bytes

def isPrefix : Bytes → Bytes → Bool
  | [], _ => true
  | _ :: _, [] => false
  | a :: as, b :: bs => a == b && isPrefix as bs

/-- Python `bytes.splitlines(True)`: line boundaries are `\n`, `\r`, `\r\n` -/
def splitLines : Bytes → List Line
  | [] => []
  | 13 :: 10 :: rest => [13, 10] :: splitLines rest
  | 13 :: rest => [13] :: splitLines rest
  | 10 :: rest => [10] :: splitLines rest
  | b :: rest =>
    match splitLines rest with
    | [] => [[b]]
    | l :: ls => (b :: l) :: ls

/-- reading a file object line by line: boundaries are `\n` only -/
def splitNL : Bytes → List Line
  | [] => []
  | b :: rest =>
    if b = 10 then [10] :: splitNL rest
    else match splitNL rest with
      | [] => [[b]]
      | l :: ls => (b :: l) :: ls

def joinLines (ls : List Line) : Bytes := ls.flatten

/-- the stanza codec (bzrformats `rio` + `rio_patch`) over a field record `α` -/
structure Codec (α : Type) where
  /-- `rio_patch.to_patch_lines(stanza)` -/
  enc : α → List Line
  /-- `rio_patch.read_patch_stanza(line_iter)`: the stanza and the lines it left in the iterator; `none` = it raised -/
  dec : List Line → Option (α × List Line)

structure Directive (α : Type) where
  fields : α
  patch : Option Bytes
  bundle : Option Bytes
  deriving DecidableEq, Repr

/-- `# Bazaar merge directive format 2 (Bazaar 0.90)\n` -/
def header2 : Line := [35, 32, 66, 97, 122, 97, 97, 114, 32, 109, 101, 114, 103, 101, 32, 100, 105, 114, 101, 99, 116, 105, 118, 101, 32, 102, 111, 114, 109, 97, 116, 32, 50, 32, 40, 66, 97, 122, 97, 97, 114, 32, 48, 46, 57, 48, 41, 10]
/-- `# Bazaar merge directive format ` -/
def headerPrefix : Bytes := [35, 32, 66, 97, 122, 97, 97, 114, 32, 109, 101, 114, 103, 101, 32, 100, 105, 114, 101, 99, 116, 105, 118, 101, 32, 102, 111, 114, 109, 97, 116, 32]
/-- `# \n` -/
def blank : Line := [35, 32, 10]
/-- `# Begin patch\n` -/
def beginPatch : Line := [35, 32, 66, 101, 103, 105, 110, 32, 112, 97, 116, 99, 104, 10]
/-- `# Begin bundle\n` -/
def beginBundle : Line := [35, 32, 66, 101, 103, 105, 110, 32, 98, 117, 110, 100, 108, 101, 10]
/-- `# Begin patch` -/
def beginPatchPrefix : Bytes := [35, 32, 66, 101, 103, 105, 110, 32, 112, 97, 116, 99, 104]
/-- `# Begin bundle` -/
def beginBundlePrefix : Bytes := [35, 32, 66, 101, 103, 105, 110, 32, 98, 117, 110, 100, 108, 101]

/-- `MergeDirective2.to_lines` -/
def toLines {α : Type} (c : Codec α) (d : Directive α) : List Line :=
  [header2] ++ c.enc d.fields ++ [blank] ++
    (match d.patch with | none => [] | some p => beginPatch :: splitLines p) ++
    (match d.bundle with | none => [] | some b => beginBundle :: splitLines b)

inductive DErr where
  /-- no line starts with `# Bazaar merge directive format ` -/
  | notADirective
  /-- the format string is not registered (`KeyError`) -/
  | unknownFormat
  /-- the header names format 1 (`MergeDirective._from_lines`, not modelled further) -/
  | format1
  /-- `read_patch_stanza` raised -/
  | badStanza
  /-- `IllegalMergeDirectivePayload` -/
  | illegalPayload
  deriving DecidableEq, Repr

/-- Python `bytes.rstrip()`: ASCII whitespace is space, \t \n \v \f \r -/
def isSpace (b : UInt8) : Bool := b == 32 || (9 ≤ b && b ≤ 13)

def rstrip (b : Bytes) : Bytes := (b.reverse.dropWhile isSpace).reverse

inductive Format where | one | two
  deriving DecidableEq, Repr

/-- `Bazaar merge directive format 1` -/
def format1Key : Bytes := [66, 97, 122, 97, 97, 114, 32, 109, 101, 114, 103, 101, 32, 100, 105, 114, 101, 99, 116, 105, 118, 101, 32, 102, 111, 114, 109, 97, 116, 32, 49]
/-- `Bazaar merge directive format 2 (Bazaar 0.90)` -/
def format2Key : Bytes := [66, 97, 122, 97, 97, 114, 32, 109, 101, 114, 103, 101, 32, 100, 105, 114, 101, 99, 116, 105, 118, 101, 32, 102, 111, 114, 109, 97, 116, 32, 50, 32, 40, 66, 97, 122, 97, 97, 114, 32, 48, 46, 57, 48, 41]
/-- `Bazaar merge directive format 2 (Bazaar 0.19)` -/
def format2OldKey : Bytes := [66, 97, 122, 97, 97, 114, 32, 109, 101, 114, 103, 101, 32, 100, 105, 114, 101, 99, 116, 105, 118, 101, 32, 102, 111, 114, 109, 97, 116, 32, 50, 32, 40, 66, 97, 122, 97, 97, 114, 32, 48, 46, 49, 57, 41]

/-- `_format_registry.get(line[2:].rstrip())` -/
def lookupFormat (line : Line) : Option Format :=
  let key := rstrip (line.drop 2)
  if key = format1Key then some .one
  else if key = format2Key then some .two
  else if key = format2OldKey then some .two
  else none

/-- the payload part of `MergeDirective2._from_lines`, after the stanza -/
def sections : List Line → Except DErr (Option Bytes × Option Bytes)
  | [] => .ok (none, none)
  | start :: rest =>
    if isPrefix beginPatchPrefix start then
      let pl := rest.takeWhile fun l => !isPrefix beginBundlePrefix l
      match rest.dropWhile fun l => !isPrefix beginBundlePrefix l with
      | [] => .ok (some (joinLines pl), none)
      | _ :: bl => .ok (some (joinLines pl), some (joinLines bl))
    else if isPrefix beginBundlePrefix start then .ok (none, some (joinLines rest))
    else .error .illegalPayload

/-- `MergeDirective.from_lines` -/
def fromLines {α : Type} (c : Codec α) (lines : List Line) : Except DErr (Directive α) :=
  match lines.dropWhile fun l => !isPrefix headerPrefix l with
  | [] => .error .notADirective
  | h :: rest =>
    match lookupFormat h with
    | none => .error .unknownFormat
    | some .one => .error .format1
    | some .two =>
      match c.dec rest with
      | none => .error .badStanza
      | some (f, rest') =>
        match sections rest' with
        | .error e => .error e
        | .ok (p, b) => .ok ⟨f, p, b⟩

/-- the lines `read_patch_stanza` takes as the end of the stanza: an empty line
after the `# ` / `#` prefix is removed -/
def isBlank (l : Line) : Bool := l == blank || l == [35, 10]

/-- the opaque codec used by the driver: the field record *is* the block of
stanza lines; decoding takes the lines up to the first blank line -/
def blockCodec : Codec (List Line) where
  enc := id
  dec := fun ls =>
    match ls.dropWhile (fun l => !isBlank l) with
    | [] => none
    | _ :: rest => some (ls.takeWhile (fun l => !isBlank l), rest)

/-! ## 3. patch verification -/

/-- `re.sub(b"\r\n?", b"\n", s)` -/
def normEol : Bytes → Bytes
  | [] => []
  | 13 :: 10 :: rest => 10 :: normEol rest
  | 13 :: rest => 10 :: normEol rest
  | b :: rest => b :: normEol rest

/-- is the rest of the input ` *\n…`? -/
def spacesThenNL (b : Bytes) : Bool := (b.dropWhile (· == 32)).head? == some 10

/-- `re.sub(b" *\n", b"\n", s)` -/
def stripTrail : Bytes → Bytes
  | [] => []
  | b :: rest => if b = 32 ∧ spacesThenNL rest then stripTrail rest else b :: stripTrail rest

def norm (b : Bytes) : Bytes := stripTrail (normEol b)

/-- `_verify_patch`: `calculated` is the diff regenerated from the revisions the directive names -/
def verifyPatch (calculated stored : Bytes) : Bool := norm calculated == norm stored

/-- what the normalisation may touch -/
def isWs (b : UInt8) : Bool := b == 32 || b == 13 || b == 10

/-! ## 4. revision property lines of the patch-based (0.8 / 0.9) bundle footer

`RevisionInfo.from_revision` writes one line `": ".join((key, value))` per
revision property; `RevisionInfo.as_revision` splits each line at the FIRST
`": "` (a line without one must end in `:` and then has an empty value) and
hands the pairs to `Revision(...)`, which refuses a key containing whitespace
(only blank and newline are generated by the correspondence run; other
whitespace characters are not modelled). -/

abbrev PStr := List Char

/-- `property.find(": ")` + the two slices: split at the first `": "` -/
def splitSep : PStr → Option (PStr × PStr)
  | [] => none
  | [_] => none
  | c :: d :: r =>
    if c = ':' && d = ' ' then some ([], r)
    else
      match splitSep (d :: r) with
      | some (k, v) => some (c :: k, v)
      | none => none

/-- does the text contain `": "` -/
def hasSep : PStr → Bool
  | [] => false
  | [_] => false
  | c :: d :: r => (c = ':' && d = ' ') || hasSep (d :: r)

/-- the key check of `Revision.__init__` (blank / newline) -/
def keyOk (k : PStr) : Bool := !(k.contains ' ' || k.contains '\n')

/-- one line of `RevisionInfo.properties` → (key, value); `none` = ValueError -/
def parsePropLine (s : PStr) : Option (PStr × PStr) :=
  let kv : Option (PStr × PStr) :=
    match splitSep s with
    | some kv => some kv
    | none => if s.getLast? = some ':' then some (s.dropLast, []) else none
  match kv with
  | some (k, v) => if keyOk k then some (k, v) else none
  | none => none

/-- `": ".join((key, value))` -/
def propLine (k v : PStr) : PStr := k ++ ':' :: ' ' :: v

end BreezyVerif.C40
