import BreezyVerif.Common
import BreezyVerif.Model.C50
namespace BreezyVerif.C50

/-! Line protocol.  A string is its code points in lowercase hex joined by `.`
(`_` = empty string); a token list is comma separated (`-` = empty list); a
token is `T:<str>` (quoted) or `F:<str>`. -/

def hexNat (n : Nat) : String := String.ofList (Nat.toDigits 16 n)

def parseHexNat (s : String) : Option Nat :=
  if s.isEmpty || s.length > 6 then none else
  s.toList.foldlM (fun acc c => (hexVal c).map (acc * 16 + ·)) 0

def parseChar (s : String) : Option Char := do
  let n ← parseHexNat s
  if h : n.isValidChar then some (Char.ofNatAux n h) else none

def parseStr (s : String) : Option Str :=
  if s == "_" then some [] else (s.splitOn ".").mapM parseChar

def showStr (s : Str) : String :=
  if s.isEmpty then "_" else ".".intercalate (s.map fun c => hexNat c.toNat)

def showTok (t : Bool × Str) : String := showBool t.1 ++ ":" ++ showStr t.2

def showToks (l : List (Bool × Str)) : String := joinList (l.map showTok)

/-- a segment: `q<str>` (quoted by the documented rules) or `w<str>` (as it is) -/
def parseSeg (s : String) : Option Seg :=
  match s.toList with
  | 'q' :: r => (parseStr (String.ofList r)).map Seg.q
  | 'w' :: r => (parseStr (String.ofList r)).map Seg.w
  | _ => none

/-- an argument with the whitespace before it: `<sep>/<seg>+<seg>+…` -/
def parseItem (s : String) : Option (Str × List Seg) :=
  match s.splitOn "/" with
  | [sep, segs] => do
    let sep ← parseStr sep
    let segs ← (segs.splitOn "+").mapM parseSeg
    pure (sep, segs)
  | _ => none

/-- the hypotheses of `tokens_mixed_line`, as one Boolean -/
def mixedHyp (sq : Bool) (items : List (Str × List Seg)) (trail : Str) : Bool :=
  items.all (fun p => p.1.all isWs && !p.2.isEmpty && itemOk sq p.2)
    && items.tail.all (fun p => !p.1.isEmpty) && trail.all isWs

/-- `tok sq s` (structural model) | `mtok sq s` (literal machine; `nofuel` if it
does not halt) | `quote sq s` | `qjoin sq s1,s2,…` | `wsrange lo hi` (hex,
inclusive: the whitespace code points in the range) | `mixed sq trail item,item,…`
(reply `<hypotheses of tokens_mixed_line hold>|<layout ++ trail>|<tokens the theorem
promises>`) -/
def handle : List String → String
  | ["tok", sq, s] =>
    match parseBool sq, parseStr s with
    | some sq, some s => showToks (tokens sq s)
    | _, _ => "bad-op"
  | ["mtok", sq, s] =>
    match parseBool sq, parseStr s with
    | some sq, some s =>
      match mTokens sq s with
      | some l => showToks l
      | none => "nofuel"
    | _, _ => "bad-op"
  | ["quote", sq, s] =>
    match parseBool sq, parseStr s with
    | some sq, some s => showStr (quote sq s)
    | _, _ => "bad-op"
  | ["qjoin", sq, l] =>
    match parseBool sq, (splitList l).mapM parseStr with
    | some sq, some l => showStr (joinSp (l.map (quote sq)))
    | _, _ => "bad-op"
  | ["mixed", sq, trail, l] =>
    match parseBool sq, parseStr trail, (splitList l).mapM parseItem with
    | some sq, some trail, some items =>
      showBool (mixedHyp sq items trail) ++ "|" ++ showStr (layout sq items ++ trail) ++ "|"
        ++ showToks (items.map fun p => (itemQuoted p.2, itemVal p.2))
    | _, _, _ => "bad-op"
  | ["wsrange", lo, hi] =>
    match parseHexNat lo, parseHexNat hi with
    | some lo, some hi =>
      if hi < lo || hi - lo > 0x20000 then "bad-op" else
      joinList (((List.range (hi - lo + 1)).map (· + lo)).filterMap fun n =>
        if h : n.isValidChar then (if isWs (Char.ofNatAux n h) then some (hexNat n) else none)
        else none)
    | _, _ => "bad-op"
  | _ => "bad-op"

end BreezyVerif.C50

def main : IO Unit := BreezyVerif.runDriver BreezyVerif.C50.handle
