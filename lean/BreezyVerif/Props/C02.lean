import BreezyVerif.Lemmas.C02Check
import BreezyVerif.Lemmas.C02Lin
import BreezyVerif.Lemmas.C02Dom
import BreezyVerif.Lemmas.C02Book
import BreezyVerif.Lemmas.C02Indep
/-
C02 — per-file last-changed revisions and per-file parents.

All theorems are about `build h`, the repository obtained by recording the
commits of an arbitrary history `h` (newest first; any length, any number of
parents per commit, any trees) under the hypothesis `hist h`: every commit has a
revision id that is neither recorded nor named as a parent so far (nor by the
commit itself), and its tree has one entry per file id.  Parents need NOT be
recorded: an absent parent is a ghost, for which the code (and the model) use
the empty tree.  `hist` is decidable; `exHist` and `exGhost` below satisfy it.
-/
namespace BreezyVerif.C02

/-- **Stored per-file parents are exactly the heads.**  For every text key
`(f, r)` the stored parent list equals — as a list, i.e. including its order —
the heads, in the per-file graph of the *final* repository, of the versions of
`f` present in `r`'s parent revisions (basis first). -/
theorem perfile_parents_are_heads (h : List Commit) (hh : hist h) :
    ∀ r ∈ build h, ∀ t ∈ r.texts,
      t.2 = heads (textsOf (build h)) t.1 (candidates (build h) r.parents t.1) :=
  parents_heads_build h hh

/-- no recorded per-file parent is a per-file ancestor of another one -/
theorem perfile_parents_antichain (h : List Commit) (hh : hist h) :
    ∀ r ∈ build h, ∀ t ∈ r.texts, ∀ p ∈ t.2, ∀ q ∈ t.2, q ≠ p →
      p ∉ fanc (textsOf (build h)) t.1 q := by
  intro r hr t ht p hp q hq hne
  rw [perfile_parents_are_heads h hh r hr t ht] at hp hq
  exact heads_not_anc hp (heads_subset hq) hne

/-- every recorded per-file parent is the version of the file present in one of
the revision's parents; every such version that is not recorded is a per-file
ancestor of another one -/
theorem perfile_parents_from_parents (h : List Commit) (hh : hist h) :
    ∀ r ∈ build h, ∀ t ∈ r.texts,
      (∀ p ∈ t.2, ∃ q ∈ r.parents, ∃ e, entryIn (build h) t.1 q = some e ∧ e.rev = p) ∧
      (∀ q ∈ r.parents, ∀ e, entryIn (build h) t.1 q = some e → e.rev ∉ t.2 →
        ∃ q' ∈ r.parents, ∃ e', entryIn (build h) t.1 q' = some e' ∧ e'.rev ≠ e.rev ∧
          e.rev ∈ fanc (textsOf (build h)) t.1 e'.rev) := by
  intro r hr t ht
  have hp := perfile_parents_are_heads h hh r hr t ht
  refine ⟨fun p hp' => candidates_entry (heads_subset (hp ▸ hp')), ?_⟩
  intro q hq e he hn
  rw [hp, mem_heads_iff] at hn
  have hc : e.rev ∈ candidates (build h) r.parents t.1 := by
    simp only [candidates, mem_dedup, List.mem_map, candEntries, List.mem_filterMap]
    exact ⟨e, ⟨q, hq, he⟩, rfl⟩
  have : ∃ c ∈ candidates (build h) r.parents t.1, c ≠ e.rev ∧
      e.rev ∈ fanc (textsOf (build h)) t.1 c := by
    apply Classical.byContradiction
    intro hno
    exact hn ⟨hc, fun c hc' hne hx => hno ⟨c, hc', hne, hx⟩⟩
  obtain ⟨c, hc', hne, hx⟩ := this
  obtain ⟨q', hq', e', he', hr'⟩ := candidates_entry hc'
  exact ⟨q', hq', e', he', hr' ▸ hne, hr' ▸ hx⟩

/-- **Last-changed is sound.**  The revision an entry names is the revision
itself or one of its ancestors, the inventory of that revision holds the very
same entry (identical kind, parent, name, executable bit, content), and the
text key `(f, last-changed)` is stored. -/
theorem lastchanged_sound (h : List Commit) (hh : hist h) :
    ∀ r ∈ build h, ∀ f e, r.inv.lookup f = some e →
      (e.rev = r.id ∨ e.rev ∈ ranc (build h) r.id) ∧
      entryIn (build h) f e.rev = some e ∧
      ∃ ps, ((f, e.rev), ps) ∈ textsOf (build h) := by
  intro r hr f e hl
  have w := build_WF h hh
  exact ⟨w.anc r hr f e hl, w.sound r hr f e hl, w.key r hr f e hl⟩

/-- the inventory of a commit holds exactly the committed tree's attributes -/
theorem inventory_records_tree (h : List Commit) (c : Commit) (f : FileId) :
    (entryIn (build (c :: h)) f c.id).map (·.attr) = c.tree.lookup f := by
  have : entryIn (build (c :: h)) f c.id = (mkRec (build h) c).inv.lookup f :=
    entryIn_cons_self (mkRec (build h) c) (build h) f
  rw [this, mkRec_inv_attr]

/-- **Last-changed is fresh exactly when something changed.**  The entry of `f`
recorded by commit `c` names `c` itself iff it is *not* the case that the
versions of `f` in `c`'s parents have a single per-file head whose attributes
equal the committed ones (no parent version, ≥ 2 heads, or a real change). -/
theorem lastchanged_fresh (h : List Commit) (c : Commit) (hh : hist (c :: h)) (f : FileId)
    (e : Entry) (he : entryIn (build (c :: h)) f c.id = some e) :
    e.rev = c.id ↔
      ¬ ∃ x, heads (textsOf (build h)) f (candidates (build h) c.parents f) = [x] ∧
        (entryIn (build h) f x).map (·.attr) = some e.attr := by
  have w := build_WF h hh.1
  have hid : c.id ∉ ids (build h) := fun hx => hh.2.1 (id_mem_mentioned hx)
  have hl : (mkRec (build h) c).inv.lookup f = some e := by
    rw [← entryIn_cons_self (mkRec (build h) c) (build h) f]; exact he
  obtain ⟨a, _, hea⟩ := mkRec_entry hl
  have hattr : e.attr = a := by rw [hea]; exact recordOne_attr _ _ _ _
  have snd : ∀ x pe, entryWithRev (build h) c.parents f x = some pe →
      entryIn (build h) f x = some pe := by
    intro x pe hw
    obtain ⟨hx, p, _, hep⟩ := entryWithRev_some hw
    obtain ⟨r, hr, _, hlr⟩ := entryIn_mem hep
    exact hx ▸ w.sound r hr f pe hlr
  rcases recordOne_cases (build h) c f a with ⟨x, pe, hx, hw, ht, hrec⟩ | ⟨hrec, hno⟩
  · have hepe : e = pe := by rw [hea, hrec]
    constructor
    · intro h1; exact absurd (hepe ▸ h1) (carried_rev_ne w hid hw)
    · intro h1
      exact absurd ⟨x, hx, by rw [snd x pe hw, hepe]; rfl⟩ h1
  · constructor
    · rintro _ ⟨x, hx, hxa⟩
      have hxc : x ∈ candidates (build h) c.parents f := by
        apply heads_subset (g := textsOf (build h)); rw [hx]; exact List.mem_singleton.mpr rfl
      obtain ⟨pe, hw⟩ := entryWithRev_isSome hxc
      rw [snd x pe hw] at hxa
      simp only [Option.map_some, Option.some.injEq] at hxa
      exact hno ⟨x, pe, hx, hw, (carryTest_iff _ _).mpr (hxa.trans hattr)⟩
    · intro _; rw [hea, hrec]

/-- a text key `(f, c)` is stored iff the entry of `f` in `c` names `c` -/
theorem text_key_iff_fresh (h : List Commit) (c : Commit) (hh : hist (c :: h)) (f : FileId)
    (e : Entry) (he : entryIn (build (c :: h)) f c.id = some e) :
    (∃ ps, ((f, c.id), ps) ∈ textsOf (build (c :: h))) ↔ e.rev = c.id := by
  have w := build_WF h hh.1
  have hid : c.id ∉ ids (build h) := fun hx => hh.2.1 (id_mem_mentioned hx)
  have hl : (mkRec (build h) c).inv.lookup f = some e := by
    rw [← entryIn_cons_self (mkRec (build h) c) (build h) f]; exact he
  constructor
  · rintro ⟨ps, hps⟩
    have hps' : ((f, c.id), ps) ∈ textsOf (mkRec (build h) c :: build h) := hps
    rw [textsOf_cons] at hps'
    rcases List.mem_append.mp hps' with h1 | h1
    · simp only [List.mem_map] at h1
      obtain ⟨t, ht, hte⟩ := h1
      have htf : t.1 = f := by
        have := congrArg (fun k => k.1.1) hte
        simpa using this
      obtain ⟨_, a, hm, hrev⟩ := mkRec_texts_mem w hid ht
      obtain ⟨a', ha', hea⟩ := mkRec_entry hl
      rw [htf] at hm hrev
      have : c.tree.lookup f = some a := lookup_of_mem_nodup hh.2.2.2 hm
      rw [this] at ha'
      simp only [Option.some.injEq] at ha'
      rw [hea, ← ha']; exact hrev
    · exact absurd (textsOf_key_mem h1) hid
  · intro hr
    have w' := build_WF (c :: h) hh
    have hm : mkRec (build h) c ∈ build (c :: h) := List.mem_cons_self
    obtain ⟨ps, hps⟩ := w'.key _ hm f e hl
    exact ⟨ps, hr ▸ hps⟩

/-- **Linear histories.**  When every commit has exactly its predecessor as
parent, the last-changed revision of `f` in the newest commit is the latest
revision in which `f`'s attributes differ from the previous revision's (or in
which `f` first appears). -/
theorem linear_characterisation (c : Commit) (rest : List Commit)
    (hl : linear (c :: rest) = true) (f : FileId) :
    (entryIn (build (c :: rest)) f c.id).map (·.rev) = linLast (c :: rest) f := by
  have : entryIn (build (c :: rest)) f c.id = (mkRec (build rest) c).inv.lookup f :=
    entryIn_cons_self (mkRec (build rest) c) (build rest) f
  rw [this]
  exact linear_build rest c hl f

/-- **The consistency check passes.**  The text-parent verifier
(`_do_generate_text_key_index` + `_check_file_version_parents`) run on the
repository of any history reports no wrong parents, no unreferenced text
versions and no invalid text references; in fact the index it computes is the
stored per-file graph. -/
theorem check_passes (h : List Commit) (hh : hist h) :
    expIndex (build h) = textsOf (build h) ∧ wrongParents (build h) = [] ∧
      unreferenced (build h) = [] ∧ invalidRefs (build h) = [] := by
  have hx := expIndex_build h hh
  have w := build_WF h hh
  refine ⟨hx, ?_, ?_, ?_⟩
  · simp only [wrongParents, hx, List.map_eq_nil_iff, List.filter_eq_nil_iff]
    intro k hk
    have : (textsOf (build h)).lookup k.1 = some k.2 :=
      lookup_of_mem_nodup' (textKeys_nodup h hh) hk
    simp [this]
  · simp only [unreferenced, hx, List.filter_eq_nil_iff]
    intro k hk
    simp [hk]
  · simp only [invalidRefs, List.filter_eq_nil_iff, List.mem_flatMap, List.mem_map]
    rintro k ⟨r, hr, t, ht, rfl⟩
    have hl : r.inv.lookup t.1 = some t.2 :=
      lookup_of_mem_nodup (inv_keys_nodup h hh r hr) ht
    simp [w.sound r hr t.1 t.2 hl]


/-! ### revision ancestry anchors the per-file graph -/

/-- revision ancestry of the repository of any history is a strict partial
order (ghost parents included as leaves) -/
theorem revision_ancestry_strict (h : List Commit) (hh : hist h) :
    (∀ x y z, x ∈ ranc (build h) z → y ∈ ranc (build h) x → y ∈ ranc (build h) z) ∧
      ∀ x, x ∉ ranc (build h) x :=
  ⟨fun _ _ _ hx hy => ranc_trans (build_Fresh h hh) hx hy, ranc_irrefl (build_Fresh h hh)⟩

/-- **Per-file ancestry is contained in revision ancestry**: whatever the
per-file graph calls an ancestor of the text `(f, x)` is a revision-graph
ancestor of `x`.  So the `heads` of the other theorems are anchored to the
revision DAG, not only to the graph the commit builder wrote itself. -/
theorem fanc_sub_ranc (h : List Commit) (hh : hist h) (f : FileId) (x y : Rev) :
    y ∈ fanc (textsOf (build h)) f x → y ∈ ranc (build h) x :=
  fanc_sub_ranc_build h hh f x y

/-- every stored per-file parent of a text `(f, r)` is a strict revision-graph
ancestor of `r` -/
theorem perfile_parents_are_ancestors (h : List Commit) (hh : hist h) :
    ∀ r ∈ build h, ∀ t ∈ r.texts, ∀ p ∈ t.2, p ∈ ranc (build h) r.id := by
  intro r hr t ht p hp
  have hk : ((t.1, r.id), t.2) ∈ textsOf (build h) := by
    simp only [textsOf, List.mem_flatMap, List.mem_map]
    exact ⟨r, hr, t, ht, rfl⟩
  exact text_edge_ranc h hh (t.1, r.id) t.2 hk p hp

/-- per-file ancestry is a strict partial order -/
theorem perfile_ancestry_strict (h : List Commit) (hh : hist h) (f : FileId) :
    (∀ x y z, x ∈ fanc (textsOf (build h)) f z → y ∈ fanc (textsOf (build h)) f x →
      y ∈ fanc (textsOf (build h)) f z) ∧
      ∀ x, x ∉ fanc (textsOf (build h)) f x :=
  ⟨fun x y z => fanc_trans_build h hh f x y z, fanc_irrefl_build h hh f⟩

/-- **Single parent inside any DAG.**  For a commit with exactly one parent `p`
(present or ghost; whatever the rest of the history looks like) the entry of
`f` names the new revision iff the attributes of `f` differ from those in `p`
(or `p` does not hold `f`). -/
theorem lastchanged_single_parent (h : List Commit) (c : Commit) (hh : hist (c :: h)) (p : Rev)
    (hp : c.parents = [p]) (f : FileId) (e : Entry)
    (he : entryIn (build (c :: h)) f c.id = some e) :
    e.rev = c.id ↔ (entryIn (build h) f p).map (·.attr) ≠ some e.attr := by
  have w := build_WF h hh.1
  have hid : c.id ∉ ids (build h) := fun hx => hh.2.1 (id_mem_mentioned hx)
  have hl : (mkRec (build h) c).inv.lookup f = some e := by
    rw [← entryIn_cons_self (mkRec (build h) c) (build h) f]; exact he
  obtain ⟨a, _, hea⟩ := mkRec_entry hl
  have hattr : e.attr = a := by rw [hea]; exact recordOne_attr _ _ _ _
  cases hep : entryIn (build h) f p with
  | none =>
    rw [hea, recordOne_single_none a hp hep]
    simp
  | some ep =>
    have hr := recordOne_single_some (c := c) a hp hep
    rw [← hea] at hr
    obtain ⟨r, hr1, _, hlr⟩ := entryIn_mem hep
    have hne : ep.rev ≠ c.id := fun e1 => hid (e1 ▸ w.revs r hr1 f ep hlr)
    simp only [Option.map_some, ne_eq, Option.some.injEq, hattr]
    by_cases hq : ep.attr = a
    · rw [if_pos hq] at hr
      constructor
      · intro h1; exact absurd (hr ▸ h1) hne
      · intro h1; exact absurd hq h1
    · rw [if_neg hq] at hr
      exact ⟨fun _ => hq, fun _ => hr⟩

/-- **A carried-over last-changed revision dominates every parent's version**
(the DAG reading of "most recent revision in which the file changed").  When
the entry of `f` recorded by commit `c` names an older revision `x`, then (1)
some parent of `c` holds that very entry, and (2) the version of `f` in *every*
parent of `c` is either `x` or a strict per-file **and** revision-graph
ancestor of `x`: no parent knows a change of `f` that `x` does not include.
(`lastchanged_fresh` gives the converse: if that is the case and the attributes
are those of `x`, the entry is carried over.) -/
theorem lastchanged_carried_dominates (h : List Commit) (c : Commit) (hh : hist (c :: h))
    (f : FileId) (e : Entry) (he : entryIn (build (c :: h)) f c.id = some e)
    (hne : e.rev ≠ c.id) :
    (∃ q ∈ c.parents, entryIn (build h) f q = some e) ∧
      ∀ q ∈ c.parents, ∀ e', entryIn (build h) f q = some e' →
        e'.rev = e.rev ∨
          (e'.rev ∈ fanc (textsOf (build h)) f e.rev ∧ e'.rev ∈ ranc (build h) e.rev) := by
  have hl : (mkRec (build h) c).inv.lookup f = some e := by
    rw [← entryIn_cons_self (mkRec (build h) c) (build h) f]; exact he
  obtain ⟨a, _, hea⟩ := mkRec_entry hl
  rcases recordOne_cases (build h) c f a with ⟨x, pe, hx, hw, _, hrec⟩ | ⟨hrec, _⟩
  · have hepe : e = pe := by rw [hea, hrec]
    obtain ⟨hpx, q, hq, hqe⟩ := entryWithRev_some hw
    refine ⟨⟨q, hq, hepe ▸ hqe⟩, ?_⟩
    intro q' hq' e' he'
    by_cases heq : e'.rev = e.rev
    · exact Or.inl heq
    · right
      have hc : e'.rev ∈ candidates (build h) c.parents f := by
        simp only [candidates, mem_dedup, List.mem_map, candEntries, List.mem_filterMap]
        exact ⟨e', ⟨q', hq', he'⟩, rfl⟩
      have hxe : x = e.rev := by rw [hepe, hpx]
      have hd := single_head_dominates (fun a b c hab hbc => fanc_trans_build h hh.1 f b a c hbc hab)
        (fanc_irrefl_build h hh.1 f) hx e'.rev hc (by rw [hxe]; exact heq)
      rw [hxe] at hd
      exact ⟨hd, fanc_sub_ranc_build h hh.1 f _ _ hd⟩
  · exact absurd (by rw [hea, hrec]) hne

/-! ### the literal bookkeeping of `record_iter_changes` -/

/-- **`merged_ids` / `parent_entries` / `changes` / `unchanged_merged` compute
`recordOne`.**  For a file id `f` that the committed tree holds with attributes
`a`, the literal transcription of the code's bookkeeping (`codeRecordOne`: only
ids that `iter_changes` reports or whose entry in a later parent is not
identical to the basis entry are processed, candidates `merged_ids.get(f,
[basis revision])`, carry-over source `parent_entries[f].get(heads[0])`, the
synthetic change of `unchanged_merged`, otherwise the basis entry is kept)
produces exactly the entry and text parents of `recordOne` — provided
`iter_changes` reports `f` iff its attributes differ from the basis entry's
(`differs`; the harness checks this hypothesis on every real commit). -/
theorem bookkeeping_refines (h : List Commit) (hh : hist h) (c : Commit) (f : FileId) (a : Attr) :
    codeRecordOne (build h) c f a (differs (build h) c f a)
      = .entry (recordOne (build h) c f a).1 (recordOne (build h) c f a).2 :=
  codeRecordOne_eq (build_WF h hh) c f a

/-- whole histories: recording every commit through the literal bookkeeping,
with reported-id sets that satisfy "reported iff differs" (`repsOk`), builds
the same repository as `build` -/
theorem bookkeeping_refines_history (hs : List (Commit × List FileId))
    (hh : hist (hs.map (·.1))) (hr : repsOk hs = true) :
    buildB hs = some (build (hs.map (·.1))) :=
  buildB_eq hs hh hr

/-- **File ids are recorded independently.**  Restricting every committed tree
of a history to a set `k` of file ids restricts every recorded inventory and the
stored per-file graph to `k` and changes nothing else: last-changed revisions
and per-file parents of the kept ids are the same.  (No hypothesis.  Used for
the non-rich-root formats, where the root directory is not a text key: the
history without the root is recorded like the history with it.) -/
theorem perfile_independence (k : FileId → Bool) (h : List Commit) :
    build (h.map (keepCommit k)) = (build h).map (keepRec k) :=
  build_keep k h

/-! ### non-vacuity -/

private def root : FileId × Attr := (1, ⟨0, 0, .dir⟩)

/-- r1 adds a file; r2 and r3 change it in parallel; r4 merges them keeping r2's
content (two per-file heads → new version); r5 merges r3 again (single head r4,
unchanged → carried over); newest first -/
def exHist : List Commit :=
  [ ⟨5, [4, 3], [root, (2, ⟨1, 1, .file false 6⟩)]⟩,
    ⟨4, [2, 3], [root, (2, ⟨1, 1, .file false 6⟩)]⟩,
    ⟨3, [1], [root, (2, ⟨1, 1, .file true 5⟩)]⟩,
    ⟨2, [1], [root, (2, ⟨1, 1, .file false 6⟩)]⟩,
    ⟨1, [], [root, (2, ⟨1, 1, .file false 5⟩)]⟩ ]

example : hist exHist := by decide
example : textsOf (build exHist)
    = [((2, 4), [2, 3]), ((2, 3), [1]), ((2, 2), [1]), ((1, 1), []), ((2, 1), [])] := by decide
example : (entryIn (build exHist) 2 5).map (·.rev) = some 4 := by decide
example : linear (exHist.drop 3) = true ∧ linLast (exHist.drop 3) 2 = some 2 := by decide
-- single parent inside the DAG: r3 has the single parent r1 and changes the file
example : (exHist.drop 2).head?.map (·.parents) = some [1] ∧
    (entryIn (build (exHist.drop 2)) 2 3).map (·.rev) = some 3 := by decide
-- carried over in a merge: r5 names r4 for the file; the other parent's version r3 is a
-- per-file and a revision ancestor of r4
example : (entryIn (build exHist) 2 5).map (·.rev) = some 4 ∧
    (entryIn (build (exHist.drop 1)) 2 3).map (·.rev) = some 3 ∧
    3 ∈ fanc (textsOf (build (exHist.drop 1))) 2 4 ∧ 3 ∈ ranc (build (exHist.drop 1)) 4 := by decide
-- the bookkeeping hypothesis is satisfiable with non-trivial report sets: in r5 nothing
-- differs from the basis r4 (the file is in `merged_ids`: unchanged_merged), in r4 nothing
-- differs from the basis r2 either, r3 and r2 report the file, r1 reports everything
def exReps : List (Commit × List FileId) :=
  exHist.zip [[], [], [2], [2], [1, 2]]
example : hist (exReps.map (·.1)) ∧ repsOk exReps = true := by decide
example : (buildB exReps).map textsOf = some (textsOf (build exHist)) := by decide

-- leaving the root (file id 1) out: the file's history is unchanged
example : textsOf (build (exHist.map (keepCommit (· != 1))))
    = [((2, 4), [2, 3]), ((2, 3), [1]), ((2, 2), [1]), ((2, 1), [])] := by decide

/-- ghost parents: r2's basis `8` is a ghost (everything is new against the empty
tree), r3 merges r1 and r2 with a third, ghost, parent `9`; r4 is a child of r3 -/
def exGhost : List Commit :=
  [ ⟨4, [3], [root, (2, ⟨1, 1, .file false 7⟩)]⟩,
    ⟨3, [1, 2, 9], [root, (2, ⟨1, 1, .file false 7⟩)]⟩,
    ⟨2, [8], [root, (2, ⟨1, 1, .file false 6⟩)]⟩,
    ⟨1, [], [root, (2, ⟨1, 1, .file false 5⟩)]⟩ ]

example : hist exGhost := by decide
example : textsOf (build exGhost)
    = [((1, 3), [1, 2]), ((2, 3), [1, 2]), ((1, 2), []), ((2, 2), []), ((1, 1), []), ((2, 1), [])] := by
  decide
example : (entryIn (build exGhost) 2 4).map (·.rev) = some 3 ∧ 9 ∈ ranc (build exGhost) 4 := by decide
-- taking a named ghost id later is what `hist` excludes
example : ¬ hist (⟨9, [4], [root]⟩ :: exGhost) := by decide

end BreezyVerif.C02
