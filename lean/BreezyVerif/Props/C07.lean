import BreezyVerif.Model.C07
import BreezyVerif.Lemmas.C07
/-!
C07 — autopack planning is well-formed for EVERY pack size distribution.

All theorems are universally quantified over every list of packs (any length,
any counts, duplicates, any order, any pack identities) and every total
revision count `total ≥` the sum of the per-pack counts (the real caller
passes exactly the sum: `CombinedGraphIndex.key_count()` adds the per-pack key
counts).  `plan_error_witness` shows the hypothesis is needed: with
`total <` sum the real planner raises `IndexError`.

The loop invariant (`loop_spec`) and the complete description of the planner
(`plan_spec`) are in `Lemmas/C07.lean`.
-/
namespace BreezyVerif.C07

/-! ### property theorems -/

/-- `pack_distribution(t)` distributes exactly `t` revisions … -/
theorem distribution_sum (t : Nat) : (packDistribution t).sum = t := packDistribution_sum t

/-- … over exactly `_max_pack_count(t)` buckets (the digit sum, `1` for `0`). -/
theorem distribution_length (t : Nat) : (packDistribution t).length = maxPackCount t :=
  packDistribution_length t

/-- Planning never fails with an internal error (`IndexError`,
`AssertionError`): all pack lists with positive counts, all totals ≥ their sum. -/
theorem plan_ok (packs : List Pack) (total : Nat)
    (hpos : ∀ p ∈ packs, 0 < p.1) (htot : cnt packs ≤ total) :
    ∃ ops, plan packs (packDistribution total) = .ok ops := by
  rcases plan_spec packs (packDistribution total) hpos (by rw [packDistribution_sum]; exact htot) with
    ⟨_, h⟩ | ⟨_, ps, kept, h, _⟩
  · exact ⟨_, h⟩
  · exact ⟨_, h⟩

/-- The plan is empty or a single combination `(n, ps)` of at least two of the
given packs (`ps` is a sub-multiset of the input: `ps ++ kept` is a permutation
of it, and `ps` appears in descending `(count, pack)` order), and `n` is the
sum of the combined packs' revision counts. -/
theorem plan_shape (packs : List Pack) (total : Nat) (ops : List Op)
    (hpos : ∀ p ∈ packs, 0 < p.1) (htot : cnt packs ≤ total)
    (h : plan packs (packDistribution total) = .ok ops) :
    ops = [] ∨ ∃ ps kept, ops = [(cnt ps, ps)] ∧ 2 ≤ ps.length ∧
      (ps ++ kept).Perm packs ∧ ps.Sublist (sortDesc packs) := by
  rcases plan_spec packs (packDistribution total) hpos (by rw [packDistribution_sum]; exact htot) with
    ⟨_, h'⟩ | ⟨_, ps, kept, h', h2, h3, h4, _⟩
  · left; rw [h'] at h; injection h with h; exact h.symm
  · right; rw [h'] at h; injection h with h
    exact ⟨ps, kept, h.symm, h2, h3, h4⟩

/-- After carrying out a non-empty plan the number of packs is at most
`_max_pack_count(total)` — the digit sum of the total revision count. -/
theorem plan_bound (packs : List Pack) (total : Nat) (ops : List Op)
    (hpos : ∀ p ∈ packs, 0 < p.1) (htot : cnt packs ≤ total)
    (h : plan packs (packDistribution total) = .ok ops) (hne : ops ≠ []) :
    packsAfter packs.length ops ≤ maxPackCount total := by
  rcases plan_spec packs (packDistribution total) hpos (by rw [packDistribution_sum]; exact htot) with
    ⟨_, h'⟩ | ⟨_, ps, kept, h', h2, h3, _, h5⟩
  · rw [h'] at h; injection h with h; exact absurd h.symm hne
  · rw [h'] at h; injection h with h
    subst h
    have hl : ps.length + kept.length = packs.length := by simpa using h3.length_eq
    rw [packDistribution_length] at h5
    have hne' : ps ≠ [] := by intro h; subst h; simp at h2
    have hnz : (ps.length != 0) = true := by simp [hne']
    simp only [packsAfter, List.map_cons, List.map_nil, List.sum_cons, List.sum_nil,
      List.filter_cons, hnz, if_true, List.filter_nil, List.length_cons, List.length_nil]
    omega

/-- Planning plans nothing when the pack count is already within the bound … -/
theorem plan_idle (packs : List Pack) (total : Nat)
    (hlen : packs.length ≤ maxPackCount total) :
    plan packs (packDistribution total) = .ok [] := by
  simp [plan, packDistribution_length, hlen]

/-- … and only then: whenever there are more packs than the bound allows, a
combination is planned. -/
theorem plan_nonidle (packs : List Pack) (total : Nat)
    (hpos : ∀ p ∈ packs, 0 < p.1) (htot : cnt packs ≤ total)
    (hlen : maxPackCount total < packs.length) :
    plan packs (packDistribution total) ≠ .ok [] := by
  rcases plan_spec packs (packDistribution total) hpos (by rw [packDistribution_sum]; exact htot) with
    ⟨h1, _⟩ | ⟨_, ps, kept, h', _⟩
  · rw [packDistribution_length] at h1; omega
  · rw [h']; intro h; injection h with h; cases h

/-- The trigger in `_do_autopack`: nothing is done exactly when the number of
packs (zero-revision packs included) is within `_max_pack_count`. -/
theorem autopack_none_iff (packs : List Pack) (total : Nat) :
    doAutopack total packs = .ok none ↔ packs.length ≤ maxPackCount total := by
  unfold doAutopack
  split
  · next h => simp [h]
  · next h =>
    constructor
    · intro h'; split at h' <;> cases h'
    · intro h'; exact absurd h' h

/-- `_do_autopack`'s planning never fails, zero-revision packs included
(they are skipped), as long as `total` is at least the sum of the counts. -/
theorem autopack_ok (packs : List Pack) (total : Nat) (htot : cnt packs ≤ total) :
    ∃ r, doAutopack total packs = .ok r := by
  unfold doAutopack
  split
  · exact ⟨_, rfl⟩
  · have hpos : ∀ p ∈ packs.filter (fun p => p.1 != 0), 0 < p.1 := by
      intro p hp
      have := (List.mem_filter.mp hp).2
      simp at this; omega
    obtain ⟨ops, h⟩ := plan_ok (packs.filter (fun p => p.1 != 0)) total hpos
      (Nat.le_trans (cnt_filter_le packs _) htot)
    exact ⟨some ops, by rw [h]⟩

/-- For a collection of packs with positive revision counts `_do_autopack`
either does nothing (count within the bound) or plans one combination of at
least two packs after which the count is within the bound. -/
theorem autopack_spec (packs : List Pack) (total : Nat)
    (hpos : ∀ p ∈ packs, 0 < p.1) (htot : cnt packs ≤ total) :
    (packs.length ≤ maxPackCount total ∧ doAutopack total packs = .ok none) ∨
    (∃ ps kept, doAutopack total packs = .ok (some [(cnt ps, ps)]) ∧ 2 ≤ ps.length ∧
      (ps ++ kept).Perm packs ∧ packsAfter packs.length [(cnt ps, ps)] ≤ maxPackCount total) := by
  by_cases hlen : packs.length ≤ maxPackCount total
  · left; exact ⟨hlen, (autopack_none_iff packs total).mpr hlen⟩
  · right
    rcases plan_spec packs (packDistribution total) hpos (by rw [packDistribution_sum]; exact htot) with
      ⟨h1, _⟩ | ⟨_, ps, kept, h', h2, h3, _, _⟩
    · rw [packDistribution_length] at h1; exact absurd h1 hlen
    · refine ⟨ps, kept, ?_, h2, h3, ?_⟩
      · simp [doAutopack, hlen, filter_pos_id packs hpos, h']
      · exact plan_bound packs total _ hpos htot h' (by simp)

/-- Why `cnt packs ≤ total` is needed: with a total smaller than the sum of
the per-pack counts the planner runs out of buckets — `IndexError` in the real
code (reproduced by the harness on the real method). -/
theorem plan_error_witness :
    plan [(10, 1), (10, 2), (1, 3)] (packDistribution 20) = .error .index := by decide

/-! ### non-vacuity: concrete non-trivial inputs satisfying the hypotheses -/

/-- hypotheses of `plan_ok`/`plan_shape`/`plan_bound`/`plan_nonidle` hold for a
collection with duplicate sizes that does need packing … -/
example : (∀ p ∈ [((5 : Nat), (1 : Nat)), (5, 2), (10, 3)], 0 < p.1) ∧
    cnt [(5, 1), (5, 2), (10, 3)] ≤ 20 ∧
    maxPackCount 20 < [((5 : Nat), (1 : Nat)), (5, 2), (10, 3)].length := by decide

/-- … for which the planner combines the two small packs: -/
example : plan [(5, 1), (5, 2), (10, 3)] (packDistribution 20) = .ok [(10, [(5, 2), (5, 1)])] := by
  decide

example : packsAfter 3 [(10, [(5, 2), (5, 1)])] = 2 ∧ maxPackCount 20 = 2 := by decide

/-- a larger run with a partially used bucket (`12` eats one bucket of ten and
two units of the next) -/
example : plan [(4, 1), (12, 2), (4, 3)] (packDistribution 20) = .ok [(8, [(4, 3), (4, 1)])] := by
  decide

/-- `plan_idle`: a collection within the bound -/
example : [((10 : Nat), (1 : Nat)), (10, 2)].length ≤ maxPackCount 20 := by decide

/-- `autopack_ok` with a zero-revision pack -/
example : doAutopack 2 [(1, 1), (1, 2), (0, 3)] = .ok (some []) := by decide

example : packDistribution 2015 = [1000, 1000, 10, 1, 1, 1, 1, 1] := by decide

end BreezyVerif.C07
