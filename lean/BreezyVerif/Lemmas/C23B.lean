import BreezyVerif.Lemmas.C23
/-! C23 — invariants of single steps: the tree of a heavyweight checkout is
based on its branch tip; a checkout that is in step with its master stays in
step; what a refused operation can have changed. -/
namespace BreezyVerif.C23

theorem anc_self (g : Graph) (r : Rev) : r ∈ anc g r := by
  induction g with
  | nil => simp [anc]
  | cons e g ih =>
    obtain ⟨n, ps⟩ := e
    unfold anc
    split
    · simp
    · exact ih

theorem isAncestor_refl (g : Graph) (r : Rev) : isAncestor g r r = true := by
  simp [isAncestor, anc_self]

/-! ### tree basis = branch tip -/

/-- the working tree of each heavyweight checkout is based on the tip of its branch -/
def TreeInv (s : St) : Prop := s.tH.basis = s.loc ∧ s.tH2.basis = s.loc2

theorem treeInv_swap (s : St) : TreeInv (swapH s) ↔ TreeInv s := by
  simp [TreeInv, swapH, and_comm]

/-- an operation that is not made in the second checkout leaves that checkout alone -/
def Frame2 (s s' : St) : Prop := s'.loc2 = s.loc2 ∧ s'.tH2 = s.tH2 ∧ s'.bound2 = s.bound2

theorem commitH_tree (s : St) (r : Rev) (l : Bool) (h : s.tH.basis = s.loc) :
    (commitH s r l).1.tH.basis = (commitH s r l).1.loc ∧ Frame2 s (commitH s r l).1 := by
  unfold commitH Frame2
  grind

theorem commitMaster_tree (s : St) (w : Who) (r : Rev) (l : Bool) (h : s.tH.basis = s.loc) :
    (commitMaster s w r l).1.tH.basis = (commitMaster s w r l).1.loc ∧ Frame2 s (commitMaster s w r l).1 := by
  unfold commitMaster Frame2
  grind

theorem updateH_tree (s : St) (h : s.tH.basis = s.loc) :
    (updateH s).1.tH.basis = (updateH s).1.loc ∧ Frame2 s (updateH s).1 := by
  unfold updateH Frame2 updateTree
  grind

theorem pullH_tree (s : St) (h : s.tH.basis = s.loc) :
    (pullH s).1.tH.basis = (pullH s).1.loc ∧ Frame2 s (pullH s).1 := by
  unfold pullH Frame2
  grind

theorem pullOtherH_tree (s : St) (stop : Option Rev) (ow l : Bool) (h : s.tH.basis = s.loc) :
    (pullOtherH s stop ow l).1.tH.basis = (pullOtherH s stop ow l).1.loc ∧ Frame2 s (pullOtherH s stop ow l).1 := by
  unfold pullOtherH Frame2 pulledTree
  grind

theorem pullOtherMaster_tree (s : St) (w : Who) (stop : Option Rev) (ow l : Bool) (h : s.tH.basis = s.loc) :
    (pullOtherMaster s w stop ow l).1.tH.basis = (pullOtherMaster s w stop ow l).1.loc ∧
      Frame2 s (pullOtherMaster s w stop ow l).1 := by
  unfold pullOtherMaster Frame2
  grind

theorem pushTo_tree (s : St) (src : Rev) (h : s.tH.basis = s.loc) :
    (pushTo s src).1.tH.basis = (pushTo s src).1.loc ∧ Frame2 s (pushTo s src).1 := by
  unfold pushTo Frame2
  grind

theorem updateMasterTree_tree (s : St) (w : Who) (h : s.tH.basis = s.loc) :
    (updateMasterTree s w).1.tH.basis = (updateMasterTree s w).1.loc ∧ Frame2 s (updateMasterTree s w).1 := by
  unfold updateMasterTree Frame2
  grind

/-- an operation made anywhere but in the second checkout keeps the first
checkout's tree on its branch tip and leaves the second checkout alone -/
theorem step_tree_basic (s : St) (op : Op) (hop : ∀ o, op ≠ .onH2 o) (h : s.tH.basis = s.loc) :
    (step s op).1.tH.basis = (step s op).1.loc ∧ Frame2 s (step s op).1 := by
  cases op with
  | commit w r l =>
    cases w with
    | H => exact commitH_tree s r l h
    | M => exact commitMaster_tree s .M r l h
    | L => exact commitMaster_tree s .L r l h
  | update w =>
    cases w with
    | H => exact updateH_tree s h
    | M => exact updateMasterTree_tree s .M h
    | L => exact updateMasterTree_tree s .L h
  | pull => exact pullH_tree s h
  | bind => exact ⟨h, rfl, rfl, rfl⟩
  | unbind => exact ⟨h, rfl, rfl, rfl⟩
  | commitO r => exact ⟨h, rfl, rfl, rfl⟩
  | syncO => exact ⟨h, rfl, rfl, rfl⟩
  | pullOther w st ow l =>
    cases w with
    | H => exact pullOtherH_tree s st ow l h
    | M => exact pullOtherMaster_tree s .M st ow l h
    | L => exact pullOtherMaster_tree s .L st ow l h
  | push w =>
    cases w with
    | H => exact pushTo_tree s s.loc h
    | M => exact pushTo_tree s s.master h
    | L => exact pushTo_tree s s.master h
  | bindM => exact ⟨h, rfl, rfl, rfl⟩
  | unbindM => exact ⟨h, rfl, rfl, rfl⟩
  | onH2 o => exact absurd rfl (hop o)

theorem treeInv_basic (s : St) (op : Op) (hop : ∀ o, op ≠ .onH2 o) (h : TreeInv s) : TreeInv (step s op).1 := by
  obtain ⟨a, b, c, _⟩ := step_tree_basic s op hop h.1
  exact ⟨a, by rw [c, b]; exact h.2⟩

theorem step_treeInv (s : St) (op : Op) (h : TreeInv s) : TreeInv (step s op).1 := by
  induction op generalizing s with
  | onH2 op ih =>
    show TreeInv (swapH (step (swapH s) op).1)
    rw [treeInv_swap]
    exact ih (swapH s) ((treeInv_swap s).mpr h)
  | commit w r l => exact treeInv_basic s _ (by intro o ho; cases ho) h
  | update w => exact treeInv_basic s _ (by intro o ho; cases ho) h
  | pull => exact treeInv_basic s _ (by intro o ho; cases ho) h
  | bind => exact treeInv_basic s _ (by intro o ho; cases ho) h
  | unbind => exact treeInv_basic s _ (by intro o ho; cases ho) h
  | commitO r => exact treeInv_basic s _ (by intro o ho; cases ho) h
  | syncO => exact treeInv_basic s _ (by intro o ho; cases ho) h
  | pullOther w st ow l => exact treeInv_basic s _ (by intro o ho; cases ho) h
  | push w => exact treeInv_basic s _ (by intro o ho; cases ho) h
  | bindM => exact treeInv_basic s _ (by intro o ho; cases ho) h
  | unbindM => exact treeInv_basic s _ (by intro o ho; cases ho) h

/-! ### in step -/

/-- the first checkout is bound and its branch tip is the master's tip -/
def InStep (s : St) : Prop := s.bound = true ∧ s.loc = s.master

/-- the operations that cannot take the first checkout out of step: everything
made through it that is not local-only, and everything that does not write the
master or its branch (commits and non-local pulls in the master's trees and in
the second checkout do; `unbind` ends the relation) -/
def Op.quiet : Op → Bool
  | .commit .H _ true => true
  | .update .H => true
  | .pull => true
  | .bind => true
  | .unbind => true
  | .pullOther .H _ _ true => true
  | .push .H => true
  | _ => false

def Op.keepsStep : Op → Bool
  | .onH2 op => op.quiet
  | .commit .H _ false => true
  | .update _ => true
  | .pull => true
  | .bind => true
  | .commitO _ => true
  | .syncO => true
  | .pullOther .H _ _ false => true
  | .push _ => true
  | .bindM => true
  | .unbindM => true
  | _ => false

theorem commitH_inStep (s : St) (r : Rev) (h : InStep s) : InStep (commitH s r false).1 := by
  unfold commitH InStep at *
  grind

theorem updateH_inStep (s : St) (h : InStep s) : InStep (updateH s).1 := by
  unfold updateH InStep at *
  grind

theorem pullH_inStep (s : St) (h : InStep s) : (pullH s).1 = s := by
  obtain ⟨hb, hl⟩ := h
  unfold pullH
  split
  · rfl
  · simp [hl, isAncestor_refl]

theorem pullOtherH_inStep (s : St) (stop : Option Rev) (ow : Bool) (h : InStep s) :
    InStep (pullOtherH s stop ow false).1 := by
  obtain ⟨hb, hl⟩ := h
  unfold pullOtherH InStep
  rw [hl]
  cases hu : updateRevisions s.graph s.master s.other stop ow <;> grind

theorem pushTo_inStep (s : St) (src : Rev) (h : InStep s) : InStep (pushTo s src).1 := by
  unfold pushTo
  split <;> exact h

theorem updateMasterTree_inStep (s : St) (w : Who) (h : InStep s) : InStep (updateMasterTree s w).1 := by
  unfold updateMasterTree
  repeat' split
  all_goals exact h

/-- a quiet operation writes neither the master nor the other checkout -/
theorem step_quiet (s : St) (op : Op) (hq : op.quiet = true) :
    (step s op).1.master = s.master ∧ Frame2 s (step s op).1 := by
  cases op with
  | commit w r l =>
    cases w <;> cases l <;> simp [Op.quiet] at hq
    simp only [step]; unfold commitH Frame2; grind
  | update w =>
    cases w <;> simp [Op.quiet] at hq
    simp only [step]; unfold updateH Frame2; grind
  | pull => simp only [step]; unfold pullH Frame2; grind
  | bind => exact ⟨rfl, rfl, rfl, rfl⟩
  | unbind => exact ⟨rfl, rfl, rfl, rfl⟩
  | pullOther w st ow l =>
    cases w <;> cases l <;> simp [Op.quiet] at hq
    simp only [step]; unfold pullOtherH Frame2; grind
  | push w =>
    cases w <;> simp [Op.quiet] at hq
    simp only [step]; unfold pushTo Frame2; grind
  | commitO r => simp [Op.quiet] at hq
  | syncO => simp [Op.quiet] at hq
  | bindM => simp [Op.quiet] at hq
  | unbindM => simp [Op.quiet] at hq
  | onH2 o => simp [Op.quiet] at hq

theorem step_inStep (s : St) (op : Op) (hop : op.keepsStep = true) (h : InStep s) : InStep (step s op).1 := by
  cases op with
  | commit w r l =>
    cases w <;> cases l <;> simp [Op.keepsStep] at hop
    exact commitH_inStep s r h
  | update w =>
    cases w with
    | H => exact updateH_inStep s h
    | M => exact updateMasterTree_inStep s .M h
    | L => exact updateMasterTree_inStep s .L h
  | pull => show InStep (pullH s).1; rw [pullH_inStep s h]; exact h
  | bind => exact ⟨rfl, h.2⟩
  | unbind => simp [Op.keepsStep] at hop
  | commitO r => exact h
  | syncO => exact h
  | pullOther w st ow l =>
    cases w <;> cases l <;> simp [Op.keepsStep] at hop
    exact pullOtherH_inStep s st ow h
  | push w => cases w <;> exact pushTo_inStep _ _ h
  | bindM => exact h
  | unbindM => exact h
  | onH2 op =>
    have hq : op.quiet = true := by simpa [Op.keepsStep] using hop
    obtain ⟨h1, h2, _, h4⟩ := step_quiet (swapH s) op hq
    exact ⟨h4.trans h.1, h2.trans (h.2.trans h1.symm)⟩

/-! ### refused operations -/

/-- everything but the master's tip and the log is as before -/
def MasterOnly (s s' : St) : Prop := ∃ (m : Rev) (l : List Entry), s' = { s with master := m, log := l }

theorem masterOnly_swap (s x : St) (h : MasterOnly (swapH s) x) : MasterOnly s (swapH x) := by
  obtain ⟨m, l, rfl⟩ := h
  refine ⟨m, l.map Entry.swap, ?_⟩
  cases s
  simp [swapH]

/-- a refused pull from another branch into the first checkout: nothing has
changed, or - bound, not local, the master accepted and the local branch
diverged - exactly the master's tip has moved -/
theorem pullOtherH_refused (s : St) (stop : Option Rev) (ow l : Bool) (h : (pullOtherH s stop ow l).2 ≠ .ok) :
    (pullOtherH s stop ow l).1 = s ∨
    (l = false ∧ s.bound = true ∧ s.masterBound = false ∧ (pullOtherH s stop ow l).2 = .diverged ∧
      ∃ m', updateRevisions s.graph s.master s.other stop ow = some m' ∧
        updateRevisions s.graph s.loc s.other stop ow = none ∧
        (pullOtherH s stop ow l).1 = { s with master := m', log := logIf (m' != s.master) ⟨.master, m', .pull⟩ s.log }) := by
  by_cases c1 : (l && !s.bound) = true
  · left; simp [pullOtherH, c1]
  · by_cases c2 : (s.masterBound && s.bound && !l) = true
    · left; simp [pullOtherH, c1, c2]
    · by_cases hv : (s.bound && !l) = true
      · have hb : s.bound = true := by simp at hv; exact hv.1
        have hl : l = false := by simp at hv; exact hv.2
        have hmb : s.masterBound = false := by
          cases hm : s.masterBound
          · rfl
          · simp [hm, hb, hl] at c2
        cases hu : updateRevisions s.graph s.master s.other stop ow with
        | none => left; simp [pullOtherH, c1, c2, hv, hu]
        | some m' =>
          cases hu2 : updateRevisions s.graph s.loc s.other stop ow with
          | none =>
            right
            refine ⟨hl, hb, hmb, ?_, m', rfl, rfl, ?_⟩ <;> simp [pullOtherH, c1, c2, hv, hu, hu2]
          | some l' => exfalso; apply h; simp [pullOtherH, c1, c2, hv, hu, hu2]
      · cases hu2 : updateRevisions s.graph s.loc s.other stop ow with
        | none =>
          left
          simp only [pullOtherH, c1, c2, hv, hu2, Bool.false_eq_true, if_false]
          cases s
          simp [logIf]
        | some l' => exfalso; apply h; simp [pullOtherH, c1, c2, hv, hu2]

/-- every refused operation other than a pull from another branch into a
heavyweight checkout leaves the whole state unchanged -/
theorem step_refused_basic (s : St) (op : Op) (hop : ∀ st ow l, op ≠ .pullOther .H st ow l)
    (hop2 : ∀ o, op ≠ .onH2 o) (h : (step s op).2 ≠ .ok) : (step s op).1 = s := by
  cases op with
  | commit w r l =>
    cases w with
    | H =>
      simp only [step] at h ⊢
      unfold commitH at h ⊢
      grind
    | M =>
      simp only [step] at h ⊢
      unfold commitMaster at h ⊢
      grind
    | L =>
      simp only [step] at h ⊢
      unfold commitMaster at h ⊢
      grind
  | update w =>
    cases w with
    | H =>
      simp only [step] at h ⊢
      unfold updateH at h ⊢
      split <;> simp_all
    | M =>
      simp only [step] at h ⊢
      unfold updateMasterTree at h ⊢
      grind
    | L =>
      simp only [step] at h ⊢
      unfold updateMasterTree at h ⊢
      grind
  | pull =>
    simp only [step] at h ⊢
    unfold pullH at h ⊢
    grind
  | bind => simp [step] at h
  | unbind => simp [step] at h
  | commitO r => simp [step] at h
  | syncO => simp [step] at h
  | pullOther w st ow l =>
    cases w with
    | H => exact absurd rfl (hop st ow l)
    | M =>
      simp only [step] at h ⊢
      unfold pullOtherMaster at h ⊢
      grind
    | L =>
      simp only [step] at h ⊢
      unfold pullOtherMaster at h ⊢
      grind
  | push w =>
    cases w <;>
    · simp only [step] at h ⊢
      unfold pushTo at h ⊢
      split <;> simp_all
  | bindM => simp [step] at h
  | unbindM => simp [step] at h
  | onH2 o => exact absurd rfl (hop2 o)

theorem step_refused (s : St) (op : Op) (h : (step s op).2 ≠ .ok) :
    (step s op).1 = s ∨ ((step s op).2 = .diverged ∧ MasterOnly s (step s op).1) := by
  induction op generalizing s with
  | onH2 op ih =>
    rcases ih (swapH s) h with h1 | ⟨h1, h2⟩
    · left
      show swapH (step (swapH s) op).1 = s
      rw [h1, swapH_swapH]
    · right
      exact ⟨h1, masterOnly_swap s _ h2⟩
  | pullOther w st ow l =>
    cases w with
    | H =>
      rcases pullOtherH_refused s st ow l h with h1 | ⟨_, _, _, h2, m', _, _, h3⟩
      · exact Or.inl h1
      · exact Or.inr ⟨h2, m', _, h3⟩
    | M => exact Or.inl (step_refused_basic s _ (by intro a b c hh; cases hh) (by intro o hh; cases hh) h)
    | L => exact Or.inl (step_refused_basic s _ (by intro a b c hh; cases hh) (by intro o hh; cases hh) h)
  | commit w r l => exact Or.inl (step_refused_basic s _ (by intro a b c hh; cases hh) (by intro o hh; cases hh) h)
  | update w => exact Or.inl (step_refused_basic s _ (by intro a b c hh; cases hh) (by intro o hh; cases hh) h)
  | pull => exact Or.inl (step_refused_basic s _ (by intro a b c hh; cases hh) (by intro o hh; cases hh) h)
  | bind => exact Or.inl (step_refused_basic s _ (by intro a b c hh; cases hh) (by intro o hh; cases hh) h)
  | unbind => exact Or.inl (step_refused_basic s _ (by intro a b c hh; cases hh) (by intro o hh; cases hh) h)
  | commitO r => exact Or.inl (step_refused_basic s _ (by intro a b c hh; cases hh) (by intro o hh; cases hh) h)
  | syncO => exact Or.inl (step_refused_basic s _ (by intro a b c hh; cases hh) (by intro o hh; cases hh) h)
  | push w => exact Or.inl (step_refused_basic s _ (by intro a b c hh; cases hh) (by intro o hh; cases hh) h)
  | bindM => exact Or.inl (step_refused_basic s _ (by intro a b c hh; cases hh) (by intro o hh; cases hh) h)
  | unbindM => exact Or.inl (step_refused_basic s _ (by intro a b c hh; cases hh) (by intro o hh; cases hh) h)

/-! ### revnos -/

theorem revno_addRev_self (g : Graph) (r : Rev) (t : Tree) (hr : r ≠ null) :
    revno (addRev g r t.parents) r = revno g t.basis + 1 := by
  unfold revno addRev Tree.parents
  simp only [hr, if_false]
  by_cases hb : t.basis = null
  · simp [hb, revnoS]
  · have hb' : (t.basis == null) = false := by simpa using hb
    simp [hb, hb', revnoS, Nat.add_comm]

end BreezyVerif.C23
