import BreezyVerif.Lemmas.C15
import BreezyVerif.Lemmas.C15Merge
import BreezyVerif.Lemmas.C15Tree
/-!
C15 — shelving removes exactly the selected changes, the shelf stores exactly
those, unshelving onto the unchanged result restores the tree; selected and
unselected hunks partition the text change; shelf ids are fresh, monotone and
never renumbered, and every shelf keeps what was shelved under its id until it
is deleted.  `shelve_unshelve_restores` is the tree-level statement for the
repaired code (an accepted selection is closed, both trees are trees, reading
the shelf back and merging it restores every entry); `unclosed_accepted_witness`
and `missing_unversioned_witness` exhibit the two inputs on which /repo HEAD
violates the property.  All statements are for every tree (a function
`Id → Option Entry`, no bound on the number of ids), every selection and every
text segmentation; the hypotheses are the decidable predicates of
`Lemmas/C15.lean` (`norm`, `shapeOk`, `execSafe`, `recOk`).
-/
namespace BreezyVerif.C15
open BreezyVerif.C18 (threeWay Winner)

/-! ### change sets are complete -/

/-- two entries are equal iff no atom of `Delta` differs and no chunk differs: the atoms cover every attribute -/
theorem delta_empty_iff (x y : Option Entry) :
    ((delta x y).isEmpty = true ∧ (contentMask x y).all (!·) = true) ↔ x = y := by
  cases x with
  | none => cases y <;> simp [delta, Delta.isEmpty, contentMask]
  | some x =>
    cases y with
    | none => simp [delta, Delta.isEmpty, contentMask]
    | some y =>
      obtain ⟨p, n, k, c, e⟩ := x
      obtain ⟨p', n', k', c', e'⟩ := y
      by_cases hk : k = k'
      · by_cases hl : c.length = c'.length
        · have := chunkMask_all_false_iff c c' hl
          simp only [contentMask, this]
          simp [delta, Delta.isEmpty, hk, hl]
          grind
        · simp [delta, Delta.isEmpty, hk, hl]
          intro _ _ h; exact absurd (congrArg List.length h) hl
      · simp [delta, Delta.isEmpty, hk]

/-! ### per id: what shelving does to the change set -/

/-- the working tree keeps exactly the unselected changes (relative to the
basis) and differs from the tree before by exactly the selected ones -/
theorem shelveWork_delta (v : Variant) (s : Sel) (b w : Option Entry)
    (hb : norm b = true) (hw : norm w = true) (hs : shapeOk s b w = true) (hx : execSafe v b w = true) :
    delta b (shelveWork v s b w) = (delta b w).remove s ∧
    delta (shelveWork v s b w) w = (delta b w).restrict s := by
  cases b with
  | none =>
    cases w with
    | none => simp [shelveWork, delta, Delta.remove, Delta.restrict]
    | some we => cases hsw : s.whole <;> simp [shelveWork, delta, Delta.remove, Delta.restrict, hsw]
  | some be =>
    cases w with
    | none =>
      obtain ⟨p, n, k, c, e⟩ := be
      cases hsw : s.whole <;> cases hk : s.kept <;> cases k <;>
        simp_all [shelveWork, delta, Delta.remove, Delta.restrict, recreatedExec, norm, execSafe] <;> grind
    | some we =>
      obtain ⟨p, n, k, c, e⟩ := be
      obtain ⟨p', n', k', c', e'⟩ := we
      cases hc : s.content with
      | none =>
        cases hr : s.rename <;>
          simp_all [shelveWork, delta, Delta.remove, Delta.restrict, CSel.any] <;> grind
      | whole =>
        cases hr : s.rename <;> cases k <;> cases k' <;>
          simp_all [shelveWork, delta, Delta.remove, Delta.restrict, CSel.any, recreatedExec, norm, execSafe] <;>
          grind
      | chunks bits =>
        simp [shapeOk, CSel.shapeOk, hc] at hs
        obtain ⟨⟨⟨hk1, hk2⟩, hl1⟩, hl2⟩ := hs
        subst hk1 hk2
        have hp := pickChunks_length bits c c' hl1 hl2
        cases hr : s.rename <;>
          simp_all [shelveWork, delta, Delta.remove, Delta.restrict, CSel.any]

/-- the stored tree carries exactly the selected changes (relative to the
basis) and differs from the tree before by exactly the unselected ones -/
theorem shelveShelf_delta (v : Variant) (s : Sel) (b w : Option Entry)
    (hb : norm b = true) (hw : norm w = true) (hs : shapeOk s b w = true) (hx : execSafe v b w = true) :
    delta b (shelveShelf v s b w) = (delta b w).restrict s ∧
    delta (shelveShelf v s b w) w = (delta b w).remove s := by
  cases b with
  | none =>
    cases w with
    | none => simp [shelveShelf, delta, Delta.remove, Delta.restrict]
    | some we =>
      obtain ⟨p', n', k', c', e'⟩ := we
      cases hsw : s.whole <;> cases k' <;>
        simp_all [shelveShelf, delta, Delta.remove, Delta.restrict, recreatedExec, norm, execSafe] <;> grind
  | some be =>
    cases w with
    | none => cases hsw : s.whole <;> simp [shelveShelf, delta, Delta.remove, Delta.restrict, hsw]
    | some we =>
      obtain ⟨p, n, k, c, e⟩ := be
      obtain ⟨p', n', k', c', e'⟩ := we
      cases hc : s.content with
      | none =>
        cases hr : s.rename <;>
          simp_all [shelveShelf, delta, Delta.remove, Delta.restrict, CSel.any] <;> grind
      | whole =>
        cases hr : s.rename <;> cases k <;> cases k' <;>
          simp_all [shelveShelf, delta, Delta.remove, Delta.restrict, CSel.any, recreatedExec, norm, execSafe] <;>
          grind
      | chunks bits =>
        simp [shapeOk, CSel.shapeOk, hc] at hs
        obtain ⟨⟨⟨hk1, hk2⟩, hl1⟩, hl2⟩ := hs
        subst hk1 hk2
        have hp := pickChunks_length bits c' c (by omega) (by omega)
        cases hr : s.rename <;>
          simp_all [shelveShelf, delta, Delta.remove, Delta.restrict, CSel.any]

/-- hunks: of the chunks that differ between basis and working tree, the working
tree keeps the unselected ones and loses the selected ones; the stored tree
carries the selected ones — for every selection of hunks (none, all, any subset) -/
theorem shelve_chunks (v : Variant) (s : Sel) (b w : Option Entry)
    (hsh : sameShape b w = true) (hs : shapeOk s b w = true) :
    let n := (contentMask b w).length
    contentMask b (shelveWork v s b w) = maskAndNot (contentMask b w) (s.content.bits n) ∧
    contentMask (shelveWork v s b w) w = maskAnd (contentMask b w) (s.content.bits n) ∧
    contentMask b (shelveShelf v s b w) = maskAnd (contentMask b w) (s.content.bits n) ∧
    contentMask (shelveShelf v s b w) w = maskAndNot (contentMask b w) (s.content.bits n) := by
  cases b with
  | none => simp [sameShape] at hsh
  | some be =>
    cases w with
    | none => simp [sameShape] at hsh
    | some we =>
      obtain ⟨p, n, k, c, e⟩ := be
      obtain ⟨p', n', k', c', e'⟩ := we
      simp [sameShape] at hsh
      obtain ⟨hk, hl⟩ := hsh
      subst hk
      have hlen := chunkMask_length c c' hl
      cases hc : s.content with
      | none =>
        have e1 := maskAnd_false (chunkMask c c')
        have e2 := maskAndNot_false (chunkMask c c')
        rw [hlen, hl] at e1 e2
        simp [shelveWork, shelveShelf, contentMask, hc, CSel.bits, hlen, chunkMask_self, hl, e1, e2]
      | whole =>
        have e1 := maskAnd_true (chunkMask c c')
        have e2 := maskAndNot_true (chunkMask c c')
        rw [hlen, hl] at e1 e2
        simp [shelveWork, shelveShelf, contentMask, hc, CSel.bits, hlen, chunkMask_self, hl, e1, e2]
      | chunks bits =>
        simp [shapeOk, CSel.shapeOk, hc] at hs
        obtain ⟨⟨_, hl1⟩, _⟩ := hs
        have h1 := chunkMask_pick_left bits c c' hl1 hl
        have h2 := chunkMask_pick_right bits c c' hl1 hl
        simp [shelveWork, shelveShelf, contentMask, hc, CSel.bits, h1, h2]

/-! ### hunks -/

/-- selected ⊎ unselected hunks: re-applying the selected hunks (as stored in the
shelf text) to the text left in the working tree gives the original text,
removing both gives the basis text, and the chunk-wise three-way merge of the
two over the basis is the original text — for every text segmentation and
every subset of hunks -/
theorem hunk_partition (bits : List Bool) (b w : List Nat)
    (h1 : bits.length = b.length) (h2 : b.length = w.length) :
    pickChunks bits (pickChunks bits w b) (pickChunks bits b w) = w ∧
    pickChunks bits (pickChunks bits b w) (pickChunks bits w b) = b ∧
    mergeChunks b (pickChunks bits b w) (pickChunks bits w b) = some w :=
  ⟨(pick_partition bits b w h1 h2).1, (pick_partition bits b w h1 h2).2, mergeChunks_pick bits b w h1 h2⟩

example : pickChunks [false, true, false, true, false] [1, 2, 3, 4, 5] [1, 20, 3, 40, 5] = [1, 2, 3, 2 * 2, 5] := by decide

/-! ### trees -/

/-- **Shelving removes exactly the selected changes.**  For every id: the
changes of the new working tree against the basis are the unselected ones, the
new working tree differs from the old one by exactly the selected ones, and —
when the selection is accepted (`shelve` = ok, i.e. the remaining tree is
well-formed) — these are the trees `shelve` returns; the stored tree carries
exactly the selected changes.  (`shelve_nothing`, `shelve_all` and
`shelve_all_eq_basis` show `hacc` / `hcl` for the two extreme selections of any
pair of well-formed trees; `shelve_values` gives the attribute VALUES.) -/
theorem shelve_removes_exactly (v : Variant) (ids : List Id) (s : TSel) (b w : Tree) (h : TreeOk v s b w)
    (hacc : wf ids (workTree v s b w) = true) (hpc : v.pathCheck = true ∨ reoccupied ids s b w = [])
    (hcl : wf ids (shelfTree v s b w) = true ∨
      (v.closedCheck = false ∧ hasNonDirParent ids (shelfTree v s b w) = false)) :
    shelve v ids s b w = .ok (workTree v s b w, shelfTree v s b w) ∧
    ∀ i, delta (b i) (workTree v s b w i) = (delta (b i) (w i)).remove (s i) ∧
         delta (workTree v s b w i) (w i) = (delta (b i) (w i)).restrict (s i) ∧
         delta (b i) (shelfTree v s b w i) = (delta (b i) (w i)).restrict (s i) ∧
         delta (shelfTree v s b w i) (w i) = (delta (b i) (w i)).remove (s i) := by
  constructor
  · unfold shelve
    rcases hpc with hp | hp <;> rcases hcl with hc | hc
    all_goals first
      | simp [hp, hc, hacc, wf_noNonDirParent ids _ hc]
      | simp [hp, hc.1, hc.2, hacc]
  · intro i
    obtain ⟨hb, hw, hs, hx⟩ := h i
    have h1 := shelveWork_delta v (s i) (b i) (w i) hb hw hs hx
    have h2 := shelveShelf_delta v (s i) (b i) (w i) hb hw hs hx
    exact ⟨h1.1, h1.2, h2.1, h2.2⟩

/-- **Unshelving restores.**  Merging the stored tree into the unchanged result
of shelving, over the basis, gives back the working tree as it was — every id,
every attribute, no conflict — whatever the recorded executable bits are when
the merge reads them from disk (`freshExec`), and otherwise when they agree
with the disk (`recOk`). -/
theorem unshelve_restores (v : Variant) (s : TSel) (b w : Tree) (rec : Id → Bool) (h : TreeOk v s b w)
    (hr : ∀ i, recOk v (rec i) (workTree v s b w i) = true) :
    unshelve v b (workTree v s b w) rec (shelfTree v s b w) = w ∧
    ∀ i, conflictsAt v b (workTree v s b w) rec (shelfTree v s b w) i = [] := by
  have hm : ∀ i, mergeEntry v (rec i) (b i) (workTree v s b w i) (shelfTree v s b w i) = ⟨w i, []⟩ := by
    intro i
    obtain ⟨hb, hw, hs, hx⟩ := h i
    exact mergeEntry_restores v (rec i) (s i) (b i) (w i) hb hw hs hx (hr i)
  constructor
  · funext i; simp [unshelve, hm]
  · intro i; simp [conflictsAt, hm]

/-- **Unshelving restores, tree level, repaired code.**  For a closed selection
(the remaining tree and the stored tree are trees) the shelf can be read back
and merging it into the unchanged result gives back the working tree — every
id, every attribute, no conflict; no hypothesis on executable bits or on the
recorded bits is left. -/
theorem unshelve_restores_fixed (ids : List Id) (s : TSel) (b w : Tree) (rec : Id → Bool)
    (hn : ∀ i, norm (b i) = true ∧ norm (w i) = true ∧ shapeOk (s i) (b i) (w i) = true)
    (hc : closed .fixed ids s b w = true) :
    unshelveTree .fixed ids b (workTree .fixed s b w) rec (shelfTree .fixed s b w) = some w ∧
    ∀ i, conflictsAt .fixed b (workTree .fixed s b w) rec (shelfTree .fixed s b w) i = [] := by
  have h := unshelve_restores .fixed s b w rec (fun i => ?_) (fun i => ?_)
  · simp only [closed, Bool.and_eq_true] at hc
    exact ⟨by simp [unshelveTree, hc.2, h.1], h.2⟩
  · obtain ⟨h1, h2, h3⟩ := hn i
    refine ⟨h1, h2, h3, ?_⟩
    cases b i <;> cases w i <;> simp [execSafe, Variant.fixed]
  · cases workTree Variant.fixed s b w i <;> simp [recOk, Variant.fixed]

/-- a variant with the closedness check accepts only closed selections, and returns the two trees -/
theorem shelve_ok_closed (v : Variant) (ids : List Id) (s : TSel) (b w : Tree) (hv : v.closedCheck = true)
    (r : Tree × Tree) (h : shelve v ids s b w = .ok r) :
    closed v ids s b w = true ∧ r = (workTree v s b w, shelfTree v s b w) := by
  unfold shelve at h
  by_cases h1 : (!v.pathCheck && !(reoccupied ids s b w).isEmpty) = true
  · simp [h1] at h
  · by_cases h2 : wf ids (shelfTree v s b w) = true
    · by_cases h3 : wf ids (workTree v s b w) = true
      · simp [h1, h2, h3, hv] at h
        exact ⟨by simp [closed, h2, h3], h.symm⟩
      · simp [h1, h2, h3, hv] at h
    · simp [h1, h2, hv] at h

/-- **Shelve, then unshelve, restores (repaired code, every tree, every selection).**
Whenever `shelve` accepts a selection, the remaining tree and the stored tree
are trees, and reading the shelf back and merging it into the unchanged result
gives back the working tree without conflicts. -/
theorem shelve_unshelve_restores (ids : List Id) (s : TSel) (b w : Tree) (rec : Id → Bool)
    (hn : ∀ i, norm (b i) = true ∧ norm (w i) = true ∧ shapeOk (s i) (b i) (w i) = true)
    (w' st : Tree) (h : shelve .fixed ids s b w = .ok (w', st)) :
    wf ids w' = true ∧ wf ids st = true ∧ unshelveTree .fixed ids b w' rec st = some w ∧
    ∀ i, conflictsAt .fixed b w' rec st i = [] := by
  obtain ⟨hc, hr⟩ := shelve_ok_closed .fixed ids s b w rfl _ h
  simp only [Prod.mk.injEq] at hr
  obtain ⟨rfl, rfl⟩ := hr
  have := unshelve_restores_fixed ids s b w rec hn hc
  simp only [closed, Bool.and_eq_true] at hc
  exact ⟨hc.1, hc.2, this.1, this.2⟩

/-! ### the two extreme selections -/

/-- **Shelving nothing changes nothing**: accepted for every tree, the working
tree stays as it is and the stored tree is the basis -/
theorem shelve_nothing (v : Variant) (ids : List Id) (b w : Tree) (hw : wf ids w = true)
    (hb : wf ids b = true) :
    shelve v ids (fun _ => Sel.nothing) b w = .ok (w, b) := by
  have h1 : workTree v (fun _ => Sel.nothing) b w = w := funext fun i => shelveWork_nothing v (b i) (w i)
  have h2 : shelfTree v (fun _ => Sel.nothing) b w = b := funext fun i => shelveShelf_nothing v (b i) (w i)
  have h3 : reoccupied ids (fun _ => Sel.nothing) b w = [] := by simp [reoccupied, Sel.nothing]
  unfold shelve
  simp [h1, h2, h3, hw, hb, wf_noNonDirParent]

/-- **Shelving everything**: accepted for every pair of trees; the working tree
becomes the basis and the stored tree the old working tree, up to the one
change that is not shelvable (a chmod of a file that stays a file travels
with the working tree) -/
theorem shelve_all (v : Variant) (ids : List Id) (s : TSel) (b w : Tree) (hv : v.keepExec = true)
    (hs : ∀ i, (s i).isAll = true) (hn : ∀ i, norm (b i) = true ∧ norm (w i) = true)
    (hb : wf ids b = true) (hw : wf ids w = true) (hpc : v.pathCheck = true ∨ reoccupied ids s b w = []) :
    shelve v ids s b w = .ok (fun i => withExecOf (b i) (w i), fun i => withExecOf (w i) (b i)) := by
  have h1 : workTree v s b w = fun i => withExecOf (b i) (w i) :=
    funext fun i => shelveWork_all v (s i) (b i) (w i) hv (hs i) (hn i).1
  have h2 : shelfTree v s b w = fun i => withExecOf (w i) (b i) :=
    funext fun i => shelveShelf_all v (s i) (b i) (w i) hv (hs i) (hn i).2
  have h3 : wf ids (fun i => withExecOf (b i) (w i)) = true := by
    rw [wf_congr ids _ b (fun i => withExecOf_skel (b i) (w i))]; exact hb
  have h4 : wf ids (fun i => withExecOf (w i) (b i)) = true := by
    rw [wf_congr ids _ w (fun i => withExecOf_skel (w i) (b i))]; exact hw
  unfold shelve
  rcases hpc with hp | hp <;> simp [h1, h2, h3, h4, hp, wf_noNonDirParent]

/-- no file that stays a file has an uncommitted chmod -/
def execAgree (b w : Tree) : Prop :=
  ∀ i be we, b i = some be → w i = some we → be.kind = .file → we.kind = .file → be.exec = we.exec

/-- ... so without a pending chmod, shelving everything leaves exactly the basis and stores exactly the working tree -/
theorem shelve_all_eq_basis (v : Variant) (ids : List Id) (s : TSel) (b w : Tree) (hv : v.keepExec = true)
    (hs : ∀ i, (s i).isAll = true) (hn : ∀ i, norm (b i) = true ∧ norm (w i) = true)
    (hb : wf ids b = true) (hw : wf ids w = true) (hpc : v.pathCheck = true ∨ reoccupied ids s b w = [])
    (hx : execAgree b w) : shelve v ids s b w = .ok (b, w) := by
  rw [shelve_all v ids s b w hv hs hn hb hw hpc]
  have e1 : (fun i => withExecOf (b i) (w i)) = b := by
    funext i
    cases hbi : b i with
    | none => simp [withExecOf]
    | some be =>
      cases hwi : w i with
      | none => simp [withExecOf]
      | some we =>
        have := hx i be we hbi hwi
        obtain ⟨p, n, k, c, e⟩ := be
        simp only [withExecOf, Option.some.injEq, Entry.mk.injEq, true_and]
        split
        · rename_i hk; exact (this hk.1 hk.2).symm
        · rfl
  have e2 : (fun i => withExecOf (w i) (b i)) = w := by
    funext i
    cases hwi : w i with
    | none => simp [withExecOf]
    | some we =>
      cases hbi : b i with
      | none => simp [withExecOf]
      | some be =>
        have := hx i be we hbi hwi
        obtain ⟨p, n, k, c, e⟩ := we
        simp only [withExecOf, Option.some.injEq, Entry.mk.injEq, true_and]
        split
        · rename_i hk; exact this hk.2 hk.1
        · rfl
  rw [e1, e2]

example :
    let b := wtree [(0, ⟨none, 0, .dir, [], false⟩), (1, ⟨some 0, 1, .file, [7], false⟩)]
    let w := wtree [(0, ⟨none, 0, .dir, [], false⟩), (1, ⟨some 0, 2, .file, [8], false⟩), (2, ⟨some 0, 1, .dir, [], false⟩)]
    let s : TSel := fun _ => ⟨true, true, .whole, false⟩
    wf [0, 1, 2] b = true ∧ wf [0, 1, 2] w = true ∧ (s 1).isAll = true ∧ reoccupied [0, 1, 2] s b w = [] ∧
    (match shelve .fixed [0, 1, 2] s b w with | .ok (w', st) => w' 1 == b 1 && w' 2 == none && st 1 == w 1 | _ => false) = true := by
  decide

/-! ### attribute values -/

/-- **what shelving leaves and stores, value by value** (the `delta` theorems say
WHICH atoms differ; this one pins every attribute): an unselected addition /
deletion stays, a selected one is undone in the tree and stored whole; for an id
present on both sides the position is the basis's iff the rename is selected,
kind and content are the basis's iff the content change is selected (hunk by
hunk for a hunk selection), the executable bit stays with the side whose file
survives; the stored entry is the mirror image -/
theorem shelve_values (v : Variant) (s : Sel) (b w : Option Entry) (hv : v.keepExec = true)
    (hb : norm b = true) (hw : norm w = true) (hs : shapeOk s b w = true) :
    match b, w with
    | none, none => shelveWork v s b w = none ∧ shelveShelf v s b w = none
    | none, some we =>
      if s.whole then shelveWork v s b w = none ∧ shelveShelf v s b w = some we
      else shelveWork v s b w = some we ∧ shelveShelf v s b w = none
    | some be, none =>
      if s.whole then shelveWork v s b w = some be ∧ shelveShelf v s b w = none
      else shelveWork v s b w = none ∧ shelveShelf v s b w = some be
    | some be, some we =>
      ∃ r t, shelveWork v s b w = some r ∧ shelveShelf v s b w = some t ∧
        r.parent = (if s.rename then be.parent else we.parent) ∧ r.name = (if s.rename then be.name else we.name) ∧
        t.parent = (if s.rename then we.parent else be.parent) ∧ t.name = (if s.rename then we.name else be.name) ∧
        match s.content with
        | .none => r.kind = we.kind ∧ r.content = we.content ∧ r.exec = we.exec ∧
            t.kind = be.kind ∧ t.content = be.content ∧ t.exec = be.exec
        | .whole => r.kind = be.kind ∧ r.content = be.content ∧ t.kind = we.kind ∧ t.content = we.content ∧
            r.exec = (if be.kind = .file ∧ we.kind = .file then we.exec else be.exec) ∧
            t.exec = (if be.kind = .file ∧ we.kind = .file then be.exec else we.exec)
        | .chunks bits => r.kind = .file ∧ r.content = pickChunks bits be.content we.content ∧ r.exec = we.exec ∧
            t.kind = .file ∧ t.content = pickChunks bits we.content be.content ∧ t.exec = be.exec := by
  cases b with
  | none =>
    cases w with
    | none => simp [shelveWork, shelveShelf]
    | some we =>
      obtain ⟨p', n', k', c', e'⟩ := we
      cases hsw : s.whole <;> cases k' <;> simp [norm] at hw <;> simp_all [shelveWork, shelveShelf, recreatedExec]
  | some be =>
    obtain ⟨p, n, k, c, e⟩ := be
    cases w with
    | none =>
      cases hsw : s.whole <;> cases hk : s.kept <;> cases k <;> simp [norm] at hb <;>
        simp_all [shelveWork, shelveShelf, recreatedExec]
    | some we =>
      obtain ⟨p', n', k', c', e'⟩ := we
      cases hc : s.content with
      | none => simp [shelveWork, shelveShelf, hc]
      | whole =>
        cases k <;> cases k' <;> simp [norm] at hb hw <;> simp_all [shelveWork, shelveShelf, recreatedExec]
      | chunks bits =>
        simp [shapeOk, CSel.shapeOk, hc] at hs
        obtain ⟨⟨⟨hk1, hk2⟩, _⟩, _⟩ := hs
        subst hk1 hk2
        simp [shelveWork, shelveShelf, hc]

/-! ### versioned files that are missing from disk -/

/-- a missing file's versioning comes back iff its deletion was NOT shelved -/
theorem missing_restored_iff (v : Variant) (s : TSel) (b w : Tree) (miss : Id → Bool) (i : Id)
    (hm : miss i = true → w i = none ∧ (b i).isSome = true) :
    unshelveMissing b (shelfTree v s b w) (shelveMissing s miss) i = miss i ↔
      ¬ (miss i = true ∧ (s i).whole = true) := by
  cases hmi : miss i with
  | false => simp [unshelveMissing, shelveMissing, hmi]
  | true =>
    obtain ⟨hw, hb⟩ := hm hmi
    cases hbi : b i with
    | none => simp [hbi] at hb
    | some be =>
      cases hsw : (s i).whole <;>
        simp [unshelveMissing, shelveMissing, hmi, hsw, shelfTree, shelveShelf, hw, hbi]

/-- `rm t; shelve; unshelve`: the file is gone again but no longer versioned
(reproduced on /repo by the check, family missing-file-unversioned-by-unshelve) -/
theorem missing_unversioned_witness :
    let b := wtree [(0, ⟨none, 0, .dir, [], false⟩), (1, ⟨some 0, 1, .file, [7], false⟩)]
    let w := wtree [(0, ⟨none, 0, .dir, [], false⟩)]
    let miss : Id → Bool := fun i => i == 1
    let s : TSel := fun i => if i = 1 then ⟨true, false, .none, false⟩ else Sel.nothing
    (match shelve .fixed [0, 1] s b w with
     | .ok (w', st) =>
       w' 1 == b 1 && !shelveMissing s miss 1 &&
       (match unshelveTree .fixed [0, 1] b w' (fun _ => false) st with
        | some u => u 0 == w 0 && u 1 == w 1
        | none => false) &&
       unshelveMissing b st (shelveMissing s miss) 1 != miss 1
     | _ => false) = true := by
  decide

/-! ### the defects of the current code (witnesses; reproduced on the real code by the check) -/

/-- current code: shelving the addition of an executable file and unshelving it
gives the file back without its executable bit; shelving the deletion of an
executable file re-creates it without the bit (a change nobody made) -/
theorem exec_dropped_witness :
    let b : Option Entry := none
    let w : Option Entry := some ⟨some 0, 1, .file, [7], true⟩
    let s : Sel := ⟨true, false, .none, false⟩
    (mergeEntry .current false b (shelveWork .current s b w) (shelveShelf .current s b w)).entry
      = some ⟨some 0, 1, .file, [7], false⟩ ∧
    shelveWork .current s w b = some ⟨some 0, 1, .file, [7], false⟩ ∧
    mergeEntry .fixed false b (shelveWork .fixed s b w) (shelveShelf .fixed s b w) = ⟨w, []⟩ := by decide

/-- current code: a file whose text change is shelved while an uncommitted chmod +x
stays in the tree loses the executable bit on unshelve when the working tree's
recorded bit is stale (`rec = false`) -/
theorem stale_exec_witness :
    let b : Option Entry := some ⟨some 0, 1, .file, [7], false⟩
    let w : Option Entry := some ⟨some 0, 1, .file, [8], true⟩
    let s : Sel := ⟨false, false, .whole, false⟩
    shelveWork .current s b w = some ⟨some 0, 1, .file, [7], true⟩ ∧
    (mergeEntry .current false b (shelveWork .current s b w) (shelveShelf .current s b w)).entry
      = some ⟨some 0, 1, .file, [8], false⟩ ∧
    mergeEntry .fixed false b (shelveWork .fixed s b w) (shelveShelf .fixed s b w) = ⟨w, []⟩ := by decide

/-- current code: a file was removed and a new file added under its name; shelving
both changes (a closed selection: the remaining tree is the basis) is not
carried out; with the path check it is -/
theorem reoccupied_witness :
    let b := wtree [(0, ⟨none, 0, .dir, [], false⟩), (1, ⟨some 0, 1, .file, [7], false⟩)]
    let w := wtree [(0, ⟨none, 0, .dir, [], false⟩), (2, ⟨some 0, 1, .file, [8], false⟩)]
    let s : TSel := fun i => if i = 1 ∨ i = 2 then ⟨true, false, .none, false⟩ else Sel.nothing
    closed .current [0, 1, 2] s b w = true ∧
    (match shelve .current [0, 1, 2] s b w with | .error .reoccupied => true | _ => false) = true ∧
    (match shelve .fixed [0, 1, 2] s b w with | .ok _ => true | _ => false) = true := by decide

/-- /repo HEAD: a file is added in an added directory and only the file's
addition is shelved.  The selection is accepted and the file leaves the tree,
but the stored tree is not a tree (the file's parent is absent) and cannot be
read back; the repaired code refuses the selection (reproduced on /repo by the
check, family unclosed-selection-accepted) -/
theorem unclosed_accepted_witness :
    let b := wtree [(0, ⟨none, 0, .dir, [], false⟩)]
    let w := wtree [(0, ⟨none, 0, .dir, [], false⟩), (1, ⟨some 0, 1, .dir, [], false⟩), (2, ⟨some 1, 2, .file, [7], false⟩)]
    let s : TSel := fun i => if i = 2 then ⟨true, false, .none, false⟩ else Sel.nothing
    (match shelve .head [0, 1, 2] s b w with
     | .ok (w', st) => wf [0, 1, 2] w' && !wf [0, 1, 2] st && w' 2 == none &&
         (unshelveTree .head [0, 1, 2] b w' (fun _ => false) st).isNone
     | _ => false) = true ∧
    (match shelve .fixed [0, 1, 2] s b w with | .error .unclosed => true | _ => false) = true := by decide

/-! ### shelf ids -/
/-- the next id exceeds every active id (so it is fresh), whatever the listing order -/
theorem Mgr.nextId_fresh (a : List Nat) : (∀ x ∈ a, x < nextId a) ∧ nextId a ∉ a := by
  have h : ∀ x ∈ a, x < nextId a := fun x hx => by have := le_maxId a x hx; simp [nextId]; omega
  exact ⟨h, fun hm => by have := h _ hm; omega⟩

/-- deleting a shelf does not renumber: every other id stays, exactly the deleted one goes -/
theorem Mgr.delete_keeps_others (a : List Nat) (k : Nat) (hnd : a.Nodup) (a' : List Nat)
    (h : step a (.delete k) = some a') : ∀ x, x ∈ a' ↔ (x ∈ a ∧ x ≠ k) := by
  intro x
  simp only [step] at h
  split at h
  · simp only [Option.some.injEq] at h
    subst h
    rw [hnd.mem_erase_iff]
    constructor
    · rintro ⟨h1, h2⟩; exact ⟨h2, h1⟩
    · rintro ⟨h1, h2⟩; exact ⟨h2, h1⟩
  · simp at h

/-- **Shelf ids are unique**: along every sequence of shelve / delete operations
(failed deletions included) no id is ever active twice -/
theorem Mgr.shelf_ids_unique (a : List Nat) (ops : List Op) (hnd : a.Nodup) : (run a ops).Nodup := by
  induction ops generalizing a with
  | nil => simpa [run]
  | cons op ops ih =>
    simp only [run]
    cases hs : step a op with
    | none => exact ih a hnd
    | some a' => exact ih a' (step_nodup a op hnd a' hs)

/-- **Shelves survive until deleted**: along every sequence of shelve / delete
operations (failed deletions included) a shelf that is not deleted keeps its
id and what was shelved under it -/
theorem Mgr.survives (sh : Shelves) (ops : List OpC) (k p : Nat) (h : lookup sh k = some p)
    (hnd : OpC.delete k ∉ ops) : lookup (runC sh ops) k = some p := by
  induction ops generalizing sh with
  | nil => simpa [runC]
  | cons op ops ih =>
    simp only [List.mem_cons, not_or] at hnd
    simp only [runC]
    cases hs : stepC sh op with
    | none => exact ih sh h hnd.2
    | some sh' => exact ih sh' (stepC_keeps sh op k p h (fun e => hnd.1 e.symm) sh' hs) hnd.2

example : Mgr.lookup (Mgr.runC [(2, 20), (1, 10)] [.new 30, .delete 2, .new 40, .delete 9]) 1 = some 10 ∧
    Mgr.runC [(2, 20), (1, 10)] [.new 30, .delete 2, .new 40, .delete 9] = [(4, 40), (3, 30), (1, 10)] := by decide

/-- ids are allocated monotonically while a shelf stays: a new id exceeds every id still active -/
theorem Mgr.new_after_new (a : List Nat) : nextId a < nextId (nextId a :: a) := by
  simp [nextId, maxId]

/-- but an id is reused once the newest shelf has been deleted (uniqueness is among the active shelves only) -/
theorem Mgr.id_reuse_witness : run [1, 2] [.new, .delete 3, .new] = [3, 1, 2] ∧ nextId [1, 2] = 3 := by decide

/-- file names: only `shelf-<n>` prefixes count, `shelf-0…` and foreign names do not, trailing text is ignored -/
example : Mgr.activeOfNames ["shelf-1", "shelf-02", "shelf-12x", "xshelf-3", "shelf-", "README"] = [1, 12] := by decide

example : Mgr.run [] [.new, .new, .delete 1, .new, .delete 7] = [3, 2] := by decide


/-! ### non-vacuity of the hypotheses -/

/-- a rename + a two-hunk edit + an uncommitted chmod of one file, one hunk and the rename selected -/
example :
    let b : Option Entry := some ⟨some 0, 1, .file, [1, 2, 3, 4, 5], false⟩
    let w : Option Entry := some ⟨some 9, 6, .file, [1, 20, 3, 40, 5], true⟩
    let s : Sel := ⟨false, true, .chunks [false, true, false, false, false], false⟩
    norm b = true ∧ norm w = true ∧ shapeOk s b w = true ∧ execSafe .current b w = false ∧ execSafe .fixed b w = true ∧
    shelveWork .fixed s b w = some ⟨some 0, 1, .file, [1, 2, 3, 40, 5], true⟩ ∧
    shelveShelf .fixed s b w = some ⟨some 9, 6, .file, [1, 20, 3, 4, 5], false⟩ ∧
    recOk .current true (shelveWork .current s b w) = true ∧
    mergeEntry .fixed false b (shelveWork .fixed s b w) (shelveShelf .fixed s b w) = ⟨w, []⟩ := by decide

example : wf [0, 1, 2] (wtree [(0, ⟨none, 0, .dir, [], false⟩), (1, ⟨some 0, 1, .dir, [], false⟩),
    (2, ⟨some 1, 1, .file, [7], false⟩)]) = true := by decide

end BreezyVerif.C15
