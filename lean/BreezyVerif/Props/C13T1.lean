import BreezyVerif.Model.C13
import BreezyVerif.Generated.C13
import BreezyVerif.Props.C13
/-! C13 — T1 tie: the order of "update metadata" and "discard replaced content"
found in the current source of both `apply` methods is the one theorem
`metadata_agrees` needs; and the rollback guarantee that holds for the code
variant found by probing the real code (is the mode change of
`_set_executability` undone by a failed `apply`?). -/
set_option autoImplicit false
namespace BreezyVerif.C13

theorem apply_order_bzr : applyOrderBzr = .metadataFirst := by decide
theorem apply_order_git : applyOrderGit = .metadataFirst := by decide

/-- what a failed removal / insertion phase guarantees for variant `jc`:
journalled mode changes — the very same file system; un-journalled — the same
file system up to executable bits (and `execbit_witness` shows that is all) -/
def RollbackGuarantee (jc : Bool) : Prop :=
  (jc = true ∧ ∀ (fs : FS) (ops : List Op) (fault : Option Nat),
      noClobber true { fs := fs } ops fault = true →
      rollback (runOps true { fs := fs } ops fault).1.fs (runOps true { fs := fs } ops fault).1.past
        = (fs, none)) ∨
  (jc = false ∧ ∀ (fs : FS) (ops : List Op) (fault : Option Nat),
      noClobber false { fs := fs } ops fault = true →
      ∃ r, rollback (runOps false { fs := fs } ops fault).1.fs
              (runOps false { fs := fs } ops fault).1.past = (r, none) ∧
        eraseExec r = eraseExec fs)

theorem rollbackGuarantee (jc : Bool) : RollbackGuarantee jc := by
  cases jc
  · exact Or.inr ⟨rfl, rollback_restores_modulo_exec⟩
  · exact Or.inl ⟨rfl, rollback_restores⟩

theorem source_rollback_bzr : RollbackGuarantee chmodJournalledBzr := rollbackGuarantee _
theorem source_rollback_git : RollbackGuarantee chmodJournalledGit := rollbackGuarantee _

end BreezyVerif.C13
