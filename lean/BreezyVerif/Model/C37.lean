/-
C37 — conditional git ref updates.  Executable model of
`breezy/git/transportgit.py: TransportRefsContainer.set_if_equals`,
`remove_if_equals`, `add_if_new` together with the `RefsContainer` methods they
rest on (`read_ref`, `follow`).

A ref store is the set of loose ref files (each holding a SHA or a symbolic
reference `ref: <name>`) plus the `packed-refs` table.  Ref names and SHAs are
naturals (the harness maps them to real names / 40-digit SHAs; SHA `0` is
`ZERO_SHA`, which is what an absent ref compares equal to).

`setIfEquals` / `removeIfEquals` are the compare-and-swap behaviour the
theorems are about (the one of dulwich's own `DiskRefsContainer`);
`setIfEqualsLegacy` / `removeIfEqualsLegacy` are literal models of the code as
found at commit 0e9787b (candidate finding F2: the expected old value is
ignored; and `remove` leaves a packed entry alone while the packed-refs cache
has not been loaded).  `Step`/`runSched` model two updaters whose read and write
phases interleave (no lock is taken by the real code).
-/
namespace BreezyVerif.C37

inductive Val where
  | sha (x : Nat)
  | sym (target : Nat)
  deriving DecidableEq, Repr

structure Store where
  loose : List (Nat × Val)
  packed : List (Nat × Nat)
  deriving DecidableEq, Repr

def lookup {β : Type} (l : List (Nat × β)) (k : Nat) : Option β :=
  match l with
  | [] => none
  | (k', v) :: rest => if k' = k then some v else lookup rest k

def insert {β : Type} (l : List (Nat × β)) (k : Nat) (v : β) : List (Nat × β) :=
  match l with
  | [] => [(k, v)]
  | (k', v') :: rest => if k' = k then (k, v) :: rest else (k', v') :: insert rest k v

def erase {β : Type} (l : List (Nat × β)) (k : Nat) : List (Nat × β) :=
  match l with
  | [] => []
  | (k', v') :: rest => if k' = k then erase rest k else (k', v') :: erase rest k

/-- `read_ref`: the loose file if there is one, else the packed entry -/
def readRef (s : Store) (n : Nat) : Option Val :=
  match lookup s.loose n with
  | some v => some v
  | none => (lookup s.packed n).map Val.sha

/-- `RefsContainer.follow`: the chain of names and the SHA at its end (`none` =
the last name does not exist).  `fuel` is the number of non-empty reads still
allowed (`depth > 5` raises `SymrefLoop`, also when the sixth read is a SHA). -/
def followAux (s : Store) : Nat → Nat → List Nat → Option (List Nat × Option Nat)
  | fuel, name, acc =>
    match readRef s name with
    | none => some (acc ++ [name], none)
    | some v =>
      match fuel with
      | 0 => none
      | fuel' + 1 =>
        match v with
        | .sha x => some (acc ++ [name], some x)
        | .sym t => followAux s fuel' t (acc ++ [name])

/-- `none` = `SymrefLoop` -/
def follow (s : Store) (n : Nat) : Option (List Nat × Option Nat) := followAux s 5 n []

/-- `refs[name]` (`__getitem__`): the SHA after following symbolic refs -/
def resolve (s : Store) (n : Nat) : Option Nat :=
  match follow s n with
  | some (_, r) => r
  | none => none

/-- the ref file `set_if_equals` writes: the last name of the chain, or `name`
itself when following fails -/
def realName (s : Store) (n : Nat) : Nat :=
  match follow s n with
  | some (names, _) => (match names.getLast? with | some r => r | none => n)
  | none => n

/-- the value a ref is compared with: loose file, else packed entry, else `ZERO_SHA` -/
def current (s : Store) (r : Nat) : Val :=
  match lookup s.loose r with
  | some v => v
  | none => match lookup s.packed r with
    | some x => .sha x
    | none => .sha 0

def write (s : Store) (r : Nat) (new : Nat) : Store :=
  { s with loose := insert s.loose r (.sha new) }

def del (s : Store) (n : Nat) : Store :=
  { loose := erase s.loose n, packed := erase s.packed n }

/-- `set_if_equals(name, old, new)`: result flag and store afterwards -/
def setIfEquals (s : Store) (n : Nat) (old : Option Nat) (new : Nat) : Bool × Store :=
  let r := realName s n
  match old with
  | some o => if current s r = .sha o then (true, write s r new) else (false, s)
  | none => (true, write s r new)

/-- `remove_if_equals(name, old)` (does not follow symbolic refs) -/
def removeIfEquals (s : Store) (n : Nat) (old : Option Nat) : Bool × Store :=
  match old with
  | some o => if current s n = .sha o then (true, del s n) else (false, s)
  | none => (true, del s n)

/-- `add_if_new(name, ref)`; `none` = `SymrefLoop` propagates -/
def addIfNew (s : Store) (n : Nat) (v : Nat) : Option (Bool × Store) :=
  match follow s n with
  | none => none
  | some (names, contents) =>
    match contents with
    | some _ => some (false, s)
    | none =>
      let r := match names.getLast? with | some r => r | none => n
      some (true, write s r v)

/-- as found (F2): the expected value is not looked at -/
def setIfEqualsLegacy (s : Store) (n : Nat) (_old : Option Nat) (new : Nat) : Bool × Store :=
  (true, write s (realName s n) new)

/-- as found (F2 + cache): `old` ignored; the packed entry is only removed when
the packed-refs cache of the container has been loaded -/
def removeIfEqualsLegacy (cacheLoaded : Bool) (s : Store) (n : Nat) (_old : Option Nat) : Bool × Store :=
  (true, if cacheLoaded then del s n else { s with loose := erase s.loose n })

/-! ### two updaters without a lock

An updater `set_if_equals(n, some o, new)` runs in two phases, as the code does:
`rd` reads the current value of the real name and decides; `wr` writes.  A
schedule interleaves the phases of the updaters. -/

structure Upd where
  name : Nat
  old : Nat
  new : Nat
  deriving DecidableEq, Repr

/-- per-updater state: not started / decided to write to a real name / finished with a result -/
inductive Phase where
  | idle
  | willWrite (r : Nat)
  | done (ok : Bool)
  deriving DecidableEq, Repr

/-- one scheduling step of updater `u` -/
def stepUpd (s : Store) (u : Upd) (p : Phase) : Store × Phase :=
  match p with
  | .idle =>
    let r := realName s u.name
    if current s r = .sha u.old then (s, .willWrite r) else (s, .done false)
  | .willWrite r => (write s r u.new, .done true)
  | .done b => (s, .done b)

/-- run a schedule (`false` = updater A moves, `true` = updater B moves) -/
def runSched (a b : Upd) : List Bool → Store × Phase × Phase → Store × Phase × Phase
  | [], st => st
  | false :: rest, (s, pa, pb) => let r := stepUpd s a pa; runSched a b rest (r.1, r.2, pb)
  | true :: rest, (s, pa, pb) => let r := stepUpd s b pb; runSched a b rest (r.1, pa, r.2)

end BreezyVerif.C37
