import BreezyVerif.Lemmas.C03Seq
import BreezyVerif.Lemmas.C03Stacked
/-
C03 — theorems.  All repositories, histories (any DAG or even cyclic parent
map, any number of ghosts), requested revisions and flags are universally
quantified; nothing is bounded.  `x` = which parents the stream source leaves
out (as found / repaired), `ext` = the target stores parent inventories,
`fg` = `find_ghosts`.
-/
namespace BreezyVerif.C03

open BreezyVerif.C33 (PMap parentsOf bfs Reach)

/-- the ancestry walk always terminates within its fuel -/
theorem anc_total (g : PMap) (start : List Rev) : (bfs g start []).isSome = true := anc_total' g start

/-- `anc` is exactly: reachable from `rev` through parents of revisions the source has, and present in the source -/
theorem anc_spec (src : Repo) (rev k : Rev) :
    k ∈ anc src rev ↔ Reach (graph src) [] [rev] k ∧ hasRev src k = true := mem_anc src rev k

/-- what the revision search returns: the source ancestry minus everything that
is (in the source) an ancestor-or-self of a revision the target has;
with `find_ghosts`: the source ancestry the target lacks -/
theorem missing_spec (src tgt : Repo) (rev k : Rev) :
    (k ∈ missing false src tgt rev ↔
      k ∈ anc src rev ∧ ¬ Reach (graph src) [] ((anc src rev).filter (hasRev tgt)) k) ∧
    (k ∈ missing true src tgt rev ↔ k ∈ anc src rev ∧ hasRev tgt k = false) :=
  ⟨mem_missing_false .., mem_missing_true ..⟩

/-- for an ancestry-closed target the search returns exactly the source ancestry the target lacks -/
theorem missing_closed (src tgt : Repo) (hc : closed tgt src = true) (fg : Bool) (rev k : Rev) :
    k ∈ missing fg src tgt rev ↔ k ∈ anc src rev ∧ hasRev tgt k = false :=
  mem_missing_closed hc fg rev k

/-- fetch never removes or changes anything the target had -/
theorem fetch_monotone (x : Exclusion) (ext fg : Bool) (src tgt t' : Repo) (rev : Rev)
    (h : fetch x ext fg src tgt rev = .ok t') :
    (∀ k v, get tgt.revs k = some v → get t'.revs k = some v) ∧
    (∀ k v, get tgt.invs k = some v → get t'.invs k = some v) ∧
    (∀ k v, get tgt.texts k = some v → get t'.texts k = some v) := by
  refine ⟨fun k v hv => ?_, fun k v hv => fetch_invs_old h hv, fun k v hv => ?_⟩
  · rw [fetch_revs_get h, hv]
  · rw [fetch_texts_get h, hv]

/-- completeness: after fetching `rev` into an ancestry-closed target, the target
holds `rev` and every ancestor the source holds (ghosts of the source excepted) -/
theorem fetch_complete (x : Exclusion) (ext fg : Bool) (src tgt t' : Repo) (rev : Rev)
    (hc : fg = true ∨ closed tgt src = true)
    (h : fetch x ext fg src tgt rev = .ok t') :
    (hasRev src rev = true → hasRev t' rev = true) ∧ ∀ k ∈ anc src rev, hasRev t' k = true := by
  have key : ∀ k ∈ anc src rev, hasRev t' k = true := by
    intro k hk
    rw [hasRev_iff]
    obtain ⟨rec, hrec⟩ := (hasRev_iff ..).mp ((mem_anc ..).mp hk).2
    rcases anc_cases_closed hc hk with hm | ht
    · refine ⟨rec, ?_⟩
      rw [fetch_revs_get h]
      have := missing_not_in_target hm
      unfold hasRev at this
      cases hg : get tgt.revs k with
      | some v => simp [hg] at this
      | none => simp [hm, hrec]
    · obtain ⟨v, hv⟩ := (hasRev_iff ..).mp ht
      exact ⟨v, (fetch_monotone x ext fg src tgt t' rev h).1 k v hv⟩
  exact ⟨fun hs => key rev (rev_mem_anc hs), key⟩

/-- `find_ghosts=True` is complete for every target -/
theorem fetch_find_ghosts_complete (x : Exclusion) (ext : Bool) (src tgt t' : Repo) (rev : Rev)
    (h : fetch x ext true src tgt rev = .ok t') : ∀ k ∈ anc src rev, hasRev t' k = true :=
  (fetch_complete x ext true src tgt t' rev (Or.inl rfl) h).2

/-- faithfulness of records: every revision of the source ancestry that the
target holds afterwards has the source's revision record and the source's inventory -/
theorem fetch_faithful (x : Exclusion) (ext fg : Bool) (src tgt t' : Repo) (rev : Rev)
    (ha : agree src tgt = true) (hcomp : complete tgt = true)
    (h : fetch x ext fg src tgt rev = .ok t') (k : Rev) (hk : k ∈ anc src rev)
    (hkt : hasRev t' k = true) :
    get t'.revs k = get src.revs k ∧ ∀ i, get src.invs k = some i → get t'.invs k = some i := by
  obtain ⟨rec, hrec⟩ := (hasRev_iff ..).mp ((mem_anc ..).mp hk).2
  cases hg : get tgt.revs k with
  | some w =>
    have hw : rec = w := agreeOn_eq (agree_revs ha) hg hrec
    subst hw
    refine ⟨by rw [fetch_revs_get h, hg, hrec], fun i hi => ?_⟩
    obtain ⟨i', hi', _⟩ := complete_inv hcomp hg
    have : i = i' := agreeOn_eq (agree_invs ha) hi' hi
    subst this
    exact fetch_invs_old h hi'
  | none =>
    have hm : k ∈ missing fg src tgt rev := by
      have := (hasRev_iff ..).mp hkt
      rw [fetch_revs_get h, hg] at this
      by_cases hm : k ∈ missing fg src tgt rev
      · exact hm
      · simp [hm] at this
    refine ⟨by rw [fetch_revs_get h, hg]; simp [hm], fun i hi => ?_⟩
    cases hti : get tgt.invs k with
    | some i' =>
      have : i = i' := agreeOn_eq (agree_invs ha) hti hi
      subst this
      exact fetch_invs_old h hti
    | none => exact fetch_invs_new h hti hm hi

/-- … hence equal testaments (byte-identical testament text is a function of this data, C41) -/
theorem fetch_testament (x : Exclusion) (ext fg : Bool) (src tgt t' : Repo) (rev : Rev)
    (ha : agree src tgt = true) (hcomp : complete tgt = true)
    (h : fetch x ext fg src tgt rev = .ok t') (k : Rev) (hk : k ∈ anc src rev)
    (hkt : hasRev t' k = true) (hsi : (get src.invs k).isSome = true) :
    testament t' k = testament src k := by
  obtain ⟨h1, h2⟩ := fetch_faithful x ext fg src tgt t' rev ha hcomp h k hk hkt
  cases hi : get src.invs k with
  | none => simp [hi] at hsi
  | some i =>
    unfold testament
    rw [h1, h2 i hi, hi]

/-- faithfulness of tree content: for every revision of the source ancestry now
in the target, every entry of its inventory has its text in the target, equal
to the source's text -/
theorem fetch_texts_faithful (x : Exclusion) (ext fg : Bool) (src tgt t' : Repo) (rev : Rev)
    (hc : fg = true ∨ closed tgt src = true) (ha : agree src tgt = true) (hcomp : complete tgt = true)
    (hx : x = .revisionPresent ∨ noOrphanInv src = true)
    (h : fetch x ext fg src tgt rev = .ok t') (k : Rev) (hk : k ∈ anc src rev)
    (i : Inv) (hi : get src.invs k = some i) (e : Entry) (he : e ∈ i) :
    ∃ c, get t'.texts e.key = some c ∧ ∀ c', get src.texts e.key = some c' → c' = c := by
  rcases anc_cases_closed hc hk with hm | ht
  · exact entry_text h hc ha hcomp hx hm hi he
  · obtain ⟨rec, hrec⟩ := (hasRev_iff ..).mp ht
    obtain ⟨i', hi', htexts⟩ := complete_inv hcomp hrec
    have : i = i' := agreeOn_eq (agree_invs ha) hi' hi
    subst this
    obtain ⟨c, hc0⟩ := htexts e he
    exact ⟨c, (fetch_monotone x ext fg src tgt t' rev h).2.2 _ _ hc0,
      fun c' hc' => agreeOn_eq (agree_texts ha) hc0 hc'⟩

/-- fetching the same revision again finds nothing missing and changes nothing -/
theorem fetch_idempotent (x : Exclusion) (ext fg : Bool) (src tgt t' : Repo) (rev : Rev)
    (h : fetch x ext fg src tgt rev = .ok t') :
    missing fg src t' rev = [] ∧ fetch x ext fg src t' rev = .ok t' := by
  have hmono := fetch_monotone x ext fg src tgt t' rev h
  have hrevmono : ∀ k, hasRev tgt k = true → hasRev t' k = true := by
    intro k hk
    obtain ⟨v, hv⟩ := (hasRev_iff ..).mp hk
    exact (hasRev_iff ..).mpr ⟨v, hmono.1 k v hv⟩
  have hsent : ∀ k ∈ missing fg src tgt rev, hasRev t' k = true := by
    intro k hk
    obtain ⟨rec, hrec⟩ := (hasRev_iff ..).mp ((mem_anc ..).mp (missing_sub_anc hk)).2
    rw [hasRev_iff, fetch_revs_get h]
    cases hg : get tgt.revs k with
    | some v => exact ⟨v, rfl⟩
    | none => exact ⟨rec, by simp [hk, hrec]⟩
  have hempty : missing fg src t' rev = [] := by
    apply List.eq_nil_iff_forall_not_mem.mpr
    intro k hk
    have hka := missing_sub_anc hk
    have hnt := missing_not_in_target hk
    rcases anc_cases (fg := fg) (tgt := tgt) hka with hm | ⟨_, ht⟩ | ⟨hfg, hr⟩
    · rw [hsent k hm] at hnt; cases hnt
    · rw [hrevmono k ht] at hnt; cases hnt
    · subst hfg
      have := ((mem_missing_false ..).mp hk).2
      apply this
      refine reach_mono (fun j hj => ?_) hr
      rw [List.mem_filter] at hj ⊢
      exact ⟨hj.1, hrevmono j hj.2⟩
  refine ⟨hempty, ?_⟩
  have hguard := (fetch_ok h).1
  unfold fetch
  rw [hempty]
  have h1 : (!hasRev src rev && (fg || !hasRev t' rev)) = false := by
    rcases hguard with hs | ⟨hfg, ht⟩
    · simp [hs]
    · simp [hfg, hrevmono rev ht]
  have h2 : streamable x src [] = true := by simp [streamable, streamEntries]
  simp only [h1, h2, Bool.false_eq_true, if_false, Bool.not_true]
  cases ext
  · simp [copy, streamEntries]
  · simp [copy, streamEntries, withParentInvs, parentInvFill]

/-- consistency: a complete (checkable) closed target stays complete — every
revision has its inventory and every text the inventory names -/
theorem fetch_consistent (x : Exclusion) (ext fg : Bool) (src tgt t' : Repo) (rev : Rev)
    (hc : fg = true ∨ closed tgt src = true) (ha : agree src tgt = true) (hcomp : complete tgt = true)
    (hx : x = .revisionPresent ∨ noOrphanInv src = true)
    (h : fetch x ext fg src tgt rev = .ok t') : complete t' = true := by
  have hmono := fetch_monotone x ext fg src tgt t' rev h
  unfold complete
  rw [List.all_eq_true]
  rintro ⟨k, rec⟩ hmem
  rw [(fetch_ok h).2.2.1] at hmem
  simp only [copy, List.mem_append, List.mem_filterMap] at hmem
  rcases hmem with hmem | ⟨m, hm, hmrec⟩
  · -- a revision the target had
    obtain ⟨v, hv⟩ : ∃ v, get tgt.revs k = some v := by
      have := get_isSome_of_mem hmem
      cases hg : get tgt.revs k with
      | none => simp [hg] at this
      | some v => exact ⟨v, rfl⟩
    obtain ⟨i, hi, htexts⟩ := complete_inv hcomp hv
    simp only [hmono.2.1 k i hi, List.all_eq_true]
    intro e he
    obtain ⟨c, hc0⟩ := htexts e he
    simp [hmono.2.2 _ _ hc0]
  · -- a revision that was sent
    cases hsr : get src.revs m with
    | none => simp [hsr] at hmrec
    | some r =>
      simp only [hsr, Option.map_some, Option.some.injEq, Prod.mk.injEq] at hmrec
      obtain ⟨hmk, _⟩ := hmrec
      subst hmk
      obtain ⟨i, hi⟩ := streamable_inv (fetch_ok h).2.1 hm
      have hinv : get t'.invs m = some i := by
        cases hti : get tgt.invs m with
        | some i' =>
          have : i = i' := agreeOn_eq (agree_invs ha) hti hi
          subst this
          exact fetch_invs_old h hti
        | none => exact fetch_invs_new h hti hm hi
      simp only [hinv, List.all_eq_true]
      intro e he
      obtain ⟨c, hc0, _⟩ := entry_text h hc ha hcomp hx hm hi he
      simp [hc0]

/-! ### why the hypotheses are needed: witnesses on concrete repositories -/

/-- source: 1 ← 2 ← 3, and 3 also has parent 2; target holds 3 with 2 as a ghost
… built so that the target is not closed -/
def wSrc : Repo :=
  { revs := [(1, ⟨[], 10⟩), (2, ⟨[1], 20⟩), (3, ⟨[2], 30⟩), (4, ⟨[3, 2], 40⟩)]
    invs := [(1, [⟨1, 1, 1, 100⟩]), (2, [⟨1, 1, 2, 200⟩]), (3, [⟨1, 1, 1, 100⟩]), (4, [⟨1, 1, 2, 200⟩])]
    texts := [((1, 1), 100), ((1, 2), 200)] }

/-- the target has 3 and 1; revision 2 (a parent of 3 … no: of 4) is absent -/
def wTgt : Repo :=
  { revs := [(1, ⟨[], 10⟩), (3, ⟨[2], 30⟩)]
    invs := [(1, [⟨1, 1, 1, 100⟩]), (3, [⟨1, 1, 1, 100⟩])]
    texts := [((1, 1), 100)] }

/-- Without closure (the target holds 3 whose parent 2 is a ghost there, the
source has 2) a plain fetch of 4 does not fill 2, and — because the stream leaves
out what parent 2's inventory has — the copied revision 4 lacks its text
`(1, 2)`: neither completeness nor consistency holds.  `find_ghosts` repairs it. -/
theorem fetch_ghost_not_filled_witness :
    closed wTgt wSrc = false ∧ agree wSrc wTgt = true ∧ complete wTgt = true ∧ noOrphanInv wSrc = true ∧
    (fetchResult .revisionPresent false false wSrc wTgt 4).map
        (fun t' => (hasRev t' 4, hasRev t' 2, get t'.texts (1, 2), complete t')) = some (true, false, none, false) ∧
    (fetchResult .revisionPresent false true wSrc wTgt 4).map
        (fun t' => (hasRev t' 2, complete t')) = some (true, true) := by
  decide +kernel

/-- source with a stored parent inventory of a ghost: revision 3 is absent, its inventory present -/
def oSrc : Repo :=
  { revs := [(1, ⟨[], 10⟩), (4, ⟨[1, 3], 40⟩)]
    invs := [(1, [⟨1, 1, 1, 100⟩, ⟨2, 2, 1, 300⟩]), (3, [⟨1, 1, 3, 500⟩, ⟨2, 2, 1, 300⟩]),
             (4, [⟨1, 1, 4, 400⟩, ⟨2, 2, 1, 300⟩])]
    texts := [((1, 1), 100), ((2, 1), 300), ((1, 4), 400)] }

/-- The defect found at the pinned commit (`Exclusion.asFound`): fetching into an
EMPTY (hence closed, complete) target from a source that holds the inventory of
a ghost parent gives revisions without their texts; with the repaired exclusion
the same fetch is complete. -/
theorem fetch_orphan_inventory_witness :
    closed emptyRepo oSrc = true ∧ agree oSrc emptyRepo = true ∧ complete emptyRepo = true ∧
    noOrphanInv oSrc = false ∧
    (fetchResult .asFound true false oSrc emptyRepo 4).map
        (fun t' => (hasRev t' 1, get t'.texts (2, 1), complete t')) = some (true, none, false) ∧
    (fetchResult .revisionPresent true false oSrc emptyRepo 4).map complete = some true := by
  decide +kernel

/-! ### non-vacuity: the hypotheses hold on a non-trivial case and the fetch copies something -/

/-- a merge history with a ghost (9), a target that already holds part of it -/
def eSrc : Repo :=
  { revs := [(1, ⟨[], 10⟩), (2, ⟨[1], 20⟩), (3, ⟨[1, 9], 30⟩), (4, ⟨[2, 3], 40⟩)]
    invs := [(1, [⟨1, 1, 1, 100⟩]), (2, [⟨1, 1, 2, 200⟩]), (3, [⟨1, 1, 1, 100⟩, ⟨2, 2, 3, 300⟩]),
             (4, [⟨1, 1, 2, 200⟩, ⟨2, 2, 3, 300⟩])]
    texts := [((1, 1), 100), ((1, 2), 200), ((2, 3), 300)] }

def eTgt : Repo :=
  { revs := [(1, ⟨[], 10⟩), (2, ⟨[1], 20⟩)]
    invs := [(1, [⟨1, 1, 1, 100⟩]), (2, [⟨1, 1, 2, 200⟩])]
    texts := [((1, 1), 100), ((1, 2), 200)] }

example : closed eTgt eSrc = true ∧ agree eSrc eTgt = true ∧ complete eTgt = true ∧ noOrphanInv eSrc = true ∧
    missing false eSrc eTgt 4 = [4, 3] ∧ anc eSrc 4 = [4, 2, 3, 1] ∧
    (fetchResult .asFound true false eSrc eTgt 4).map (fun t' => (complete t', get t'.texts (2, 3))) =
      some (true, some 300) ∧
    (testament eSrc 4).isSome = true := by
  decide +kernel

example : (fetchResult .asFound true false eSrc eTgt 4).bind (fun t' => testament t' 4) = testament eSrc 4 := by
  rfl

example : fetchError .asFound true false eSrc eTgt 9 = some .noSuchRevision := by decide +kernel

/-! ## histories of any length: the batched walk (`_walk_to_common_revisions_batch_size = n ≥ 1`) -/

/-- the batched walk always terminates within its fuel -/
theorem walkB_total (g : PMap) (has : Rev → Bool) (n : Nat) (hn : 0 < n) (start : Rev) :
    (walkB g has n start).isSome = true := by
  obtain ⟨w, hw, _⟩ := walkB_some (g := g) (has := has) (start := start) hn
  simp [hw]

/-- whatever the batch size, the search returns only source-present ancestors the target lacks -/
theorem missingB_sound (n : Nat) (hn : 0 < n) (fg : Bool) (src tgt : Repo) (rev k : Rev)
    (h : k ∈ missingB n fg src tgt rev) : k ∈ anc src rev ∧ hasRev tgt k = false :=
  ⟨missingB_sub_anc hn h, missingB_not_in_target hn h⟩

/-- whatever the batch size, an ancestor that is not returned is held by the target
(`find_ghosts`) or lies behind (or is) a revision of the ancestry that the target holds -/
theorem missingB_behind (n : Nat) (hn : 0 < n) (fg : Bool) (src tgt : Repo) (rev k : Rev) (hk : k ∈ anc src rev) :
    k ∈ missingB n fg src tgt rev ∨ (fg = true ∧ hasRev tgt k = true) ∨
      (fg = false ∧ Reach (graph src) [] ((anc src rev).filter (hasRev tgt)) k) :=
  anc_casesB hn hk

/-- for an ancestry-closed target every batch size returns exactly the source ancestry the target lacks -/
theorem missingB_closed (n : Nat) (hn : 0 < n) (src tgt : Repo) (hc : closed tgt src = true) (fg : Bool) (rev k : Rev) :
    k ∈ missingB n fg src tgt rev ↔ k ∈ anc src rev ∧ hasRev tgt k = false := by
  constructor
  · exact missingB_sound n hn fg src tgt rev k
  · rintro ⟨hk, ht⟩
    rcases anc_casesB_closed hn (fg := fg) (Or.inr hc) hk with h | h
    · exact h
    · rw [ht] at h; cases h

/-- a search for a revision the target holds returns nothing, whatever the batch size -/
theorem missingB_held_nil (n : Nat) (hn : 0 < n) (src tgt : Repo) (rev : Rev) (ht : hasRev tgt rev = true) :
    missingB n false src tgt rev = [] := missingB_nil_of_held hn ht

/-- source 1 ← 4, 1 ← 5, {5, 4} ← 6; the target holds 5 without its parent 1 -/
def bSrc : Repo :=
  { revs := [(1, ⟨[], 10⟩), (4, ⟨[1], 40⟩), (5, ⟨[1], 50⟩), (6, ⟨[5, 4], 60⟩)]
    invs := [(1, [⟨1, 1, 1, 100⟩]), (4, [⟨1, 1, 4, 400⟩]), (5, [⟨1, 1, 5, 500⟩]), (6, [⟨1, 1, 6, 600⟩])]
    texts := [((1, 1), 100), ((1, 4), 400), ((1, 5), 500), ((1, 6), 600)] }

def bTgt : Repo :=
  { revs := [(5, ⟨[1], 50⟩)], invs := [(5, [⟨1, 1, 5, 500⟩])], texts := [((1, 5), 500)] }

/-- With more than one batch the result depends on the layering: for a target
that is not ancestry-closed a small batch fills the ghost (revision 1 is reached
through 4 after 5 was stopped), one big batch does not (1 had been seen when 5
was checked).  Both answers satisfy `missingB_sound` / `missingB_behind`. -/
theorem missingB_batch_matters_witness :
    closed bTgt bSrc = false ∧
    missingB 1 false bSrc bTgt 6 = [6, 4, 1] ∧ missingB 50 false bSrc bTgt 6 = [6, 4] ∧
    missing false bSrc bTgt 6 = [6, 4] := by
  decide +kernel

/-- `fetchB` (either kind of copy) never removes or changes anything the target had -/
theorem fetchB_monotone (n : Nat) (s : StreamKind) (ext fg : Bool) (src tgt t' : Repo) (rev : Rev)
    (h : fetchB n s ext fg src tgt rev = .ok t') :
    (∀ k v, get tgt.revs k = some v → get t'.revs k = some v) ∧
    (∀ k v, get tgt.invs k = some v → get t'.invs k = some v) ∧
    (∀ k v, get tgt.texts k = some v → get t'.texts k = some v) :=
  fetchWith_monotone (fetchB_ok h).2

/-- completeness for every history length, batch size and kind of copy -/
theorem fetchB_complete (n : Nat) (hn : 0 < n) (s : StreamKind) (ext fg : Bool) (src tgt t' : Repo) (rev : Rev)
    (hc : fg = true ∨ closed tgt src = true)
    (h : fetchB n s ext fg src tgt rev = .ok t') :
    (hasRev src rev = true → hasRev t' rev = true) ∧ ∀ k ∈ anc src rev, hasRev t' k = true := by
  have key := fetchWith_complete (searchOK_missingB hn fg src tgt rev) hc (fetchB_ok h).2
  exact ⟨fun hs => key rev (rev_mem_anc hs), key⟩

/-- faithfulness of records for every history length, batch size and kind of copy -/
theorem fetchB_faithful (n : Nat) (hn : 0 < n) (s : StreamKind) (ext fg : Bool) (src tgt t' : Repo) (rev : Rev)
    (ha : agree src tgt = true) (hcomp : complete tgt = true)
    (h : fetchB n s ext fg src tgt rev = .ok t') (k : Rev) (hk : k ∈ anc src rev)
    (hkt : hasRev t' k = true) :
    get t'.revs k = get src.revs k ∧ ∀ i, get src.invs k = some i → get t'.invs k = some i :=
  fetchWith_faithful (searchOK_missingB hn fg src tgt rev) ha hcomp (fetchB_ok h).2 k hk hkt

/-- … hence equal testament data -/
theorem fetchB_testament (n : Nat) (hn : 0 < n) (s : StreamKind) (ext fg : Bool) (src tgt t' : Repo) (rev : Rev)
    (ha : agree src tgt = true) (hcomp : complete tgt = true)
    (h : fetchB n s ext fg src tgt rev = .ok t') (k : Rev) (hk : k ∈ anc src rev)
    (hkt : hasRev t' k = true) (hsi : (get src.invs k).isSome = true) :
    testament t' k = testament src k := by
  obtain ⟨h1, h2⟩ := fetchB_faithful n hn s ext fg src tgt t' rev ha hcomp h k hk hkt
  cases hi : get src.invs k with
  | none => simp [hi] at hsi
  | some i =>
    unfold testament
    rw [h1, h2 i hi, hi]

/-- faithfulness of tree content for every history length and batch size, for the
stream sources (`filtered x`) and for `InterDifferingSerializer` (`perRevision`,
acyclic histories: `kindOK`) -/
theorem fetchB_texts_faithful (n : Nat) (hn : 0 < n) (s : StreamKind) (ext fg : Bool) (src tgt t' : Repo) (rev : Rev)
    (hc : fg = true ∨ closed tgt src = true) (ha : agree src tgt = true) (hcomp : complete tgt = true)
    (d : Rev → Nat) (hx : kindOK s d src = true)
    (h : fetchB n s ext fg src tgt rev = .ok t') (k : Rev) (hk : k ∈ anc src rev)
    (i : Inv) (hi : get src.invs k = some i) (e : Entry) (he : e ∈ i) :
    ∃ c, get t'.texts e.key = some c ∧ ∀ c', get src.texts e.key = some c' → c' = c :=
  have hok := searchOK_missingB hn fg src tgt rev
  fetchWith_texts_faithful hok (streamOK_kind hok hc ha hcomp d hx) hc ha hcomp (fetchB_ok h).2 k hk i hi e he

/-- consistency for every history length, batch size and kind of copy -/
theorem fetchB_consistent (n : Nat) (hn : 0 < n) (s : StreamKind) (ext fg : Bool) (src tgt t' : Repo) (rev : Rev)
    (hc : fg = true ∨ closed tgt src = true) (ha : agree src tgt = true) (hcomp : complete tgt = true)
    (d : Rev → Nat) (hx : kindOK s d src = true)
    (h : fetchB n s ext fg src tgt rev = .ok t') : complete t' = true :=
  have hok := searchOK_missingB hn fg src tgt rev
  fetchWith_consistent (streamOK_kind hok hc ha hcomp d hx) ha hcomp (fetchB_ok h).2

/-- source 1 ← 2 ← 3 where 2 ← 3 is also a cycle 3 ← 2: with a cyclic parent map
the per-revision selection sends neither copy of a text two revisions share -/
def cSrc : Repo :=
  { revs := [(2, ⟨[3], 20⟩), (3, ⟨[2], 30⟩)]
    invs := [(2, [⟨1, 1, 2, 200⟩]), (3, [⟨1, 1, 2, 200⟩])]
    texts := [((1, 2), 200)] }

/-- why `perRevision` needs an acyclic history (the stream sources do not): in a
cyclic parent map every revision's entry is "already in a parent", nothing is
sent, and the copied revisions lack their text -/
theorem perRevision_cyclic_witness :
    closed emptyRepo cSrc = true ∧ noOrphanInv cSrc = true ∧ complete cSrc = true ∧
    (match fetchB 50 .perRevision false false cSrc emptyRepo 3 with
      | .ok t' => (hasRev t' 3, get t'.texts (1, 2), complete t') | .error _ => (false, none, true)) =
      (true, none, false) ∧
    (match fetchB 50 (.filtered .asFound) false false cSrc emptyRepo 3 with
      | .ok t' => complete t' | .error _ => false) = true := by
  decide +kernel

/-- Idempotence for every batch size: once the requested revision has arrived, a
second identical fetch finds nothing missing and changes nothing.  (That the
revision arrives follows from `fetchB_complete` for closed targets and from
`fetchB_idempotent_acyclic` for every acyclic history; in a cyclic parent map a
target holding a "descendant" of `rev` can make the walk stop before copying it.) -/
theorem fetchB_idempotent (n : Nat) (hn : 0 < n) (s : StreamKind) (ext fg : Bool) (src tgt t' : Repo) (rev : Rev)
    (h : fetchB n s ext fg src tgt rev = .ok t') (hrev : hasRev src rev = true → hasRev t' rev = true) :
    missingB n fg src t' rev = [] ∧ fetchB n s ext fg src t' rev = .ok t' :=
  fetchB_again hn h hrev

/-- for every acyclic history (`d` = any numbering decreasing towards the parents)
and every target: the requested revision arrives and a second fetch is a no-op -/
theorem fetchB_idempotent_acyclic (n : Nat) (hn : 0 < n) (s : StreamKind) (ext fg : Bool) (src tgt t' : Repo)
    (rev : Rev) (d : Rev → Nat) (hacyc : acyclicBy d src = true)
    (h : fetchB n s ext fg src tgt rev = .ok t') :
    (hasRev src rev = true → hasRev t' rev = true) ∧
    missingB n fg src t' rev = [] ∧ fetchB n s ext fg src t' rev = .ok t' :=
  ⟨fetchB_rev_arrives hn d hacyc h, fetchB_again hn h (fetchB_rev_arrives hn d hacyc h)⟩

/-! ## the hypotheses are invariants: sequences of fetches -/

/-- a fetch preserves ancestry-closure of the target w.r.t. its source -/
theorem fetchB_preserves_closed (n : Nat) (hn : 0 < n) (s : StreamKind) (ext fg : Bool) (src tgt t' : Repo) (rev : Rev)
    (hd : distinctRevs src = true) (hc : closed tgt src = true)
    (h : fetchB n s ext fg src tgt rev = .ok t') : closed t' src = true :=
  fetchWith_closed (searchOK_missingB hn fg src tgt rev) hd hc (fetchB_ok h).2

/-- a fetch preserves "ids identify content" -/
theorem fetchB_preserves_agree (n : Nat) (s : StreamKind) (ext fg : Bool) (src tgt t' : Repo) (rev : Rev)
    (ha : agree src tgt = true) (h : fetchB n s ext fg src tgt rev = .ok t') : agree src t' = true :=
  fetchWith_agree ha (fetchB_ok h).2

/-- the same two facts for the one-batch model `fetch` -/
theorem fetch_preserves_closed (x : Exclusion) (ext fg : Bool) (src tgt t' : Repo) (rev : Rev)
    (hd : distinctRevs src = true) (hc : closed tgt src = true)
    (h : fetch x ext fg src tgt rev = .ok t') : closed t' src = true :=
  fetchWith_closed (searchOK_missing fg src tgt rev) hd hc (fetch_ok' h)

theorem fetch_preserves_agree (x : Exclusion) (ext fg : Bool) (src tgt t' : Repo) (rev : Rev)
    (ha : agree src tgt = true) (h : fetch x ext fg src tgt rev = .ok t') : agree src t' = true :=
  fetchWith_agree ha (fetch_ok' h)

/-- Closure, agreement and completeness are invariants of any sequence of fetches
`(rev, find_ghosts)` from one source (failed fetches included), and nothing the
target held is ever removed or changed. -/
theorem fetchSeq_invariant (n : Nat) (hn : 0 < n) (s : StreamKind) (ext : Bool) (src t : Repo)
    (d : Rev → Nat) (hx : kindOK s d src = true) (hd : distinctRevs src = true)
    (hc : closed t src = true) (ha : agree src t = true) (hcomp : complete t = true)
    (ops : List (Rev × Bool)) :
    closed (fetchSeq n s ext src t ops) src = true ∧ agree src (fetchSeq n s ext src t ops) = true ∧
    complete (fetchSeq n s ext src t ops) = true ∧
    (∀ k v, get t.revs k = some v → get (fetchSeq n s ext src t ops).revs k = some v) :=
  have h := fetchSeq_inv hn d hx hd ops t ⟨hc, ha, hcomp⟩
  ⟨h.1, h.2.1, h.2.2, (fetchSeq_monotone n s ext src ops t).1⟩

/-- End to end, without any hypothesis on the target: a repository filled from
empty by ANY sequence of fetches (any revisions, any `find_ghosts` flags, any
batch size, any history length, either kind of copy) from a consistent source
holds, for every requested revision the source has, the revision and every
source-present ancestor with the source's revision record, the source's
inventory, and every text the inventory names, equal to the source's text. -/
theorem fetchSeq_from_empty (n : Nat) (hn : 0 < n) (s : StreamKind) (ext : Bool) (src : Repo)
    (d : Rev → Nat) (hx : kindOK s d src = true) (hd : distinctRevs src = true)
    (hcs : complete src = true) (ops : List (Rev × Bool))
    (rev : Rev) (fg : Bool) (hop : (rev, fg) ∈ ops) (hs : hasRev src rev = true) (k : Rev) (hk : k ∈ anc src rev) :
    get (fetchSeq n s ext src emptyRepo ops).revs k = get src.revs k ∧ (get src.revs k).isSome = true ∧
    ∀ i, get src.invs k = some i → get (fetchSeq n s ext src emptyRepo ops).invs k = some i ∧
      ∀ e ∈ i, ∃ c, get (fetchSeq n s ext src emptyRepo ops).texts e.key = some c ∧
        ∀ c', get src.texts e.key = some c' → c' = c :=
  fetchSeq_holds hn d hx hd hcs ops emptyRepo (seqInv_empty src) (rev, fg) hop hs k hk

/-! ## per-file history -/

/-- Per-file history: after a fetch, the text of every entry of every inventory
of the source ancestry has, in the target, the per-file parents it has in the source. -/
theorem fetchBH_perfile_faithful (n : Nat) (hn : 0 < n) (s : StreamKind) (ext fg : Bool) (src tgt t' : RepoH) (rev : Rev)
    (hc : fg = true ∨ closed tgt.repo src.repo = true) (ha : agree src.repo tgt.repo = true)
    (hcomp : complete tgt.repo = true) (d : Rev → Nat) (hx : kindOK s d src.repo = true)
    (hap : agreeOn src.tpar tgt.tpar = true) (htp : textsHaveParents tgt = true) (hsp : textsHaveParents src = true)
    (h : fetchBH n s ext fg src tgt rev = .ok t') (k : Rev) (hk : k ∈ anc src.repo rev)
    (i : Inv) (hi : get src.repo.invs k = some i) (e : Entry) (he : e ∈ i) :
    ∃ ps, get t'.tpar e.key = some ps ∧ ∀ ps', get src.tpar e.key = some ps' → ps' = ps :=
  have hok := searchOK_missingB hn fg src.repo tgt.repo rev
  fetchWithH_perfile hok (streamOK_kind hok hc ha hcomp d hx) hc ha hcomp hap htp hsp (fetchBH_ok h) k hk i hi e he

/-! ### non-vacuity of the new hypotheses -/

def eSrcH : RepoH := ⟨eSrc, [((1, 1), []), ((1, 2), [1]), ((2, 3), [])]⟩
def eTgtH : RepoH := ⟨eTgt, [((1, 1), []), ((1, 2), [1])]⟩

example : distinctRevs eSrc = true ∧ complete eSrc = true ∧ acyclicBy (fun k => if k = 9 then 0 else k) eSrc = true ∧
    kindOK .perRevision (fun k => if k = 9 then 0 else k) eSrc = true ∧ kindOK (.filtered .asFound) id eSrc = true ∧
    agreeOn eSrcH.tpar eTgtH.tpar = true ∧ textsHaveParents eTgtH = true ∧ textsHaveParents eSrcH = true ∧
    missingB 2 false eSrc eTgt 4 = [4, 3] ∧
    (match fetchBH 2 (.filtered .asFound) true false eSrcH eTgtH 4 with
      | .ok t' => (complete t'.repo, get t'.tpar (2, 3), get t'.tpar (1, 2))
      | .error _ => (false, none, none)) = (true, some [], some [1]) := by
  decide +kernel

/-- a sequence from empty: fetch 2, a revision nobody has, then 4 with `find_ghosts` -/
example : (fetchSeq 2 (.filtered .asFound) true eSrc emptyRepo [(2, false), (7, false), (4, true)]).revs.map (·.1) = [2, 1, 4, 3] ∧
    complete (fetchSeq 2 (.filtered .asFound) true eSrc emptyRepo [(2, false), (7, false), (4, true)]) = true ∧
    complete (fetchSeq 1 .perRevision false eSrc emptyRepo [(2, false), (7, false), (4, true)]) = true := by
  decide +kernel

/-! ## a source stacked on a fallback, served over the smart server -/

/-- Fetching from a stacked source is fetching from the union: the chain of
streams (`RemoteStreamSource.missing_parents_chain`: the stacked repository's
server recreates the search in its own graph, the client refines the search by
what it saw and what that REFERENCES, the fallback's server recreates the
refined search) delivers exactly the revisions the search stands for in the
union graph - for every search (start keys, exclude keys), every history, and
every split into a stacked part and a self-contained fallback. -/
theorem stacked_chain_eq_union (st fb : Repo) (hd : disjointRevs st fb = true) (hc : fallbackClosed st fb = true)
    (start excl : List Rev) (k : Rev) :
    (k ∈ (chainRevs .allParents st fb start excl).1 ∨ k ∈ (chainRevs .allParents st fb start excl).2) ↔
      k ∈ served (unionRepo st fb) start excl :=
  chain_mem_iff st fb hd hc start excl k

/-- … and the revision records and inventories the chain inserts are those a fetch of the same revisions from the union inserts -/
theorem stacked_chain_records_eq_union (st fb tgt : Repo) (hd : disjointRevs st fb = true)
    (hai : agreeOn st.invs fb.invs = true)
    (m1 m2 m : List Rev) (hm1 : ∀ k ∈ m1, hasRev st k = true ∧ (get st.invs k).isSome = true)
    (hm2 : ∀ k ∈ m2, hasRev fb k = true ∧ (get fb.invs k).isSome = true)
    (hm : ∀ k, k ∈ m ↔ k ∈ m1 ∨ k ∈ m2) (k : Rev) :
    get (chainCopy st fb tgt m1 m2).revs k = get (copyE (unionRepo st fb) tgt m []).revs k ∧
    get (chainCopy st fb tgt m1 m2).invs k = get (copyE (unionRepo st fb) tgt m []).invs k :=
  chainCopy_eq_union st fb tgt hd hai m1 m2 m hm1 hm2 hm k

/-- trunk 1 ← 2 ← 3 (fallback); feature 4 = [1], 5 = merge [4, 3], 6 = [5] (stacked on trunk) -/
def sFb : Repo :=
  { revs := [(1, ⟨[], 10⟩), (2, ⟨[1], 20⟩), (3, ⟨[2], 30⟩)]
    invs := [(1, []), (2, []), (3, [])], texts := [] }

def sSt : Repo :=
  { revs := [(4, ⟨[1], 40⟩), (5, ⟨[4, 3], 50⟩), (6, ⟨[5], 60⟩)]
    invs := [(4, []), (5, []), (6, []), (3, []), (1, [])], texts := [] }

/-- Why the client must record ALL parents of the streamed revisions: if it
records only the left-hand one, a merge in the stacked part whose right-hand
parent lives only in the fallback (feature merges trunk) makes the chain miss
the trunk-only revisions 2 and 3, although the search stands for them. -/
theorem chain_left_parent_only_witness :
    disjointRevs sSt sFb = true ∧ fallbackClosed sSt sFb = true ∧ agreeOn sSt.invs sFb.invs = true ∧
    served (unionRepo sSt sFb) [6] [] = [6, 5, 4, 3, 1, 2] ∧
    chainRevs .allParents sSt sFb [6] [] = ([6, 5, 4], [3, 1, 2]) ∧
    chainRevs .leftHandOnly sSt sFb [6] [] = ([6, 5, 4], [1]) := by
  decide +kernel

end BreezyVerif.C03
