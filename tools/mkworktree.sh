#!/bin/sh
# tools/mkworktree.sh NAME  -> scratch git worktree of /repo at /var/tmp/wt-NAME,
# usable as VERIF_REPO (prebuilt extension modules copied in).  Remove with
# tools/rmworktree.sh NAME as soon as you are done.
set -e
d=/var/tmp/wt-$1
git -C /repo worktree add --detach -f "$d" HEAD >/dev/null 2>&1
cp /repo/breezy/*.so "$d/breezy/"
echo "$d"
