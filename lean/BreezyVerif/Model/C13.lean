/-
C13 — applying a tree transform is all-or-nothing on the file system.

Model of `breezy/transform.py: _FileMover` (rename journal, `pre_delete`,
`rollback`, `apply_deletions`) and of the phase structure of
`InventoryTreeTransform.apply` / `GitTreeTransform.apply`, over a small POSIX
file-system model (paths = component lists, `os.rename` with its error and
silent-clobber behaviour, recursive `delete_any`).
-/
namespace BreezyVerif.C13

abbrev Path := List String

inductive Node where
  | file (content : String)
  | dir
  | link (target : String)
  deriving DecidableEq, Repr

/-- a file system: association list path ↦ node, first match wins; `[]` is the
tree root -/
abbrev FS := List (Path × Node)

def get (fs : FS) (p : Path) : Option Node := (fs.find? (fun e => e.1 == p)).map (·.2)

/-- is there any entry at or below `b`? -/
def keysUnder (fs : FS) (b : Path) : Bool := fs.any (fun e => b.isPrefixOf e.1)

/-- is there an entry strictly below `b`? -/
def hasChildren (fs : FS) (b : Path) : Bool := fs.any (fun e => b.isPrefixOf e.1 && e.1 != b)

/-- re-key everything at or below `a` to the same place below `b` -/
def moveL (fs : FS) (a b : Path) : FS :=
  fs.map fun e => if a.isPrefixOf e.1 then (b ++ e.1.drop a.length, e.2) else e

/-- remove everything at or below `p` (`osutils.delete_any` / `rmtree`) -/
def deleteAny (fs : FS) (p : Path) : FS := fs.filter fun e => !p.isPrefixOf e.1

inductive Err where
  | enoent | eexist | enotempty | einval | enotdir | eisdir | injected
  deriving DecidableEq, Repr

def Err.toString : Err → String
  | .enoent => "ENOENT" | .eexist => "EEXIST" | .enotempty => "ENOTEMPTY"
  | .einval => "EINVAL" | .enotdir => "ENOTDIR" | .eisdir => "EISDIR" | .injected => "INJECTED"

/-- the errno of a failed parent lookup: the first proper prefix of `p` that is
missing (or a dangling symlink) gives ENOENT, a regular file gives ENOTDIR -/
def parentErr (fs : FS) (p : Path) : Err :=
  ((List.range p.length).findSome? fun i =>
    match get fs (p.take i) with
    | some .dir => none
    | some (.file _) => some Err.enotdir
    | _ => some Err.enoent).getD .enoent

/-- `os.rename(a, b)` on POSIX: resolve the old path, then the new one.  The
parent of an existing source is a directory on any real file system; the model
answers with the lookup error otherwise, so that it is total on ill-formed
states too. -/
def rename (fs : FS) (a b : Path) : Except Err FS :=
  if a = [] ∨ b = [] then .error .einval
  else if get fs a.dropLast ≠ some .dir then .error (parentErr fs a)
  else match get fs a with
    | none => .error .enoent
    | some na =>
      if get fs b.dropLast ≠ some .dir then .error (parentErr fs b)
      else if a = b then .ok fs
      else if a.isPrefixOf b then .error .einval
      else match get fs b with
        | none => if keysUnder fs b then .error .enotempty else .ok (moveL fs a b)
        | some nb =>
          match na, nb with
          | .dir, .dir =>
            if hasChildren fs b then .error .enotempty else .ok (moveL (deleteAny fs b) a b)
          | .dir, _ => .error .enotdir
          | _, .dir => .error .eisdir
          | _, _ => .ok (moveL (deleteAny fs b) a b)   -- silent replacement

/-- the journal of `_FileMover` -/
structure Mover where
  fs : FS
  past : List (Path × Path) := []
  pending : List Path := []

inductive Op where
  /-- `mover.rename(a, b)` from `_apply_removals` / `_apply_insertions`; the
  caller swallows `ENOENT` -/
  | rename (a b : Path)
  /-- `mover.pre_delete(a, b)` -/
  | preDelete (a b : Path)
  deriving DecidableEq, Repr

def Op.src : Op → Path | .rename a _ => a | .preDelete a _ => a
def Op.dst : Op → Path | .rename _ b => b | .preDelete _ b => b
def Op.isPre : Op → Bool | .rename _ _ => false | .preDelete _ _ => true

/-- one mover operation; `.error` = the exception that propagates to `apply`.
A plain rename that fails with ENOENT is swallowed by the caller
(`if e.errno != errno.ENOENT: raise`). -/
def Mover.step (m : Mover) (op : Op) : Except Err Mover :=
  match rename m.fs op.src op.dst with
  | .ok fs' =>
    .ok { fs := fs', past := m.past ++ [(op.src, op.dst)],
          pending := if op.isPre then m.pending ++ [op.dst] else m.pending }
  | .error e => if e = .enoent ∧ op.isPre = false then .ok m else .error e

/-- run the removal + insertion phases; `fault = some k` makes the k-th mover
call raise before it does anything.  Returns the mover reached and the error
raised, if any. -/
def runOps (m : Mover) : List Op → Option Nat → Mover × Option Err
  | [], _ => (m, none)
  | op :: rest, fault =>
    if fault = some 0 then (m, some .injected)
    else match m.step op with
      | .ok m' => runOps m' rest (fault.map (· - 1))
      | .error e => (m, some e)

/-- `_FileMover.rollback`: undo the journal in reverse -/
def rollback (fs : FS) : List (Path × Path) → Except Err FS
  | [] => .ok fs
  | (a, b) :: rest =>
    -- `rest` are the later renames: undo them first
    match rollback fs rest with
    | .ok fs' => rename fs' b a
    | .error e => .error e

/-- every rename that is executed finds nothing at or below its target -/
def noClobber (m : Mover) : List Op → Option Nat → Bool
  | [], _ => true
  | op :: rest, fault =>
    if fault = some 0 then true
    else match m.step op with
      | .ok m' =>
        (match rename m.fs op.src op.dst with
          | .ok _ => op.src != op.dst && !keysUnder m.fs op.dst
          | .error _ => true) && noClobber m' rest (fault.map (· - 1))
      | .error _ => true

/-- `apply_deletions` with a fault before the j-th deletion -/
def runDeletions (fs : FS) : List Path → Option Nat → FS × Bool
  | [], _ => (fs, false)
  | p :: rest, fault =>
    if fault = some 0 then (fs, true)
    else runDeletions (deleteAny fs p) rest (fault.map (· - 1))

inductive Meta where | old | new
  deriving DecidableEq, Repr

/-- which of "discard replaced content" and "update the versioning metadata"
`apply` performs first (regenerated from the source by T1) -/
inductive Order where | deletionsFirst | metadataFirst
  deriving DecidableEq, Repr

structure Outcome where
  fs : FS
  md : Meta
  raised : Option Err
  rollbackFailed : Bool := false

/-- `apply`: removals + insertions (rollback on any exception), then deletions
and metadata update in the given order.  `fault1` hits a mover call, `fault2` a
deletion. -/
def apply (order : Order) (fs : FS) (ops : List Op) (fault1 fault2 : Option Nat) : Outcome :=
  match runOps { fs := fs } ops fault1 with
  | (m, some e) =>
    match rollback m.fs m.past with
    | .ok fs' => { fs := fs', md := .old, raised := some e }
    | .error _ => { fs := m.fs, md := .old, raised := some e, rollbackFailed := true }
  | (m, none) =>
    match runDeletions m.fs m.pending fault2 with
    | (fs', true) =>
      { fs := fs', md := (match order with | .deletionsFirst => .old | .metadataFirst => .new),
        raised := some .injected }
    | (fs', false) => { fs := fs', md := .new, raised := none }

end BreezyVerif.C13
