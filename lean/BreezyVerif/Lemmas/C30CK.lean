import BreezyVerif.Lemmas.C30LP
import BreezyVerif.Lemmas.C29CK
/-! the five laws for ChunkedBodyDecoder -/
namespace BreezyVerif.C30
open BreezyVerif.C29

def ckWf : CK → Prop
  | .expectingHeader buf => (10 : UInt8) ∉ buf
  | .expectingLength buf _ => (10 : UInt8) ∉ buf
  | .readingChunk l _ _ => 0 < l
  | _ => True

theorem ckWf_lengthStep (b : Bytes) (acc : CKAcc) : ckWf (CK.lengthStep b acc) := by
  induction hn : b.length using Nat.strongRecOn generalizing b acc with
  | _ n ih =>
    subst hn
    cases h : splitLine b with
    | none => rw [CK.lengthStep_none acc h]; exact splitLine_none_notMem h
    | some lr =>
      obtain ⟨line, rest⟩ := lr
      have hlt := splitLine_length h
      rw [CK.lengthStep_some acc h]
      split
      · exact ih _ hlt _ _ rfl
      · split
        · trivial
        · split
          · trivial
          · split
            · exact ih _ (by simp; omega) _ _ rfl
            · show 0 < _ - rest.length; omega

theorem ckWf_feed (s : CK) (x : Bytes) (_h : ckWf s) : ckWf (s.feed x) := by
  cases s with
  | expectingHeader buf =>
    rw [CK.feed_eH]; unfold CK.headerStep
    split
    · rename_i h; exact splitLine_none_notMem h
    · split
      · exact ckWf_lengthStep _ _
      · trivial
  | expectingLength buf acc => exact ckWf_lengthStep _ _
  | readingChunk l cur acc =>
    rw [CK.feed_rC]
    split
    · exact ckWf_lengthStep _ _
    · show 0 < l - x.length; omega
  | done cs u => trivial
  | failed e => trivial

theorem ck_lengthStep_fin (b : Bytes) (acc : CKAcc) (h : (CK.lengthStep b acc).finished = true) :
    ∃ line rest, splitLine b = some (line, rest) ∧
      4 + (CK.lengthStep b acc).unused.length ≤ b.length ∧
      (CK.lengthStep b acc).unused.length ≤ rest.length := by
  induction hn : b.length using Nat.strongRecOn generalizing b acc with
  | _ n ih =>
    subst hn
    cases hs : splitLine b with
    | none => rw [CK.lengthStep_none acc hs] at h; simp [CK.finished] at h
    | some lr =>
      obtain ⟨line, rest⟩ := lr
      have hlt := splitLine_length hs
      obtain ⟨e, _⟩ := splitLine_some_eq hs
      have hlen : b.length = line.length + 1 + rest.length := by
        have := congrArg List.length e; simp at this; omega
      refine ⟨line, rest, rfl, ?_⟩
      rw [CK.lengthStep_some acc hs] at h ⊢
      by_cases hE : line = errLine
      · simp only [hE, if_true] at h ⊢
        obtain ⟨_, _, _, h4, _⟩ := ih _ hlt rest _ h rfl
        omega
      · by_cases hD : line = endLine
        · subst hD
          simp only [show endLine ≠ errLine by decide, if_true, if_false, CK.unused]
          simp [endLine] at hlen
          omega
        · simp only [hE, hD, if_false] at h ⊢
          cases hp : parseNat 16 line with
          | none => simp [hp, CK.finished] at h
          | some m =>
            simp only [hp] at h ⊢
            by_cases hle : m ≤ rest.length
            · simp only [hle, if_true] at h ⊢
              obtain ⟨_, _, _, h4, _⟩ := ih _ (by simp; omega) (rest.drop m) _ h rfl
              simp only [List.length_drop] at h4
              omega
            · simp [hle, CK.finished] at h

theorem ckLaws : Laws ckMachine ckWf where
  append := CK.feed_append
  wf_feed := ckWf_feed
  fin_feed := by
    intro s x h
    cases s <;> simp [ckMachine, CK.finished] at h
    simp [ckMachine, CK.feed, CK.finished, CK.unused]
  fin_stop := by intro s h; exact h
  hint := by
    intro s q hwf hnf hfin
    cases s with
    | expectingHeader buf =>
      simp only [ckMachine, CK.feed_eH] at hfin ⊢
      unfold CK.headerStep at hfin ⊢
      cases hs : splitLine (buf ++ q) with
      | none => simp [hs, CK.finished] at hfin
      | some lr =>
        obtain ⟨line, rest⟩ := lr
        simp only [hs] at hfin ⊢
        by_cases hc : line = chunkedHeader
        · simp only [hc, if_true] at hfin ⊢
          obtain ⟨_, _, _, h4, _⟩ := ck_lengthStep_fin rest .empty hfin
          obtain ⟨h1, h2⟩ := splitLine_append_prefix hs hwf
          subst hc
          simp only [chunkedHeader, List.length_cons, List.length_nil] at h1 h2
          refine ⟨rfl, by simp only [CK.nextReadSize]; omega, ?_⟩
          simp only [CK.nextReadSize]
          omega
        · simp [hc, CK.finished] at hfin
    | expectingLength buf acc =>
      simp only [ckMachine, CK.feed_eL] at hfin ⊢
      obtain ⟨line, rest, hs, h4, hr⟩ := ck_lengthStep_fin _ acc hfin
      obtain ⟨h1, h2⟩ := splitLine_append_prefix hs hwf
      simp only [List.length_append] at h4
      refine ⟨rfl, by simp only [CK.nextReadSize]; split <;> omega, ?_⟩
      simp only [CK.nextReadSize]
      split <;> omega
    | readingChunk l cur acc =>
      simp only [ckMachine, CK.feed_rC] at hfin ⊢
      by_cases hle : l ≤ q.length
      · simp only [hle, if_true] at hfin ⊢
        obtain ⟨_, _, _, h4, _⟩ := ck_lengthStep_fin _ _ hfin
        simp only [List.length_drop] at h4
        refine ⟨rfl, by simp only [CK.nextReadSize]; omega, ?_⟩
        simp only [CK.nextReadSize]
        omega
      · simp [hle, CK.finished] at hfin
    | done cs u => simp [ckMachine, CK.finished] at hnf
    | failed e => simp [ckMachine, CK.feed, CK.finished] at hfin

theorem ckWf_init : ckWf CK.init := by simp [CK.init, ckWf]

end BreezyVerif.C30
