import BreezyVerif.Lemmas.C46
/-! C46 — removal of entries, sequential deletion, and the antichain property of `extras`. -/
namespace BreezyVerif.C46
open Forest

theorem wf_cons_mk {i : Info} {kids rest : Forest}
    (h1 : i.name ∉ rest.names) (h2 : i.name ≠ "") (h3 : i.name ≠ ".") (h4 : i.name ≠ "..")
    (h5 : '/' ∉ i.name.toList) (h6 : i.kind = .dir ∨ kids = nil) (h7 : kids.wf = true)
    (h8 : rest.wf = true) : (cons i kids rest).wf = true := by
  simp only [Forest.wf, Bool.and_eq_true, Bool.not_eq_true', bne_iff_ne, ne_eq, Bool.or_eq_true,
    beq_iff_eq, List.contains_eq_mem, decide_eq_false_iff_not]
  exact ⟨⟨⟨⟨⟨⟨⟨h1, h2⟩, h3⟩, h4⟩, h5⟩, h6⟩, h7⟩, h8⟩

theorem remove_cons_self {i : Info} {kids rest : Forest} :
    (cons i kids rest).remove [i.name] = some rest := by
  simp [Forest.remove]

theorem remove_cons_down {i : Info} {kids rest : Forest} {a : String} {t : Path} :
    (cons i kids rest).remove (i.name :: a :: t) = (kids.remove (a :: t)).map fun k => cons i k rest := by
  simp [Forest.remove]

theorem remove_cons_ne {i : Info} {kids rest : Forest} {n : String} {t : Path} (h : i.name ≠ n) :
    (cons i kids rest).remove (n :: t) = (rest.remove (n :: t)).map fun r => cons i kids r := by
  simp [Forest.remove, h]

/-- removing an existing path of a well-formed layout succeeds, keeps it
well-formed, and removes exactly the paths at or below it -/
theorem remove_spec {f : Forest} {p : Path} (hw : f.wf = true) (hp : p ∈ f.paths) :
    ∃ f', f.remove p = some f' ∧ f'.wf = true ∧ (∀ n ∈ f'.names, n ∈ f.names) ∧
      ∀ q, q ∈ f'.paths ↔ (q ∈ f.paths ∧ ¬ p <+: q) := by
  induction f generalizing p with
  | nil => simp [Forest.paths] at hp
  | cons i kids rest ih1 ih2 =>
    obtain ⟨hn, h2, h3, h4, h5, h6, hk, hr⟩ := wf_cons hw
    simp only [Forest.paths, List.mem_cons, List.mem_append, List.mem_map] at hp
    rcases hp with (hp | ⟨t, ht, rfl⟩) | hp
    · -- the entry itself
      subst hp
      refine ⟨rest, remove_cons_self, hr, ?_, ?_⟩
      · intro n hn'; simp [Forest.names, hn']
      · intro q
        simp only [Forest.paths, List.mem_cons, List.mem_append, List.mem_map]
        constructor
        · intro hq
          refine ⟨Or.inr hq, ?_⟩
          obtain ⟨a, b, rfl, ha⟩ := paths_head hq
          intro hpre
          exact hn ((List.cons_prefix_cons.mp hpre).1 ▸ ha)
        · rintro ⟨(hq | ⟨t, _, rfl⟩) | hq, hnp⟩
          · exact absurd (hq ▸ List.prefix_refl _) hnp
          · exact absurd (List.cons_prefix_cons.mpr ⟨rfl, List.nil_prefix⟩) hnp
          · exact hq
    · -- below the entry
      obtain ⟨a, b, rfl, _⟩ := paths_head ht
      obtain ⟨k', e, hw', _, hspec⟩ := ih1 hk ht
      have hd : i.kind = .dir ∨ k' = nil := by
        rcases h6 with h | h
        · exact Or.inl h
        · subst h; simp [Forest.paths] at ht
      refine ⟨cons i k' rest, by rw [remove_cons_down, e]; rfl, wf_cons_mk hn h2 h3 h4 h5 hd hw' hr, ?_, ?_⟩
      · intro n hn'; simpa [Forest.names] using hn'
      · intro q
        simp only [Forest.paths, List.mem_cons, List.mem_append, List.mem_map]
        constructor
        · rintro ((hq | ⟨t, ht', rfl⟩) | hq)
          · subst hq
            refine ⟨Or.inl (Or.inl rfl), ?_⟩
            intro hpre
            have := (List.cons_prefix_cons.mp hpre).2
            simp at this
          · have := (hspec t).mp ht'
            refine ⟨Or.inl (Or.inr ⟨t, this.1, rfl⟩), ?_⟩
            intro hpre
            exact this.2 (List.cons_prefix_cons.mp hpre).2
          · refine ⟨Or.inr hq, ?_⟩
            obtain ⟨a', b', rfl, ha⟩ := paths_head hq
            intro hpre
            exact hn ((List.cons_prefix_cons.mp hpre).1 ▸ ha)
        · rintro ⟨(hq | ⟨t, ht', rfl⟩) | hq, hnp⟩
          · exact Or.inl (Or.inl hq)
          · refine Or.inl (Or.inr ⟨t, (hspec t).mpr ⟨ht', ?_⟩, rfl⟩)
            intro hpre
            exact hnp (List.cons_prefix_cons.mpr ⟨rfl, hpre⟩)
          · exact Or.inr hq
    · -- a later sibling
      obtain ⟨a, b, rfl, ha⟩ := paths_head hp
      have hne : i.name ≠ a := fun e' => hn (e' ▸ ha)
      obtain ⟨r', e, hw', hnames, hspec⟩ := ih2 hr hp
      have hn' : i.name ∉ r'.names := fun h => hn (hnames _ h)
      refine ⟨cons i kids r', by rw [remove_cons_ne hne, e]; rfl, wf_cons_mk hn' h2 h3 h4 h5 h6 hk hw', ?_, ?_⟩
      · intro n h
        simp only [Forest.names, List.mem_cons] at h ⊢
        rcases h with h | h
        · exact Or.inl h
        · exact Or.inr (hnames _ h)
      · intro q
        simp only [Forest.paths, List.mem_cons, List.mem_append, List.mem_map]
        constructor
        · rintro ((hq | ⟨t, ht', rfl⟩) | hq)
          · subst hq
            refine ⟨Or.inl (Or.inl rfl), ?_⟩
            intro hpre
            exact hne (List.cons_prefix_cons.mp hpre).1.symm
          · refine ⟨Or.inl (Or.inr ⟨t, ht', rfl⟩), ?_⟩
            intro hpre
            exact hne (List.cons_prefix_cons.mp hpre).1.symm
          · have := (hspec q).mp hq
            exact ⟨Or.inr this.1, this.2⟩
        · rintro ⟨(hq | ⟨t, ht', rfl⟩) | hq, hnp⟩
          · exact Or.inl (Or.inl hq)
          · exact Or.inl (Or.inr ⟨t, ht', rfl⟩)
          · exact Or.inr ((hspec q).mpr ⟨hq, hnp⟩)

/-- `delete_items` on pairwise unrelated existing paths: no error, and exactly
the paths at or below a listed path disappear -/
theorem deleteItems_spec {f : Forest} (ps : List Path) (hw : f.wf = true)
    (hp : ∀ p ∈ ps, p ∈ f.paths) (hpw : ps.Pairwise (fun a b => ¬ a <+: b)) :
    ∃ f', deleteItems f ps = (f', false) ∧ f'.wf = true ∧
      ∀ q, q ∈ f'.paths ↔ (q ∈ f.paths ∧ ∀ p ∈ ps, ¬ p <+: q) := by
  induction ps generalizing f with
  | nil => exact ⟨f, rfl, hw, by simp⟩
  | cons p ps ih =>
    obtain ⟨f1, e, hw1, _, hs1⟩ := remove_spec hw (hp p (by simp))
    rw [List.pairwise_cons] at hpw
    have hp1 : ∀ p' ∈ ps, p' ∈ f1.paths := fun p' h' =>
      (hs1 p').mpr ⟨hp p' (by simp [h']), hpw.1 p' h'⟩
    obtain ⟨f2, e2, hw2, hs2⟩ := ih hw1 hp1 hpw.2
    refine ⟨f2, by simp [deleteItems, e, e2], hw2, ?_⟩
    intro q
    rw [hs2 q, hs1 q]
    simp only [List.mem_cons, forall_eq_or_imp, and_assoc]

/-! ### the candidates are pairwise unrelated -/

def Incomp (a b : Path) : Prop := ¬ a <+: b ∧ ¬ b <+: a

theorem incomp_of_head_ne {a b : String} {s t : Path} (h : a ≠ b) : Incomp (a :: s) (b :: t) :=
  ⟨fun hp => h (List.cons_prefix_cons.mp hp).1, fun hp => h (List.cons_prefix_cons.mp hp).1.symm⟩

theorem incomp_cons {n : String} {s t : Path} (h : Incomp s t) : Incomp (n :: s) (n :: t) :=
  ⟨fun hp => h.1 (List.cons_prefix_cons.mp hp).2, fun hp => h.2 (List.cons_prefix_cons.mp hp).2⟩

theorem pairwise_mem_sym {α : Type} {R : α → α → Prop} {l : List α} (h : l.Pairwise R)
    (hs : ∀ a b, R a b → R b a) {a b : α} (ha : a ∈ l) (hb : b ∈ l) : a = b ∨ R a b := by
  induction l with
  | nil => simp at ha
  | cons x l ih =>
    rw [List.pairwise_cons] at h
    simp only [List.mem_cons] at ha hb
    rcases ha with rfl | ha <;> rcases hb with rfl | hb
    · exact Or.inl rfl
    · exact Or.inr (h.1 _ hb)
    · exact Or.inr (hs _ _ (h.1 _ ha))
    · exact ih h.2 ha hb

theorem extrasB_antichain {f : Forest} (hw : f.wf = true) :
    (extrasB f).Pairwise (fun a b => Incomp a.path b.path) := by
  induction f with
  | nil => simp [extrasB]
  | cons i kids rest ih1 ih2 =>
    obtain ⟨hn, _, _, _, _, _, hk, hr⟩ := wf_cons hw
    have hhead : ∀ a ∈ extrasB (cons i kids nil), ∃ t, a.path = i.name :: t := by
      intro a ha
      obtain ⟨n, t, e, hn'⟩ := items_head (extrasB_sub ha)
      simp [Forest.names] at hn'
      exact ⟨t, hn' ▸ e⟩
    simp only [extrasB, List.append_nil] at hhead
    simp only [extrasB]
    rw [List.pairwise_append]
    refine ⟨?_, ih2 hr, ?_⟩
    · split
      · exact List.Pairwise.nil
      · split
        · exact List.pairwise_singleton _ _
        · split
          · rw [List.pairwise_map]
            exact (ih1 hk).imp (fun h => incomp_cons h)
          · exact List.Pairwise.nil
    · intro a ha b hb
      obtain ⟨t, e⟩ := hhead a ha
      obtain ⟨n, t', e', hn'⟩ := items_head (extrasB_sub hb)
      rw [e, e']
      exact incomp_of_head_ne (fun h => hn (h ▸ hn'))

theorem filesG_antichain {f : Forest} (hw : f.wf = true) :
    (filesG f).Pairwise (fun a b => Incomp a.path b.path) := by
  induction f with
  | nil => simp [filesG]
  | cons i kids rest ih1 ih2 =>
    obtain ⟨hn, _, _, _, _, _, hk, hr⟩ := wf_cons hw
    have hhead : ∀ a ∈ filesG (cons i kids nil), ∃ t, a.path = i.name :: t := by
      intro a ha
      obtain ⟨n, t, e, hn'⟩ := items_head (filesG_sub ha)
      simp [Forest.names] at hn'
      exact ⟨t, hn' ▸ e⟩
    simp only [filesG, List.append_nil] at hhead
    simp only [filesG]
    rw [List.pairwise_append]
    refine ⟨?_, ih2 hr, ?_⟩
    · split
      · split
        · exact List.Pairwise.nil
        · rw [List.pairwise_map]
          exact (ih1 hk).imp (fun h => incomp_cons h)
      · exact List.Pairwise.nil
      · split
        · exact List.Pairwise.nil
        · exact List.pairwise_singleton _ _
    · intro a ha b hb
      obtain ⟨t, e⟩ := hhead a ha
      obtain ⟨n, t', e', hn'⟩ := items_head (filesG_sub hb)
      rw [e, e']
      exact incomp_of_head_ne (fun h => hn (h ▸ hn'))

theorem extras_antichain' {fmt : Fmt} {f : Forest} (hw : f.wf = true) :
    (extras fmt f).Pairwise (fun a b => Incomp a.path b.path) := by
  cases fmt with
  | bzr => exact extrasB_antichain hw
  | git => exact (filesG_antichain hw).filter _

theorem selected_antichain {keep : Item → Bool} {fmt : Fmt} {o : Opts} {f : Forest} (hw : f.wf = true) :
    (selectedWith keep fmt o f).Pairwise (fun a b => Incomp a.path b.path) :=
  ((extras_antichain' hw).filter _).filter _

/-- the paths of a well-formed layout are made of proper names -/
theorem paths_components {f : Forest} {q : Path} (hw : f.wf = true) (h : q ∈ f.paths) :
    ∀ c ∈ q, c ≠ "" ∧ c ≠ "." ∧ c ≠ ".." ∧ '/' ∉ c.toList := by
  induction f generalizing q with
  | nil => simp [Forest.paths] at h
  | cons i kids rest ih1 ih2 =>
    obtain ⟨_, h2, h3, h4, h5, _, hk, hr⟩ := wf_cons hw
    simp only [Forest.paths, List.mem_cons, List.mem_append, List.mem_map] at h
    rcases h with (h | ⟨t, ht, rfl⟩) | h
    · subst h; intro c hc; simp at hc; subst hc; exact ⟨h2, h3, h4, h5⟩
    · intro c hc
      simp only [List.mem_cons] at hc
      rcases hc with rfl | hc
      · exact ⟨h2, h3, h4, h5⟩
      · exact ih1 hk ht c hc
    · exact ih2 hr h

end BreezyVerif.C46
