"""C15 — shelving and unshelving restore exactly the shelved changes.

Mechanism: breezy/shelf.py ShelfCreator (iter_shelvable, shelve_rename /
shelve_creation / shelve_deletion / shelve_content_change / shelve_lines /
shelve_modify_target, write_shelf, transform), Unshelver.from_tree_and_shelf /
make_merger (three-way merge of the stored preview tree into the working tree
with the shelf's base revision as BASE), ShelfManager (new_shelf / last_shelf /
active_shelves / get_shelf_ids / delete_shelf), and the hunk selection of
breezy/shelf_ui.py Shelver._select_hunks (driven with scripted answers).

Model: Model/C15.lean.  Id-keyed trees whose file content is a list of chunk
codes (gap, hunk, gap, ... — the segmentation of the basis/working text pair by
the diff's hunks).  `shelveEntry` gives, per file id, the working-tree entry
after shelving and the entry of the stored shelf tree; `mergeEntry` is the
per-attribute three-way merge (every attribute through C18.threeWay, chunk-wise
for two texts with the same segmentation); `shelve` = work transform (refused
when the result is not a well-formed tree) and `unshelve` = merge3 BASE THIS
OTHER.  `Mgr.*` is the shelf-id allocator over the directory listing.

T2: random 2a / knit-era working trees (dirs, multi-hunk texts, symlinks, exec
bits) + 1..6 pending changes made through the real WorkingTree API (edit,
retarget, rename, move, add file/dir/symlink, delete by remove / rm (missing) /
remove --keep, kind changes, chmod).  The atomic shelvable items are what the
real `iter_shelvable` yields, a `modify text` being split into the hunks of the
real diff.  EVERY subset of the items (<= 6 items; larger sets sampled) is
shelved on a fresh copy through ShelfCreator (+ scripted Shelver._select_hunks
for partial texts), then: dump of the working tree, dump of the stored shelf
tree, shelf list; unshelve through Unshelver.make_merger().do_merge(), dump,
shelf list.  All three dumps, accept/reject of the work transform and the
conflict count are compared with the Lean model.  A second stream drives one
ShelfManager with random shelve / delete / unshelve / stray-file sequences and
compares ids, listings and the parsing of shelf file names with `Mgr`.
git working trees: shelving is refused (ShelvingUnsupported) — checked to leave
the tree unchanged.
Oracle (no model): after shelving, every id has the basis value for each
selected aspect and the working value for every other aspect (texts: basis +
unselected hunks spliced by the harness's own code); nothing else on disk
changed; after unshelving the dump equals the dump before shelving, no
conflicts, no new unversioned files; the new shelf id is not among the active
ones and exceeds them, listing = before + {id}, deletion removes exactly that
id, the other shelves keep their message.

Mutants this was built against are listed at the end of this docstring once the
self-test is done.
"""
import io
import os
import random
import shutil
import stat

from vlib import env

THEOREMS = []
RULE = ("scenario = (tree format, random basis tree, 1..6 random pending changes); case = (scenario, subset of the "
        "atomic shelvable items: add / delete / rename / kind / target / each text hunk); all subsets of <= 6 items, "
        "sampled above; non-trivial = the subset is non-empty and proper or mixes aspects of one id; distinct by "
        "(basis, working tree, selection)")
ASSUMPTIONS = []
TRUSTED = []

ROOT = b"TREE_ROOT"
NAMES = ["a", "b", "c", "d", "e", "f", "g", "h"]


# --------------------------------------------------------------------------
# texts

def base_text(rng, tag):
    style = rng.random()
    n = rng.choice([0, 1, 3, 12, 24, 36, 40])
    if style < 0.65:
        lines = [b"%s line %d\n" % (tag, i) for i in range(n)]
    elif style < 0.85:
        # many repeated lines: hard for patience diff / merge3 to synchronise on
        lines = [rng.choice([b"x\n", b"y\n", b"\n"]) for i in range(n)]
    else:
        lines = [(b"%s %d\n" % (tag, i)) if i % 5 else b"}\n" for i in range(n)]
    if lines and rng.random() < 0.15:
        lines[-1] = lines[-1].rstrip(b"\n")
    return lines


def edit_text(rng, lines, tag):
    """change 1..3 regions of the text (replace / insert / delete)"""
    lines = list(lines)
    k = rng.choice([1, 1, 2, 2, 3])
    for j in range(k):
        if not lines:
            lines = [b"new %s %d\n" % (tag, j)]
            continue
        pos = rng.randrange(len(lines) + 1)
        r = rng.random()
        if r < 0.4 and pos < len(lines):
            nl = b"\n" if lines[pos].endswith(b"\n") else b""
            lines[pos] = b"changed %s %d" % (tag, j) + nl
        elif r < 0.7:
            ins = [b"ins %s %d.%d\n" % (tag, j, q) for q in range(rng.randint(1, 2))]
            if pos == len(lines) and lines and not lines[-1].endswith(b"\n"):
                pos -= 1
            lines[pos:pos] = ins
        elif pos < len(lines):
            del lines[pos:pos + rng.randint(1, 2)]
        else:
            lines[pos:pos] = [b"x\n"]
    return lines


# --------------------------------------------------------------------------
# scenario = a real working tree with pending changes

def _join(d, rel):
    return os.path.join(d, rel) if rel else d


class Builder:
    """applies ops to a real working tree and keeps id -> path bookkeeping"""

    def __init__(self, wt, rng):
        self.wt, self.rng, self.d = wt, rng, wt.basedir
        self.n = 0
        self.ops = []
        self.basis_ids = set()

    def fresh(self, p):
        self.n += 1
        return b"%s%d" % (p, self.n)

    def paths(self):
        with self.wt.lock_read():
            return {ie.file_id: (path, ie.kind, ie.parent_id) for path, ie in self.wt.iter_entries_by_dir()}

    def disk_kind(self, path):
        p = _join(self.d, path)
        if os.path.islink(p):
            return "symlink"
        if os.path.isdir(p):
            return "directory"
        if os.path.isfile(p):
            return "file"
        return None

    def dirs(self, exclude_under=None):
        out = []
        for fid, (path, kind, parent) in self.paths().items():
            if self.disk_kind(path) != "directory":
                continue
            if exclude_under is not None and (path == exclude_under or path.startswith(exclude_under + "/")):
                continue
            out.append(path)
        return sorted(out)

    def free_name(self, dirpath):
        used = set(os.listdir(_join(self.d, dirpath)))
        cand = [n for n in NAMES if n not in used]
        return self.rng.choice(cand) if cand else None

    def add(self, kind=None, parent=None, exec_=None):
        rng = self.rng
        parent = rng.choice(self.dirs()) if parent is None else parent
        name = self.free_name(parent)
        if name is None:
            return None
        path = name if parent == "" else parent + "/" + name
        kind = kind or rng.choice(["file", "file", "file", "directory", "symlink"])
        p = _join(self.d, path)
        if kind == "file":
            fid = self.fresh(b"f")
            with open(p, "wb") as f:
                f.write(b"".join(base_text(rng, fid)))
            if exec_ if exec_ is not None else rng.random() < 0.35:
                os.chmod(p, 0o755)
        elif kind == "directory":
            fid = self.fresh(b"d")
            os.mkdir(p)
        else:
            fid = self.fresh(b"l")
            os.symlink("tgt-%s" % fid.decode(), p)
        self.wt.add([path], ids=[fid])
        self.ops.append("add-" + kind)
        return path

    def pick(self, kinds, allow_root=False):
        c = [(fid, path) for fid, (path, kind, parent) in sorted(self.paths().items())
             if (allow_root or path != "") and self.disk_kind(path) in kinds]
        return self.rng.choice(c) if c else (None, None)

    def edit(self):
        fid, path = self.pick(["file"])
        if path is None:
            return None
        p = _join(self.d, path)
        old = open(p, "rb").read().splitlines(True)
        new = edit_text(self.rng, old, b"e%d" % self.n)
        self.n += 1
        if new == old:
            return None
        mode = os.stat(p).st_mode
        with open(p, "wb") as f:
            f.write(b"".join(new))
        os.chmod(p, stat.S_IMODE(mode))
        self.ops.append("edit")
        return path

    def binary(self):
        fid, path = self.pick(["file"])
        if path is None:
            return None
        with open(_join(self.d, path), "ab") as f:
            f.write(b"\x00bin%d\n" % self.n)
        self.n += 1
        self.ops.append("edit-binary")
        return path

    def retarget(self):
        fid, path = self.pick(["symlink"])
        if path is None:
            return None
        p = _join(self.d, path)
        t = os.readlink(p)
        os.unlink(p)
        os.symlink(t + "2", p)
        self.ops.append("retarget")
        return path

    def rename(self):
        fid, path = self.pick(["file", "directory", "symlink"])
        if path is None:
            return None
        parent = os.path.dirname(path)
        name = self.free_name(parent)
        if name is None:
            return None
        self.wt.rename_one(path, name if parent == "" else parent + "/" + name)
        self.ops.append("rename")
        return path

    def move(self):
        fid, path = self.pick(["file", "directory", "symlink"])
        if path is None:
            return None
        cand = [d for d in self.dirs(exclude_under=path) if d != os.path.dirname(path)
                and not os.path.lexists(_join(self.d, (d + "/" if d else "") + os.path.basename(path)))]
        if not cand:
            return None
        d = self.rng.choice(cand)
        newname = os.path.basename(path) if self.rng.random() < 0.7 else (self.free_name(d) or os.path.basename(path))
        self.wt.rename_one(path, (d + "/" if d else "") + newname)
        self.ops.append("move")
        return path

    def delete(self, mode=None):
        rng = self.rng
        mode = mode or rng.choice(["remove", "remove", "missing", "keep"])
        kinds = ["file", "symlink"] if mode != "remove" else ["file", "symlink", "directory"]
        fid, path = self.pick(kinds)
        if path is None:
            return None
        if mode == "missing" and fid not in self.basis_ids:
            return None      # an added file that is missing from disk is not a pending change the property speaks about
        p = _join(self.d, path)
        if mode == "remove":
            self.wt.remove([path], keep_files=False, force=True)
            if os.path.lexists(p):
                if os.path.isdir(p) and not os.path.islink(p):
                    shutil.rmtree(p)
                else:
                    os.unlink(p)
        elif mode == "missing":
            os.unlink(p)
        else:
            self.wt.remove([path], keep_files=True)
        self.ops.append("delete-" + mode)
        return path

    def chmod(self):
        fid, path = self.pick(["file"])
        if path is None:
            return None
        p = _join(self.d, path)
        m = stat.S_IMODE(os.stat(p).st_mode)
        os.chmod(p, m ^ 0o111 if m & 0o100 else m | 0o111)
        if not (m & 0o100):
            os.chmod(p, 0o755)
        else:
            os.chmod(p, 0o644)
        self.ops.append("chmod")
        return path

    def kind(self):
        rng = self.rng
        fid, path = self.pick(["file", "symlink", "directory"])
        if path is None:
            return None
        p = _join(self.d, path)
        k = self.disk_kind(path)
        if k == "file":
            os.unlink(p)
            if rng.random() < 0.6:
                os.symlink("was-file", p)
                self.ops.append("kind-file-symlink")
            else:
                os.mkdir(p)
                self.ops.append("kind-file-dir")
        elif k == "symlink":
            os.unlink(p)
            with open(p, "wb") as f:
                f.write(b"was a link\nsecond\n")
            if rng.random() < 0.3:
                os.chmod(p, 0o755)
            self.ops.append("kind-symlink-file")
        else:
            if os.listdir(p):
                return None
            os.rmdir(p)
            with open(p, "wb") as f:
                f.write(b"was a dir\n")
            self.ops.append("kind-dir-file")
        return path


OPS = ["edit", "edit", "edit", "add", "add", "delete", "delete", "rename", "move", "chmod", "kind", "retarget",
       "binary", "rename+edit", "add-dir-with-children", "chmod+edit"]


def build_scenario(seedt, root=None):
    """seedt = (seed, fmt, index).  Returns dict(dir=..., fmt=..., ops=[...])"""
    from breezy.controldir import ControlDir, format_registry
    rng = random.Random(repr(tuple(seedt)))
    fmt = seedt[1]
    d = root or env.fresh_dir("c15s")
    wt = ControlDir.create_standalone_workingtree(d, format=format_registry.make_controldir(fmt))
    wt.set_root_id(ROOT)
    b = Builder(wt, rng)
    for _ in range(rng.randint(3, 9)):
        b.add()
    wt.commit("base", rev_id=b"rev-base", timestamp=1000000000, timezone=0, committer="V <v@e.c>")
    b.ops = []
    b.basis_ids = set(b.paths())
    want = rng.randint(1, 4)
    tries = 0
    while len(b.ops) < want and tries < 20:
        tries += 1
        op = rng.choice(OPS)
        if op == "rename+edit":
            p = b.edit()
            if p is not None:
                parent = os.path.dirname(p)
                name = b.free_name(parent)
                if name:
                    wt.rename_one(p, name if parent == "" else parent + "/" + name)
                    b.ops.append("rename")
        elif op == "add-dir-with-children":
            p = b.add(kind="directory")
            if p is not None:
                b.add(parent=p)
                if rng.random() < 0.5:
                    b.add(parent=p)
        elif op == "chmod+edit":
            p = b.edit()
            if p is not None:
                pp = _join(d, p)
                m = os.stat(pp).st_mode
                os.chmod(pp, 0o644 if m & 0o100 else 0o755)
                b.ops.append("chmod")
        else:
            getattr(b, op)()
    return dict(dir=d, fmt=fmt, ops=b.ops, seed=list(seedt))


# --------------------------------------------------------------------------
# dumps

def _disk_entry(p):
    if os.path.islink(p):
        return ("l", os.readlink(p).encode(), False)
    if os.path.isdir(p):
        return ("d", b"", False)
    if os.path.isfile(p):
        with open(p, "rb") as f:
            return ("f", f.read(), bool(os.stat(p).st_mode & 0o100))
    return None


def dump_wt(d):
    """(entries, missing, strays): entries = {file_id: (parent_id, name, kind, content, exec)} from the
    inventory + disk; versioned paths that are not on disk are listed in `missing` (and left out)"""
    from breezy.workingtree import WorkingTree
    wt = WorkingTree.open(d)
    ents, missing, vpaths, rec = {}, [], set(), {}
    with wt.lock_read():
        for path, ie in wt.iter_entries_by_dir():
            vpaths.add(path)
            de = _disk_entry(_join(d, path))
            if de is None:
                missing.append(ie.file_id)
                continue
            ents[ie.file_id] = (ie.parent_id, ie.name) + de
            if de[0] == "f":
                rec[ie.file_id] = bool(ie.executable)
        confl = len(wt.conflicts())
    strays = {}
    for dirpath, dirnames, filenames in os.walk(d):
        rel = os.path.relpath(dirpath, d)
        rel = "" if rel == "." else rel
        if rel == "":
            dirnames[:] = [x for x in dirnames if x != ".bzr"]
        for n in sorted(dirnames + filenames):
            r = n if rel == "" else rel + "/" + n
            if r not in vpaths:
                strays[r] = _disk_entry(os.path.join(dirpath, n))[:2]
        dirnames[:] = [x for x in dirnames if not os.path.islink(os.path.join(dirpath, x))]
    return ents, sorted(missing), strays, confl, rec


def _under(tree):
    tt = getattr(tree, "_transform", None)
    return None if tt is None else tt._tree


def _preview_text(tree, path, file_id):
    """PreviewTree.get_file looks an unmodified text up in the underlying tree under the NEW path;
    for a renamed, unmodified file read it from the underlying tree by id instead"""
    from dromedary.errors import NoSuchFile
    try:
        return tree.get_file_text(path)
    except NoSuchFile:
        base = _under(tree)
        if base is None:
            raise
        return base.get_file_text(base.id2path(file_id))


def _preview_target(tree, path, file_id):
    from dromedary.errors import NoSuchFile
    try:
        return tree.get_symlink_target(path)
    except (NoSuchFile, OSError):
        base = _under(tree)
        if base is None:
            raise
        return base.get_symlink_target(base.id2path(file_id))


def dump_tree(tree):
    """same shape for a revision / preview tree"""
    ents = {}
    with tree.lock_read():
        for path, ie in tree.iter_entries_by_dir():
            k = tree.kind(path)
            if k == "file":
                de = ("f", _preview_text(tree, path, ie.file_id), bool(tree.is_executable(path)))
            elif k == "symlink":
                de = ("l", _preview_target(tree, path, ie.file_id).encode(), False)
            elif k == "directory":
                de = ("d", b"", False)
            else:
                de = ("?", repr(k).encode(), False)
            ents[ie.file_id] = (ie.parent_id, ie.name) + de
    return ents


# --------------------------------------------------------------------------
# hunks

class _Scripted:
    """a Shelver whose prompts are answered from a list (no UI, no locks)"""

    def __init__(self, work_tree, target_tree, answers):
        from breezy import shelf_ui

        class S(shelf_ui.Shelver):
            def __init__(s):
                s.work_tree, s.target_tree = work_tree, target_tree
                s.diff_writer = io.BytesIO()
                s.auto = False
                s.reporter = shelf_ui.ShelfReporter()
                s.change_editor = None
                s.answers = list(answers)

            def prompt_bool(s, question, allow_editor=False):
                return s.answers.pop(0)
        self.s = S()


def parsed_hunks(work_tree, target_tree, file_id):
    """the hunks the UI would offer: [(orig_pos, orig_range, new_lines)] (1-based orig_pos; 0 for an empty original)"""
    sh = _Scripted(work_tree, target_tree, [])
    parsed = sh.s.get_parsed_patch(file_id, False)
    from breezy import patches
    out = []
    for h in parsed.hunks:
        new = [l.contents for l in h.lines if isinstance(l, (patches.ContextLine, patches.InsertLine))]
        out.append((h.orig_pos, h.orig_range, new))
    return out


def fix_no_newline(hunks, old_lines):
    return hunks


def splice(old_lines, hunks, take):
    """own patch application: old_lines with the hunks whose index is in `take` applied"""
    out = []
    pos = 0
    for k, (opos, orange, new) in enumerate(hunks):
        start = opos - 1 if orange else opos     # "-0,0" / "-N,0": insert after line N
        if orange == 0:
            start = opos
        out.extend(old_lines[pos:start])
        if k in take:
            out.extend(new)
        else:
            out.extend(old_lines[start:start + orange])
        pos = start + orange
    out.extend(old_lines[pos:])
    return out


def segments(old_lines, hunks):
    """[(old chunk, new chunk, is_hunk)] alternating gap / hunk / gap ..."""
    segs = []
    pos = 0
    for (opos, orange, new) in hunks:
        start = opos if orange == 0 else opos - 1
        segs.append((old_lines[pos:start], old_lines[pos:start], False))
        segs.append((old_lines[start:start + orange], list(new), True))
        pos = start + orange
    segs.append((old_lines[pos:], old_lines[pos:], False))
    return segs


# --------------------------------------------------------------------------
# one case on the real code

def is_binary(content):
    return b"\x00" in content


def analyse(sc):
    """basis dump, working dump, the atomic shelvable items in iter_shelvable order and the hunks per text"""
    from breezy.workingtree import WorkingTree
    from breezy import shelf
    d = sc["dir"]
    W, missing, strays, confl, rec = dump_wt(d)
    wt = WorkingTree.open(d)
    items, hunks, changes = [], {}, []
    with wt.lock_tree_write():
        basis = wt.basis_tree()
        B = dump_tree(basis)
        cr = shelf.ShelfCreator(wt, basis)
        try:
            for ch in cr.iter_shelvable():
                changes.append((ch[0], ch[1]))
                fid = ch[1]
                if ch[0] == "add file":
                    items.append(("add", fid, None))
                elif ch[0] == "delete file":
                    items.append(("delete", fid, None))
                elif ch[0] == "rename":
                    items.append(("rename", fid, None))
                elif ch[0] == "change kind":
                    items.append(("kind", fid, None))
                elif ch[0] == "modify target":
                    items.append(("target", fid, None))
                elif ch[0] == "modify text":
                    if is_binary(B[fid][3]) or is_binary(W[fid][3]):
                        items.append(("binary", fid, None))
                    else:
                        hs = parsed_hunks(wt, basis, fid)
                        hunks[fid] = hs
                        for k in range(len(hs)):
                            items.append(("hunk", fid, k))
        finally:
            cr.finalize()
    return dict(B=B, W=W, missing=missing, strays=strays, items=items, hunks=hunks, changes=changes, rec=rec)


def err_kind(e):
    n = type(e).__name__
    return "E:" + {"MalformedTransform": "Malformed"}.get(n, n)


def run_case(arg):
    """(scenario, analysis, selection (sorted list of item indices), whole_via) -> result dict.
    Module-level so that it can run in a fork pool."""
    sc, an, sel, whole_via = arg
    from breezy.workingtree import WorkingTree
    from breezy import shelf
    d = env.fresh_dir("c15c")
    shutil.rmtree(d)
    shutil.copytree(sc["dir"], d, symlinks=True)
    items = an["items"]
    chosen = [items[i] for i in sel]
    by = {}
    for kind, fid, k in chosen:
        by.setdefault(fid, []).append((kind, k))
    res = dict(err=None, stage=None)
    wt = WorkingTree.open(d)
    mgr = wt.get_shelf_manager()
    res["ids0"] = mgr.active_shelves()
    sid = None
    try:
        with wt.lock_tree_write():
            basis = wt.basis_tree()
            cr = shelf.ShelfCreator(wt, basis)
            try:
                n = 0
                for ch in cr.iter_shelvable():
                    fid = ch[1]
                    mine = by.get(fid, [])
                    if ch[0] == "modify text":
                        hk = sorted(k for kind, k in mine if kind == "hunk")
                        if any(kind == "binary" for kind, k in mine):
                            cr.shelve_content_change(fid)
                            n += 1
                        elif hk:
                            nh = len(an["hunks"][fid])
                            if len(hk) == nh and whole_via == "content":
                                cr.shelve_change(ch)
                            else:
                                s = _Scripted(wt, basis, [k in hk for k in range(nh)]).s
                                path = wt.id2path(fid)
                                lines, cnt = s._select_hunks(cr, fid, wt.get_file_lines(path))
                                if cnt != len(hk):
                                    res["hunk_count"] = (cnt, len(hk))
                                if cnt:
                                    cr.shelve_lines(fid, lines)
                            n += 1
                    else:
                        tag = {"add file": "add", "delete file": "delete", "rename": "rename",
                               "change kind": "kind", "modify target": "target"}[ch[0]]
                        if any(kind == tag for kind, k in mine):
                            cr.shelve_change(ch)
                            n += 1
                res["stage"] = "selected"
                sid = mgr.shelve_changes(cr, "msg %s" % (sel,))
                res["stage"] = "shelved"
            finally:
                cr.finalize()
    except Exception as e:  # noqa
        res["err"] = err_kind(e)
        res["errtext"] = str(e)[:300]
    res["sid"] = sid
    res["ids1"] = WorkingTree.open(d).get_shelf_manager().active_shelves()
    res["d1"] = dump_wt(d)
    if res["err"] is None:
        # the stored shelf tree
        wt = WorkingTree.open(d)
        mgr = wt.get_shelf_manager()
        try:
            with wt.lock_tree_write():
                u = mgr.get_unshelver(sid)
                try:
                    res["S"] = dump_tree(u.transform.get_preview_tree())
                    res["msg"] = u.message
                    merger = u.make_merger()
                    res["nconf"] = merger.do_merge()
                finally:
                    u.finalize()
                mgr.delete_shelf(sid)
        except Exception as e:  # noqa
            res["uerr"] = err_kind(e)
            res["uerrtext"] = str(e)[:300]
        res["ids2"] = WorkingTree.open(d).get_shelf_manager().active_shelves()
        res["d2"] = dump_wt(d)
    shutil.rmtree(d, ignore_errors=True)
    return res


# --------------------------------------------------------------------------
# oracle: the property's own statement on the dumps

def expect_shelved(an, sel):
    """the working tree dump the property demands after shelving the items `sel`"""
    B, W, items, hunks = an["B"], an["W"], an["items"], an["hunks"]
    X = dict(W)
    by = {}
    for i in sel:
        kind, fid, k = items[i]
        by.setdefault(fid, []).append((kind, k))
    for fid, mine in by.items():
        kinds = {k for k, _ in mine}
        b, w = B.get(fid), W.get(fid)
        if "add" in kinds:
            X.pop(fid, None)
            continue
        if "delete" in kinds:
            X[fid] = b
            continue
        p, n, k, c, x = w
        if "rename" in kinds:
            p, n = b[0], b[1]
        if kinds & {"kind", "target", "binary"}:
            k, c = b[2], b[3]
            x = (w[4] if w[2] == "f" else b[4]) if k == "f" else False
        hk = {j for kk, j in mine if kk == "hunk"}
        if hk:
            hs = hunks[fid]
            old = b[3].splitlines(True)
            c = b"".join(splice(old, hs, set(range(len(hs))) - hk))
        X[fid] = (p, n, k, c, x)
    return X


def diff_dumps(exp, got):
    out = []
    for fid in sorted(set(exp) | set(got)):
        if exp.get(fid) != got.get(fid):
            e, g = exp.get(fid), got.get(fid)
            if e is not None and g is not None:
                attrs = [a for a, i in (("parent", 0), ("name", 1), ("kind", 2), ("content", 3), ("exec", 4)) if e[i] != g[i]]
            else:
                attrs = ["absent" if g is None else "present"]
            out.append((fid, attrs, e, g))
    return out
