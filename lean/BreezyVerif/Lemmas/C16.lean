import BreezyVerif.Model.C16
import BreezyVerif.Lemmas.C21B
/-! C16 — lemmas: adding a fresh revision does not change what older revisions
see; the uncommit walk in terms of left-hand ancestors and removed merges. -/
namespace BreezyVerif.C16
open BreezyVerif.C21

theorem anc_cons_ne (n : Rev) (ps : List Rev) (g : Graph) (x : Rev) (h : ¬ n = x) :
    anc ((n, ps) :: g) x = anc g x := by
  simp [anc, h]

theorem isAnc_cons_ne (n : Rev) (ps : List Rev) (g : Graph) (a b : Tip) (h : b ≠ some n) :
    isAnc ((n, ps) :: g) a b = isAnc g a b := by
  cases a with
  | none => rfl
  | some a =>
    cases b with
    | none => rfl
    | some b =>
      have : ¬ n = b := fun e => h (by rw [e])
      simp [isAnc, anc, this]

theorem any_congr' {α : Type} (l : List α) (f1 f2 : α → Bool) (h : ∀ x ∈ l, f1 x = f2 x) :
    l.any f1 = l.any f2 := by
  induction l with
  | nil => rfl
  | cons a l ih =>
    simp only [List.any_cons]
    rw [h a (by simp), ih (fun x hx => h x (by simp [hx]))]

theorem heads_cons (n : Rev) (ps : List Rev) (g : Graph) (keys : List Tip) (h : some n ∉ keys) :
    heads ((n, ps) :: g) keys = heads g keys := by
  unfold heads
  apply List.filter_congr
  intro k _
  rw [any_congr' keys _ (fun k' => k' != k && isAnc g k k')]
  intro k' hk'
  have : k' ≠ some n := fun e => h (e ▸ hk')
  rw [isAnc_cons_ne n ps g k k' this]

theorem filterParents_cons (n : Rev) (ps : List Rev) (g : Graph) (l : List Rev) (h : n ∉ l) :
    filterParents ((n, ps) :: g) l = filterParents g l := by
  cases l with
  | nil => rfl
  | cons p rest =>
    simp only [filterParents]
    rw [heads_cons]
    intro hm
    rcases List.mem_map.mp hm with ⟨x, hx, he⟩
    cases he
    exact h hx

theorem present_cons_ne (n : Rev) (ps : List Rev) (g : Graph) (x : Rev) (h : ¬ n = x) :
    present ((n, ps) :: g) x = present g x := by
  simp [present, parentsOf, h]

theorem walk_zero (g : Graph) (p : Rev) (pm : List Rev) (h : present g p = true) :
    walk g p 0 pm = .ok (some p, pm) := by
  induction g with
  | nil => simp [present, parentsOf] at h
  | cons e g ih =>
    obtain ⟨n, ps⟩ := e
    unfold walk
    by_cases hn : n = p
    · simp [hn]
    · simp only [hn, if_false]
      exact ih (by simpa [present, parentsOf, hn] using h)

/-- the new tip is the `k`-th left-hand ancestor -/
theorem walk_lhNth (g : Graph) : ∀ (r : Rev) (k : Nat) (pm : List Rev) (t : Tip) (pm' : List Rev),
    walk g r k pm = .ok (t, pm') → lhNth g r k = .ok t := by
  induction g with
  | nil => intro r k pm t pm' h; simp [walk] at h
  | cons e g ih =>
    obtain ⟨n, ps⟩ := e
    intro r k pm t pm' h
    unfold walk at h
    unfold lhNth
    by_cases hn : n = r
    · simp only [hn, if_true] at h ⊢
      cases k with
      | zero => simp at h ⊢; exact h.1
      | succ k =>
        cases ps with
        | nil => simp at h ⊢; exact h.1
        | cons p rest => simp only at h ⊢; exact ih p k _ t pm' h
    · simp only [hn, if_false] at h ⊢
      exact ih r k pm t pm' h

/-- the pending-merge list grows by the reversed merge lists of the removed revisions -/
theorem walk_pm (g : Graph) : ∀ (r : Rev) (k : Nat) (pm : List Rev) (t : Tip) (pm' : List Rev),
    walk g r k pm = .ok (t, pm') →
      pm' = pm ++ ((removedMerges g r k).map List.reverse).flatten := by
  induction g with
  | nil => intro r k pm t pm' h; simp [walk] at h
  | cons e g ih =>
    obtain ⟨n, ps⟩ := e
    intro r k pm t pm' h
    unfold walk at h
    unfold removedMerges
    by_cases hn : n = r
    · simp only [hn, if_true] at h ⊢
      cases k with
      | zero => simp at h ⊢; exact h.2.symm
      | succ k =>
        cases ps with
        | nil => simp at h ⊢; exact h.2.symm
        | cons p rest =>
          simp only [List.tail_cons] at h ⊢
          rw [ih p k _ t pm' h]
          simp
    · simp only [hn, if_false] at h ⊢
      exact ih r k pm t pm' h

theorem walk_tip_sub (g : Graph) : ∀ (r : Rev) (k : Nat) (pm : List Rev) (x : Rev) (pm' : List Rev),
    walk g r k pm = .ok (some x, pm') → x = r ∨ x ∈ mentioned g := by
  induction g with
  | nil => intro r k pm x pm' h; simp [walk] at h
  | cons e g ih =>
    obtain ⟨n, ps⟩ := e
    intro r k pm x pm' h
    unfold walk at h
    rw [mentioned_cons]
    by_cases hn : n = r
    · simp only [hn, if_true] at h
      cases k with
      | zero => simp at h; exact Or.inl h.1.symm
      | succ k =>
        cases ps with
        | nil => simp at h
        | cons p rest =>
          simp only at h
          rcases ih p k _ x pm' h with h1 | h1
          · right; simp [h1]
          · right; simp [h1]
    · simp only [hn, if_false] at h
      rcases ih r k pm x pm' h with h1 | h1
      · exact Or.inl h1
      · right; simp [h1]

/-- on a ghost-free left-hand history the walk succeeds and the new tip's
left-hand history is the old one minus its first `k` revisions -/
theorem walk_lefthand (g : Graph) (hwf : wf g = true) :
    ∀ (r : Rev) (k : Nat) (pm : List Rev) (l : List Rev),
    lefthand g r = some l → ∃ t pm', walk g r k pm = .ok (t, pm') ∧ lhTip g t = some (l.drop k) := by
  induction g with
  | nil => intro r k pm l h; simp [lefthand] at h
  | cons e g ih =>
    obtain ⟨n, ps⟩ := e
    obtain ⟨hnp, hnm, hwf'⟩ := wf_cons hwf
    have ih := ih hwf'
    -- the tail graph and the full graph agree on the left-hand history of a tip found in the tail
    have lift : ∀ (t : Tip) (l0 : List Rev), (∀ x, t = some x → ¬ n = x) →
        lhTip g t = some l0 → lhTip ((n, ps) :: g) t = some l0 := by
      intro t l0 hne h2
      cases t with
      | none => simpa [lhTip] using h2
      | some x =>
        simp only [lhTip] at h2 ⊢
        simp only [lefthand, hne x rfl, if_false]
        exact h2
    intro r k pm l h
    unfold lefthand at h
    unfold walk
    by_cases hn : n = r
    · subst hn
      simp only [if_true] at h ⊢
      cases k with
      | zero =>
        refine ⟨some n, pm, rfl, ?_⟩
        simp only [lhTip, lefthand, if_true, List.drop_zero]
        exact h
      | succ k =>
        cases ps with
        | nil =>
          simp at h; subst h
          exact ⟨none, _, rfl, by simp [lhTip]⟩
        | cons p rest =>
          simp only at h ⊢
          cases hlp : lefthand g p with
          | none => rw [hlp] at h; simp at h
          | some l' =>
            rw [hlp] at h; simp at h; subst h
            obtain ⟨t, pm', h1, h2⟩ := ih p k (pm ++ (p :: rest).tail.reverse) l' hlp
            refine ⟨t, pm', h1, ?_⟩
            simp only [List.drop_succ_cons]
            apply lift t _ _ h2
            intro x hx e
            subst hx
            rcases walk_tip_sub g p k _ x pm' h1 with h3 | h3
            · apply hnp; rw [e, h3]; simp
            · exact hnm (e ▸ h3)
    · simp only [hn, if_false] at h ⊢
      obtain ⟨t, pm', h1, h2⟩ := ih r k pm l h
      refine ⟨t, pm', h1, lift t _ ?_ h2⟩
      intro x hx e
      subst hx
      rcases walk_tip_sub g r k pm x pm' h1 with h3 | h3
      · exact hn (e.trans h3)
      · exact hnm (e ▸ h3)

/-- nothing but the new revision itself is unique to a freshly committed revision -/
theorem fua_fresh (r : Rev) (ps : List Rev) (g : Graph) (hr : r ∉ ps) (x : Rev)
    (h : x ∈ findUniqueAncestors ((r, ps) :: g) r ps) : x = r := by
  unfold findUniqueAncestors at h
  simp only [List.mem_filter] at h
  obtain ⟨h1, h2⟩ := h
  simp only [anc, if_true, List.mem_cons, List.mem_flatMap] at h1
  rcases h1 with h1 | ⟨p, hp, hx⟩
  · exact h1
  · exfalso
    have hne : ¬ r = p := fun e => hr (e ▸ hp)
    have : (ps.any fun c => (anc ((r, ps) :: g) c).contains x) = true := by
      simp only [List.any_eq_true]
      exact ⟨p, hp, by simp [anc, hne, hx]⟩
    rw [this] at h2
    exact absurd h2 (by decide)

theorem mem_fua (g : Graph) (old : Rev) (parents : List Rev) (x : Rev) :
    x ∈ findUniqueAncestors g old parents ↔ x ∈ anc g old ∧ ∀ p ∈ parents, x ∉ anc g p := by
  unfold findUniqueAncestors
  simp [List.mem_filter]

theorem mem_removedTags (g : Graph) (tags : Tags) (old : Rev) (parents : List Rev) (n : Nat) :
    n ∈ removedTags g tags old parents ↔
      ∃ r, (n, r) ∈ tags ∧ r ∈ anc g old ∧ ∀ p ∈ parents, r ∉ anc g p := by
  unfold removedTags
  simp only [List.mem_map, List.mem_filter, List.contains_iff_mem, mem_fua, Prod.exists]
  constructor
  · rintro ⟨a, b, ⟨hm, hf⟩, rfl⟩
    exact ⟨b, hm, hf⟩
  · rintro ⟨r, hm, hf⟩
    exact ⟨n, r, ⟨hm, hf⟩, rfl⟩

theorem mem_keepTagsOutside (g : Graph) (tags : Tags) (old : Rev) (parents : List Rev) (t : Nat × Rev) :
    t ∈ keepTagsOutside g tags old parents ↔
      t ∈ tags ∧ ¬ (t.2 ∈ anc g old ∧ ∀ p ∈ parents, t.2 ∉ anc g p) := by
  unfold keepTagsOutside
  rw [List.mem_filter, ← mem_fua]
  simp

end BreezyVerif.C16
