#!/venv/bin/python
"""C34 repro: family `encoding-noninjective-codec`.
A git commit whose `encoding` header names a Python codec whose decode is not injective
(utf-8-sig, utf-7, utf-16, unicode_escape ...) is accepted by BzrGitMappingv1.import_commit,
but export_commit of the imported revision yields different bytes (different SHA-1).
Run:  /venv/bin/python repro_c34_codec.py [repo-path]      exits 1 when the defect is present."""
import os, sys, tempfile
repo = sys.argv[1] if len(sys.argv) > 1 else "/repo"
sys.path.insert(0, repo)
h = tempfile.mkdtemp(prefix="c34repro", dir="/var/tmp")
os.environ.update(HOME=h, BRZ_HOME=h, BRZ_EMAIL="t <t@x>")
import breezy
breezy.initialize()
import breezy.bzr, breezy.git
from breezy.git.mapping import BzrGitMappingv1
from dulwich.objects import Commit

m = BzrGitMappingv1()
bad = 0
def raw(enc, who, msg):
    return (b"tree cc9462f7f8263ef5adfbeff2fb936bb36b504cba\n"
            b"author " + who + b" 10 +0000\ncommitter " + who + b" 10 +0000\n"
            b"encoding " + enc + b"\n\n" + msg)
CASES = [
    (b"utf-8-sig", b"A <a@x>", b"hello\n"),               # export prepends a BOM to every field
    (b"utf-7", b"A <a@x>", b"+AGE-\n"),                   # '+AGE-' decodes to 'a', re-encodes as 'a'
    (b"utf-16", b"A\x00 \x00<\x00a\x00>\x00", b"h\x00i\x00"),   # no BOM on input, BOM on output
    (b"unicode_escape", b"A <a@x>", b"\\x41\n"),          # '\x41' -> 'A'
    (b"UTF_8", b"A <a@x>", b"fine\n"),                    # alias: accepted, round-trips (control)
    (b"l1", b"A <a\xe9@x>", b"fine\xff\n"),               # alias of latin-1: accepted, round-trips (control)
]
for enc, who, msg in CASES:
    r = raw(enc, who, msg)
    c1 = Commit.from_string(r)
    try:
        rev, _, _ = m.import_commit(c1, m.revision_id_foreign_to_bzr, strict=True)
    except Exception as e:
        print("%-16s import refused: %r" % (enc.decode(), e)); continue
    try:
        c2 = m.export_commit(rev, c1.tree, lambda r: m.revision_id_bzr_to_foreign(r)[0], True, None)
        r2 = c2.as_raw_string()
    except Exception as e:
        print("%-16s import accepted, export raises %r" % (enc.decode(), e)); bad += 1; continue
    same = r2 == r
    print("%-16s import accepted, byte-identical=%s sha %s -> %s" % (enc.decode(), same, c1.id.decode()[:10], c2.id.decode()[:10]))
    if not same:
        print("    in : %r\n    out: %r" % (r, r2)); bad += 1
sys.exit(1 if bad else 0)
