import BreezyVerif.Model.C36
import BreezyVerif.Lemmas.C36Esc
import BreezyVerif.Lemmas.C36Utf8
import BreezyVerif.Lemmas.C36Url
import BreezyVerif.Lemmas.C36Cfg
import BreezyVerif.Lemmas.C36CfgFile
/-!
C36 — git identifier mappings round-trip: theorems.

All statements are for every input (no bound on lengths).  A Python `bytes`
value is a `List Nat` whose entries are `< 256` (`isBytes`); theorems that need
this say so, and `…_bytes` corollaries quantify over `List UInt8` directly.
-/
namespace BreezyVerif.C36

/-! ### 1. file-id escaping -/

/-- `unescape_file_id(escape_file_id(b)) == b` for every byte string -/
theorem unescape_escape (b : NBytes) : unescapeFileId (escapeFileId b) = some b := by
  induction b with
  | nil => simp [escapeFileId_nil, unescapeFileId]
  | cons x f ih => rw [escapeFileId_cons, unescape_escapeOne, ih]; rfl

/-- `escape_file_id` is injective -/
theorem escape_injective (a b : NBytes) (h : escapeFileId a = escapeFileId b) : a = b := by
  have := unescape_escape a
  rw [h, unescape_escape] at this
  exact (Option.some.inj this).symm

/-- on the image of `escape_file_id` (strings without a raw space or form feed)
`unescape_file_id` is also a right inverse: whenever it accepts `y`, escaping
the result gives `y` back -/
theorem escape_image (y x : NBytes) (h : unescapeFileId y = some x) (h1 : 0x20 ∉ y) (h2 : 0x0c ∉ y) :
    escapeFileId x = y := by
  induction y using unescapeFileId.induct generalizing x with
  | case1 => simp [unescapeFileId] at h; subst h; exact escapeFileId_nil
  | case2 c rest hc ih =>
    rw [unescapeFileId.eq_def] at h
    simp only [hc, ne_eq, not_false_eq_true, if_true] at h
    cases hr : unescapeFileId rest with
    | none => simp [hr] at h
    | some t =>
      simp only [hr, Option.map_some, Option.some.injEq] at h
      subst h
      simp only [List.mem_cons, not_or] at h1 h2
      rw [escapeFileId_cons, ih t hr h1.2 h2.2]
      have : escapeOne c = [c] := by
        unfold escapeOne
        rw [if_neg hc, if_neg (fun e => h1.1 e.symm), if_neg (fun e => h2.1 e.symm)]
      rw [this]; rfl
  | case3 c hc => simp [unescapeFileId, hc] at h
  | case4 c hc rest ih =>
    simp only [ne_eq, Decidable.not_not] at hc
    subst hc
    rw [unescapeFileId.eq_def] at h
    simp only [ne_eq, not_true_eq_false, if_false, if_true] at h
    cases hr : unescapeFileId rest with
    | none => simp [hr] at h
    | some t =>
      simp only [hr, Option.map_some, Option.some.injEq] at h
      subst h
      simp only [List.mem_cons, not_or] at h1 h2
      rw [escapeFileId_cons, ih t hr h1.2.2 h2.2.2]; rfl
  | case5 c hc rest _ ih =>
    simp only [ne_eq, Decidable.not_not] at hc
    subst hc
    rw [unescapeFileId.eq_def] at h
    simp only [ne_eq, not_true_eq_false, if_false, if_true] at h
    cases hr : unescapeFileId rest with
    | none => simp [hr] at h
    | some t =>
      simp [hr] at h
      subst h
      simp only [List.mem_cons, not_or] at h1 h2
      rw [escapeFileId_cons, ih t hr h1.2.2 h2.2.2]; rfl
  | case6 c hc rest _ _ ih =>
    simp only [ne_eq, Decidable.not_not] at hc
    subst hc
    rw [unescapeFileId.eq_def] at h
    simp only [ne_eq, not_true_eq_false, if_false, if_true] at h
    cases hr : unescapeFileId rest with
    | none => simp [hr] at h
    | some t =>
      simp [hr] at h
      subst h
      simp only [List.mem_cons, not_or] at h1 h2
      rw [escapeFileId_cons, ih t hr h1.2.2 h2.2.2]; rfl
  | case7 c hc d rest h5 h7 h6 =>
    simp only [ne_eq, Decidable.not_not] at hc
    subst hc
    rw [unescapeFileId.eq_def] at h
    simp [h5, h7, h6] at h

example : unescapeFileId [0x5f, 0x73, 0x61, 0x5f, 0x5f] = some [0x20, 0x61, 0x5f] ∧
    (0x20 ∉ [0x5f, 0x73, 0x61, 0x5f, 0x5f]) ∧ (0x0c ∉ [0x5f, 0x73, 0x61, 0x5f, 0x5f]) := by decide


/-! ### 2. UTF-8 with `surrogateescape` (git paths) and strict (names) -/

/-- `encode_git_path(decode_git_path(b)) == b` for every byte string, well-formed
UTF-8 or not -/
theorem encode_decode_surrogateescape (b : NBytes) (hb : isBytes b = true) :
    encodeUtf8 true (decodeSE b) = some b := encode_decodeSE b hb

theorem encode_decode_surrogateescape_bytes (b : Bytes) :
    encodeUtf8 true (decodeSE (b.map UInt8.toNat)) = some (b.map UInt8.toNat) :=
  encode_decodeSE _ (isBytes_map_toNat b)

example : isBytes [0x61, 0xff, 0xc3, 0xa9, 0xe2, 0x82] = true := by decide

/-- `s.encode("utf-8").decode("utf-8") == s` whenever `s` can be encoded (no surrogates) -/
theorem decode_encode_strict (s : Str) (bs : NBytes) (h : encodeUtf8 false s = some bs) :
    decodeStrict bs = some s := decodeStrict_encode h

/-- `b.decode("utf-8").encode("utf-8") == b` whenever `b` is well-formed UTF-8 -/
theorem encode_decode_strict (bs : NBytes) (s : Str) (h : decodeStrict bs = some s) :
    encodeUtf8 false s = some bs := encode_decodeStrict bs h

example : encodeUtf8 false [0x61, 0xe9, 0x20ac, 0x1f600] =
    some [0x61, 0xc3, 0xa9, 0xe2, 0x82, 0xac, 0xf0, 0x9f, 0x98, 0x80] := by decide

/-! ### 3. paths ↔ file ids -/

/-- a git path (any byte string) survives `generate_file_id` / `parse_file_id`:
the parsed `str`, encoded the way breezy-git encodes paths, is the original path -/
theorem parse_generate_path (p : NBytes) (hp : isBytes p = true) :
    (parseFileId (generateFileId p)).bind (encodeUtf8 true) = some p := by
  unfold generateFileId
  by_cases h : p = []
  · subst h; simp [parseFileId, encodeUtf8]
  · simp only [h, if_false]
    unfold parseFileId
    rw [if_neg (prefix_ne_root _)]
    have hpre : fileIdPrefix.isPrefixOf (fileIdPrefix ++ escapeFileId p) = true := by
      simp [fileIdPrefix, List.isPrefixOf]
    simp only [hpre, not_true_eq_false, if_false, List.drop_left', unescape_escape, Option.map_some,
      Option.bind_some]
    exact encode_decodeSE p hp

theorem parse_generate_path_bytes (p : Bytes) :
    (parseFileId (generateFileId (p.map UInt8.toNat))).bind (encodeUtf8 true) = some (p.map UInt8.toNat) :=
  parse_generate_path _ (isBytes_map_toNat p)

/-- the `str` form of a git path (`decode_git_path(p)`, what breezy-git passes
around) survives `generate_file_id` / `parse_file_id` unchanged -/
theorem parse_generate_str (p : NBytes) (hp : isBytes p = true) :
    (generateFileIdStr (decodeSE p)).bind parseFileId = some (decodeSE p) := by
  unfold generateFileIdStr
  rw [encode_decodeSE p hp]
  simp only [Option.map_some, Option.bind_some]
  unfold generateFileId
  by_cases h : p = []
  · subst h; simp [parseFileId, decodeSE]
  · simp only [h, if_false]
    unfold parseFileId
    rw [if_neg (prefix_ne_root _)]
    have hpre : fileIdPrefix.isPrefixOf (fileIdPrefix ++ escapeFileId p) = true := by
      simp [fileIdPrefix, List.isPrefixOf]
    simp only [hpre, not_true_eq_false, if_false, List.drop_left', unescape_escape, Option.map_some]

/-- excluded input family, stated as a theorem: a `str` that is *not* the
decoding of any byte path — two lone surrogates spelling the UTF-8 bytes of
`é` — is accepted by `generate_file_id` but parsed back as a different string -/
theorem parse_generate_str_witness :
    (generateFileIdStr [0xDCC3, 0xDCA9]).bind parseFileId = some [0xE9] := by
  have h1 : generateFileIdStr [0xDCC3, 0xDCA9] = some (fileIdPrefix ++ [0xC3, 0xA9]) := by decide
  rw [h1]
  simp only [Option.bind_some]
  unfold parseFileId
  rw [if_neg (prefix_ne_root _)]
  have hpre : fileIdPrefix.isPrefixOf (fileIdPrefix ++ [0xC3, 0xA9]) = true := by decide
  have hun : unescapeFileId [0xC3, 0xA9] = some [0xC3, 0xA9] := by decide
  have hstep : decodeStep [0xC3, 0xA9] = some (0xE9, []) := by decide
  simp only [hpre, not_true_eq_false, if_false, List.drop_left', hun, Option.map_some,
    decodeSE_of_step hstep, decodeSE]

/-! ### 4. git SHA ↔ revision id -/

/-- every SHA (any byte string) comes back from the revision id made of it, with
the mapping that made it; the all-zero SHA ↔ `null:` -/
theorem revid_roundtrip (pfx sha : NBytes) (hp : pfx ∈ knownMappings) :
    registryBzrToForeign (foreignToBzr pfx sha) = .ok (sha, if sha = zeroSha then none else some pfx) := by
  unfold foreignToBzr
  by_cases hz : sha = zeroSha
  · simp [hz, registryBzrToForeign]
  · simp only [hz, if_false]
    have hcolon : (58 : Nat) ∉ pfx := by
      simp only [knownMappings, List.mem_cons, List.not_mem_nil, or_false] at hp
      rcases hp with rfl | rfl <;> decide
    have hnull : pfx ++ 58 :: sha ≠ nullRevision := by
      simp only [knownMappings, List.mem_cons, List.not_mem_nil, or_false] at hp
      rcases hp with rfl | rfl <;> simp [pfxV1, pfxExp, nullRevision]
    have hdash : gitDash.isPrefixOf (pfx ++ 58 :: sha) = true := by
      simp only [knownMappings, List.mem_cons, List.not_mem_nil, or_false] at hp
      rcases hp with rfl | rfl <;> simp [pfxV1, pfxExp, gitDash, List.isPrefixOf]
    unfold registryBzrToForeign
    rw [if_neg hnull]
    simp only [hdash, not_true_eq_false, if_false, splitOnFirst_append' 58 pfx sha hcolon, hp, if_true]
    unfold mappingBzrToForeign
    have hpre : (pfx ++ [58]).isPrefixOf (pfx ++ 58 :: sha) = true := by
      rw [List.isPrefixOf_iff_prefix]
      exact ⟨sha, by simp⟩
    have hdrop : (pfx ++ 58 :: sha).drop (pfx.length + 1) = sha := by
      have : pfx ++ 58 :: sha = (pfx ++ [58]) ++ sha := by simp
      rw [this]
      have hl : pfx.length + 1 = (pfx ++ [58]).length := by simp
      rw [hl, List.drop_left' rfl]
    simp only [hpre, if_true, hdrop]

example : pfxV1 ∈ knownMappings := by decide

/-- conversely, a revision id the registry accepts with a non-zero SHA is
exactly the revision id its mapping generates for that SHA -/
theorem revid_roundtrip_rev (revid sha pfx : NBytes)
    (h : registryBzrToForeign revid = .ok (sha, some pfx)) (hz : sha ≠ zeroSha) :
    foreignToBzr pfx sha = revid := by
  unfold registryBzrToForeign at h
  split at h
  · simp at h
  · split at h
    · simp at h
    · split at h
      · simp at h
      · rename_i version rest hsplit
        split at h
        · cases hm : mappingBzrToForeign version revid with
          | error e => simp [hm] at h
          | ok sha' =>
            simp only [hm, Except.ok.injEq, Prod.mk.injEq, Option.some.injEq] at h
            obtain ⟨rfl, rfl⟩ := h
            unfold mappingBzrToForeign at hm
            split at hm
            · rename_i hpre
              simp only [Except.ok.injEq] at hm
              subst hm
              unfold foreignToBzr
              rw [if_neg hz]
              rw [List.isPrefixOf_iff_prefix] at hpre
              obtain ⟨t, ht⟩ := hpre
              rw [← ht]
              have hl : version.length + 1 = (version ++ [58]).length := by simp
              rw [hl, List.drop_left' rfl]
              simp
            · simp at hm
        · simp at h

/-- excluded input family: a hand-made revision id carrying the all-zero SHA is
accepted, but the mapping generates `null:` for that SHA, not this id -/
theorem revid_zero_witness :
    registryBzrToForeign (pfxV1 ++ 58 :: zeroSha) = .ok (zeroSha, some pfxV1) ∧
      foreignToBzr pfxV1 zeroSha ≠ pfxV1 ++ 58 :: zeroSha := ⟨by rfl, by decide⟩

/-! ### 5. branch / tag names ↔ refs -/

/-- a branch name that does not itself start with `refs/` comes back from its
ref (`""` ↔ `HEAD`), whenever it can be encoded at all -/
theorem branch_ref_roundtrip (name : Str) (r : NBytes) (hn : refsSlash.isPrefixOf name = false)
    (h : branchNameToRef name = some r) : refToBranchName (some r) = .ok (some name) := by
  unfold branchNameToRef at h
  by_cases h0 : name = []
  · simp only [h0, if_true, Option.some.injEq] at h
    subst h; subst h0; simp [refToBranchName]
  · simp only [h0, if_false, hn, Bool.false_eq_true, not_false_eq_true, if_true] at h
    cases he : encodeUtf8 false name with
    | none => simp [he] at h
    | some e =>
      simp only [he, Option.map_some, Option.some.injEq] at h
      subst h
      unfold refToBranchName
      have h1 : headsPrefix ++ e ≠ headRef := by simp [headsPrefix, headRef]
      have h2 : headsPrefix.isPrefixOf (headsPrefix ++ e) = true := by simp [headsPrefix, List.isPrefixOf]
      simp only [h1, if_false, h2, if_true, List.drop_left', decodeStrict_encode he]

example : refsSlash.isPrefixOf [0x61, 0x2f, 0xe9] = false ∧
    branchNameToRef [0x61, 0x2f, 0xe9] = some (headsPrefix ++ [0x61, 0x2f, 0xc3, 0xa9]) := by decide

/-- a ref that maps to a branch name is what that branch name maps to, except
for the two documented degenerate spellings (`refs/heads/` alone, and a branch
name that itself starts with `refs/`) -/
theorem ref_branch_roundtrip (ref : NBytes) (name : Str)
    (h : refToBranchName (some ref) = .ok (some name)) (h0 : name ≠ [] ∨ ref = headRef)
    (hn : refsSlash.isPrefixOf name = false) : branchNameToRef name = some ref := by
  unfold refToBranchName at h
  simp only at h
  split at h
  · rename_i hh
    simp only [Except.ok.injEq, Option.some.injEq] at h
    subst h; subst hh; simp [branchNameToRef]
  · rename_i hh
    split at h
    · rename_i hpre
      split at h
      · rename_i s hs
        simp only [Except.ok.injEq, Option.some.injEq] at h
        subst h
        have hne : s ≠ [] := by
          rcases h0 with h0 | h0
          · exact h0
          · exact absurd h0 hh
        unfold branchNameToRef
        simp only [hne, if_false, hn, Bool.false_eq_true, not_false_eq_true, if_true,
          encode_decodeStrict _ hs, Option.map_some, Option.some.injEq]
        rw [List.isPrefixOf_iff_prefix] at hpre
        obtain ⟨t, ht⟩ := hpre
        rw [← ht, List.drop_left' rfl]
      · simp at h
    · simp at h

/-- excluded input family (documented behaviour of `branch_name_to_ref`): a
"branch name" that starts with `refs/` is taken to be a ref already and does not
come back through `ref_to_branch_name` -/
theorem branch_ref_refs_witness :
    branchNameToRef (refsSlash ++ [116, 47, 120]) = some (refsSlash ++ [116, 47, 120]) ∧
      refToBranchName (some (refsSlash ++ [116, 47, 120])) = .error .value := ⟨by decide, by rfl⟩

/-- every tag name that can be encoded comes back from its ref -/
theorem tag_ref_roundtrip (name : Str) (r : NBytes) (h : tagNameToRef name = some r) :
    refToTagName r = .ok name := by
  unfold tagNameToRef at h
  cases he : encodeUtf8 false name with
  | none => simp [he] at h
  | some e =>
    simp only [he, Option.map_some, Option.some.injEq] at h
    subst h
    unfold refToTagName
    have h2 : tagsPrefix.isPrefixOf (tagsPrefix ++ e) = true := by simp [tagsPrefix, List.isPrefixOf]
    simp only [h2, if_true, List.drop_left', decodeStrict_encode he]

/-- every ref that maps to a tag name is what that tag name maps to -/
theorem ref_tag_roundtrip (ref : NBytes) (name : Str) (h : refToTagName ref = .ok name) :
    tagNameToRef name = some ref := by
  unfold refToTagName at h
  split at h
  · rename_i hpre
    split at h
    · rename_i s hs
      simp only [Except.ok.injEq] at h
      subst h
      unfold tagNameToRef
      rw [encode_decodeStrict _ hs]
      rw [List.isPrefixOf_iff_prefix] at hpre
      obtain ⟨t, ht⟩ := hpre
      simp only [Option.map_some, Option.some.injEq]
      rw [← ht, List.drop_left' rfl]
    · simp at h
  · simp at h


/-! ### 6. git URL + branch/ref ↔ breezy URL -/

/-- `unquote_to_bytes(quote_from_bytes(b, safe="")) == b` for every byte string -/
theorem pct_decode_encode (bs : NBytes) (hb : isBytes bs = true) : pctDecode (pctEncode [] bs) = bs :=
  pctDecode_pctEncode [] (by simp) bs hb

/-- the parameter part of the round trip, for any location without a comma in
its last path segment (commas elsewhere in the URL do not matter:
`split_segment_parameters` only looks at the last segment) -/
theorem addRefParams_roundtrip (loc' : Str) (branch : Option Str) (ref : Option NBytes) (u : Str)
    (hcf : lastSegCommaFree loc' = true) (hb : ∀ r, ref = some r → isBytes r = true)
    (h : addRefParams loc' branch ref = .ok u) :
    bzrUrlToGitUrl u = .ok (loc', cleanBR (normBR branch ref)) := by
  obtain ⟨hc, hc2⟩ := (lastSegCommaFree_iff loc').1 hcf
  have hplain : bzrUrlToGitUrl loc' = .ok (loc', none, none) := by
    unfold bzrUrlToGitUrl
    rw [splitSegParams_none loc' hc]
    simp [paramGet]
  unfold addRefParams at h
  cases hn : normBR branch ref with
  | mk b' r' =>
    rw [hn] at h
    cases r' with
    | some r =>
      obtain ⟨rfl, hr⟩ := normBR_some hn
      have hbytes := hb r hr
      simp only at h
      rw [joinSegParam_simple _ _ _ hc] at h
      simp only [Except.ok.injEq] at h
      subst h
      have hv := pctEncode_chars r hbytes
      unfold bzrUrlToGitUrl
      rw [splitSegParams_joined loc' kRef _ hc2 key_chars.2
        (fun c hc => ⟨(hv c hc).2.1, (hv c hc).2.2.1, (hv c hc).2.2.2.1⟩)]
      have h1 : paramGet [(kRef, pctEncode [] r)] kBranch = none := by
        simp [paramGet, kRef, kBranch]
      have h2 : paramGet [(kRef, pctEncode [] r)] kRef = some (pctEncode [] r) := by
        simp [paramGet]
      simp only [h1, h2, encodeUtf8_ascii false _ (all_lt_of_forall fun c hc => (hv c hc).1),
        pct_decode_encode r hbytes, cleanBR]
      simp
    | none =>
      cases b' with
      | none =>
        simp only [Except.ok.injEq] at h
        subst h
        simp [hplain, cleanBR]
      | some b =>
        simp only at h
        by_cases hb0 : b = []
        · simp only [hb0, if_true, Except.ok.injEq] at h
          subst h
          simp [hplain, cleanBR, hb0]
        · simp only [hb0, if_false] at h
          cases he : escapeStr b with
          | none => simp [he] at h
          | some e =>
            simp only [he] at h
            rw [joinSegParam_simple _ _ _ hc] at h
            simp only [Except.ok.injEq] at h
            subst h
            have hun := unescapeStr_escapeStr he
            unfold escapeStr at he
            cases hbs : encodeUtf8 false b with
            | none => simp [hbs] at he
            | some bs =>
              simp only [hbs, Option.map_some, Option.some.injEq] at he
              have hv := pctEncode_chars bs (encodeUtf8_isBytes hbs)
              rw [he] at hv
              unfold bzrUrlToGitUrl
              rw [splitSegParams_joined loc' kBranch e hc2 key_chars.1
                (fun c hc => ⟨(hv c hc).2.1, (hv c hc).2.2.1, (hv c hc).2.2.2.1⟩)]
              have h1 : paramGet [(kBranch, e)] kBranch = some e := by simp [paramGet]
              have h2 : paramGet [(kBranch, e)] kRef = none := by simp [paramGet, kRef, kBranch]
              simp only [h1, h2, hun, cleanBR]
              simp [hb0, Except.map]

/-- **URL round trip.**  For every location that `git_url_to_bzr_url` treats as
`loc'` (normalised git URL, or a non-URL location kept as it is) without a comma,
every branch name and every ref (any bytes): splitting the produced breezy URL
gives back the location and the branch/ref in the normal form `normBR`. -/
theorem url_roundtrip (loc loc' : Str) (branch : Option Str) (ref : Option NBytes) (u : Str)
    (hloc : normLoc loc = .url loc' ∨ (normLoc loc = .unchanged ∧ loc' = loc)) (hc : lastSegCommaFree loc' = true)
    (hb : ∀ r, ref = some r → isBytes r = true)
    (h : gitUrlToBzrUrl loc branch ref = .ok u) :
    bzrUrlToGitUrl u = .ok (loc', cleanBR (normBR branch ref)) := by
  unfold gitUrlToBzrUrl gitUrlToBzrUrlG at h
  split at h
  · simp at h
  · rcases hloc with hl | ⟨hl, rfl⟩
    · rw [hl] at h
      exact addRefParams_roundtrip loc' branch ref u hc hb h
    · rw [hl] at h
      simp only [Bool.false_eq_true, if_false] at h
      exact addRefParams_roundtrip _ branch ref u hc hb h

example : normLoc [104, 116, 116, 112, 115, 58, 47, 47, 104, 47, 114] =
      .url [104, 116, 116, 112, 115, 58, 47, 47, 104, 47, 114] ∧
    gitUrlToBzrUrl [104, 116, 116, 112, 115, 58, 47, 47, 104, 47, 114] (some [97, 47, 98]) none =
      .ok ([104, 116, 116, 112, 115, 58, 47, 47, 104, 47, 114] ++ [44] ++ kBranch ++ [61, 97, 37, 50, 70, 98]) :=
  ⟨by decide, by rfl⟩


/-- the ref designated by what comes back is the ref designated by what went in
(`branch X` ≡ `refs/heads/X`, nothing ≡ `HEAD`), for every ref satisfying `refOk` -/
theorem effRef_normBR (branch : Option Str) (ref : Option NBytes)
    (hx : branch = none ∨ ref = none) (hok : refOk ref = true) :
    effRef (cleanBR (normBR branch ref)).1 (cleanBR (normBR branch ref)).2 = effRef branch ref := by
  cases ref with
  | none =>
    cases branch with
    | none => simp [normBR, cleanBR, effRef]
    | some b =>
      by_cases hb : b = []
      · simp [normBR, cleanBR, effRef, hb]
      · simp [normBR, cleanBR, effRef, hb]
  | some r =>
    have hbn : branch = none := by rcases hx with h | h; exact h; cases h
    subst hbn
    unfold normBR
    simp only
    by_cases h1 : r = headRef ∨ r = []
    · rw [if_pos h1]
      rcases h1 with h1 | h1
      · subst h1; simp [cleanBR, effRef, headRef]
      · subst h1; simp [cleanBR, effRef]
    · rw [if_neg h1]
      simp only [not_or] at h1
      cases hrb : refToBranchName (some r) with
      | error e => simp [cleanBR, effRef, h1.2]
      | ok b =>
        obtain ⟨n, rfl⟩ := refToBranchName_some_ok hrb
        unfold refOk at hok
        rw [hrb] at hok
        simp only [Bool.or_eq_true, beq_iff_eq, Option.some.injEq, Bool.and_eq_true, bne_iff_ne, ne_eq,
          Bool.not_eq_eq_eq_not, Bool.not_true] at hok
        rcases hok with hok | hok
        · exact absurd hok h1.1
        · have := ref_branch_roundtrip r n hrb (Or.inl hok.1) hok.2
          simp [cleanBR, effRef, hok.1, this, h1.2]

example : refOk (some (headsPrefix ++ [97, 47, 98])) = true ∧ refOk (some (tagsPrefix ++ [118])) = true ∧
    refOk (some headsPrefix) = false := by
  refine ⟨?_, by rfl, ?_⟩
  · have := branch_ref_roundtrip [97, 47, 98] (headsPrefix ++ [97, 47, 98]) (by decide) (by decide)
    unfold refOk; rw [this]; decide
  · have : refToBranchName (some headsPrefix) = .ok (some []) := by
      unfold refToBranchName
      simp [headsPrefix, headRef, List.isPrefixOf, decodeStrict]
    unfold refOk; rw [this]; decide

/-- **URL round trip, ref level.**  The breezy URL made from a location and a
branch or ref designates, after splitting, the same location and the same git ref. -/
theorem url_roundtrip_eff (loc loc' : Str) (branch : Option Str) (ref : Option NBytes) (u : Str)
    (hloc : normLoc loc = .url loc' ∨ (normLoc loc = .unchanged ∧ loc' = loc)) (hc : lastSegCommaFree loc' = true)
    (hb : ∀ r, ref = some r → isBytes r = true) (hok : refOk ref = true)
    (h : gitUrlToBzrUrl loc branch ref = .ok u) :
    ∃ b' r', bzrUrlToGitUrl u = .ok (loc', b', r') ∧ effRef b' r' = effRef branch ref := by
  refine ⟨_, _, url_roundtrip loc loc' branch ref u hloc hc hb h, ?_⟩
  apply effRef_normBR _ _ _ hok
  unfold gitUrlToBzrUrl gitUrlToBzrUrlG at h
  split at h
  · simp at h
  · rename_i hx
    cases branch <;> cases ref <;> simp_all

/-- the code as found (F1) is not an inverse: the `ref` parameter written by
`git_url_to_bzr_url` is not read back, and a branch name comes back %-escaped -/
theorem url_roundtrip_legacy_witness :
    let h := [104, 116, 116, 112, 115, 58, 47, 47, 104, 47, 114]   -- "https://h/r"
    (∃ u, gitUrlToBzrUrl h none (some (tagsPrefix ++ [118])) = .ok u ∧
        bzrUrlToGitUrlLegacy u = .ok (h, none, none) ∧
        bzrUrlToGitUrl u = .ok (h, none, some (tagsPrefix ++ [118]))) ∧
    (∃ u, gitUrlToBzrUrl h (some [97, 47, 98]) none = .ok u ∧
        bzrUrlToGitUrlLegacy u = .ok (h, some [97, 37, 50, 70, 98], none) ∧
        bzrUrlToGitUrl u = .ok (h, some [97, 47, 98], none)) := by
  refine ⟨⟨_, rfl, by rfl, ?_⟩, ⟨_, rfl, by rfl, ?_⟩⟩
  · exact url_roundtrip [104, 116, 116, 112, 115, 58, 47, 47, 104, 47, 114]
      [104, 116, 116, 112, 115, 58, 47, 47, 104, 47, 114] none (some (tagsPrefix ++ [118])) _
      (Or.inl (by decide)) (by decide) (by intro r hr; cases hr; decide) rfl
  · exact url_roundtrip [104, 116, 116, 112, 115, 58, 47, 47, 104, 47, 114]
      [104, 116, 116, 112, 115, 58, 47, 47, 104, 47, 114] (some [97, 47, 98]) none _
      (Or.inl (by decide)) (by decide) (by intro r hr; cases hr) rfl

/-! ### 6b. the other direction, and the excluded URL families as witnesses -/

/-- the normal form of a branch/ref pair is a fixed point of the normalisation -/
theorem normBR_idem (branch : Option Str) (ref : Option NBytes) :
    cleanBR (normBR (cleanBR (normBR branch ref)).1 (cleanBR (normBR branch ref)).2) =
      cleanBR (normBR branch ref) := by
  cases ref with
  | none =>
    cases branch with
    | none => simp [normBR, cleanBR]
    | some b =>
      by_cases hb : b = []
      · simp [normBR, cleanBR, hb]
      · simp [normBR, cleanBR, hb]
  | some r =>
    by_cases h1 : r = headRef ∨ r = []
    · have : normBR branch (some r) = (none, none) := by simp [normBR, h1]
      rw [this]; simp [normBR, cleanBR]
    · cases hrb : refToBranchName (some r) with
      | error e =>
        have hunf : normBR branch (some r) = (none, some r) := by
          unfold normBR; simp only [h1, if_false, hrb]
        have hunf' : normBR none (some r) = (none, some r) := by
          unfold normBR; simp only [h1, if_false, hrb]
        rw [hunf]
        simp only [cleanBR, reduceCtorEq, if_false]
        rw [hunf']
        simp
      | ok b =>
        obtain ⟨n, rfl⟩ := refToBranchName_some_ok hrb
        have hunf : normBR branch (some r) = (some n, none) := by
          unfold normBR; simp only [h1, if_false, hrb]
        rw [hunf]
        by_cases hn : n = []
        · simp [normBR, cleanBR, hn]
        · simp [normBR, cleanBR, hn]

/-- one of the two components of a normal form is always absent -/
theorem normBR_one_none (branch : Option Str) (ref : Option NBytes) (hx : branch = none ∨ ref = none) :
    (cleanBR (normBR branch ref)).1 = none ∨ (cleanBR (normBR branch ref)).2 = none := by
  cases ref with
  | none => right; simp [normBR, cleanBR]
  | some r =>
    by_cases h1 : r = headRef ∨ r = []
    · left; simp [normBR, h1, cleanBR]
    · cases hrb : refToBranchName (some r) with
      | error e =>
        left
        have hunf : normBR branch (some r) = (none, some r) := by
          unfold normBR; simp only [h1, if_false, hrb]
        rw [hunf]; simp [cleanBR]
      | ok b =>
        right
        have hunf : normBR branch (some r) = (b, none) := by
          unfold normBR; simp only [h1, if_false, hrb]
        rw [hunf]; simp [cleanBR]

/-- **URL round trip, breezy → git → breezy.**  Every canonical breezy URL `u`
(what `git_url_to_bzr_url` makes of a normalised location without a comma in
its last segment and any branch name or ref) is a fixed point: splitting it
with `bzr_url_to_git_url` and handing the three results back to
`git_url_to_bzr_url` returns `u` itself. -/
theorem url_roundtrip_rev (loc' : Str) (branch : Option Str) (ref : Option NBytes) (u : Str)
    (hnorm : normLoc loc' = .url loc' ∨ normLoc loc' = .unchanged) (hc : lastSegCommaFree loc' = true)
    (hb : ∀ r, ref = some r → isBytes r = true)
    (h : gitUrlToBzrUrl loc' branch ref = .ok u) :
    ∃ l b r, bzrUrlToGitUrl u = .ok (l, b, r) ∧ gitUrlToBzrUrl l b r = .ok u := by
  have hx : branch = none ∨ ref = none := by
    unfold gitUrlToBzrUrl gitUrlToBzrUrlG at h
    split at h
    · simp at h
    · cases branch <;> cases ref <;> simp_all
  have hloc : normLoc loc' = .url loc' ∨ (normLoc loc' = .unchanged ∧ loc' = loc') := by
    rcases hnorm with h | h
    · exact Or.inl h
    · exact Or.inr ⟨h, rfl⟩
  refine ⟨loc', (cleanBR (normBR branch ref)).1, (cleanBR (normBR branch ref)).2,
    url_roundtrip loc' loc' branch ref u hloc hc hb h, ?_⟩
  rw [gitUrlToBzrUrl_eq_addRefParams loc' _ _ hnorm (normBR_one_none branch ref hx),
    addRefParams_congr loc' _ branch _ ref (normBR_idem branch ref),
    ← gitUrlToBzrUrl_eq_addRefParams loc' branch ref hnorm hx, h]

example : gitUrlToBzrUrl [104, 116, 116, 112, 115, 58, 47, 47, 104, 47, 97, 44, 98, 47, 114] (some [120, 44, 121]) none =
    .ok ([104, 116, 116, 112, 115, 58, 47, 47, 104, 47, 97, 44, 98, 47, 114] ++ [44] ++ kBranch ++
      [61, 120, 37, 50, 67, 121]) := by rfl

/-- excluded family of `hc`: a comma in the *last* segment of the location is
read as the start of segment parameters — `git_url_to_bzr_url("https://h/r,a=b",
branch="x")` is accepted, but the location that comes back is `https://h/r` -/
theorem url_trailing_comma_witness :
    let loc := [104, 116, 116, 112, 115, 58, 47, 47, 104, 47, 114, 44, 97, 61, 98]
    lastSegCommaFree loc = false ∧ normLoc loc = .url loc ∧
      ∃ u, gitUrlToBzrUrl loc (some [120]) none = .ok u ∧
        (splitSegParams u).map (·.1) = some [104, 116, 116, 112, 115, 58, 47, 47, 104, 47, 114] := by
  refine ⟨by decide, by decide, _, rfl, by decide⟩

/-- excluded families of `refOk`, at URL level: the ref `refs/heads/refs/x`
becomes the branch parameter `refs%2Fx`, which designates the ref `refs/x`; the
ref `refs/heads/` becomes no parameter at all, which designates `HEAD` -/
theorem url_refOk_witness :
    let h := [104, 116, 116, 112, 115, 58, 47, 47, 104, 47, 114]   -- "https://h/r"
    let r1 := headsPrefix ++ refsSlash ++ [120]                       -- "refs/heads/refs/x"
    refOk (some r1) = false ∧ refOk (some headsPrefix) = false ∧
    (∃ u b r, gitUrlToBzrUrl h none (some r1) = .ok u ∧ bzrUrlToGitUrl u = .ok (h, b, r) ∧
        effRef b r = some (refsSlash ++ [120]) ∧ effRef none (some r1) = some r1) ∧
    (∃ u b r, gitUrlToBzrUrl h none (some headsPrefix) = .ok u ∧ bzrUrlToGitUrl u = .ok (h, b, r) ∧
        effRef b r = some headRef ∧ effRef none (some headsPrefix) = some headsPrefix) := by
  have hd1 : refToBranchName (some (headsPrefix ++ refsSlash ++ [120])) = .ok (some (refsSlash ++ [120])) := by
    unfold refToBranchName
    have h1 : headsPrefix ++ refsSlash ++ [120] ≠ headRef := by decide
    have h2 : headsPrefix.isPrefixOf (headsPrefix ++ refsSlash ++ [120]) = true := by decide
    have h3 : (headsPrefix ++ refsSlash ++ [120]).drop headsPrefix.length = refsSlash ++ [120] := by decide
    simp only [h1, if_false, h2, if_true, h3, decodeStrict_ascii (refsSlash ++ [120]) (by decide)]
  have hd2 : refToBranchName (some headsPrefix) = .ok (some []) := by
    unfold refToBranchName
    simp [headsPrefix, headRef, List.isPrefixOf, decodeStrict]
  have hn1 : normBR none (some (headsPrefix ++ refsSlash ++ [120])) = (some (refsSlash ++ [120]), none) := by
    unfold normBR
    have : ¬(headsPrefix ++ refsSlash ++ [120] = headRef ∨ headsPrefix ++ refsSlash ++ [120] = []) := by decide
    simp only [this, if_false, hd1]
  have hn2 : normBR none (some headsPrefix) = (some [], none) := by
    unfold normBR
    have : ¬(headsPrefix = headRef ∨ headsPrefix = []) := by decide
    simp only [this, if_false, hd2]
  have hloc : normLoc [104, 116, 116, 112, 115, 58, 47, 47, 104, 47, 114] =
      .url [104, 116, 116, 112, 115, 58, 47, 47, 104, 47, 114] := by decide
  refine ⟨?_, ?_, ?_, ?_⟩
  · unfold refOk; rw [hd1]; decide
  · unfold refOk; rw [hd2]; decide
  · have hg : ∃ u, gitUrlToBzrUrl [104, 116, 116, 112, 115, 58, 47, 47, 104, 47, 114] none
        (some (headsPrefix ++ refsSlash ++ [120])) = .ok u := by
      unfold gitUrlToBzrUrl gitUrlToBzrUrlG
      simp only [hloc, addRefParams, hn1]
      exact ⟨_, rfl⟩
    obtain ⟨u, hu⟩ := hg
    have hr := url_roundtrip _ _ none (some (headsPrefix ++ refsSlash ++ [120])) u (Or.inl hloc) (by decide)
      (by intro r hr; cases hr; decide) hu
    rw [hn1] at hr
    exact ⟨u, _, _, hu, hr, by decide, by decide⟩
  · have hg : gitUrlToBzrUrl [104, 116, 116, 112, 115, 58, 47, 47, 104, 47, 114] none (some headsPrefix) =
        .ok [104, 116, 116, 112, 115, 58, 47, 47, 104, 47, 114] := by
      unfold gitUrlToBzrUrl gitUrlToBzrUrlG
      simp only [hloc, addRefParams, hn2]
      rfl
    have hr := url_roundtrip _ _ none (some headsPrefix) _ (Or.inl hloc) (by decide)
      (by intro r hr; cases hr; decide) hg
    rw [hn2] at hr
    exact ⟨_, _, _, hg, hr, by decide, by decide⟩

/-! ### 7. parent location -/

/-- **set_parent then get_parent.**  For a branch with a name: after
`set_parent(loc)`, where `loc` splits into `(t, b, r)`, `get_parent` returns the
breezy URL of `t` with the git ref that `(b, r)` designates. -/
theorem parent_location_roundtrip (c c' : Cfg) (name loc t : Str) (b : Option Str) (r : Option NBytes)
    (hname : name ≠ []) (hsplit : bzrUrlToGitUrl loc = .ok (t, b, r))
    (hset : setParent c name loc = .ok c') :
    ∃ m, effRef b r = some m ∧
      getParentLocation c' name = (gitUrlToBzrUrl t none (some m)).map some := by
  unfold setParent at hset
  cases hnm : encodeUtf8 false name with
  | none => simp [hnm] at hset
  | some nm =>
    simp only [hnm, hsplit] at hset
    cases hte : encodeUtf8 false t with
    | none => simp [hte] at hset
    | some te =>
      simp only [hte, hname, if_false] at hset
      cases hm : effRef b r with
      | none => simp [hm] at hset
      | some m =>
        simp only [hm, Except.ok.injEq] at hset
        refine ⟨m, rfl, ?_⟩
        subst hset
        have k31 : (bBranch, nm, bMerge) ≠ (bBranch, nm, bRemote) := by
          intro h; simp [Prod.ext_iff, bMerge, bRemote] at h
        have k21 : ∀ x : NBytes, (bRemote, x, bFetch) ≠ (bBranch, nm, bRemote) := by
          intro x h; simp [Prod.ext_iff, bBranch, bRemote] at h
        have k11 : ∀ x : NBytes, (bRemote, x, bUrl) ≠ (bBranch, nm, bRemote) := by
          intro x h; simp [Prod.ext_iff, bBranch, bRemote] at h
        have k3u : ∀ x : NBytes, (bBranch, nm, bMerge) ≠ (bRemote, x, bUrl) := by
          intro x h; simp [Prod.ext_iff, bBranch, bRemote] at h
        have k2u : ∀ x : NBytes, (bRemote, x, bFetch) ≠ (bRemote, x, bUrl) := by
          intro x h; simp [Prod.ext_iff, bFetch, bUrl] at h
        unfold getParentLocation
        simp only [hnm]
        unfold getParentWith
        have horigin : getOrigin (cfgSet (cfgSet (cfgSet c (bRemote, getOrigin c nm, bUrl) te)
            (bRemote, getOrigin c nm, bFetch) (fetchA ++ getOrigin c nm ++ fetchB)) (bBranch, nm, bMerge) m) nm
            = getOrigin c nm := by
          unfold getOrigin
          rw [cfgGet_set_other _ _ _ _ k31, cfgGet_set_other _ _ _ _ (k21 _), cfgGet_set_other _ _ _ _ (k11 _)]
        simp only [horigin]
        rw [cfgGet_set_other _ _ _ _ (k3u _), cfgGet_set_other _ _ _ _ (k2u _), cfgGet_set_same,
          cfgGet_set_same]
        simp only [decodeStrict_encode hte]
        rfl

/-- **the unnamed branch.**  A branch without a name (detached `HEAD`) has no
`[branch "<name>"]` section to keep a merge ref in: after `set_parent(loc)`,
where `loc` splits into `(t, b, r)`, `get_parent` returns the breezy URL of `t`
alone — the branch / ref of `loc` is not kept. -/
theorem parent_location_unnamed (c c' : Cfg) (loc t : Str) (b : Option Str) (r : Option NBytes)
    (hsplit : bzrUrlToGitUrl loc = .ok (t, b, r)) (hset : setParent c [] loc = .ok c')
    (hm : cfgGet c (bBranch, [], bMerge) = none) :
    getParentLocation c' [] = (gitUrlToBzrUrl t none (some headRef)).map some := by
  unfold setParent at hset
  have hnm : encodeUtf8 false [] = some [] := rfl
  simp only [hnm, hsplit] at hset
  cases hte : encodeUtf8 false t with
  | none => simp [hte] at hset
  | some te =>
    simp only [hte, if_true, Except.ok.injEq] at hset
    subst hset
    have k21 : ∀ x : NBytes, (bRemote, x, bFetch) ≠ (bBranch, ([] : NBytes), bRemote) := by
      intro x h; simp [Prod.ext_iff, bBranch, bRemote] at h
    have k11 : ∀ x : NBytes, (bRemote, x, bUrl) ≠ (bBranch, ([] : NBytes), bRemote) := by
      intro x h; simp [Prod.ext_iff, bBranch, bRemote] at h
    have k2u : ∀ x : NBytes, (bRemote, x, bFetch) ≠ (bRemote, x, bUrl) := by
      intro x h; simp [Prod.ext_iff, bFetch, bUrl] at h
    have k2m : ∀ x : NBytes, (bRemote, x, bFetch) ≠ (bBranch, ([] : NBytes), bMerge) := by
      intro x h; simp [Prod.ext_iff, bBranch, bRemote] at h
    have k1m : ∀ x : NBytes, (bRemote, x, bUrl) ≠ (bBranch, ([] : NBytes), bMerge) := by
      intro x h; simp [Prod.ext_iff, bBranch, bRemote] at h
    unfold getParentLocation
    simp only [hnm]
    unfold getParentWith
    have horigin : getOrigin (cfgSet (cfgSet c (bRemote, getOrigin c [], bUrl) te)
        (bRemote, getOrigin c [], bFetch) (fetchA ++ getOrigin c [] ++ fetchB)) [] = getOrigin c [] := by
      unfold getOrigin
      rw [cfgGet_set_other _ _ _ _ (k21 _), cfgGet_set_other _ _ _ _ (k11 _)]
    simp only [horigin]
    rw [cfgGet_set_other _ _ _ _ (k2u _), cfgGet_set_same, cfgGet_set_other _ _ _ _ (k2m _),
      cfgGet_set_other _ _ _ _ (k1m _), hm]
    simp only [decodeStrict_encode hte]
    rfl

/-- excluded family of `hname`, as the code behaves: on an unnamed branch
`set_parent("https://h/r,branch=foo")` is followed by `get_parent() ==
"https://h/r"` -/
theorem parent_location_unnamed_witness :
    ∃ c', setParent [] []
        ([104, 116, 116, 112, 115, 58, 47, 47, 104, 47, 114] ++ [44] ++ kBranch ++ [61, 102, 111, 111]) = .ok c' ∧
      getParentLocation c' [] = .ok (some [104, 116, 116, 112, 115, 58, 47, 47, 104, 47, 114]) := by
  have hs : bzrUrlToGitUrl ([104, 116, 116, 112, 115, 58, 47, 47, 104, 47, 114] ++ [44] ++ kBranch ++
      [61, 102, 111, 111]) = .ok ([104, 116, 116, 112, 115, 58, 47, 47, 104, 47, 114], some [102, 111, 111], none) :=
    url_roundtrip [104, 116, 116, 112, 115, 58, 47, 47, 104, 47, 114]
      [104, 116, 116, 112, 115, 58, 47, 47, 104, 47, 114] (some [102, 111, 111]) none _
      (Or.inl (by decide)) (by decide) (by intro r hr; cases hr) rfl
  have e2 : encodeUtf8 false [104, 116, 116, 112, 115, 58, 47, 47, 104, 47, 114] =
      some [104, 116, 116, 112, 115, 58, 47, 47, 104, 47, 114] := by decide
  have hset : setParent [] []
      ([104, 116, 116, 112, 115, 58, 47, 47, 104, 47, 114] ++ [44] ++ kBranch ++ [61, 102, 111, 111]) =
      .ok [((bRemote, bOrigin, bUrl), [104, 116, 116, 112, 115, 58, 47, 47, 104, 47, 114]),
           ((bRemote, bOrigin, bFetch), fetchA ++ bOrigin ++ fetchB)] := by
    unfold setParent
    have hnm : encodeUtf8 false [] = some [] := rfl
    simp only [hnm, hs, e2]
    rfl
  refine ⟨_, hset, ?_⟩
  rw [parent_location_unnamed [] _ _ _ _ _ hs hset rfl]
  have hn : normLoc [104, 116, 116, 112, 115, 58, 47, 47, 104, 47, 114] =
      .url [104, 116, 116, 112, 115, 58, 47, 47, 104, 47, 114] := by decide
  have hnb : normBR none (some headRef) = (none, none) := by simp [normBR]
  unfold gitUrlToBzrUrl gitUrlToBzrUrlG
  simp only [hn, addRefParams, hnb]
  rfl

/-- the code as found (F14) reads the merge ref from `[branch "<remote>"]`:
after `set_parent("https://h/r,branch=foo")` on branch `master` the correct
getter returns that URL, the getter as found returns `https://h/r` -/
theorem parent_location_legacy_witness :
    ∃ c', setParent [] [109, 97, 115, 116, 101, 114]
        ([104, 116, 116, 112, 115, 58, 47, 47, 104, 47, 114] ++ [44] ++ kBranch ++ [61, 102, 111, 111]) = .ok c' ∧
      getParentLocation c' [109, 97, 115, 116, 101, 114] =
        .ok (some ([104, 116, 116, 112, 115, 58, 47, 47, 104, 47, 114] ++ [44] ++ kBranch ++ [61, 102, 111, 111])) ∧
      getParentLocationLegacy c' [109, 97, 115, 116, 101, 114] =
        .ok (some [104, 116, 116, 112, 115, 58, 47, 47, 104, 47, 114]) := by
  have hs : bzrUrlToGitUrl ([104, 116, 116, 112, 115, 58, 47, 47, 104, 47, 114] ++ [44] ++ kBranch ++
      [61, 102, 111, 111]) = .ok ([104, 116, 116, 112, 115, 58, 47, 47, 104, 47, 114], some [102, 111, 111], none) :=
    url_roundtrip [104, 116, 116, 112, 115, 58, 47, 47, 104, 47, 114]
      [104, 116, 116, 112, 115, 58, 47, 47, 104, 47, 114] (some [102, 111, 111]) none _
      (Or.inl (by decide)) (by decide) (by intro r hr; cases hr) rfl
  have e1 : encodeUtf8 false [109, 97, 115, 116, 101, 114] = some [109, 97, 115, 116, 101, 114] := by decide
  have e2 : encodeUtf8 false [104, 116, 116, 112, 115, 58, 47, 47, 104, 47, 114] =
      some [104, 116, 116, 112, 115, 58, 47, 47, 104, 47, 114] := by decide
  have e3 : effRef (some [102, 111, 111]) none = some (headsPrefix ++ [102, 111, 111]) := by decide
  have hset : setParent [] [109, 97, 115, 116, 101, 114]
      ([104, 116, 116, 112, 115, 58, 47, 47, 104, 47, 114] ++ [44] ++ kBranch ++ [61, 102, 111, 111]) =
      .ok [((bRemote, bOrigin, bUrl), [104, 116, 116, 112, 115, 58, 47, 47, 104, 47, 114]),
           ((bRemote, bOrigin, bFetch), fetchA ++ bOrigin ++ fetchB),
           ((bBranch, [109, 97, 115, 116, 101, 114], bMerge), headsPrefix ++ [102, 111, 111])] := by
    unfold setParent
    simp only [e1, hs, e2, e3]
    rfl
  refine ⟨_, hset, ?_, ?_⟩
  · obtain ⟨m, hm, hget⟩ := parent_location_roundtrip _ _ _ _ _ _ _ (by decide) hs hset
    rw [e3] at hm
    cases hm
    rw [hget]
    have hr : refToBranchName (some (headsPrefix ++ [102, 111, 111])) = .ok (some [102, 111, 111]) :=
      branch_ref_roundtrip [102, 111, 111] _ (by decide) (by decide)
    have hn : normLoc [104, 116, 116, 112, 115, 58, 47, 47, 104, 47, 114] =
        .url [104, 116, 116, 112, 115, 58, 47, 47, 104, 47, 114] := by decide
    have hne : ¬(headsPrefix ++ [102, 111, 111] = headRef ∨ headsPrefix ++ [102, 111, 111] = []) := by decide
    have hnb : normBR none (some (headsPrefix ++ [102, 111, 111])) = (some [102, 111, 111], none) := by
      unfold normBR
      simp only [hne, if_false, hr]
    unfold gitUrlToBzrUrl gitUrlToBzrUrlG
    simp only [hn, addRefParams, hnb]
    rfl
  · unfold getParentLocationLegacy
    simp only [e1]
    unfold getParentWith
    have hd : decodeStrict [104, 116, 116, 112, 115, 58, 47, 47, 104, 47, 114] =
        some [104, 116, 116, 112, 115, 58, 47, 47, 104, 47, 114] := decodeStrict_ascii _ (by decide)
    have g1 : getOrigin [((bRemote, bOrigin, bUrl), [104, 116, 116, 112, 115, 58, 47, 47, 104, 47, 114]),
           ((bRemote, bOrigin, bFetch), fetchA ++ bOrigin ++ fetchB),
           ((bBranch, [109, 97, 115, 116, 101, 114], bMerge), headsPrefix ++ [102, 111, 111])]
           [109, 97, 115, 116, 101, 114] = bOrigin := by decide
    simp only [g1]
    have g2 : cfgGet [((bRemote, bOrigin, bUrl), [104, 116, 116, 112, 115, 58, 47, 47, 104, 47, 114]),
           ((bRemote, bOrigin, bFetch), fetchA ++ bOrigin ++ fetchB),
           ((bBranch, [109, 97, 115, 116, 101, 114], bMerge), headsPrefix ++ [102, 111, 111])]
           (bRemote, bOrigin, bUrl) = some [104, 116, 116, 112, 115, 58, 47, 47, 104, 47, 114] := by decide
    have g3 : cfgGet [((bRemote, bOrigin, bUrl), [104, 116, 116, 112, 115, 58, 47, 47, 104, 47, 114]),
           ((bRemote, bOrigin, bFetch), fetchA ++ bOrigin ++ fetchB),
           ((bBranch, [109, 97, 115, 116, 101, 114], bMerge), headsPrefix ++ [102, 111, 111])]
           (bBranch, bOrigin, bMerge) = none := by decide
    simp only [g2, hd, g3]
    rfl

/-- the ref stored by `set_parent` re-normalises to the same branch/ref -/
theorem normBR_renorm (branch : Option Str) (ref : Option NBytes) (m : NBytes)
    (hx : branch = none ∨ ref = none) (hok : refOk ref = true)
    (hbr : ∀ n, branch = some n → refsSlash.isPrefixOf n = false)
    (hm : effRef (cleanBR (normBR branch ref)).1 (cleanBR (normBR branch ref)).2 = some m) :
    cleanBR (normBR none (some m)) = cleanBR (normBR branch ref) := by
  have hhead : normBR none (some headRef) = (none, none) := by simp [normBR]
  cases ref with
  | none =>
    cases branch with
    | none =>
      simp only [normBR, cleanBR, effRef] at hm ⊢
      simp only [reduceCtorEq, if_false, Option.some.injEq] at hm
      subst hm; simp [normBR, headRef]
    | some b =>
      by_cases hb : b = []
      · subst hb
        simp only [normBR, cleanBR, effRef, if_true, Option.some.injEq] at hm ⊢
        subst hm; simp [normBR, headRef]
      · simp only [normBR, cleanBR, effRef, Option.some.injEq, hb, if_false] at hm ⊢
        have hp := hbr b rfl
        have hr := branch_ref_roundtrip b m hp hm
        unfold branchNameToRef at hm
        simp only [hb, if_false, hp, Bool.false_eq_true, not_false_eq_true, if_true] at hm
        cases he : encodeUtf8 false b with
        | none => simp [he] at hm
        | some e =>
          simp only [he, Option.map_some, Option.some.injEq] at hm
          have hne : ¬(m = headRef ∨ m = []) := by
            rw [← hm]; simp [headsPrefix, headRef]
          simp only [hne, if_false, hr]
          simp [hb]
  | some r =>
    have hbn : branch = none := by rcases hx with h | h; exact h; cases h
    subst hbn
    by_cases h1 : r = headRef ∨ r = []
    · have : normBR none (some r) = (none, none) := by simp [normBR, h1]
      rw [this] at hm ⊢
      simp only [cleanBR, effRef, reduceCtorEq, if_false, Option.some.injEq] at hm
      subst hm; rw [hhead]
    · cases hrb : refToBranchName (some r) with
      | error e =>
        have hunf : normBR none (some r) = (none, some r) := by
          unfold normBR; simp only [h1, if_false, hrb]
        simp only [not_or] at h1
        rw [hunf] at hm ⊢
        simp only [cleanBR, effRef, reduceCtorEq, if_false, h1.2, Option.some.injEq] at hm
        subst hm; rw [hunf]
      | ok b =>
        have hunf : normBR none (some r) = (b, none) := by
          unfold normBR; simp only [h1, if_false, hrb]
        simp only [not_or] at h1
        obtain ⟨n, rfl⟩ := refToBranchName_some_ok hrb
        unfold refOk at hok
        rw [hrb] at hok
        simp only [Bool.or_eq_true, beq_iff_eq, Option.some.injEq, Bool.and_eq_true, bne_iff_ne, ne_eq,
          Bool.not_eq_eq_eq_not, Bool.not_true] at hok
        rcases hok with hok | hok
        · exact absurd hok h1.1
        · have hrt := ref_branch_roundtrip r n hrb (Or.inl hok.1) hok.2
          rw [hunf] at hm ⊢
          simp only [cleanBR, effRef, Option.some.injEq, hok.1, if_false, hrt] at hm
          subst hm; rw [hunf]

/-- **Parent location round trip.**  For a branch with a name and every
canonical breezy URL `u` (made by `git_url_to_bzr_url` from a normalised,
comma-free location and any branch name not starting with `refs/` or any ref
satisfying `refOk`): `set_parent(u)` followed by `get_parent()` returns `u`. -/
theorem parent_location_roundtrip_url (c c' : Cfg) (name loc' : Str) (branch : Option Str)
    (ref : Option NBytes) (u : Str) (hname : name ≠ [])
    (hnorm : normLoc loc' = .url loc' ∨ normLoc loc' = .unchanged) (hc : lastSegCommaFree loc' = true)
    (hb : ∀ r, ref = some r → isBytes r = true) (hok : refOk ref = true)
    (hbr : ∀ n, branch = some n → refsSlash.isPrefixOf n = false)
    (h : gitUrlToBzrUrl loc' branch ref = .ok u) (hset : setParent c name u = .ok c') :
    getParentLocation c' name = .ok (some u) := by
  have hx : branch = none ∨ ref = none := by
    unfold gitUrlToBzrUrl gitUrlToBzrUrlG at h
    split at h
    · simp at h
    · cases branch <;> cases ref <;> simp_all
  have hloc : normLoc loc' = .url loc' ∨ (normLoc loc' = .unchanged ∧ loc' = loc') := by
    rcases hnorm with h | h
    · exact Or.inl h
    · exact Or.inr ⟨h, rfl⟩
  have hs := url_roundtrip loc' loc' branch ref u hloc hc hb h
  obtain ⟨m, hm, hget⟩ := parent_location_roundtrip c c' name u loc' _ _ hname hs hset
  rw [hget, gitUrlToBzrUrl_eq_addRefParams loc' none (some m) hnorm (Or.inl rfl),
    addRefParams_congr loc' none branch (some m) ref (normBR_renorm branch ref m hx hok hbr hm),
    ← gitUrlToBzrUrl_eq_addRefParams loc' branch ref hnorm hx, h]
  rfl

/-- non-vacuity: `https://h/a,b/r` has a comma, but not in its last segment -/
example : normLoc [104, 116, 116, 112, 115, 58, 47, 47, 104, 47, 97, 44, 98, 47, 114] =
    .url [104, 116, 116, 112, 115, 58, 47, 47, 104, 47, 97, 44, 98, 47, 114] ∧
    lastSegCommaFree [104, 116, 116, 112, 115, 58, 47, 47, 104, 47, 97, 44, 98, 47, 114] = true ∧
    refsSlash.isPrefixOf [97, 47, 98] = false := by decide

/-! ### 8. the configuration file between `set_parent` and `get_parent` -/

/-- **a value survives `write_to_file` + `from_file`.**  Every byte string that
`cfgValueSafe` admits — no carriage return; and, unless it is quoted anyway
(leading/trailing blank or a `#`), no `;` and no vertical tab / form feed at
either end — is read back by dulwich's `_parse_string` exactly as
`_format_string` was given it. -/
theorem cfg_value_roundtrip (v : NBytes) (hs : cfgValueSafe v = true) : cfgReread v = some v := by
  unfold cfgValueSafe at hs
  simp only [Bool.and_eq_true, Bool.not_eq_eq_eq_not, Bool.not_true, Bool.or_eq_true, bne_iff_ne, ne_eq] at hs
  obtain ⟨h13, hrest⟩ := hs
  have h13' : 13 ∉ v := by
    intro h; rw [← List.contains_iff_mem] at h; rw [h] at h13; cases h13
  unfold cfgReread cfgParse cfgFormat
  by_cases hq : cfgNeedsQuote v = true
  · simp only [hq, if_true]
    have hw : trimWs (32 :: (34 :: cfgEscape v ++ [34]) ++ [10]) = 34 :: cfgEscape v ++ [34] :=
      trimWs_wrap _ (by intro c hc; simp at hc; subst hc; decide)
        (by
          intro c hc
          have : (34 :: cfgEscape v ++ [34]).getLast? = some 34 := by
            rw [show (34 :: cfgEscape v ++ [34]) = (34 :: cfgEscape v) ++ [34] from rfl, List.getLast?_append]
            rfl
          rw [this] at hc
          simp only [Option.some.injEq] at hc
          subst hc; decide)
    rw [hw]
    have : cfgParseGo false false [] (34 :: cfgEscape v ++ [34]) = cfgParseGo true false [] (cfgEscape v ++ [34]) := by
      simp [cfgParseGo]
    rw [this]
    exact go_quoted v h13'
  · simp only [hq, Bool.false_eq_true, if_false]
    simp only [hq, Bool.false_eq_true, false_or] at hrest
    obtain ⟨⟨⟨⟨h59, hh11⟩, hh12⟩, hl11⟩, hl12⟩ := hrest
    have h59' : 59 ∉ v := by
      intro h; rw [← List.contains_iff_mem] at h; rw [h] at h59; cases h59
    unfold cfgNeedsQuote at hq
    simp only [Bool.or_eq_true, beq_iff_eq, not_or] at hq
    obtain ⟨⟨⟨⟨hh32, hh9⟩, hl32⟩, hl9⟩, h35⟩ := hq
    have h35' : 35 ∉ v := by
      intro h; rw [← List.contains_iff_mem] at h; exact h35 h
    have hhead : ∀ c, (cfgEscape v).head? = some c → isWs c = false := by
      intro c hc
      obtain ⟨b, hb, hcase⟩ := cfgEscape_head v c hc
      rcases hcase with rfl | ⟨rfl, n13, n10, n9⟩
      · decide
      · have n32 : c ≠ 32 := fun e => hh32 (by rw [hb, e])
        have n11 : c ≠ 11 := fun e => hh11 (by rw [hb, e])
        have n12 : c ≠ 12 := fun e => hh12 (by rw [hb, e])
        simp only [isWs, Bool.or_eq_false_iff, Bool.and_eq_false_iff, decide_eq_false_iff_not]
        omega
    have hlast : ∀ c, (cfgEscape v).getLast? = some c → isWs c = false := by
      intro c hc
      obtain ⟨b, hb, hcase⟩ := cfgEscape_last v c hc
      rcases hcase with h | ⟨rfl, n13, n10, n9⟩
      · simp only [isWs, Bool.or_eq_false_iff, Bool.and_eq_false_iff, decide_eq_false_iff_not]
        omega
      · have n32 : c ≠ 32 := fun e => hl32 (by rw [hb, e])
        have n11 : c ≠ 11 := fun e => hl11 (by rw [hb, e])
        have n12 : c ≠ 12 := fun e => hl12 (by rw [hb, e])
        simp only [isWs, Bool.or_eq_false_iff, Bool.and_eq_false_iff, decide_eq_false_iff_not]
        omega
    rw [trimWs_wrap _ hhead hlast]
    have := go_unquoted v [] h13' h35' h59' hl32 (fun _ => rfl)
    simpa using this

example : cfgValueSafe [114, 101, 102, 115, 47, 104, 101, 97, 100, 115, 47, 97, 32, 34, 92, 98] = true ∧
    cfgValueSafe [32, 97, 59, 35] = true ∧ cfgValueSafe [] = true := by decide

/-- excluded families, as dulwich behaves today: an unquoted `;` starts a
comment (`refs/heads/a;b` comes back as `refs/heads/a`), a carriage return comes
back as backslash + `r`, a leading form feed is stripped -/
theorem cfg_value_witness :
    cfgReread [97, 59, 98] = some [97] ∧ cfgValueSafe [97, 59, 98] = false ∧
    cfgReread [97, 13, 98] = some [97, 92, 114, 98] ∧ cfgValueSafe [97, 13, 98] = false ∧
    cfgReread [12, 97] = some [97] ∧ cfgValueSafe [12, 97] = false := by decide

/-- the whole configuration is read back as written when every value is safe -/
theorem cfg_file_roundtrip : ∀ (c : Cfg), c.all (fun kv => cfgValueSafe kv.2) = true → cfgRereadAll c = some c
  | [], _ => rfl
  | (k, v) :: rest, h => by
    simp only [List.all_cons, Bool.and_eq_true] at h
    simp only [cfgRereadAll, cfg_value_roundtrip v h.1, cfg_file_roundtrip rest h.2]

/-- `_unescape_subsection(_escape_subsection(n)) == n` for every section name
(the branch name in `[branch "<name>"]`) -/
theorem subsection_roundtrip : ∀ (n : NBytes), subsecUnescape (subsecEscape n) = n
  | [] => by simp [subsecEscape, replaceByte, subsecUnescape]
  | x :: rest => by
    have ih := subsection_roundtrip rest
    have hcons : subsecEscape (x :: rest) =
        (if x = 92 then [92, 92] else if x = 34 then [92, 34] else [x]) ++ subsecEscape rest := by
      have h : ∀ l : List Nat, x :: l = [x] ++ l := fun _ => rfl
      unfold subsecEscape
      rw [h rest]
      simp only [replaceByte_append]
      congr 1
      unfold replaceByte
      by_cases h1 : x = 92
      · subst h1; simp
      · by_cases h2 : x = 34
        · subst h2; simp
        · simp [h1, h2]
    rw [hcons]
    by_cases h1 : x = 92
    · subst h1; simp [subsecUnescape, ih]
    · by_cases h2 : x = 34
      · subst h2; simp [subsecUnescape, ih]
      · simp only [h1, h2, if_false, List.cons_append, List.nil_append]
        cases hr : subsecEscape rest with
        | nil => rw [hr] at ih; simp [subsecUnescape, ← ih]
        | cons d ds => rw [hr] at ih; simp [subsecUnescape, h1, ih]

/-- **Parent location round trip through the configuration file.**  As
`parent_location_roundtrip_url`, with the configuration `set_parent` produced
written by `ConfigFile.write_to_file` and read again by `from_file` before
`get_parent` looks at it: whenever every stored value is one dulwich reads back
unchanged (`cfgValueSafe`: in particular no `;` in the URL or the ref). -/
theorem parent_location_roundtrip_file (c c' : Cfg) (name loc' : Str) (branch : Option Str)
    (ref : Option NBytes) (u : Str) (hname : name ≠ [])
    (hnorm : normLoc loc' = .url loc' ∨ normLoc loc' = .unchanged) (hc : lastSegCommaFree loc' = true)
    (hb : ∀ r, ref = some r → isBytes r = true) (hok : refOk ref = true)
    (hbr : ∀ n, branch = some n → refsSlash.isPrefixOf n = false)
    (h : gitUrlToBzrUrl loc' branch ref = .ok u) (hset : setParent c name u = .ok c')
    (hsafe : c'.all (fun kv => cfgValueSafe kv.2) = true) :
    (cfgRereadAll c').map (fun c'' => getParentLocation c'' name) = some (.ok (some u)) := by
  rw [cfg_file_roundtrip c' hsafe]
  simp only [Option.map_some, Option.some.injEq]
  exact parent_location_roundtrip_url c c' name loc' branch ref u hname hnorm hc hb hok hbr h hset

/-- the file-level hypothesis is needed: the merge ref `set_parent` stores for
the branch `a;b` is cut at the `;` when the file is read again, and is then the
ref of the branch `a` -/
theorem parent_location_semicolon_witness :
    cfgRereadAll [((bBranch, [109], bMerge), headsPrefix ++ [97, 59, 98])] =
        some [((bBranch, [109], bMerge), headsPrefix ++ [97])] ∧
      refToBranchName (some (headsPrefix ++ [97, 59, 98])) = .ok (some [97, 59, 98]) ∧
      refToBranchName (some (headsPrefix ++ [97])) = .ok (some [97]) :=
  ⟨by decide, branch_ref_roundtrip [97, 59, 98] _ (by decide) (by decide),
    branch_ref_roundtrip [97] _ (by decide) (by decide)⟩

end BreezyVerif.C36
