"""C24 — tag transfer never loses or silently rewrites tags; tag dictionaries
are stored and read back unchanged.

Anchors: breezy/tag.py (_reconcile_tags, InterTags.merge/_merge_to,
MemoryTags.merge_to), breezy/bzr/tag.py (BasicTags._serialize_tag_dict,
_deserialize_tag_dict, _set_tag_dict/get_tag_dict), breezy/git/branch.py
(InterTagsFromGitToLocalGit, InterTagsFromGitToNonGit, LocalGitTagDict._set_tag_dict /
set_tag, GitTags.get_tag_dict).

Model (lean/BreezyVerif/Model/C24.lean): Python dicts as insertion-ordered
association lists; `reconcile` is the loop of `_reconcile_tags`, `merge` is
`InterTags.merge` with the optional master branch; a byte-level bencode model
of flat byte-string dicts with strict UTF-8 validity of the keys; local git tag
stores: raw tag refs + a classification of revision ids by the destination
repository (commit it has / ghost = not a git revision id / absent = git
revision id of a commit it does not have), `gitSetTagDict` = the loop of
`LocalGitTagDict._set_tag_dict` (per-tag ghost skip, deletion of the refs not
named), `gitRead` = `get_tag_dict` (broken refs are not shown), `gitMergeTo` =
merge_to from a non-git source, `gitToGit` = the loop of
`InterTagsFromGitToLocalGit.merge`.  The model variant `strict` (does
`_set_tag_dict` refuse absent commits?) is selected by probing the real code.

T2 levels (all on every run):
  A  `_reconcile_tags` on generated dict pairs x overwrite x selector — exact,
     order-sensitive comparison of (result, updates, conflicts);
  B  `MemoryTags.merge_to` (in-memory store);
  C  `Tags.merge_to` on real 2a branches (BasicTags), target unbound / bound to
     a master branch, ignore_master on/off, branches re-opened before reading;
  D  git stores, symbolic revision ids resolved against real repositories
     (deterministic commits): memory->git and bzr->git (generic InterTags over
     LocalGitTagDict: readable tags, RAW refs read through dulwich, updates,
     conflicts against `gitMergeTo`), `_set_tag_dict` directly on a git store
     (`gitSetTagDict`), git->git (`gitToGit`), git->bzr (`reconcile`).  Source
     values: commits the destination has, ghosts, absent commits (a commit only
     the source repository has, made-up shas); the git destination may hold
     broken tag refs before the merge;
  E  serialisation: `_serialize_tag_dict` byte-for-byte against the model,
     `_deserialize_tag_dict` on valid, mutated and malformed byte strings
     (accept/reject + error kind), store/re-open/read on a real branch.
Oracle: the statement's laws evaluated directly on the real outputs
(`_laws`), input dicts not mutated, `deserialize(serialize(d)) == d`,
`reopen().get_tag_dict() == d`.  For a git destination a definition the
repository cannot hold must leave the destination's definition of that name
alone (and every other tag obeys the statement as usual).
Replay (`--replay`) re-runs level C and D cases on freshly built stores.

T1: the branch structure of the loop body of `_reconcile_tags` is regenerated
from the source (`stepKindGen`) and proved equal to the model's `stepKind`
(Props/C24T1.lean).

Mutants this was built against:
  M1 `result = dest_dict` (copy dropped: destination aliasing, nothing stored)
  M2 `elif name not in result or overwrite` -> `elif name not in result`
  M3 `elif ... or overwrite` -> `and overwrite` (source-only tags dropped)
  M4 conflict tuple `(name, target, result[name])` -> `(name, result[name], target)`
  M5 `if selector and not selector(name)` -> `if selector and selector(name)`
  M6 `updates[name] = target` dropped in the take branch
  M7 InterTags.merge: master merged with `not overwrite`
  M8 `_serialize_tag_dict`: keys encoded with "latin-1"/ `_deserialize`: values dropped when empty
  M9 `_merge_to`: `if result != dest_dict` -> `if updates and conflicts == []`
  M10 git InterTagsFromGitToNonGit: `elif tag_name not in result or overwrite` -> `elif overwrite`
  H1 (harmless) loop rewritten with `dest_dict.copy()` and `in`/`[]` instead of `.get`
 second round (git stores; all caught by the oracle with a concrete case, H2 clean):
  M11 LocalGitTagDict._set_tag_dict: `suppress(GhostTagsNotSupported)` hoisted out of the loop
      (the first ghost ends the loop: later tags lost, later destination-only tags deleted)
  M12 `_set_tag_dict`: deletion of the refs not named in the dict dropped
  M13 `_set_tag_dict`: `extra.remove(name)` dropped (every pre-existing tag deleted)
  M14 InterTagsFromGitToLocalGit: `except KeyError: continue` -> `break`
  M15 InterTagsFromGitToLocalGit: `elif overwrite or ref_name not in refs` -> `elif overwrite`
  M17 InterTagsFromGitToLocalGit: conflict tuple (name, target, source)
  M18 `_set_tag_dict`: `return` at the first ghost
  M19 InterTagsFromGitToLocalGit: `refs.get(ref) == unpeeled` -> `ref in refs and not overwrite`
  M20 InterTagsFromGitToLocalGit: `except NotCommitError: continue` -> `break` (needs a source ref to a blob)
  M21 InterTagsFromGitToNonGit._merge_to: `except NotCommitError: continue` -> `break`
  M22 LocalGitBranch._iter_tag_refs: `except KeyError: continue` -> `break` (tags after a broken ref vanish)
  H2 (harmless) `_set_tag_dict` with `extra.discard` and try/except/continue per tag

Finding families on the unchanged /repo (classifier `_git_family`):
  `git-set-tag-absent-commit-breaks-ref` (model variant strict=F): `_set_tag_dict` ->
      `set_tag` writes a ref to a commit the repository does not have; overwriting a
      readable destination tag with such a definition makes the tag unreadable
      (theorem `git_merge_absent_loses_witness`);
  `git-git-annotated-tag-object-not-copied`: InterTagsFromGitToLocalGit writes the
      unpeeled sha of an annotated tag without copying the tag object (oracle only:
      the model knows lightweight tags);
  `git-git-annotated-vs-lightweight-same-commit-reported`: conflict (n, v, v).
"""
import ast
import os
import sys

from vlib import env

THEOREMS = [
    "reconcile_result_pointwise", "reconcile_updates_pointwise", "reconcile_conflicts_exact",
    "reconcile_source_only_added", "reconcile_dest_only_kept", "reconcile_same_unchanged",
    "reconcile_conflict_keeps_dest", "reconcile_overwrite_takes_source",
    "updates_exact", "selector_respected", "reconcile_never_loses", "reconcile_keys",
    "merge_target_pointwise", "merge_master_pointwise", "merge_conflicts_exact",
    "merge_updates_pointwise", "merge_noop",
    "gitSetTagDict_pointwise", "git_merge_read_pointwise", "git_merge_reports", "git_merge_follows_statement",
    "git_merge_source_only_added", "git_merge_dest_only_kept", "git_merge_ghost_leaves_dest",
    "git_merge_never_loses_partial", "git_merge_absent_loses_witness",
    "g2g_refs_pointwise", "g2g_updates_pointwise", "g2g_conflicts_exact", "g2g_read_pointwise", "g2g_never_loses",
    "bencode_dict_roundtrip", "tags_roundtrip", "sortKV_same_map", "serialize_injective",
    "set_tag_roundtrip", "delete_tag_roundtrip",
]
T1_EQUALITY_THEOREMS = ["stepKind_gen_eq"]
RULE = ("dict pairs over a per-case universe of 1..7 unicode names (each name: source-only / "
        "dest-only / same / differing / absent) x overwrite x selector (None / subset / none); "
        "non-trivial = source non-empty and at least one name is source-only, differing, "
        "or filtered by the selector; git-store cases additionally draw every source value from "
        "{commit the destination has, ghost, absent commit} and may plant broken tag refs in the "
        "destination; serialisation cases: non-trivial = dict non-empty")
ASSUMPTIONS = [
    "a Python str tag name is represented by its UTF-8 encoding (names with lone surrogates are "
    "outside the model; the real code raises UnicodeEncodeError before storing — run as an excluded-input stream)",
    "tag values are bytes (never None), dict keys are unique",
    "git stores: lightweight tags; revision ids are either `git-v1:<40 lowercase hex>` or do not start with `git-` "
    "(a malformed `git-v1:` id makes dulwich raise ValueError inside _set_tag_dict — not generated)",
]
TRUSTED = [
    "fastbencode (external, compiled) is modelled for flat byte-string dicts only; every generated dict and "
    "every malformed byte string is compared with the model on this run; inputs whose decoding leaves the "
    "fragment (int/list/dict values) are counted as `unsupported` and not compared",
    "git stores: dulwich's refs container and object store are used as they are (raw refs are read and broken "
    "refs planted through dulwich); the classification of a revision id by the destination repository "
    "(commit / ghost / absent) is computed by the harness from how the repositories were built",
]

NAME_ATOMS = ["", "a", "b", "ab", "a b", "v1.0", "é", "日本", "😀", "\x00", "a\n", ":", ",", "e", "d1:a",
              "Ā", "́", "￿", "\U00010000", "tag-with-a-long-name-of-more-than-ten-bytes", "A", "~", "-", "."]
GIT_ATOMS = ["a", "b", "ab", "v1-0", "é", "日本", "😀", "A", "-x", "x_y", "zz9", "tag-with-a-long-name"]
VALUE_ATOMS = [b"", b"rev-1", b"rev-2", b"\x00", b"e", b"1:", b"i1e", b"a" * 10, b"b" * 100, b"\xff\xfe",
               b"joe@example.com-20200101-abcdef", b"git-v1:0123456789abcdef0123456789abcdef01234567", b"d", b"le", b":"]


# ---------------------------------------------------------------- encodings
def hx(b):
    return b.hex() if b else "."


def unhx(s):
    return b"" if s == "." else bytes.fromhex(s)


def enc_items(items):
    """[(str name, bytes value)] -> protocol dict"""
    return ",".join("%s:%s" % (hx(k.encode("utf-8")), hx(v)) for k, v in items) or "-"


def enc_items_b(items):
    return ",".join("%s:%s" % (hx(k), hx(v)) for k, v in items) or "-"


def enc_conf(c):
    return "%s:%s:%s" % (hx(c[0].encode("utf-8")), hx(c[1]), hx(c[2]))


def enc_sel(sel):
    if sel is None:
        return "~"
    return ",".join(hx(n.encode("utf-8")) for n in sel) or "-"


def parse_dict(s):
    if s == "-":
        return []
    return [tuple(x.split(":")) for x in s.split(",")]


def sort_field(s):
    if s in ("-", "~"):
        return s
    return ",".join(sorted(s.split(",")))


def mk_selector(sel):
    if sel is None:
        return None
    acc = set(sel)
    return lambda name: name in acc


def tf(b):
    return "T" if b else "F"


# ---------------------------------------------------------------- generators
def gen_name(rng, atoms=NAME_ATOMS):
    r = rng.random()
    if r < 0.6:
        return rng.choice(atoms)
    if r < 0.85:
        return rng.choice(atoms) + rng.choice(atoms)
    n = rng.randrange(1, 5)
    return "".join(chr(rng.choice([rng.randrange(0, 0x80), rng.randrange(0x80, 0x800),
                                   rng.randrange(0x800, 0xD800), rng.randrange(0xE000, 0x10000),
                                   rng.randrange(0x10000, 0x110000)])) for _ in range(n))


def gen_value(rng):
    r = rng.random()
    if r < 0.7:
        return rng.choice(VALUE_ATOMS)
    return bytes(rng.randrange(256) for _ in range(rng.choice([1, 2, 9, 10, 11, 99, 100, 101, 130])))


def gen_pair(rng, names=None, values=None, maxn=7):
    """-> (src items, dst items, sel, classes)"""
    n = rng.randrange(1, maxn + 1)
    uni = []
    while len(uni) < n:
        x = names(rng) if names else gen_name(rng)
        if x not in uni:
            uni.append(x)
    val = values or gen_value
    src, dst, classes = [], [], {}
    for name in uni:
        c = rng.choice(["src", "dst", "same", "diff", "diff", "none", "src"])
        v = val(rng)
        if c == "src":
            src.append((name, v))
        elif c == "dst":
            dst.append((name, v))
        elif c == "same":
            src.append((name, v)); dst.append((name, v))
        elif c == "diff":
            w = val(rng)
            if w == v:
                c = "same"
            src.append((name, v)); dst.append((name, w))
        classes[name] = c
    rng.shuffle(src)
    rng.shuffle(dst)
    r = rng.random()
    if r < 0.45:
        sel = None
    elif r < 0.9:
        sel = sorted(x for x in uni if rng.random() < 0.6)
    else:
        sel = []
    return src, dst, sel, classes


def nontrivial(src, dst, sel):
    d = dict(dst)
    return bool(src) and any(d.get(k) != v or (sel is not None and k not in sel) for k, v in src)


# ---------------------------------------------------------------- the oracle
def _spec(src, dst, ow, sel):
    """the statement, pointwise per tag name -> (result, updates, conflicts, why)"""
    s, d = dict(src), dict(dst)
    res, upd, conf, why = {}, {}, set(), {}
    for name in list(d) + [n for n in s if n not in d]:
        chosen = name in s and (sel is None or name in sel)
        if not chosen:
            if name in d:
                res[name] = d[name]
                why[name] = "destination-only/unselected tag must be kept unchanged and not reported"
            continue
        v = s[name]
        if name not in d:
            res[name] = v
            upd[name] = v
            why[name] = "source-only tag must be added and listed in updates"
        elif d[name] == v:
            res[name] = v
            why[name] = "identical definition must stay and not be reported"
        elif ow:
            res[name] = v
            upd[name] = v
            why[name] = "overwrite: differing definition must take the source value and be listed in updates"
        else:
            res[name] = d[name]
            conf.add((name, v, d[name]))
            why[name] = "differing definition must keep the destination value and be reported as (name, source, dest)"
    return res, upd, conf, why


def _laws(ctx, case, src, dst, ow, sel, result, updates, conflicts, what, reports=True,
          storable=None, family=None, listed=True):
    """the property's own statement checked on the stored result and, when
    `reports`, on the returned (updates, conflicts).

    `storable(value)`: can the destination store hold the value at all?  A git
    repository cannot point a tag at a revision it does not have; the statement
    then cannot ask for the tag to be added / overwritten, what it does ask is
    that such a definition leaves the destination's definition of that name (or
    its absence) alone and does not disturb any other tag.  Whether the name is
    listed in `updates` is not checked for such a definition (`listed=False`:
    the transfer is known not to list it).
    `family(name, value)`: classifier for committed known findings, computed
    from the failing tag; one violation is reported per family so that a known
    family never hides another failure of the same case."""
    res, upd, conf, why = _spec(src, dst, ow, sel)
    d = dict(dst)
    bad = {}
    names = list(dict.fromkeys(list(res) + list(result) + list(updates if reports else []) + [c[0] for c in (conflicts if reports else [])]))
    for name in names:
        ev, eu, reason = res.get(name), upd.get(name), why.get(name, "tag must not appear: it is in neither dict or not selected")
        free_update = False
        if storable is not None and ev is not None and not storable(ev):
            ev = d.get(name)
            free_update = True
            reason = ("the destination store cannot hold the source definition %r: the destination's definition "
                      "of this name must stay as it was" % (res.get(name),))
        gu = updates.get(name) if reports else None
        if free_update:
            gu = eu = None
        got = (result.get(name),) + ((gu, sorted(c for c in set(conflicts) if c[0] == name)) if reports else ())
        exp = (ev,) + ((eu, sorted(c for c in conf if c[0] == name)) if reports else ())
        if got != exp:
            fam = family(name, res.get(name), d.get(name)) if family else None
            bad.setdefault(fam, "tag %r: %s; expected (value, update, conflicts)=%r got %r" % (name, reason, exp, got))
    for fam, msg in bad.items():
        ctx.violation(case, "%s: %s" % (what, msg), family=fam)
    return not bad


def _raised(ctx, case, what, e):
    ctx.violation(case, "%s raised %s: %s" % (what, type(e).__name__, str(e)[:200]))
    ctx.count("raised:" + type(e).__name__)


# ---------------------------------------------------------------- level A/B
def _level_ab(ctx, n):
    from breezy import tag as _tag
    cases, lines, outs = [], [], []
    for i in range(n):
        src, dst, sel, classes = gen_pair(ctx.rng)
        ow = ctx.rng.random() < 0.5
        mem = i % 4 == 3
        case = dict(level="B" if mem else "A", src=[[k, v.hex()] for k, v in src],
                    dst=[[k, v.hex()] for k, v in dst], ow=ow, sel=sel)
        sd, dd = dict(src), dict(dst)
        try:
            if mem:
                st, dt = _tag.MemoryTags(sd), _tag.MemoryTags(dd)
                updates, conflicts = st.merge_to(dt, overwrite=ow, selector=mk_selector(sel))
                result = dt.get_tag_dict()
                if list(sd.items()) != src:
                    ctx.violation(case, "MemoryTags.merge_to mutated the source dict")
            else:
                result, updates, conflicts = _tag._reconcile_tags(sd, dd, ow, mk_selector(sel))
                if list(sd.items()) != src or list(dd.items()) != dst:
                    ctx.violation(case, "_reconcile_tags mutated its input dicts (aliasing)")
        except Exception as e:
            _raised(ctx, case, "MemoryTags.merge_to" if mem else "_reconcile_tags", e)
            continue
        conflicts = list(conflicts)
        _laws(ctx, case, src, dst, ow, sel, result, updates, conflicts, "reconcile")
        ctx.case(case, nontrivial=nontrivial(src, dst, sel))
        ctx.count("AB:size:%d" % min(len(src) + len(dst), 9))
        ctx.count("AB:sel:" + ("none" if sel is None else "empty" if not sel else "subset"))
        for c in classes.values():
            ctx.count("AB:class:" + c)
        ctx.count("AB:conflicts" if conflicts else "AB:noconflict")
        cases.append(case)
        lines.append("rec %s %s %s %s" % (tf(ow), enc_sel(sel), enc_items(src), enc_items(dst)))
        outs.append("%s|%s|%s" % (enc_items(result.items()), enc_items(updates.items()),
                                  ",".join(enc_conf(c) for c in conflicts) or "-"))
    ctx.diff(cases, lines, outs)


# ---------------------------------------------------------------- level C (BasicTags on 2a branches)
class _Stores:
    def __init__(self):
        from breezy.controldir import ControlDir, format_registry
        base = env.fresh_dir("c24")
        self.paths = {}
        fmt = format_registry.make_controldir("2a")
        for nm in ("src", "tgt", "btgt", "master"):
            p = os.path.join(base, nm)
            ControlDir.create_branch_convenience(p, format=fmt)
            self.paths[nm] = p
        self.open("btgt").bind(self.open("master"))

    def open(self, nm):
        from breezy.branch import Branch
        return Branch.open(self.paths[nm])

    def put(self, nm, items):
        b = self.open(nm)
        with b.lock_write():
            b.tags._set_tag_dict(dict(items))

    def read(self, nm):
        return self.open(nm).tags.get_tag_dict()


def usort(items):
    return sorted(items, key=lambda kv: kv[0].encode("utf-8"))


def _unhex_items(items):
    return None if items is None else [(k, bytes.fromhex(v)) for k, v in items]


def _run_c_case(ctx, st, case):
    """run one level-C case on real 2a branches; -> (model line, impl output) or None"""
    src, dst, mst = _unhex_items(case["src"]), _unhex_items(case["dst"]), _unhex_items(case["master"])
    ow, sel, ign, same = case["ow"], case["sel"], case["ignore_master"], case["same"]
    bound = mst is not None
    tname = "btgt" if bound else "tgt"
    st.put("src", src)
    st.put(tname, dst)
    if bound:
        st.put("master", mst)
    sb = st.open("src")
    tb = sb if same else st.open(tname)
    if same:
        dst = src
    try:
        updates, conflicts = sb.tags.merge_to(tb.tags, overwrite=ow, ignore_master=ign, selector=mk_selector(sel))
    except Exception as e:
        _raised(ctx, case, "BasicTags merge_to", e)
        return None
    after_t = st.read("src" if same else tname)
    after_m = st.read("master") if bound else None
    if st.read("src") != dict(src):
        ctx.violation(case, "merge_to changed the source branch's tags")
    # oracle on the stored state (re-opened branches)
    if not same:
        both = bound and not ign
        _laws(ctx, case, src, dst, ow, sel, after_t, updates, conflicts, "BasicTags target", reports=not both)
        if both:
            _laws(ctx, case, src, mst, ow, sel, after_m, updates, conflicts, "BasicTags master", reports=False)
            # the reported updates / conflicts are the union over target and master
            _r1, u1, c1, _w = _spec(src, dst, ow, sel)
            _r2, u2, c2, _w = _spec(src, mst, ow, sel)
            if dict(updates) != {**u1, **u2} or set(conflicts) != (c1 | c2):
                ctx.violation(case, "bound target: reported (updates, conflicts) are not the union over target and master: "
                              "%r %r expected %r %r" % (updates, conflicts, {**u1, **u2}, c1 | c2))
        elif bound and after_m != dict(mst):
            ctx.violation(case, "ignore_master=True but the master's tags changed")
    elif updates or conflicts or after_t != dict(src):
        ctx.violation(case, "merge_to onto the same branch reported/changed something")
    ctx.count("C:conflicts" if conflicts else "C:noconflict")
    ssrc, sdst = usort(src), usort(dst)
    line = "merge %s T %s %s %s %s %s %s" % (
        tf(same), tf(ow), tf(ign), enc_sel(sel), enc_items(ssrc), enc_items(sdst),
        "~" if mst is None else enc_items(usort(mst)))
    out = "%s|%s|%s|%s" % (
        sort_field(enc_items(after_t.items())), "~" if after_m is None else sort_field(enc_items(after_m.items())),
        enc_items(updates.items()), ",".join(sorted(enc_conf(c) for c in conflicts)) or "-")
    return line, out


def _canon_c(m):
    f = m.split("|")
    return "|".join([sort_field(f[0]), sort_field(f[1]), f[2], f[3]]) if len(f) == 4 else m


def _level_c(ctx, n):
    st = _Stores()
    cases, lines, outs = [], [], []
    for i in range(n):
        src, dst, sel, classes = gen_pair(ctx.rng)
        mst = None
        bound = ctx.rng.random() < 0.6
        ign = ctx.rng.random() < 0.3
        if bound:
            _s2, mst, _sel2, _c2 = gen_pair(ctx.rng, names=lambda r: r.choice([k for k, _ in src + dst] or ["m"]) if r.random() < 0.7 else gen_name(r))
        same = ctx.rng.random() < 0.04
        ow = ctx.rng.random() < 0.5
        case = dict(level="C", src=[[k, v.hex()] for k, v in src], dst=[[k, v.hex()] for k, v in dst],
                    master=None if mst is None else [[k, v.hex()] for k, v in mst], ow=ow, sel=sel,
                    ignore_master=ign, same=same)
        r = _run_c_case(ctx, st, case)
        ctx.case(case, nontrivial=nontrivial(src, dst, sel))
        ctx.count("C:" + ("same" if same else ("bound-ign" if bound and ign else "bound" if bound else "unbound")))
        if r is None:
            continue
        cases.append(case)
        lines.append(r[0])
        outs.append(r[1])
    replies = ctx.model(lines)
    for c, l, o, m in zip(cases, lines, outs, replies):
        ctx.traces += 1
        m = _canon_c(m)
        if m != o:
            ctx.mismatch(c, o, m, line=l)


# ---------------------------------------------------------------- level D (git stores)
# Values of level-D cases are symbols, resolved against freshly built stores (so a
# case can be replayed): c0..c3 = commits both git repositories have, x = a commit
# only the source git repository g1 has, g:<hex> = a ghost (bytes that are not a git
# revision id), a:<sha> = a well-formed git revision id of an object nobody has.
GHOST_ATOMS = [b"joe@example.com-20200101000000-notpushedyet01", b"rev-1", b"", b"svn-v4:uuid:trunk:7",
               b"\xff\xfe", b"hg-v1:" + b"ab" * 20, b"z" * 70]
ABSENT_ATOMS = ["12" * 20, "0" * 39 + "1", "f" * 40, "deadbeef" * 5]
TAG_PREFIX = b"refs/tags/"
KINDS = ["mem->git", "bzr->git", "git->git", "git->bzr", "set-git", "bzr->git", "mem->git", "git->git"]


class _GitStores:
    def __init__(self):
        from breezy.controldir import ControlDir, format_registry
        base = env.fresh_dir("c24g")
        wt = ControlDir.create_standalone_workingtree(os.path.join(base, "g1"),
                                                      format=format_registry.make_controldir("git"))

        def commit(i):
            with open(os.path.join(base, "g1", "f%d" % i), "w") as f:
                f.write(str(i))
            wt.add(["f%d" % i])
            return wt.commit("c%d" % i, timestamp=1500000000 + i, timezone=0, committer="T <t@example.com>")
        self.revs = [commit(i) for i in range(4)]
        self.paths = dict(g1=os.path.join(base, "g1"), g2=os.path.join(base, "g2"), bz=os.path.join(base, "bz"))
        wt.branch.controldir.sprout(self.paths["g2"])
        self.extra = commit(9)          # only in g1
        ControlDir.create_branch_convenience(self.paths["bz"], format=format_registry.make_controldir("2a"))
        self.strict = self._probe_strict()

    def open(self, nm):
        from breezy.branch import Branch
        return Branch.open(self.paths[nm])

    def put(self, nm, items):
        b = self.open(nm)
        with b.lock_write():
            b.tags._set_tag_dict(dict(items))

    def read(self, nm):
        return self.open(nm).tags.get_tag_dict()

    # raw tag refs of a git repository, through dulwich only (independent of breezy's tag code)
    def raw(self, nm):
        refs = self.open(nm).repository._git.refs
        return {k[len(TAG_PREFIX):].decode("utf-8"): b"git-v1:" + refs[k]
                for k in refs.allkeys() if k.startswith(TAG_PREFIX)}

    def put_raw(self, nm, name, revid):
        self.open(nm).repository._git.refs[TAG_PREFIX + name.encode("utf-8")] = revid[len(b"git-v1:"):]

    def has_object(self, nm, revid):
        return revid[len(b"git-v1:"):] in self.open(nm).repository._git.object_store

    def annotate(self, nm, name, revid):
        """turn the tag into an annotated one (`git tag -a`): a tag object + a ref to it"""
        from dulwich.objects import Commit, Tag
        repo = self.open(nm).repository._git
        t = Tag()
        t.tagger = b"T <t@example.com>"
        t.message = b"annotated\n"
        t.name = name.encode("utf-8")
        t.object = (Commit, revid[len(b"git-v1:"):])
        t.tag_time = 1500000000
        t.tag_timezone = 0
        repo.object_store.add_object(t)
        repo.refs[TAG_PREFIX + name.encode("utf-8")] = t.id

    def resolve(self, sym):
        if sym == "blob":       # an object every repository has, but not a commit
            from dulwich.objects import Blob
            return b"git-v1:" + Blob.from_string(b"0").id
        if sym == "x":
            return self.extra
        if sym[0] == "c":
            return self.revs[int(sym[1:])]
        if sym[0] == "g":
            return bytes.fromhex(sym[2:])
        if sym[0] == "a":
            return b"git-v1:" + sym[2:].encode("ascii")
        raise ValueError(sym)

    def _probe_strict(self):
        """does LocalGitTagDict._set_tag_dict refuse to write a ref to a commit the
        repository does not have (model variant `strict`)?  Probed on the real code so
        that the model follows the code whichever way that question is settled."""
        name = TAG_PREFIX + b"c24-probe"
        b = self.open("g2")
        try:
            with b.lock_write():
                b.tags._set_tag_dict({"c24-probe": b"git-v1:" + b"12" * 20})
        except Exception:
            pass
        refs = self.open("g2").repository._git.refs
        if name in refs.allkeys():
            del refs[name]
            return False
        return True


_GS = []


def _git_stores():
    """one set of git/bzr stores per process (building them costs ~0.5 s)"""
    if not _GS:
        _GS.append(_GitStores())
    return _GS[0]


def _git_name(r):
    return r.choice(GIT_ATOMS) if r.random() < 0.8 else r.choice(GIT_ATOMS) + "-" + r.choice(GIT_ATOMS)


def _sym_commit(r):
    return "c%d" % r.randrange(4)


def _sym_ghost(r):
    return "g:" + r.choice(GHOST_ATOMS).hex()


def _sym_absent(r):
    if r.random() < 0.5:
        return "x"
    if r.random() < 0.7:
        return "a:" + r.choice(ABSENT_ATOMS)
    return "a:" + "".join(r.choice("0123456789abcdef") for _ in range(39)) + "7"


def gen_git_case(rng, kind):
    """-> case dict (symbolic values).  Per name of a small universe: where it is
    defined (source-only / destination-only / same / differing / neither) and, for
    a git destination, whether the destination has a broken ref of that name."""
    s_git, t_git = kind.startswith("git"), kind.endswith("git")

    def src_val():
        r = rng.random()
        if s_git:
            return _sym_commit(rng) if r < 0.7 else "x"
        if not t_git:
            return _sym_commit(rng)
        return _sym_commit(rng) if r < 0.55 else _sym_ghost(rng) if r < 0.8 else _sym_absent(rng)

    def dst_val():
        if t_git or rng.random() < 0.7:
            return _sym_commit(rng)
        return _sym_ghost(rng)      # a native store holds any bytes

    n = rng.randrange(1, 7)
    uni = []
    while len(uni) < n:
        x = _git_name(rng)
        if x not in uni:
            uni.append(x)
    src, dst, hidden = [], [], []
    for name in uni:
        c = rng.choice(["src", "src", "dst", "same", "diff", "diff", "none"])
        if c in ("src", "same", "diff"):
            v = src_val()
            src.append([name, v])
            if c == "same" and v[0] == "c":
                dst.append([name, v])
            elif c == "diff":
                w = dst_val()
                dst.append([name, w])
        elif c == "dst":
            dst.append([name, dst_val()])
        if t_git and name not in [k for k, _ in dst] and rng.random() < 0.12:
            hidden.append([name, "a:" + rng.choice(ABSENT_ATOMS)])
    rng.shuffle(src)
    rng.shuffle(dst)
    r = rng.random()
    sel = None if r < 0.5 else sorted(x for x in uni if rng.random() < 0.65) if r < 0.92 else []
    case = dict(level="D", kind=kind, src=src, dst=dst, hidden=hidden, ow=rng.random() < 0.5, sel=sel)
    if s_git:
        # refs of the source repository that are not readable tags (they point to a blob / to a
        # missing object) and annotated tags (ref -> tag object -> commit)
        snames = [k for k, _ in src]
        pool = [k for k in uni if k not in snames] + ["noise-1", "noise-é"]
        case["noise"] = [[k, rng.choice(["blob", "blob", "a:" + rng.choice(ABSENT_ATOMS)])]
                         for k in pool if rng.random() < 0.3]
        case["annot"] = [k for k in snames if rng.random() < 0.2]
    return case


def _git_family(gs, case):
    """known-finding classifier, computed from the failing tag and the state it was left in:
    the tag is no longer readable in the git destination because its ref now names an object the
    repository does not have —
     * `git-set-tag-absent-commit-breaks-ref`: written by `_set_tag_dict`/`set_tag` for a source
       definition that is a well-formed git revision id of a commit the destination lacks;
     * `git-git-annotated-tag-object-not-copied`: written by InterTagsFromGitToLocalGit for an
       annotated source tag (the ref names the tag object, which was not copied);
    or the tag is readable and unchanged but was reported —
     * `git-git-annotated-vs-lightweight-same-commit-reported`: InterTagsFromGitToLocalGit compares
       raw refs, so an annotated source tag and a lightweight destination tag on the SAME commit
       are reported as a conflict (n, v, v)."""
    def fam(name, want, had):
        if want is None or not want.startswith(b"git-v1:"):
            return None
        now = gs.raw("g2").get(name)
        if (case["kind"] == "git->git" and name in case.get("annot", []) and want == had
                and gs.read("g2").get(name) == had):
            return "git-git-annotated-vs-lightweight-same-commit-reported"
        if now is None or gs.has_object("g2", now) or name in gs.read("g2"):
            return None
        if case["kind"] == "git->git":
            if name in case.get("annot", []) and now != want:
                return "git-git-annotated-tag-object-not-copied"
            return None
        if not gs.strict and now == want and want not in gs.revs:
            return "git-set-tag-absent-commit-breaks-ref"
        return None
    return fam


def _run_git_case(ctx, gs, case):
    """run one level-D case on real stores; -> (model line, impl output) or None"""
    kind, ow, sel = case["kind"], case["ow"], case["sel"]
    src = [(k, gs.resolve(v)) for k, v in case["src"]]
    dst = [(k, gs.resolve(v)) for k, v in case["dst"]]
    hidden = [(k, gs.resolve(v)) for k, v in case["hidden"]]
    t = "g2" if kind.endswith("git") else "bz"
    commits = set(gs.revs)
    storable = commits.__contains__ if t == "g2" else None
    absent = sorted({v for _k, v in src + hidden if v.startswith(b"git-v1:") and v not in commits})
    fam = _git_family(gs, case) if t == "g2" else None
    # ---- set the stores up
    gs.put(t, dst)
    if t == "g2" and gs.raw(t) != dict(dst):
        # (whatever the previous case left behind, broken refs included, must be gone)
        ctx.violation(case, "raw tag refs after LocalGitTagDict._set_tag_dict(d) are not d: %r" % (gs.raw(t),))
        return None
    for k, v in hidden:
        gs.put_raw(t, k, v)
    if gs.read(t) != dict(dst):
        ctx.violation(case, "tag store did not read back what _set_tag_dict stored: %r" % (gs.read(t),))
        return None
    refs0 = usort(dst + hidden)
    enc_c, enc_a = (",".join(hx(v) for v in sorted(commits)), ",".join(hx(v) for v in absent) or "-")
    if kind == "set-git":
        # `_set_tag_dict(src)` directly on the git store: stored and read back, except what git cannot hold
        tb = gs.open(t)
        try:
            with tb.lock_write():
                tb.tags._set_tag_dict(dict(src))
        except Exception as e:
            _raised(ctx, case, "LocalGitTagDict._set_tag_dict", e)
            return None
        after, raw = gs.read(t), gs.raw(t)
        # oracle: replacing the whole dictionary = overwrite-merge into a store that keeps only the
        # names of `src` (a name that cannot be stored keeps its previous readable definition)
        keep = [(k, v) for k, v in dst if k in dict(src)]
        _laws(ctx, case, src, keep, True, None, after, {}, [], "git _set_tag_dict", reports=False,
              storable=storable, family=fam)
        line = "gitset %s %s %s %s %s" % (tf(gs.strict), enc_c, enc_a, enc_items(refs0), enc_items(src))
        return line, "%s|%s" % (sort_field(enc_items(after.items())), sort_field(enc_items(raw.items())))
    if kind.startswith("mem"):
        from breezy.tag import MemoryTags
        sd = dict(src)
        stags = MemoryTags(sd)
        msrc = src
    else:
        s = "g1" if kind.startswith("git") else "bz"
        gs.put(s, src)
        if s == "g1":
            for k, v in case.get("noise", []):
                gs.put_raw(s, k, gs.resolve(v))
            for k in case.get("annot", []):
                gs.annotate(s, k, dict(src)[k])
        if gs.read(s) != dict(src):
            ctx.violation(case, "source tag store does not read back the tags it was given: %r" % (gs.read(s),))
            return None
        stags = gs.open(s).tags
        msrc = usort(src)
    tb = gs.open(t)
    try:
        updates, conflicts = stags.merge_to(tb.tags, overwrite=ow, selector=mk_selector(sel))
    except Exception as e:
        _raised(ctx, case, "merge_to %s" % kind, e)
        return None
    after, all_updates = gs.read(t), dict(updates)
    if (list(sd.items()) != src) if kind.startswith("mem") else (gs.read(s) != dict(src)):
        ctx.violation(case, "merge_to changed the source's tags")
    lsrc = src
    if kind == "git->git" and hidden:
        # InterTagsFromGitToLocalGit works on the raw refs: a name whose target ref is broken is,
        # for git, defined in the target (and not touched without overwrite).  The statement speaks
        # about readable definitions only; such names are left to the correspondence with the model.
        broken = {k for k, _v in hidden}
        lsrc = [(k, v) for k, v in src if k not in broken]
        after = {k: v for k, v in after.items() if k not in broken}
        updates = {k: v for k, v in updates.items() if k not in broken}
        ctx.count("D:git->git-broken-target-ref-excluded-from-oracle")
    if kind == "git->git" and ow and case.get("annot"):
        # with overwrite an annotated source tag replaces a lightweight destination tag on the same
        # commit: the ref changes, the tag dictionary does not; listing it in `updates` is accepted
        d0 = dict(dst)
        same = {k for k in case["annot"] if k in updates and updates[k] == d0.get(k)}
        if same:
            updates = {k: v for k, v in updates.items() if k not in same}
            ctx.count("D:git->git-annotated-replaces-lightweight-same-commit")
    _laws(ctx, case, lsrc, dst, ow, sel, after, updates, conflicts, "merge_to " + kind,
          storable=storable, family=fam)
    after, updates = gs.read(t), all_updates
    out = [sort_field(enc_items(after.items()))]
    if t == "g2":
        out.append(sort_field(enc_items(gs.raw(t).items())))
    out += [sort_field(enc_items(updates.items())), ",".join(sorted(enc_conf(c) for c in conflicts)) or "-"]
    if kind == "git->git" and case.get("annot"):
        # the model knows lightweight tags only; annotated source tags are left to the oracle
        ctx.count("D:git->git-annotated-not-compared-with-model")
        return None
    if kind == "git->git":
        line = "g2g %s %s %s %s %s" % (tf(ow), enc_sel(sel), enc_c, enc_items(refs0), enc_items(msrc))
    elif t == "g2":
        line = "gitmerge %s %s %s %s %s %s %s" % (tf(gs.strict), tf(ow), enc_sel(sel), enc_c, enc_a,
                                                  enc_items(refs0), enc_items(msrc))
    else:
        line = "rec %s %s %s %s" % (tf(ow), enc_sel(sel), enc_items(msrc), enc_items(usort(dst)))
    return line, "|".join(out)


def _git_nontrivial(gs, case):
    src = [(k, gs.resolve(v)) for k, v in case["src"]]
    dst = [(k, gs.resolve(v)) for k, v in case["dst"]]
    return nontrivial(src, dst, case["sel"])


def _level_d(ctx, n):
    gs = _git_stores()
    ctx.count("D:set_tag-refuses-absent-commit:" + tf(gs.strict))
    cases, lines, outs = [], [], []
    for i in range(n):
        case = gen_git_case(ctx.rng, KINDS[i % len(KINDS)])
        r = _run_git_case(ctx, gs, case)
        ctx.case(case, nontrivial=_git_nontrivial(gs, case))
        ctx.count("D:" + case["kind"])
        for _k, v in case["src"]:
            ctx.count("D:srcval:" + ("commit" if v[0] == "c" else "ghost" if v[0] == "g" else "absent"))
        if case["hidden"]:
            ctx.count("D:dest-has-broken-ref")
        if case.get("noise"):
            ctx.count("D:git-source-has-unreadable-refs")
        if case.get("annot"):
            ctx.count("D:git-source-has-annotated-tags")
        if any(v[0] == "g" for _k, v in case["src"]) and len(case["src"]) + len(case["dst"]) > 1:
            ctx.count("D:ghost-among-other-tags")
        if r is None:
            continue
        cases.append(case)
        lines.append(r[0])
        outs.append(r[1])
        ctx.count("D:conflicts" if not r[1].endswith("|-") else "D:noconflict")
    replies = ctx.model(lines)
    for c, l, o, m in zip(cases, lines, outs, replies):
        ctx.traces += 1
        m2 = "|".join(sort_field(x) for x in m.split("|"))
        if m2 != o:
            ctx.mismatch(c, o, m2, line=l)


# ---------------------------------------------------------------- level E (serialisation)
def _deser(bt, content):
    """-> canonical string like the model's reply"""
    try:
        d = bt._deserialize_tag_dict(content)
    except ValueError:
        return "E:ValueError", None
    except Exception as e:  # e.g. AttributeError for a top-level list
        return "E:" + type(e).__name__, None
    if not isinstance(d, dict) or not all(isinstance(v, bytes) for v in d.values()):
        return "other", d
    return "ok " + enc_items(d.items()), d


def gen_tagdict(rng):
    n = rng.choice([0, 1, 1, 2, 3, 4, 6, 12])
    d = {}
    for _ in range(n):
        d[gen_name(rng)] = gen_value(rng)
    items = list(d.items())
    rng.shuffle(items)
    return items


def mutate(rng, b):
    b = bytearray(b)
    for _ in range(rng.choice([1, 1, 2, 3])):
        r = rng.random()
        pos = rng.randrange(len(b) + 1)
        if r < 0.3 and b:
            del b[min(pos, len(b) - 1)]
        elif r < 0.6:
            b.insert(pos, rng.choice(b"0123456789:deil-\x00\xff\xc3 "))
        elif r < 0.8 and b:
            b[min(pos, len(b) - 1)] = rng.choice(b"0123456789:deil-\x80\xed\xa0\xf4")
        elif r < 0.9:
            b = b[:pos]
        else:
            b += bytes(rng.choice(b"de0:1") for _ in range(2))
    return bytes(b)


HAND_BYTES = [b"", b"de", b"d", b"e", b"d1:a1:be", b"d1:a1:b1:a1:ce", b"d1:b1:x1:a1:ye", b"d01:a1:be", b"d1:a01:be",
              b"d0:0:e", b"d1:a1:bex", b"d1:a1:b", b"d1:a2:be", b"d1:ai5ee", b"d1:ali1eee", b"d1:ad1:x0:ee",
              b"5:hello", b"i5e", b"le", b"d+1:a1:be", b"d 1:a1:be", b"d1:a1:bee", b"d-1:a1:be", b"d1:a", b"d1:",
              b"d1", b"di1e1:ae", b"d1:a1:b0:1:ce", b"d1:a-0:e", b"d1 :a1:be", b"d1:a1:b\n", b"d00:1:be",
              b"d2:\xc3\xa91:xe", b"d1:\xc31:xe", b"d3:\xed\xa0\x801:xe", b"d2:\xc0\x801:xe", b"d4:\xf4\x90\x80\x801:xe",
              b"d4:\xf0\x90\x80\x800:e", b"d3:\xef\xbf\xbf0:e", b"d1:\xff0:e", b"d10:aaaaaaaaaa1:be", b"d1:a1:b2:aa0:e",
              b"d1:a1:b1:A0:e", b"d2:aa0:1:a0:e", b"x", b"d1:a1:b1:b", b"d9999999999999999999999:ae"]


def _level_e(ctx, n, store_n):
    from breezy.bzr.tag import BasicTags
    bt = BasicTags(None)
    cases, lines, outs = [], [], []
    blobs = list(HAND_BYTES)
    for i in range(n):
        items = gen_tagdict(ctx.rng)
        case = dict(level="E", op="ser", d=[[k, v.hex()] for k, v in items])
        try:
            ser = bt._serialize_tag_dict(dict(items))
        except Exception as e:  # generated names never contain lone surrogates
            _raised(ctx, case, "_serialize_tag_dict", e)
            continue
        # oracle: round trip
        try:
            back = bt._deserialize_tag_dict(ser)
        except Exception as e:
            back = "raised %r" % (e,)
        if back != dict(items):
            ctx.violation(case, "deserialize(serialize(d)) != d: got %r" % (back,))
        ctx.case(case, nontrivial=bool(items))
        ctx.count("E:ser:size:%d" % min(len(items), 9))
        cases.append(case)
        lines.append("ser " + enc_items(items))
        outs.append(hx(ser))
        blobs.append(ser)
        for _ in range(2):
            blobs.append(mutate(ctx.rng, ser))
    for b in blobs:
        case = dict(level="E", op="deser", bytes=b.hex())
        out, d = _deser(bt, b)
        ctx.count("E:deser:" + out.split(" ")[0])
        cases.append(case)
        lines.append("deser " + hx(b))
        outs.append(out)
        ctx.case(case, nontrivial=len(b) > 2)
    replies = ctx.model(lines)
    for c, l, o, m in zip(cases, lines, outs, replies):
        if m == "unsupported":
            ctx.count("E:model-unsupported")
            if o.startswith("ok "):
                ctx.mismatch(c, o, m, line=l)
            continue
        ctx.traces += 1
        if o != m:
            ctx.mismatch(c, o, m, line=l)
    # surrogate names: excluded input — must raise and store nothing
    # store / re-open / read on a real branch, whole dict and tag by tag
    st = _Stores()
    for i in range(store_n):
        items = gen_tagdict(ctx.rng)
        case = dict(level="E", op="store", d=[[k, v.hex()] for k, v in items], stepwise=bool(i % 2))
        b = st.open("tgt")
        try:
            if i % 2:
                with b.lock_write():
                    b.tags._set_tag_dict({})
                for k, v in items:
                    st.open("tgt").tags.set_tag(k, v)
            else:
                with b.lock_write():
                    b.tags._set_tag_dict(dict(items))
            got = st.read("tgt")
        except Exception as e:
            _raised(ctx, case, "storing / re-reading a tag dict", e)
            continue
        if got != dict(items):
            ctx.violation(case, "stored tag dict read back as %r" % (got,))
        if i % 5 == 0 and items:
            # a name that cannot be encoded must be refused without touching the store
            try:
                st.open("tgt").tags.set_tag("bad\ud800", b"x")
                ctx.count("E:surrogate-accepted")
            except UnicodeEncodeError:
                ctx.count("E:surrogate-name-rejected")
            if st.read("tgt") != dict(items):
                ctx.violation(case, "failed set_tag with an unencodable name changed the stored tags")
            k0 = items[0][0]
            st.open("tgt").tags.delete_tag(k0)
            exp = dict(items); del exp[k0]
            if st.read("tgt") != exp:
                ctx.violation(case, "delete_tag(%r) left %r" % (k0, st.read("tgt")))
        ctx.case(case, nontrivial=bool(items))
        ctx.count("E:store")


# ---------------------------------------------------------------- T1
def extract(ctx):
    sys.path.insert(0, os.path.join(env.VERIF, "tools"))
    import extract as ex
    f = ex.find_func(os.path.join(env.REPO, "breezy/tag.py"), "_reconcile_tags")
    loops = [s for s in f.body if isinstance(s, ast.For)]
    if len(loops) != 1:
        raise ex.ExtractError("expected exactly one for loop")
    loop = loops[0]
    if ast.unparse(loop.target) != "(name, target)" or ast.unparse(loop.iter) != "source_dict.items()":
        raise ex.ExtractError("unexpected loop header: %s in %s" % (ast.unparse(loop.target), ast.unparse(loop.iter)))
    pre = [ast.unparse(s) for s in f.body if isinstance(s, ast.Assign)]
    if sorted(pre) != sorted(["conflicts = []", "updates = {}", "result = dict(dest_dict)"]):
        raise ex.ExtractError("unexpected initialisation: %r" % pre)
    if ast.unparse(f.body[-1]) != "return (result, updates, conflicts)":
        raise ex.ExtractError("unexpected return: %s" % ast.unparse(f.body[-1]))

    atoms = {"selector": "hasSel", "selector(name)": "selOk", "result.get(name) == target": "same",
             "name in result": "present", "overwrite": "overwrite"}

    class Rw(ast.NodeTransformer):
        def generic_visit(self, node):
            if isinstance(node, ast.expr):
                src = ast.unparse(node)
                if src in atoms:
                    return ast.Name(id=atoms[src], ctx=ast.Load())
                if src == "name not in result":
                    return ast.UnaryOp(op=ast.Not(), operand=ast.Name(id="present", ctx=ast.Load()))
            return super().generic_visit(node)

    def ret(kind):
        return ast.Return(value=ast.Constant(value=kind))

    def stmts(body):
        out = []
        i = 0
        while i < len(body):
            s = body[i]
            src = ast.unparse(s)
            if isinstance(s, ast.Continue):
                out.append(ret("skip")); break
            if isinstance(s, ast.Pass):
                out.append(ret("same")); break
            if isinstance(s, ast.If):
                out.append(ast.If(test=Rw().visit(s.test), body=stmts(s.body), orelse=stmts(s.orelse) if s.orelse else []))
                i += 1
                continue
            if src in ("updates[name] = target", "result[name] = target"):
                other = {"updates[name] = target": "result[name] = target",
                         "result[name] = target": "updates[name] = target"}[src]
                if i + 1 < len(body) and ast.unparse(body[i + 1]) == other:
                    out.append(ret("take")); break
                raise ex.ExtractError("take branch does not update both dicts")
            if src == "conflicts.append((name, target, result[name]))":
                out.append(ret("conflict")); break
            raise ex.ExtractError("unsupported statement: %s" % src)
        return out

    body = stmts(loop.body)
    # falling off the end of the loop body without an action
    tr = ex.DecisionTranslator(const=lambda v: "Kind." + v)
    term = tr.block(body + [ret("same")])
    text = ("-- GENERATED by harness/checks/c24.py from breezy/tag.py:_reconcile_tags — do not edit\n"
            "import BreezyVerif.Model.C24\nnamespace BreezyVerif.C24\n"
            "def stepKindGen (hasSel selOk same present overwrite : Bool) : Kind :=\n  "
            + term + "\nend BreezyVerif.C24\n")
    ex.write_if_changed(os.path.join(env.VERIF, "lean/BreezyVerif/Generated/C24.lean"), text)
    return "regenerated stepKindGen from the loop body of _reconcile_tags"


# ---------------------------------------------------------------- entry points
def _corpus(ctx):
    import glob
    import json
    for p in sorted(glob.glob(os.path.join(env.VERIF, "corpus", "C24", "*.json"))):
        case = json.load(open(p))
        r = replay(ctx, case.get("case", case))
        ctx.count("corpus")
        if r.get("impl") != r.get("model"):
            ctx.mismatch(case, r.get("impl"), r.get("model"))


def run(ctx, scale=1):
    import time
    wall = ctx.extra.setdefault("wall_by_level_s", {})

    def timed(name, fn, *a):
        t0 = time.time()
        fn(ctx, *a)
        wall[name] = round(wall.get(name, 0) + time.time() - t0, 1)
    timed("corpus", _corpus)
    timed("AB", _level_ab, ctx.pick(4000, 40000) * scale)
    timed("E", _level_e, ctx.pick(600, 6000) * scale, ctx.pick(60, 400))
    timed("C", _level_c, ctx.pick(300, 3000) * scale)
    timed("D", _level_d, ctx.pick(240, 2400) * scale)


def widen(ctx):
    run(ctx, scale=3)


def replay(ctx, case):
    from breezy import tag as _tag
    lvl = case.get("level")
    if lvl == "D":
        # store-level replay on freshly built repositories
        gs = _git_stores()
        r = _run_git_case(ctx, gs, case)
        if r is None:
            return dict(case=case, impl=None, model=None, oracle_failures=[v["what"] for v in ctx.violations])
        m = ctx.model([r[0]])[0]
        return dict(case=case, impl=r[1], model="|".join(sort_field(x) for x in m.split("|")), line=r[0],
                    oracle_failures=[v["what"] for v in ctx.violations])
    if lvl == "C":
        r = _run_c_case(ctx, _Stores(), case)
        if r is None:
            return dict(case=case, impl=None, model=None, oracle_failures=[v["what"] for v in ctx.violations])
        return dict(case=case, impl=r[1], model=_canon_c(ctx.model([r[0]])[0]), line=r[0],
                    oracle_failures=[v["what"] for v in ctx.violations])
    if lvl in ("A", "B"):
        src = [(k, bytes.fromhex(v)) for k, v in case["src"]]
        dst = [(k, bytes.fromhex(v)) for k, v in case["dst"]]
        sel, ow = case["sel"], case["ow"]
        result, updates, conflicts = _tag._reconcile_tags(dict(src), dict(dst), ow, mk_selector(sel))
        _laws(ctx, case, src, dst, ow, sel, result, updates, list(conflicts), "reconcile")
        impl = "%s|%s|%s" % (enc_items(result.items()), enc_items(updates.items()),
                             ",".join(enc_conf(c) for c in conflicts) or "-")
        model = ctx.model(["rec %s %s %s %s" % (tf(ow), enc_sel(sel), enc_items(src), enc_items(dst))])[0]
        if lvl == "B":
            from breezy.tag import MemoryTags
            dt = MemoryTags(dict(dst))
            u2, c2 = MemoryTags(dict(src)).merge_to(dt, overwrite=ow, selector=mk_selector(sel))
            _laws(ctx, case, src, dst, ow, sel, dt.get_tag_dict(), u2, list(c2), "MemoryTags.merge_to")
        return dict(case=case, impl=impl, model=model,
                    oracle_failures=[v["what"] for v in ctx.violations])
    from breezy.bzr.tag import BasicTags
    bt = BasicTags(None)
    if case.get("op") in ("ser", "store"):
        items = [(k, bytes.fromhex(v)) for k, v in case["d"]]
        ser = bt._serialize_tag_dict(dict(items))
        back = bt._deserialize_tag_dict(ser)
        if back != dict(items):
            ctx.violation(case, "deserialize(serialize(d)) != d: got %r" % (back,))
        return dict(case=case, impl=hx(ser), model=ctx.model(["ser " + enc_items(items)])[0],
                    oracle_failures=[v["what"] for v in ctx.violations])
    b = bytes.fromhex(case["bytes"])
    out, _ = _deser(bt, b)
    return dict(case=case, impl=out, model=ctx.model(["deser " + hx(b)])[0], oracle_failures=[])
