"""Standalone repro: a home directory whose NAME contains a percent-escape of '/' next to '..'
(server-side configuration: password database / userdir_expander) lets `~/...` client paths leave the
served directory, because BzrServerFactory._expand_userdirs returns the part of the expanded OS path
below the base path as if it were a URL path (no urlutils.escape), and the local transport decodes it.

exit 1 = the file OUTSIDE the served directory was read through the smart request handler."""
import os, sys, tempfile
W = tempfile.mkdtemp(prefix="c31-userdir-", dir="/var/tmp")
os.environ["HOME"] = W; os.environ["BRZ_HOME"] = W; os.environ["BRZ_EMAIL"] = "a@b"
sys.path.insert(0, os.environ.get("VERIF_REPO", "/repo"))
import breezy; breezy.initialize()
import breezy.bzr, breezy.bzr.bzrdir
from breezy import transport as T
from breezy.bzr.smart import server as S, request as R
root = os.path.join(W, "root")
home = os.path.join(root, "..%2Fevil")          # a directory INSIDE the served directory, literally named "..%2Fevil"
os.makedirs(home); os.makedirs(os.path.join(W, "evil"))
open(os.path.join(W, "evil", "secret"), "w").write("OUTSIDE-SECRET")
open(os.path.join(home, "secret"), "w").write("inside")
def expander(p):                                  # what posixpath.expanduser does for the current user
    return home + p[1:] if p == "~" or p.startswith("~/") else p
f = S.BzrServerFactory(userdir_expander=expander)
f._make_backing_transport(T.get_transport_from_path(root))
h = R.SmartServerRequestHandler(f.transport, R.request_handlers, "/")
h.args_received((b"get", b"~/secret"))
h.end_received()
print(h.response.args, h.response.body)
bad = h.response.body == b"OUTSIDE-SECRET"
import shutil; shutil.rmtree(W, ignore_errors=True)
sys.exit(1 if bad else 0)
