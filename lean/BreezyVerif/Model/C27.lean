import BreezyVerif.Model.C26
/-!
C27 — crash points and fault injection for the lock-directory model of
`Model/C26.lean` (same lockers, same events: a crash is the event `Ev.crash`, or
simply a schedule in which the process gets no further events; a transport
error is the event `Ev.fault`).
-/
namespace BreezyVerif.C27
open BreezyVerif.C26

/-- state of the lock as a later process finds it on disk -/
inductive Disk
  | free
  | heldReadable (n : Nonce)
  | heldCorrupt (tag : Nat)
  | heldNoInfo
deriving DecidableEq, Repr

def classify : Option Dir → Disk
  | none => .free
  | some none => .heldNoInfo
  | some (some (.ok n)) => .heldReadable n
  | some (some (.bad t)) => .heldCorrupt t

/-- `Free` or `HeldReadable` -/
def recoverable (h : Option Dir) : Bool :=
  match classify h with
  | .free | .heldReadable _ => true
  | _ => false

def Disk.show : Disk → String
  | .free => "Free"
  | .heldReadable n => s!"HeldReadable:{n.owner}.{n.serial}"
  | .heldCorrupt t => s!"HeldCorrupt:{t}"
  | .heldNoInfo => "HeldNoInfo"

/-- a complete `attempt_lock` of locker `i` on a free lock: mkdir, put, rename, peek -/
def acquireEvs (i : Nat) : List Ev := [.start i .attempt, .step i, .step i, .step i, .step i]

/-- a complete `break_lock` of locker `i` on a readable lock: peek, peek, rename, get, delete, rmdir -/
def breakEvs (i : Nat) : List Ev :=
  [.start i .brk, .step i, .step i, .step i, .step i, .step i, .step i]

/-- a complete `break_lock` of locker `i` on a lock with unparsable info
(`force_break_corrupt`): peek, rename, get, delete, rmdir -/
def breakCorruptEvs (i : Nat) : List Ev :=
  [.start i .brk, .step i, .step i, .step i, .step i, .step i]

end BreezyVerif.C27
