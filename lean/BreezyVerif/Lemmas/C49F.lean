import BreezyVerif.Lemmas.C49Q
/-! file-level lemmas for the store round trip of Props/C49.lean: writing one
section of reloadable strings and loading the result -/
namespace BreezyVerif.C49

/-! ### line splitting -/

theorem splitLinesAux_line : ∀ (body cur rest : Str), (∀ c ∈ body, isLineBreak c = false) →
    splitLinesAux cur false (body ++ '\n' :: rest) = (cur.reverse ++ body) :: splitLinesAux [] false rest
  | [], cur, rest, _ => by
    simp [splitLinesAux]
  | c :: b, cur, rest, h => by
    have hc : isLineBreak c = false := h c (by simp)
    have hcr : c ≠ '\r' := fun e => by subst e; exact absurd hc (by decide)
    have hnl : c ≠ '\n' := fun e => by subst e; exact absurd hc (by decide)
    have ih := splitLinesAux_line b (c :: cur) rest (fun d hd => h d (List.mem_cons_of_mem _ hd))
    simp only [List.cons_append, splitLinesAux, Bool.false_and, Bool.false_eq_true, if_false, beq_iff_eq, hcr, hnl, hc, ih]
    simp

/-! ### key lines -/

theorem kwScan_key (q2 : Str) : ∀ (r acc : Str), (∀ d ∈ r, keyChar d = true) →
    kwScan acc (r ++ ' ' :: '=' :: ' ' :: q2) = .kv (acc.reverse ++ r) (q2.dropWhile isSpace)
  | [], acc, _ => by
    have h1 : isSpace ' ' = true := by decide
    have h2 : isSpace '=' = false := by decide
    have hs : startsEq (' ' :: '=' :: ' ' :: q2) = true := by simp [startsEq, h1, h2]
    have ha : afterEq (' ' :: '=' :: ' ' :: q2) = q2.dropWhile isSpace := by simp [afterEq, h1, h2]
    simp only [List.nil_append, kwScan, hs, if_true, ha, List.append_nil]
  | d :: r, acc, h => by
    have hd := keyChar_facts (h d (by simp))
    have ih := kwScan_key q2 r (d :: acc) (fun e he => h e (List.mem_cons_of_mem _ he))
    have hs : startsEq (d :: (r ++ ' ' :: '=' :: ' ' :: q2)) = false := by
      simp [startsEq, hd.1, hd.2.2.1]
    simp only [List.cons_append, kwScan, hs, Bool.false_eq_true, if_false, ih]
    simp

theorem plainKey_cons {k : Str} (h : plainKey k = true) :
    ∃ c r, k = c :: r ∧ keyStart c = true ∧ ∀ d ∈ r, keyChar d = true := by
  cases k with
  | nil => simp [plainKey] at h
  | cons c r =>
    simp only [plainKey, Bool.and_eq_true, List.all_eq_true] at h
    exact ⟨c, r, rfl, h.1, h.2⟩

theorem plainKey_lineBreak {k : Str} (h : plainKey k = true) : ∀ c ∈ k, isLineBreak c = false := by
  obtain ⟨c, r, rfl, hc, hr⟩ := plainKey_cons h
  intro d hd
  rcases List.mem_cons.mp hd with e | e
  · subst e; exact (keyChar_facts (keyStart_keyChar hc)).2.1
  · exact (keyChar_facts (hr d e)).2.1

/-- the line `key = q2` is a keyword line with that key and the value `q2` (minus leading blanks) -/
theorem classify_key_line {k : Str} (h : plainKey k = true) (q2 : Str) :
    tailOk (k ++ eqSep ++ q2 ++ []) = false ∧
    classifyLine (k ++ eqSep ++ q2 ++ []) = .kv k (q2.dropWhile isSpace) := by
  obtain ⟨c, r, rfl, hc, hr⟩ := plainKey_cons h
  have hf := keyChar_facts (keyStart_keyChar hc)
  have e : (c :: r) ++ eqSep ++ q2 ++ [] = c :: (r ++ ' ' :: '=' :: ' ' :: q2) := by simp [eqSep]
  rw [e]
  constructor
  · rw [tailOk_cons_nonspace hf.1]; simpa using hf.2.2.2.1
  · have hd : (c :: (r ++ ' ' :: '=' :: ' ' :: q2)).dropWhile isSpace = c :: (r ++ ' ' :: '=' :: ' ' :: q2) := by
      simp [hf.1]
    have h1 : (c == '[') = false := by simpa using hf.2.2.2.2.1
    have h2 : (c == '\'') = false := by simpa using hf.2.2.2.2.2.2
    have h3 : (c == '"') = false := by simpa using hf.2.2.2.2.2.1
    have h4 : (c == '#') = false := by simpa using hf.2.2.2.1
    have h5 : (c == '=') = false := by simpa using hf.2.2.1
    simp only [classifyLine, hd, h1, h2, h3, h4, h5, Bool.false_eq_true, if_false, Bool.or_self]
    rw [kwScan_key q2 r [c] hr]; simp

theorem plainSec_facts {n : Str} (h : plainSec n = true) : n ≠ [] ∧ ∀ c ∈ n, secNameChar c = true := by
  simp only [plainSec, Bool.and_eq_true, Bool.not_eq_true', List.all_eq_true] at h
  constructor
  · intro e; subst e; simp at h
  · exact h.2

/-- the line `[name]` is a section marker -/
theorem classify_header_line {n : Str} (h : plainSec n = true) :
    tailOk ('[' :: n ++ [']']) = false ∧ classifyLine ('[' :: n ++ [']']) = .header n ∧
    ∀ c ∈ '[' :: n ++ [']'], isLineBreak c = false := by
  obtain ⟨hne, hall⟩ := plainSec_facts h
  have hsp : isSpace '[' = false := by decide
  refine ⟨?_, ?_, ?_⟩
  · have : '[' :: n ++ [']'] = '[' :: (n ++ [']']) := rfl
    rw [this, tailOk_cons_nonspace hsp]; decide
  · have hd : ('[' :: n ++ [']']).dropWhile isSpace = '[' :: (n ++ [']']) := by simp [hsp]
    have hrev : (n ++ [']']).reverse = ']' :: n.reverse := by simp
    have hall' : n.reverse.all secNameChar = true := by
      rw [List.all_reverse, List.all_eq_true]; exact hall
    have hne' : n.reverse.isEmpty = false := by
      cases n with
      | nil => exact absurd rfl hne
      | cons a b => simp
    simp only [classifyLine, hd, beq_self_eq_true, if_true, headerLine, hrev, hne', hall', Bool.not_false, Bool.and_self,
      List.reverse_reverse]
  · intro c hc
    rcases mem_wrap_gen.mp hc with e | e | e
    · subst e; decide
    · exact (secNameChar_facts (hall c e)).2.1
    · subst e; decide
where
  mem_wrap_gen {c : Char} : c ∈ '[' :: n ++ [']'] ↔ c = '[' ∨ c ∈ n ∨ c = ']' := by
    simp [List.mem_append]

/-! ### writing and loading the option lines -/

/-- one stored option per line: written by `writeOptLines`, split into lines and
parsed again it yields exactly the stored strings, in order, after what was there -/
theorem write_parse_opts (sec : Option Str) (seen : List Str) :
    ∀ (stored : List (Str × Str × Str)) (acc : List Entry),
      (∀ s ∈ stored, plainKey s.1 = true ∧ Reloadable s.2.1 ∧ s.2.2 = []) →
      (stored.map (·.1)).Nodup →
      (∀ s ∈ stored, ∀ e ∈ acc, ¬ (e.sec = sec ∧ e.key = s.1)) →
      ∃ body, writeOptLines stored = some body ∧
        parseLines 0 sec seen acc (splitLinesAux [] false body) =
          .opts (acc.reverse ++ stored.map fun s => ⟨sec, s.1, s.2.1, []⟩)
  | [], acc, _, _, _ => ⟨[], rfl, by simp [splitLinesAux, parseLines]⟩
  | (k, raw, comment) :: r, acc, hall, hnd, hacc => by
    obtain ⟨hk, ⟨q2, hq2, hq2lb, hparse⟩, hcomment⟩ := hall (k, raw, comment) (by simp)
    simp only at hk hq2 hparse hcomment
    subst hcomment
    have hnd' : (r.map (·.1)).Nodup := (List.nodup_cons.mp hnd).2
    have hknot : k ∉ r.map (·.1) := (List.nodup_cons.mp hnd).1
    let e : Entry := ⟨sec, k, raw, []⟩
    have hacc' : ∀ s ∈ r, ∀ e' ∈ e :: acc, ¬ (e'.sec = sec ∧ e'.key = s.1) := by
      intro s hs e' he'
      rcases List.mem_cons.mp he' with h | h
      · subst h
        intro hh
        exact hknot (List.mem_map.mpr ⟨s, hs, hh.2.symm⟩)
      · exact hacc s (List.mem_cons_of_mem _ hs) e' h
    obtain ⟨body, hbody, hpl⟩ := write_parse_opts sec seen r (e :: acc)
      (fun s hs => hall s (List.mem_cons_of_mem _ hs)) hnd' hacc'
    refine ⟨k ++ eqSep ++ q2 ++ [] ++ '\n' :: body, ?_, ?_⟩
    · simp only [writeOptLines, hk, if_true, hq2, hbody]
    · have hline : ∀ c ∈ k ++ eqSep ++ q2 ++ [], isLineBreak c = false := by
        intro c hc
        simp only [List.append_nil, List.mem_append] at hc
        rcases hc with (hc | hc) | hc
        · exact plainKey_lineBreak hk c hc
        · simp [eqSep] at hc
          rcases hc with h | h | h <;> subst h <;> decide
        · exact hq2lb c hc
      rw [splitLinesAux_line _ [] body hline]
      obtain ⟨ht, hcl⟩ := classify_key_line hk q2
      have hdup : acc.any (fun t => t.sec == sec && t.key == k) = false := by
        rw [List.any_eq_false]
        intro t ht'
        have := hacc (k, raw, []) (by simp) t ht'
        simpa using this
      simp only [List.reverse_nil, List.nil_append]
      simp only [parseLines, ht, Bool.false_eq_true, if_false, hcl, hparse, hdup]
      simp only [List.dropWhile_nil]
      rw [hpl]
      simp [e]

/-! ### `Stack.set` of several options -/

theorem quoteAll_ok (fix : Bool) : ∀ (opts : List (Str × Str)), (∀ o ∈ opts, okFor fix o.2 = true) →
    ∃ stored, quoteAll fix opts = some stored ∧ stored.map (·.1) = opts.map (·.1) ∧
      (∀ s ∈ stored, Reloadable s.2.1 ∧ s.2.2 = []) ∧ stored.map (fun s => unquote s.2.1) = opts.map (·.2)
  | [], _ => ⟨[], rfl, rfl, by simp, rfl⟩
  | (k, v) :: r, h => by
    obtain ⟨q1, hq, hu, hr⟩ := storeQuote_reloadable fix v (h (k, v) (by simp))
    obtain ⟨st, hst, hkeys, hrel, hvals⟩ := quoteAll_ok fix r (fun o ho => h o (List.mem_cons_of_mem _ ho))
    refine ⟨(k, q1, []) :: st, by simp [quoteAll, hq, hst], by simp [hkeys], ?_, by simp [hu, hvals]⟩
    intro s hs
    rcases List.mem_cons.mp hs with e | e
    · subst e; exact ⟨hr, rfl⟩
    · exact hrel s e

end BreezyVerif.C49
