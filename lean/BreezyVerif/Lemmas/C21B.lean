import BreezyVerif.Lemmas.C21
/-! C21 — lemmas about tips, `heads` of two keys and the relation computed from it. -/
namespace BreezyVerif.C21

theorem isAnc_refl' (g : Graph) (t : Tip) : isAnc g t t = true := by
  cases t with
  | none => rfl
  | some r => simp [isAnc, anc_self]

theorem isAnc_antisymm' (g : Graph) (hwf : wf g = true) (a b : Tip)
    (h1 : isAnc g a b = true) (h2 : isAnc g b a = true) : a = b := by
  cases a <;> cases b <;> simp [isAnc] at h1 h2 ⊢
  exact anc_antisymm g hwf _ _ h1 h2

theorem isAnc_trans' (g : Graph) (hwf : wf g = true) (a b c : Tip)
    (h1 : isAnc g a b = true) (h2 : isAnc g b c = true) : isAnc g a c = true := by
  cases a <;> cases b <;> cases c <;> simp [isAnc] at h1 h2 ⊢
  exact anc_trans g hwf _ _ _ h1 h2

/-- the relation computed by `_revision_relations(a, b)` from `heads([a, b])`, in
terms of ancestry -/
theorem relation_contained (g : Graph) (hwf : wf g = true) (a b : Tip) (h : isAnc g a b = true) :
    revisionRelations (heads g [a, b]) a b = .bDescendsFromA := by
  by_cases hab : a = b
  · subst hab
    simp [revisionRelations, heads, sameSet]
  · have hba : isAnc g b a = false := by
      cases hh : isAnc g b a
      · rfl
      · exact absurd (isAnc_antisymm' g hwf a b h hh) hab
    have hab' : ¬ b = a := fun e => hab e.symm
    simp [revisionRelations, heads, sameSet, h, hba, hab']

theorem relation_descends (g : Graph) (a b : Tip) (h1 : isAnc g a b = false)
    (h2 : isAnc g b a = true) :
    revisionRelations (heads g [a, b]) a b = .aDescendsFromB := by
  have hab : ¬ a = b := by
    intro e; subst e; rw [isAnc_refl'] at h1; cases h1
  have hab' : ¬ b = a := fun e => hab e.symm
  simp [revisionRelations, heads, sameSet, h1, h2, hab, hab']

theorem relation_diverged (g : Graph) (a b : Tip) (h1 : isAnc g a b = false)
    (h2 : isAnc g b a = false) :
    revisionRelations (heads g [a, b]) a b = .diverged := by
  have hab : ¬ a = b := by
    intro e; subst e; rw [isAnc_refl'] at h1; cases h1
  have hab' : ¬ b = a := fun e => hab e.symm
  simp [revisionRelations, heads, sameSet, h1, h2, hab, hab']

/-- `_check_if_descendant_or_diverged(stop, last)` in terms of ancestry -/
theorem check_cases (g : Graph) (hwf : wf g = true) (s l : Tip) :
    checkRelation (revisionRelations (heads g [s, l]) s l) =
      if isAnc g s l then .ok true
      else if isAnc g l s then .ok false
      else .error .diverged := by
  cases h1 : isAnc g s l
  · cases h2 : isAnc g l s
    · simp [relation_diverged g s l h1 h2, checkRelation]
    · simp [relation_descends g s l h1 h2, checkRelation]
  · simp [relation_contained g hwf s l h1, checkRelation]

theorem present_mentioned (g : Graph) (r : Rev) (h : present g r = true) : r ∈ mentioned g := by
  induction g with
  | nil => simp [present, parentsOf] at h
  | cons e g ih =>
    obtain ⟨n, ps⟩ := e
    rw [mentioned_cons]
    by_cases hn : n = r
    · simp [hn]
    · have : present g r = true := by simpa [present, parentsOf, hn] using h
      simp [ih this]

/-- completeness of `find_distance_to_null` with correct seeds -/
theorem dist_complete (known : List (Rev × Nat)) (g : Graph) (hwf : wf g = true) :
    (∀ r' k', known.lookup r' = some k' → r' ∈ mentioned g → (lefthand g r').map List.length = some k') →
    ∀ (r : Rev) (l : List Rev), lefthand g r = some l → dist known g r = some l.length := by
  induction g with
  | nil => intro _ r l h; simp [lefthand] at h
  | cons e g ih =>
    obtain ⟨n, ps⟩ := e
    obtain ⟨hnp, hnm, hwf'⟩ := wf_cons hwf
    intro hseed r l hl
    have hseed' : ∀ r' k', known.lookup r' = some k' → r' ∈ mentioned g →
        (lefthand g r').map List.length = some k' := by
      intro r' k' hlk hm
      have hne : ¬ n = r' := fun e => hnm (e ▸ hm)
      have := hseed r' k' hlk (by rw [mentioned_cons]; simp [hm])
      simpa [lefthand, hne] using this
    by_cases hn : n = r
    · subst hn
      unfold dist
      simp only [if_true]
      cases hlk : known.lookup n with
      | some k' =>
        have := hseed n k' hlk (by rw [mentioned_cons]; simp)
        rw [hl] at this
        simp at this
        simp [this]
      | none =>
        simp only
        unfold lefthand at hl
        simp only [if_true] at hl
        cases ps with
        | nil => simp at hl; subst hl; simp
        | cons p rest =>
          simp only at hl ⊢
          cases hlp : lefthand g p with
          | none => rw [hlp] at hl; simp at hl
          | some l' =>
            rw [hlp] at hl; simp at hl; subst hl
            rw [ih hwf' hseed' p l' hlp]
            simp
    · have hl' : lefthand g r = some l := by simpa [lefthand, hn] using hl
      have := ih hwf' hseed' r l hl'
      simpa [dist, hn] using this

/-- a successful search on the left-hand walk finds a member of the left-hand chain -/
theorem lhFind_found_chain (g : Graph) : ∀ (r t : Rev), lhFind g r t = .found → t ∈ lhChain g r := by
  induction g with
  | nil => intro r t h; simp [lhFind] at h
  | cons e g ih =>
    obtain ⟨n, ps⟩ := e
    intro r t h
    unfold lhFind at h
    unfold lhChain
    split at h
    · rename_i hn
      simp only [hn, if_true]
      split at h
      · rename_i hrt
        subst hrt
        cases ps <;> simp
      · cases ps with
        | nil => simp at h
        | cons p rest =>
          simp only at h ⊢
          simp [ih p t h]
    · rename_i hn
      simp only [hn, if_false]
      exact ih r t h

theorem lhChain_sub_anc (g : Graph) : ∀ (r x : Rev), x ∈ lhChain g r → x ∈ anc g r := by
  induction g with
  | nil => intro r x h; simp [lhChain] at h
  | cons e g ih =>
    obtain ⟨n, ps⟩ := e
    intro r x hx
    unfold lhChain at hx
    unfold anc
    split at hx
    · rename_i hn
      simp only [hn, if_true]
      cases ps with
      | nil => simpa using hx
      | cons p rest =>
        simp only [List.mem_cons] at hx
        rcases hx with hx | hx
        · simp [hx]
        · simp only [List.flatMap_cons, List.mem_cons, List.mem_append]
          right; left
          exact ih p x hx
    · rename_i hn
      simp only [hn, if_false]
      exact ih r x hx

end BreezyVerif.C21
