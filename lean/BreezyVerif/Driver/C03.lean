import BreezyVerif.Common
import BreezyVerif.Model.C03
import BreezyVerif.Driver.C03Lib
/-
C03 driver.  Requests:

  fetch <exclusion found|revpresent> <ext T|F> <find_ghosts T|F> <rev> <src revs> <src invs> <src texts> <tgt revs> <tgt invs> <tgt texts>
      the one-batch model; reply: `E:NoSuchRevision` | `E:SourceIncomplete` |
      `ok <missing ids sorted> <revision ids of the target afterwards> <inventory ids> <texts f.t.c sorted>`

  fetchb <batch size> <stream found|revpresent|perrev> <ext> <find_ghosts> <rev> <src revs> <src invs> <src texts> <src tpar> <tgt revs> <tgt invs> <tgt texts> <tgt tpar>
      the batched model with per-file parents; reply: the two errors, or
      `ok <missing ids> <revs id:meta:parents;…> <invs id:f.n.t.s,…;…> <texts f.t.c,…> <tpar f.t:p.p;…>`
      (full records of the target afterwards, first value per key, sorted)

  walk <batch size> <rev> <src revs> <target revision ids a.b.c|->
      the batched revision search alone; reply: `<missing ids sorted>`

revs  = `id:meta:p.p.p` joined by `;`   (parents `-` when there are none; whole field `-` when empty)
invs  = `id:f.n.t.s,f.n.t.s` joined by `;` (entries `-` when the inventory is empty)
texts = `f.t.c` joined by `;`
tpar  = `f.t:p.p.p` joined by `;`
-/
namespace BreezyVerif.C03

def parseTpar (s : String) : Option (TextKey × List Rev) :=
  match s.splitOn ":" with
  | [k, ps] =>
    match k.splitOn "." with
    | [f, t] => do pure ((← f.toNat?, ← t.toNat?), ← parseDots ps)
    | _ => none
  | _ => none

def sortedKeys (l : List Nat) : List Nat := dedupSorted (l.mergeSort (fun a b => decide (a ≤ b)))

def pairLe (a b : Nat × Nat) : Bool := a.1 < b.1 || (a.1 == b.1 && a.2 ≤ b.2)

def dedupAdj {α : Type} [BEq α] : List α → List α
  | [] => []
  | [x] => [x]
  | x :: y :: rest => if x == y then dedupAdj (y :: rest) else x :: dedupAdj (y :: rest)

def sortedPairs (l : List (Nat × Nat)) : List (Nat × Nat) := dedupAdj (l.mergeSort pairLe)

def dots (l : List Nat) : String := if l.isEmpty then "-" else ".".intercalate (l.map toString)

def semis (l : List String) : String := if l.isEmpty then "-" else ";".intercalate l

def showEntry (e : Entry) : String := s!"{e.file}.{e.name}.{e.trev}.{e.sha}"

def entryLe (a b : Entry) : Bool := a.file ≤ b.file

def showRevsFull (l : List (Rev × RevRec)) : String :=
  semis ((sortedKeys (l.map (·.1))).filterMap fun k =>
    (get l k).map fun r => s!"{k}:{r.info}:{dots r.parents}")

def showInvsFull (l : List (Rev × Inv)) : String :=
  semis ((sortedKeys (l.map (·.1))).filterMap fun k =>
    (get l k).map fun i =>
      let es := (i.mergeSort entryLe).map showEntry
      s!"{k}:{if es.isEmpty then "-" else ",".intercalate es}")

def showTparFull (l : List (TextKey × List Rev)) : String :=
  semis ((sortedPairs (l.map (·.1))).filterMap fun k =>
    (get l k).map fun ps => s!"{k.1}.{k.2}:{dots ps}")

def parseKind (s : String) : Option StreamKind :=
  if s == "perrev" then some .perRevision else (parseX s).map .filtered

def showErr : Err → String
  | .noSuchRevision => "E:NoSuchRevision"
  | .sourceIncomplete => "E:SourceIncomplete"

def handle : List String → String
  | ["fetch", x, ext, fg, rev, sr, si, st, tr, ti, tt] =>
    match parseX x, parseBool ext, parseBool fg, rev.toNat?, parseRepo sr si st, parseRepo tr ti tt with
    | some x, some ext, some fg, some rev, some src, some tgt =>
      match fetch x ext fg src tgt rev with
      | .error e => showErr e
      | .ok t' => s!"ok {showIds (missing fg src tgt rev)} {showRepo t'}"
    | _, _, _, _, _, _ => "bad-op"
  | ["fetchb", n, x, ext, fg, rev, sr, si, st, sp, tr, ti, tt, tp] =>
    match n.toNat?, parseKind x, parseBool ext, parseBool fg, rev.toNat?, parseRepo sr si st, parseSemi parseTpar sp,
        parseRepo tr ti tt, parseSemi parseTpar tp with
    | some n, some x, some ext, some fg, some rev, some src, some sp, some tgt, some tp =>
      if n = 0 then "bad-op" else
      match fetchBH n x ext fg ⟨src, sp⟩ ⟨tgt, tp⟩ rev with
      | .error e => showErr e
      | .ok t' =>
        s!"ok {showIds (missingB n fg src tgt rev)} {showRevsFull t'.repo.revs} {showInvsFull t'.repo.invs} {showTexts t'.repo.texts} {showTparFull t'.tpar}"
    | _, _, _, _, _, _, _, _, _ => "bad-op"
  | ["walk", n, rev, sr, th] =>
    match n.toNat?, rev.toNat?, parseSemi parseRev sr, parseDots th with
    | some n, some rev, some sr, some th =>
      if n = 0 then "bad-op" else
      showIds (missingB n false ⟨sr, [], []⟩ ⟨th.map fun k => (k, ⟨[], 0⟩), [], []⟩ rev)
    | _, _, _, _ => "bad-op"
  | _ => "bad-op"

end BreezyVerif.C03

def main : IO Unit := BreezyVerif.runDriver BreezyVerif.C03.handle
