import BreezyVerif.Model.C34
/-
C34 — `breezy/git/roundtrip.py`: the `--BZR--` metadata block that the
(experimental, roundtripping) mapping appends to a commit message:
`generate_roundtripping_metadata`, `parse_roundtripping_metadata`,
`inject_bzr_metadata`, `extract_bzr_metadata`.  Bytes level, core Lean only.

A `CommitSupplement` is a record; `properties` (a dict) is the list of its items
in sorted key order (the harness sorts; `generate` iterates `sorted(keys)`).
-/
namespace BreezyVerif.C34

structure Supp where
  revisionId : Option Bytes          -- `revision_id` (None or bytes)
  parentIds : Option (List Bytes)    -- `explicit_parent_ids` (None or tuple)
  props : List (Bytes × Bytes)       -- `properties`
  testament : Option Bytes           -- `verifiers.get(b"testament3-sha1")`
  deriving DecidableEq, Repr

/-- bytes.strip() / split() whitespace -/
def isWs (c : UInt8) : Bool := c = 32 || c = 9 || c = 10 || c = 11 || c = 12 || c = 13

/-- `b.strip()` -/
def strip (b : Bytes) : Bytes := ((b.dropWhile isWs).reverse.dropWhile isWs).reverse

/-- `b.rstrip(b"\n")` -/
def rstripNl (b : Bytes) : Bytes := (b.reverse.dropWhile (· = 10)).reverse

/-- `b.split(sep)` for a one-byte separator -/
def splitSep (sep : UInt8) : Bytes → List Bytes
  | [] => [[]]
  | x :: r =>
    if x = sep then [] :: splitSep sep r
    else match splitSep sep r with
      | [] => [[x]]
      | h :: t => (x :: h) :: t

/-- `sep.join(l)` -/
def joinSep (sep : UInt8) : List Bytes → Bytes
  | [] => []
  | [x] => x
  | x :: y :: r => x ++ sep :: joinSep sep (y :: r)

/-- `BytesIO(text).readlines()`: pieces ending in `\n` (the last one may not) -/
def readlines : Bytes → List Bytes
  | [] => []
  | x :: r =>
    if x = 10 then [10] :: readlines r
    else match readlines r with
      | [] => [[x]]
      | h :: t => (x :: h) :: t

def ridLines : Option Bytes → List Bytes
  | some r => if r ≠ [] then [bs "revision-id: " ++ r] else []     -- `if metadata.revision_id:`
  | none => []

def pidLines : Option (List Bytes) → List Bytes
  | some ids => if ids ≠ [] then [bs "parent-ids: " ++ joinSep 32 ids] else []
  | none => []

def propLines (props : List (Bytes × Bytes)) : List Bytes :=
  props.flatMap fun kv => (splitSep 10 kv.2).map fun l => bs "property-" ++ kv.1 ++ bs ": " ++ l

def testLines : Option Bytes → List Bytes
  | some v => [bs "testament3-sha1: " ++ v]
  | none => []

/-- the lines (without their `\n`) `generate_roundtripping_metadata` writes -/
def generateLines (s : Supp) : List Bytes :=
  ridLines s.revisionId ++ pidLines s.parentIds ++ propLines s.props ++ testLines s.testament

/-- `generate_roundtripping_metadata(metadata, encoding)` -/
def generate (s : Supp) : Bytes := ((generateLines s).map (· ++ [10])).flatten

/-- `(key, value) = l.split(b":", 1)`; `none` = ValueError -/
def splitColon (l : Bytes) : Option (Bytes × Bytes) :=
  match split1 58 l with
  | [k, v] => some (k, v)
  | _ => none

/-- `ret.properties[name] = v` / `+= b"\n" + v` -/
def addProp (props : List (Bytes × Bytes)) (name v : Bytes) : List (Bytes × Bytes) :=
  if props.any (fun kv => kv.1 = name) then
    props.map fun kv => if kv.1 = name then (kv.1, kv.2 ++ 10 :: v) else kv
  else props ++ [(name, v)]

def propPrefix : Bytes := bs "property-"

/-- one iteration of the loop of `parse_roundtripping_metadata`; `none` = ValueError -/
def parseLine (acc : Supp) (l : Bytes) : Option Supp :=
  match splitColon l with
  | none => none
  | some (key, value) =>
    if key = bs "revision-id" then some { acc with revisionId := some (strip value) }
    else if key = bs "parent-ids" then some { acc with parentIds := some (splitSep 32 (strip value)) }
    else if key = bs "testament3-sha1" then some { acc with testament := some (strip value) }
    else if propPrefix.isPrefixOf key then
      some { acc with props := addProp acc.props (key.drop propPrefix.length) (rstripNl (value.drop 1)) }
    else none

def emptySupp : Supp := ⟨none, none, [], none⟩

/-- `parse_roundtripping_metadata(text)` (properties in first-occurrence order) -/
def parseMeta (text : Bytes) : Option Supp := (readlines text).foldlM parseLine emptySupp

def marker : Bytes := bs "\n--BZR--\n"

/-- `message.split(pat, 1)` when `pat` occurs: text before and after the first occurrence -/
def splitOnce (pat : Bytes) : Bytes → Option (Bytes × Bytes)
  | [] => none
  | x :: r =>
    if pat.isPrefixOf (x :: r) then some ([], (x :: r).drop pat.length)
    else (splitOnce pat r).map fun p => (x :: p.1, p.2)

/-- `extract_bzr_metadata(message)`: `none` = ValueError from the parser -/
def extractMeta (message : Bytes) : Option (Bytes × Option Supp) :=
  match splitOnce marker message with
  | none => some (message, none)
  | some (before, after) => (parseMeta after).map fun s => (before, some s)

/-- `inject_bzr_metadata(message, commit_supplement, encoding)` (a `CommitSupplement`
instance is always truthy in Python 3: only `None` is skipped) -/
def injectMeta (message : Bytes) : Option Supp → Bytes
  | none => message
  | some s => if generate s = [] then message else message ++ marker ++ generate s

end BreezyVerif.C34
