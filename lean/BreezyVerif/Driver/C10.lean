import BreezyVerif.Common
import BreezyVerif.Model.C10
/-
C10 driver.

  ic  <fx T|F> <impl g|c> <incl T|F> <unv T|F> <reqv T|F> <filter> <src> <tgt> <extras>
      -> canonical change records, sorted, joined by `;` (`-` = none) | E:PathsNotVersioned:<paths>
         | E:Diverged (the `_handle_precise_ids` loop does not finish within its fuel)
      fx = F: the loop of the unchanged code (`iterChangesG false = iterChanges`);
      fx = T: the loop with the `examined_file_ids` fix
  app <fx T|F> <impl g|c> <filter> <src> <tgt>
      -> `<applied T|F> <wf T|F> <equalsTarget T|F>` for applyChanges src tgt (iterChangesG …)
  wf  <tree> -> T|F
  hyp <src> <tgt> -> `<wf src> <wf tgt> <sameRoot> <noSlotOccupant> <noPathOccupant>` (T|F each):
      the hypotheses of filter_wf_partial / precise_terminates_partial

tree    = entries joined by `;`, entry = `id:parent:name:kind:content:exec`
          (parent `~` for the root, name `.` for the empty name, kind f|d|l,
          content = opaque token (hex), exec T|F)
filter  = `~` (None) | `-` ([]) | paths joined by `,`; path = components joined by `/`, `.` = root
extras  = `-` | `path=kind` joined by `,`
-/
namespace BreezyVerif.C10

def parsePath (s : String) : Option Path :=
  if s == "." then some [] else (s.splitOn "/").mapM fun c => if c.isEmpty then none else some c

def showPath (p : Path) : String := if p.isEmpty then "." else "/".intercalate p

def parseEntry (s : String) : Option (Id × Entry) :=
  match s.splitOn ":" with
  | [i, p, n, k, c, x] =>
    if i.isEmpty then none else
    let parent := if p == "~" then none else some p
    let name := if n == "." then "" else n
    match k, parseBool x with
    | "f", some x => some (i, ⟨parent, name, .file c x⟩)
    | "d", some false => if c == "-" then some (i, ⟨parent, name, .dir⟩) else none
    | "l", some false => some (i, ⟨parent, name, .symlink c⟩)
    | _, _ => none
  | _ => none

def parseTree (s : String) : Option Tree :=
  if s == "-" then some [] else (s.splitOn ";").mapM parseEntry

def parseFilter (s : String) : Option (Option (List Path)) :=
  if s == "~" then some none
  else if s == "-" then some (some [])
  else ((s.splitOn ",").mapM parsePath).map some

def parseKind (s : String) : Option Kind :=
  if s == "file" then some .file else if s == "directory" then some .dir
  else if s == "symlink" then some .symlink else none

def parseExtras (s : String) : Option (List (Path × Kind)) :=
  if s == "-" then some [] else
  (s.splitOn ",").mapM fun e =>
    match e.splitOn "=" with
    | [p, k] => do pure ((← parsePath p), (← parseKind k))
    | _ => none

def showKind : Kind → String
  | .file => "file" | .dir => "directory" | .symlink => "symlink"

def showOpt {α : Type} (f : α → String) : Option α → String
  | none => "~"
  | some a => f a

def showName (n : String) : String := if n.isEmpty then "." else n

def showChange (c : Change) : String :=
  "|".intercalate [
    c.id, showOpt showPath c.srcPath, showOpt showPath c.tgtPath, showBool c.changedContent,
    showBool c.src.isSome ++ showBool c.tgt.isSome,
    showOpt id (c.src.bind (·.parent)), showOpt id (c.tgt.bind (·.parent)),
    showOpt (fun m : Meta => showName m.name) c.src, showOpt (fun m : Meta => showName m.name) c.tgt,
    showOpt (fun m : Meta => showKind m.kind) c.src, showOpt (fun m : Meta => showKind m.kind) c.tgt,
    showOpt (fun m : Meta => showBool m.exec) c.src, showOpt (fun m : Meta => showBool m.exec) c.tgt]

def showUnversioned (e : Path × Kind) : String :=
  "|".intercalate ["~", "~", showPath e.1, "T", "FF", "~", "~", "~", showName (e.1.getLast?.getD ""), "~",
    showKind e.2, "~", "F"]

def sortStrings (l : List String) : List String := l.mergeSort (fun a b => decide (a ≤ b))

def joinSemi (l : List String) : String := if l.isEmpty then "-" else ";".intercalate l

def parseImpl (s : String) : Option Impl :=
  if s == "g" then some .generic else if s == "c" then some .chk else none

def showErr : Err → String
  | .pathsNotVersioned ps => "E:PathsNotVersioned:" ++ ",".intercalate (sortStrings (ps.map showPath))
  | .fuel => "E:Diverged"

/-- lookup-equality over all ids of both trees -/
def sameTree (a b : Tree) : Bool := (ids a ++ ids b).all fun i => get a i == get b i

def handle : List String → String
  | ["ic", fx, impl, incl, unv, reqv, filt, src, tgt, extras] =>
    match parseBool fx, parseImpl impl, parseBool incl, parseBool unv, parseBool reqv, parseFilter filt,
          parseTree src, parseTree tgt, parseExtras extras with
    | some fx, some impl, some incl, some unv, some reqv, some filt, some src, some tgt, some extras =>
      match iterChangesG fx impl src tgt filt incl reqv with
      | .error e => showErr e
      | .ok cs =>
        let u := if unv then
            (extras.filter fun e => (unversionedOf [e.1] filt).contains e.1).map showUnversioned
          else []
        joinSemi (sortStrings (cs.map showChange ++ u))
    | _, _, _, _, _, _, _, _, _ => "bad-op"
  | ["app", fx, impl, filt, src, tgt] =>
    match parseBool fx, parseImpl impl, parseFilter filt, parseTree src, parseTree tgt with
    | some fx, some impl, some filt, some src, some tgt =>
      match iterChangesG fx impl src tgt filt false false with
      | .error e => showErr e
      | .ok cs =>
        match applyChanges src tgt cs with
        | none => "F F F"
        | some t => s!"T {showBool (wf t)} {showBool (sameTree t tgt)}"
    | _, _, _, _, _ => "bad-op"
  | ["wf", t] =>
    match parseTree t with
    | some t => showBool (wf t)
    | none => "bad-op"
  | ["hyp", src, tgt] =>
    match parseTree src, parseTree tgt with
    | some src, some tgt =>
      " ".intercalate [showBool (wf src), showBool (wf tgt), showBool (sameRoot src tgt),
        showBool (noSlotOccupant src tgt), showBool (noPathOccupant src tgt)]
    | _, _ => "bad-op"
  | _ => "bad-op"

end BreezyVerif.C10

def main : IO Unit := BreezyVerif.runDriver BreezyVerif.C10.handle
