import BreezyVerif.Lemmas.C51
/-!
C51 — helper lemmas about `simplePlan` / `planLoop`: domain, slice selection,
the closure invariant (`PlanClosed`, `topoFrom`).
-/
namespace BreezyVerif.C51
open BreezyVerif.C33

/-! ### the plan loop rewrites exactly `todo`, in order (no skipping) -/

theorem planLoop_domain (g : PMap) (gen : Key → Key) (onto : Key) :
    ∀ (todo : List Key) (st st' : Plan × Skipped), planLoop g gen onto false st todo = .ok st' →
      st'.1.map (·.old) = st.1.map (·.old) ++ todo ∧ st'.2 = st.2 ∧
      ∀ e ∈ st'.1, e ∈ st.1 ∨ (e.new = gen e.old ∧ gen e.old ≠ e.old) := by
  intro todo
  induction todo with
  | nil =>
    intro st st' h
    simp only [planLoop] at h
    cases h
    exact ⟨by simp, rfl, fun e he => Or.inl he⟩
  | cons old todo ih =>
    intro st st' h
    simp only [planLoop] at h
    split at h
    · cases h
    · rename_i st1 hstep
      obtain ⟨p0, rest, _, hg, hp1⟩ := planStep_noskip hstep
      obtain ⟨h1, h2, h3⟩ := ih st1 st' h
      subst hp1
      refine ⟨by simp [h1], h2, ?_⟩
      intro e he
      rcases h3 e he with h4 | h4
      · rcases List.mem_append.mp h4 with h5 | h5
        · exact Or.inl h5
        · simp only [List.mem_singleton] at h5
          subst h5
          exact Or.inr ⟨rfl, hg⟩
      · exact Or.inr h4

theorem indexOf_head (x : Key) (l : List Key) : indexOf? (x :: l) x = some 0 := by
  simp [indexOf?, List.findIdx_cons]

theorem findIdx_getLast : ∀ (l : List Key) (s : Key), l.Nodup → l.getLast? = some s →
    l.findIdx (· == s) = l.length - 1 := by
  intro l
  induction l with
  | nil => intro s _ h; simp at h
  | cons x l ih =>
    intro s hnd h
    cases l with
    | nil =>
      simp at h
      subst h
      simp [List.findIdx_cons]
    | cons y r =>
      have hl : (y :: r).getLast? = some s := by simpa [List.getLast?_cons_cons] using h
      have hnd' := (List.nodup_cons.mp hnd)
      have hs : s ∈ y :: r := List.mem_of_getLast? hl
      have hx : x ≠ s := fun e => hnd'.1 (e ▸ hs)
      have hxs : (x == s) = false := by simpa using hx
      rw [List.findIdx_cons, hxs, cond_false, ih s hnd'.2 hl]
      simp only [List.length_cons]
      omega

theorem indexOf_getLast (l : List Key) (s : Key) (hnd : l.Nodup) (h : l.getLast? = some s) :
    indexOf? l s = some (l.length - 1) := by
  unfold indexOf?
  simp only [findIdx_getLast l s hnd h]
  have : l ≠ [] := by intro e; subst e; simp at h
  have : 0 < l.length := List.length_pos_iff.mpr this
  have h2 : l.length - 1 < l.length := by omega
  simp [h2]

/-- what a successful `generate_simple_plan(…, start=None, …)` did: it ran the
loop over a slice of `order` -/
theorem simplePlan_ok {g : PMap} {gen : Key → Key} {todoS order : List Key} {stop : Option Key}
    {onto : Key} {skip : Bool} {plan : Plan}
    (h : simplePlan g gen todoS order none stop onto skip = .ok plan) :
    ∃ stopK startK i j, (stop = some stopK ∨ (stop = none ∧ order.getLast? = some stopK)) ∧
      order.head? = some startK ∧ indexOf? order startK = some i ∧ indexOf? order stopK = some j ∧
      unrelated g stopK onto = false ∧
      ∃ sk, planLoop g gen onto skip ([], []) ((order.drop i).take (j + 1 - i)) = .ok (plan, sk) := by
  unfold simplePlan at h
  have hany : (none : Option Key).any (fun x => decide (x ∉ todoS)) = false := rfl
  simp only [hany, Bool.false_eq_true, if_false] at h
  split at h
  · cases h
  · cases hs : pickStop order stop with
    | error e => simp [hs] at h
    | ok stopK =>
      simp only [hs] at h
      have hstopK : stop = some stopK ∨ (stop = none ∧ order.getLast? = some stopK) := by
        unfold pickStop at hs
        cases stop with
        | some s => simp at hs; exact Or.inl (by rw [hs])
        | none =>
          cases hl : order.getLast? with
          | some s => simp [hl] at hs; exact Or.inr ⟨rfl, by rw [hs]⟩
          | none => simp [hl] at hs
      cases hst : pickStart g order onto stopK none with
      | error e => simp [hst] at h
      | ok startK =>
        simp only [hst] at h
        unfold pickStart at hst
        by_cases hu : unrelated g stopK onto = true
        · simp [hu] at hst
        · simp only [hu, Bool.false_eq_true, if_false] at hst
          cases hh : order.head? with
          | none => simp [hh] at hst
          | some s0 =>
            simp only [hh, Except.ok.injEq] at hst
            subst hst
            cases hi : indexOf? order s0 with
            | none => simp [hi] at h
            | some i =>
              cases hj : indexOf? order stopK with
              | none => simp [hi, hj] at h
              | some j =>
                simp only [hi, hj] at h
                cases hl : planLoop g gen onto skip ([], []) ((order.drop i).take (j + 1 - i)) with
                | error e => simp [hl] at h
                | ok st =>
                  simp only [hl, Except.ok.injEq] at h
                  subst h
                  exact ⟨stopK, s0, i, j, hstopK, rfl, hi, hj, by simpa using hu, st.2, by rw [hl]⟩

/-- the whole `order` is the slice when `stop` is `None` or the last revision of `order` -/
theorem simplePlan_loop {g : PMap} {gen : Key → Key} {todoS order : List Key} {stop : Option Key}
    {onto : Key} {skip : Bool} {plan : Plan} (hnd : order.Nodup)
    (hstop : ∀ s, stop = some s → order.getLast? = some s)
    (h : simplePlan g gen todoS order none stop onto skip = .ok plan) :
    ∃ sk, planLoop g gen onto skip ([], []) order = .ok (plan, sk) := by
  obtain ⟨stopK, startK, i, j, hs, hh, hi, hj, _, sk, hl⟩ := simplePlan_ok h
  have hlast : order.getLast? = some stopK := by
    rcases hs with h1 | ⟨_, h2⟩
    · exact hstop stopK h1
    · exact h2
  cases order with
  | nil => simp at hh
  | cons x l =>
    simp only [List.head?_cons, Option.some.injEq] at hh
    subst hh
    rw [indexOf_head] at hi
    rw [indexOf_getLast _ _ hnd hlast] at hj
    cases hi; cases hj
    exact ⟨sk, by simpa using hl⟩

/-- walking the plan in order with the new ids seen so far: every new parent is the new base, the new id of an
entry seen earlier, or an old revision `p` allowed by `W entry p` -/
def PlanClosedW (onto : Key) (W : Entry → Key → Prop) : List Key → Plan → Prop
  | _, [] => True
  | news, e :: rest =>
    (∀ p ∈ e.parents, p = onto ∨ p ∈ news ∨ W e p) ∧ PlanClosedW onto W (news ++ [e.new]) rest

/-- … or a GHOST PARENT OF THE OLD REVISION (which cannot be rewritten) -/
def PlanClosed (g : PMap) (onto : Key) : List Key → Plan → Prop :=
  PlanClosedW onto (fun e p => p ∈ parentsL g e.old ∧ parentsOf g p = none)

/-- … or a parent of the old revision that lies outside `slice`, the revisions asked to be rewritten, and is not
merged into the new base -/
def PlanClosedS (g : PMap) (onto : Key) (slice : List Key) : List Key → Plan → Prop :=
  PlanClosedW onto (fun e p => p ∈ parentsL g e.old ∧ p ∉ slice ∧ mergedInto g p onto = false)

theorem planClosedW_append (onto : Key) (W : Entry → Key → Prop) : ∀ (plan : Plan) (news : List Key) (e : Entry),
    PlanClosedW onto W news plan →
    (∀ p ∈ e.parents, p = onto ∨ p ∈ news ++ plan.map (·.new) ∨ W e p) →
    PlanClosedW onto W news (plan ++ [e]) := by
  intro plan
  induction plan with
  | nil => intro news e _ h; simpa [PlanClosedW] using h
  | cons x plan ih =>
    intro news e hc h
    simp only [List.cons_append, PlanClosedW] at hc ⊢
    refine ⟨hc.1, ih _ e hc.2 ?_⟩
    simpa [List.append_assoc] using h

theorem planClosedW_mono (onto : Key) (W W' : Entry → Key → Prop) : ∀ (plan : Plan) (news : List Key),
    (∀ e ∈ plan, ∀ p, W e p → W' e p) → PlanClosedW onto W news plan → PlanClosedW onto W' news plan := by
  intro plan
  induction plan with
  | nil => intro _ _ _; trivial
  | cons x plan ih =>
    intro news hw hc
    simp only [PlanClosedW] at hc ⊢
    refine ⟨fun p hp => ?_, ih _ (fun e he => hw e (List.mem_cons_of_mem _ he)) hc.2⟩
    rcases hc.1 p hp with h | h | h
    · exact Or.inl h
    · exact Or.inr (Or.inl h)
    · exact Or.inr (Or.inr (hw x (by simp) p h))

/-- no revision's parent appears at or after it (`topo_sort` output) -/
def topoFrom (g : PMap) : List Key → Bool
  | [] => true
  | old :: rest => (parentsL g old).all (fun p => p != old && !(rest.contains p)) && topoFrom g rest

theorem topoFrom_cons {g : PMap} {old : Key} {rest : List Key} (h : topoFrom g (old :: rest) = true) :
    (∀ p ∈ parentsL g old, p ≠ old ∧ p ∉ rest) ∧ topoFrom g rest = true := by
  simpa only [topoFrom, Bool.and_eq_true, List.all_eq_true, bne_iff_ne, Bool.not_eq_true',
    List.contains_eq_mem, decide_eq_false_iff_not] using h

/-- a parent never appears at or after its child -/
theorem topoFrom_split {g : PMap} : ∀ (l1 : List Key) (c : Key) (l2 : List Key), topoFrom g (l1 ++ c :: l2) = true →
    ∀ p ∈ parentsL g c, p ∉ c :: l2 := by
  intro l1
  induction l1 with
  | nil =>
    intro c l2 h p hp
    have := (topoFrom_cons h).1 p hp
    simp only [List.mem_cons, not_or]
    exact this
  | cons x l1 ih => intro c l2 h; exact ih c l2 (topoFrom_cons h).2

theorem topoFrom_suffix {g : PMap} : ∀ (l1 l2 : List Key), topoFrom g (l1 ++ l2) = true → topoFrom g l2 = true := by
  intro l1
  induction l1 with
  | nil => intro l2 h; exact h
  | cons x l1 ih => intro l2 h; exact ih l2 (topoFrom_cons h).2

theorem topoFrom_prefix {g : PMap} : ∀ (l1 l2 : List Key), topoFrom g (l1 ++ l2) = true → topoFrom g l1 = true := by
  intro l1
  induction l1 with
  | nil => intro _ _; rfl
  | cons x l1 ih =>
    intro l2 h
    have h' := topoFrom_cons (rest := l1 ++ l2) h
    simp only [topoFrom, Bool.and_eq_true, List.all_eq_true, bne_iff_ne, Bool.not_eq_true',
      List.contains_eq_mem, decide_eq_false_iff_not]
    refine ⟨fun p hp => ⟨(h'.1 p hp).1, fun hm => (h'.1 p hp).2 (List.mem_append_left _ hm)⟩, ih l2 h'.2⟩

theorem topoFrom_slice {g : PMap} (order : List Key) (i n : Nat) (h : topoFrom g order = true) :
    topoFrom g ((order.drop i).take n) = true := by
  have h1 : topoFrom g (order.drop i) = true := by
    have := List.take_append_drop i order
    exact topoFrom_suffix (order.take i) (order.drop i) (by rw [this]; exact h)
  have := List.take_append_drop n (order.drop i)
  exact topoFrom_prefix _ ((order.drop i).drop n) (by rw [this]; exact h1)

/-- the general closure invariant of the plan loop, for ANY list of revisions in topological order (any start / stop):
a new parent that is neither the new base nor an earlier new id is a parent of the old revision that is outside the
list and not merged into the new base -/
theorem planLoop_closedS (g : PMap) (gen : Key → Key) (onto : Key) (skip : Bool) (all : List Key) :
    ∀ (todo done : List Key) (st st' : Plan × Skipped),
      all = done ++ todo →
      topoFrom g todo = true →
      (∀ k ∈ done, k ∈ st.1.map (·.old) ∨ k ∈ st.2.map (·.1)) →
      (∀ kv ∈ st.2, kv.2 = onto ∨ ∃ e ∈ st.1, e.new = kv.2) →
      PlanClosedS g onto all [] st.1 →
      planLoop g gen onto skip st todo = .ok st' → PlanClosedS g onto all [] st'.1 := by
  intro todo
  induction todo with
  | nil =>
    intro done st st' _ _ _ _ hc h
    simp only [planLoop] at h
    cases h
    exact hc
  | cons old todo ih =>
    intro done st st' hall htopo hdone hsk hc h
    simp only [planLoop] at h
    split at h
    · cases h
    · rename_i st1 hstep
      obtain ⟨p0, rest, hps, hcase⟩ := planStep_cases hstep
      have htopo' := topoFrom_cons htopo
      have hsrc := newParents_src g onto st.1 st.2 p0 rest
      -- a stand-in is the new base or a new id already in the plan
      have res1 : ∀ x, Src1 onto st.1 st.2 x → x = onto ∨ ∃ e ∈ st.1, e.new = x := by
        intro x hx
        rcases hx with h1 | h1 | ⟨kv, hkv, h1⟩
        · exact Or.inl h1
        · exact Or.inr h1
        · rcases hsk kv hkv with h2 | h2
          · exact Or.inl (h1 ▸ h2)
          · exact Or.inr (h1 ▸ h2)
      rcases hcase with ⟨hst, _, _, _⟩ | ⟨hst, _⟩
      · -- skipped merge: recorded with its stand-in
        subst hst
        apply ih (done ++ [old]) (st.1, st.2 ++ [(old, (newParents g onto st.1 st.2 p0 rest).1)]) st'
          (by simpa [List.append_assoc] using hall) htopo'.2 _ _ hc h
        · intro k hk
          rcases List.mem_append.mp hk with hk | hk
          · rcases hdone k hk with h1 | h1
            · exact Or.inl h1
            · exact Or.inr (by simp only [List.map_append, List.mem_append]; exact Or.inl h1)
          · simp only [List.mem_singleton] at hk
            subst hk
            exact Or.inr (by simp)
        · intro kv hkv
          rcases List.mem_append.mp hkv with hkv | hkv
          · exact hsk kv hkv
          · simp only [List.mem_singleton] at hkv
            subst hkv
            exact res1 _ hsrc.1
      · -- one entry appended
        subst hst
        apply ih (done ++ [old]) (st.1 ++ [⟨old, gen old, (newParents g onto st.1 st.2 p0 rest).1 ::
          (newParents g onto st.1 st.2 p0 rest).2⟩], st.2) st'
          (by simpa [List.append_assoc] using hall) htopo'.2 _ _ _ h
        · intro k hk
          rcases List.mem_append.mp hk with hk | hk
          · rcases hdone k hk with h1 | h1
            · exact Or.inl (by simp only [List.map_append, List.mem_append]; exact Or.inl h1)
            · exact Or.inr h1
          · simp only [List.mem_singleton] at hk
            subst hk
            exact Or.inl (by simp)
        · intro kv hkv
          rcases hsk kv hkv with h1 | ⟨e, he, h1⟩
          · exact Or.inl h1
          · exact Or.inr ⟨e, List.mem_append_left _ he, h1⟩
        · apply planClosedW_append onto _ st.1 [] _ hc
          intro p hp
          have toNews : (∃ e ∈ st.1, e.new = p) → p ∈ [] ++ st.1.map (·.new) := by
            rintro ⟨e, he, h1⟩
            simp only [List.nil_append]
            exact List.mem_map.mpr ⟨e, he, h1⟩
          rcases List.mem_cons.mp hp with hp | hp
          · rcases res1 _ hsrc.1 with h1 | h1
            · exact Or.inl (hp ▸ h1)
            · exact Or.inr (Or.inl (toNews (hp ▸ h1)))
          · rcases hsrc.2 p hp with h1 | h1 | h1 | ⟨h1, h2, h3, h4⟩
            · exact Or.inl h1
            · exact Or.inr (Or.inl (toNews h1))
            · rcases res1 p (Or.inr (Or.inr h1)) with h5 | h5
              · exact Or.inl h5
              · exact Or.inr (Or.inl (toNews h5))
            · -- an old parent kept: not merged into onto, neither rewritten nor skipped ⇒ outside the list
              right; right
              have hpl : p ∈ parentsL g old := mem_parentsL.mpr ⟨_, hps, h1⟩
              refine ⟨hpl, ?_, h2⟩
              intro hin
              rw [hall] at hin
              have := htopo'.1 p hpl
              rcases List.mem_append.mp hin with h5 | h5
              · rcases hdone p h5 with h6 | h6
                · exact h3 h6
                · exact h4 h6
              · rcases List.mem_cons.mp h5 with h6 | h6
                · exact this.1 h6
                · exact this.2 h6

/-- entries and skip records are never removed -/
theorem planLoop_mono (g : PMap) (gen : Key → Key) (onto : Key) (skip : Bool) :
    ∀ (todo : List Key) (st st' : Plan × Skipped), planLoop g gen onto skip st todo = .ok st' →
      (∀ k ∈ st.1.map (·.old), k ∈ st'.1.map (·.old)) ∧ (∀ k ∈ st.2.map (·.1), k ∈ st'.2.map (·.1)) := by
  intro todo
  induction todo with
  | nil => intro st st' h; simp only [planLoop] at h; cases h; exact ⟨fun k hk => hk, fun k hk => hk⟩
  | cons o t ih =>
    intro st st' h
    simp only [planLoop] at h
    split at h
    · cases h
    · rename_i st1 hs
      obtain ⟨h1, h2⟩ := ih st1 st' h
      obtain ⟨_, _, _, hc | hc⟩ := planStep_cases hs
      · rw [hc.1] at h1 h2
        exact ⟨h1, fun k hk => h2 k (by simp only [List.map_append, List.mem_append]; exact Or.inl hk)⟩
      · rw [hc.1] at h1 h2
        exact ⟨fun k hk => h1 k (by simp only [List.map_append, List.mem_append]; exact Or.inl hk), h2⟩

end BreezyVerif.C51
