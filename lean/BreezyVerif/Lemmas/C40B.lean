import BreezyVerif.Lemmas.C40
import BreezyVerif.Lemmas.C03Gen
/-
C40 — helper lemmas: the text records a bundle carries suffice (every inventory
entry of a bundled revision is carried or already held), completeness of the
repository after an install, tampering in general form.
-/
namespace BreezyVerif.C40

open BreezyVerif.C03 (Rev FileId TextKey Entry RevRec Inv Repo get hasRev graph reach anc invOrEmpty
  Exclusion streamEntries testament agree agreeOn complete noOrphanInv StreamOK boundary excluded excludedParents)
open BreezyVerif.C33 (Reach parentsL)

/-- "the repository contains the base": every source-present ancestor of the base -/
def holdsBase (src tgt : Repo) (base : Rev) : Bool := (anc src base).all (hasRev tgt)

/-- source well-formedness used for XML-inventory bundles: the revision that last
changed an entry is a source-present ancestor (or the revision itself) … -/
def trevAncestral (src : Repo) : Bool :=
  src.invs.all fun kv => kv.2.all fun e => decide (e.trev ∈ anc src kv.1)

/-- … and its own inventory has an entry with that text key -/
def trevOrigin (src : Repo) : Bool :=
  src.invs.all fun kv => kv.2.all fun e =>
    match get src.invs e.trev with
    | some i => i.any fun e' => e'.key == e.key
    | none => false

/-- the hypothesis on the source a text selection needs -/
def selOK (sel : TextSel) (src : Repo) : Bool :=
  match sel with
  | .chk x => x == .revisionPresent || noOrphanInv src
  | .xml => trevAncestral src && trevOrigin src

theorem anc_trans {src : Repo} {a b c : Rev} (h1 : b ∈ anc src a) (h2 : c ∈ anc src b) : c ∈ anc src a := by
  rw [C03.mem_anc] at h1 h2 ⊢
  exact ⟨C03.reach_trans h1.1 h2.1, h2.2⟩

/-- a source-present ancestor of the target that is not bundled is held by a repository that holds the base -/
theorem held_of_not_bundled {src tgt : Repo} {base target p : Rev} (hb : holdsBase src tgt base = true)
    (hp : p ∈ anc src target) (hn : p ∉ bundleRevs src base target) : hasRev tgt p = true := by
  rcases anc_cases src base target p hp with h | h
  · exact absurd h hn
  · exact List.all_eq_true.mp hb p h

/-- every inventory entry of a bundled revision is among the bundle's text records or its
text is already in the installing repository -/
theorem bundle_streamOK (sel : TextSel) (src tgt : Repo) (base target : Rev)
    (hb : holdsBase src tgt base = true) (ha : agree src tgt = true) (hc : complete tgt = true)
    (hs : selOK sel src = true) :
    StreamOK src tgt (bundleRevs src base target) (bundleEntries sel src (bundleRevs src base target)) := by
  intro k hk i hi e he
  have hka : k ∈ anc src target := ((mem_bundleRevs ..).mp hk).1
  cases sel with
  | chk x =>
    simp only [bundleEntries]
    by_cases hex : e ∈ excluded x src (bundleRevs src base target)
    · right
      unfold excluded at hex
      obtain ⟨p, hp, hep⟩ := List.mem_flatMap.mp hex
      obtain ⟨ip, hip, heip⟩ := C03.mem_invOrEmpty hep
      have hpb : p ∈ boundary src (bundleRevs src base target) ∧ hasRev src p = true := by
        cases x with
        | asFound =>
          simp only [selOK, Bool.or_eq_true, beq_iff_eq, reduceCtorEq, false_or] at hs
          exact ⟨hp, C03.noOrphan_rev hs hip⟩
        | revisionPresent =>
          simp only [excludedParents, List.mem_filter] at hp
          exact hp
      obtain ⟨hpb1, hps⟩ := hpb
      unfold boundary at hpb1
      simp only [List.mem_filter, List.mem_flatMap, Bool.not_eq_true', decide_eq_false_iff_not] at hpb1
      obtain ⟨⟨k', hk', hpk⟩, hnot⟩ := hpb1
      obtain ⟨rec, hrec, hpr⟩ := C03.mem_parentsL_graph.mp hpk
      have hpa : p ∈ anc src target := C03.parent_mem_anc ((mem_bundleRevs ..).mp hk').1 hrec hpr hps
      exact C03.text_of_held ha hc (held_of_not_bundled hb hpa hnot) hip heip
    · left
      unfold streamEntries
      simp only [List.mem_filter, List.mem_flatMap, Bool.not_eq_true', decide_eq_false_iff_not]
      refine ⟨⟨k, hk, ?_⟩, hex⟩
      unfold invOrEmpty; rw [hi]; exact he
  | xml =>
    simp only [bundleEntries]
    by_cases ht : e.trev ∈ bundleRevs src base target
    · left
      simp only [List.mem_filter, List.mem_flatMap, decide_eq_true_eq]
      refine ⟨⟨k, hk, ?_⟩, ht⟩
      unfold invOrEmpty; rw [hi]; exact he
    · right
      simp only [selOK, Bool.and_eq_true] at hs
      have hmem := C03.get_mem hi
      have h1 := List.all_eq_true.mp (List.all_eq_true.mp hs.1 (k, i) hmem) e he
      have h2 := List.all_eq_true.mp (List.all_eq_true.mp hs.2 (k, i) hmem) e he
      simp only [decide_eq_true_eq] at h1
      have hta : e.trev ∈ anc src target := anc_trans hka h1
      cases hti : get src.invs e.trev with
      | none => simp [hti] at h2
      | some it =>
        simp only [hti, List.any_eq_true, beq_iff_eq] at h2
        obtain ⟨e', he', hkey⟩ := h2
        obtain ⟨c, hc'⟩ := C03.text_of_held ha hc (held_of_not_bundled hb hta ht) hti he'
        exact ⟨c, hkey ▸ hc'⟩

/-- the installed text of an entry that is among the bundle's records -/
theorem bundle_text_some {sel : TextSel} {src : Repo} {base target : Rev} {b : Bundle}
    (hw : writeV4 sel src base target = .ok b) {e : Entry}
    (he : e ∈ bundleEntries sel src (bundleRevs src base target)) :
    ∃ c, get src.texts e.key = some c ∧ get b.texts e.key = some c := by
  have hwr := (writeV4_ok hw).1
  unfold writable at hwr
  simp only [Bool.and_eq_true, List.all_eq_true] at hwr
  have := hwr.2 e he
  cases hc : get src.texts e.key with
  | none => simp [hc] at this
  | some c =>
    refine ⟨c, rfl, ?_⟩
    rw [bundle_texts_get hw, if_pos (List.mem_map.mpr ⟨e, he, rfl⟩), hc]

/-- the inventory the repository holds for a bundled revision after the install is the source's -/
theorem installed_inv {sel : TextSel} {src tgt : Repo} {base target : Rev} {b : Bundle}
    (ha : agree src tgt = true) (hw : writeV4 sel src base target = .ok b) {k : Rev}
    (hk : k ∈ bundleRevs src base target) {i : Inv} (hi : get src.invs k = some i) :
    get (installV4 b tgt).1.invs k = some i := by
  show get (tgt.invs ++ b.invs) k = some i
  rw [install_get]
  cases hg : get tgt.invs k with
  | some w => simp only; rw [C03.agreeOn_eq (C03.agree_invs ha) hg hi]
  | none => simp only; rw [bundle_invs_get hw, if_pos hk, hi]

/-- after the install every entry of a bundled revision's inventory has its text, with the source's content -/
theorem installed_text {sel : TextSel} {src tgt : Repo} {base target : Rev} {b : Bundle}
    (hb : holdsBase src tgt base = true) (ha : agree src tgt = true) (hc : complete tgt = true)
    (hs : selOK sel src = true) (hw : writeV4 sel src base target = .ok b) {k : Rev}
    (hk : k ∈ bundleRevs src base target) {i : Inv} (hi : get src.invs k = some i) {e : Entry} (he : e ∈ i) :
    ∃ c, get (installV4 b tgt).1.texts e.key = some c ∧ ∀ c', get src.texts e.key = some c' → c' = c := by
  show ∃ c, get (tgt.texts ++ b.texts) e.key = some c ∧ _
  rw [install_get]
  cases hg : get tgt.texts e.key with
  | some c => exact ⟨c, rfl, fun c' hc' => C03.agreeOn_eq (C03.agree_texts ha) hg hc'⟩
  | none =>
    simp only
    rcases bundle_streamOK sel src tgt base target hb ha hc hs k hk i hi e he with hin | ⟨c, hc'⟩
    · obtain ⟨c, h1, h2⟩ := bundle_text_some hw hin
      exact ⟨c, h2, fun c' hc' => by rw [h1] at hc'; injection hc' with hc'; exact hc'.symm⟩
    · rw [hg] at hc'; cases hc'

theorem complete_installV4 (sel : TextSel) (src tgt : Repo) (base target : Rev) (b : Bundle)
    (hb : holdsBase src tgt base = true) (ha : agree src tgt = true) (hc : complete tgt = true)
    (hs : selOK sel src = true) (hw : writeV4 sel src base target = .ok b) :
    complete (installV4 b tgt).1 = true := by
  unfold complete
  rw [List.all_eq_true]
  rintro ⟨k, rec⟩ hmem
  have hmem' : (k, rec) ∈ tgt.revs ++ b.revs := hmem
  rcases List.mem_append.mp hmem' with hm | hm
  · obtain ⟨v, hv⟩ : ∃ v, get tgt.revs k = some v := by
      have := C03.get_isSome_of_mem hm
      cases hg : get tgt.revs k with
      | none => simp [hg] at this
      | some v => exact ⟨v, rfl⟩
    obtain ⟨i, hi, htexts⟩ := C03.complete_inv hc hv
    have hi' : get (installV4 b tgt).1.invs k = some i := C03.get_append_some hi
    simp only [hi', List.all_eq_true]
    intro e he
    obtain ⟨c, hc0⟩ := htexts e he
    have : get (installV4 b tgt).1.texts e.key = some c := C03.get_append_some hc0
    simp [this]
  · rw [(writeV4_ok hw).2.1] at hm
    simp only [List.mem_filterMap] at hm
    obtain ⟨k', hk', hrec⟩ := hm
    cases hsr : get src.revs k' with
    | none => simp [hsr] at hrec
    | some r =>
      simp only [hsr, Option.map_some, Option.some.injEq, Prod.mk.injEq] at hrec
      obtain ⟨rfl, _⟩ := hrec
      have hkm : k' ∈ bundleRevs src base target := (mem_targetLast ..).mp hk'
      have hwr := (writeV4_ok hw).1
      unfold writable at hwr
      simp only [Bool.and_eq_true, List.all_eq_true] at hwr
      have hsi := hwr.1 k' hkm
      cases hi : get src.invs k' with
      | none => simp [hi] at hsi
      | some i =>
        simp only [installed_inv ha hw hkm hi, List.all_eq_true]
        intro e he
        obtain ⟨c, hc0, _⟩ := installed_text hb ha hc hs hw hkm hi he
        simp [hc0]

/-! ### 0.8 / 0.9 -/

theorem get_flatMap_some {ρ κ β : Type} [DecidableEq κ] (f : ρ → List (κ × β)) (l : List ρ) (r : ρ) (k : κ)
    (hr : r ∈ l) (hk : (get (f r) k).isSome = true) : (get (l.flatMap f) k).isSome = true := by
  induction l with
  | nil => cases hr
  | cons x xs ih =>
    simp only [List.flatMap_cons]
    cases hx : get (f x) k with
    | some v => rw [C03.get_append_some hx]; rfl
    | none =>
      rw [C03.get_append_none hx]
      rcases List.mem_cons.mp hr with h | h
      · subst h; rw [hx] at hk; cases hk
      · exact ih h

theorem rec09_text {src : Repo} {base target k : Rev} {r : Rec09} (h : rec09 src base target k = .ok r)
    {e : Entry} (he : e ∈ r.inv) : (get r.texts e.key).isSome = true := by
  obtain ⟨_, _, _, ht, hall⟩ := rec09_ok h
  rw [ht]
  have := C03.get_filterMap_keyOf Entry.key (get src.texts) r.inv e.key
  rw [if_pos (List.mem_map.mpr ⟨e, he, rfl⟩)] at this
  rw [this]
  exact hall e he

theorem complete_install09 (src tgt t' : Repo) (base target : Rev)
    (ha : agree src tgt = true) (hc : complete tgt = true)
    (hw : roundtrip09 src tgt base target = .ok t') : complete t' = true := by
  unfold roundtrip09 at hw
  cases hwr : write09 src base target with
  | error e => simp [hwr] at hw
  | ok rs =>
    simp only [hwr] at hw
    obtain ⟨_, ht'⟩ := install09_ok hw
    unfold write09 at hwr
    obtain ⟨_, hbw⟩ := mapM_ok _ _ _ hwr
    subst ht'
    unfold complete
    rw [List.all_eq_true]
    rintro ⟨k, rec⟩ hmem
    simp only at hmem
    rcases List.mem_append.mp hmem with hm | hm
    · obtain ⟨v, hv⟩ : ∃ v, get tgt.revs k = some v := by
        have := C03.get_isSome_of_mem hm
        cases hg : get tgt.revs k with
        | none => simp [hg] at this
        | some v => exact ⟨v, rfl⟩
      obtain ⟨i, hi, htexts⟩ := C03.complete_inv hc hv
      simp only [C03.get_append_some hi, List.all_eq_true]
      intro e he
      obtain ⟨c, hc0⟩ := htexts e he
      simp [C03.get_append_some hc0]
    · simp only [List.mem_map, List.mem_filter, Prod.mk.injEq] at hm
      obtain ⟨r, ⟨hr, hnew⟩, hrk, _⟩ := hm
      obtain ⟨a, _, hfa⟩ := hbw r hr
      obtain ⟨h1, h2, h3, _, _⟩ := rec09_ok hfa
      -- the inventory held for r.rev afterwards is r.inv
      have hinv : get (tgt.invs ++ (rs.filter fun r => !hasRev tgt r.rev).map (fun r => (r.rev, r.inv))) k
          = some r.inv := by
        rw [install_get]
        cases hg : get tgt.invs k with
        | some w =>
          simp only
          have : get src.invs k = some r.inv := by rw [← hrk, h1]; exact h3
          rw [C03.agreeOn_eq (C03.agree_invs ha) hg this]
        | none =>
          simp only
          refine get_map_unique (fun r : Rec09 => r.rev) (fun r => r.inv) _ k r.inv
            ⟨r, List.mem_filter.mpr ⟨hr, hnew⟩, hrk⟩ ?_
          intro r2 hr2 hr2k
          obtain ⟨a2, _, hfa2⟩ := hbw r2 (List.mem_filter.mp hr2).1
          obtain ⟨g1, _, g3, _, _⟩ := rec09_ok hfa2
          have e1 : get src.invs k = some r2.inv := by rw [← hr2k, g1]; exact g3
          have e2 : get src.invs k = some r.inv := by rw [← hrk, h1]; exact h3
          rw [e1] at e2; injection e2
      simp only [hinv, List.all_eq_true]
      intro e he
      rw [install_get]
      cases hg : get tgt.texts e.key with
      | some c => rfl
      | none =>
        simp only
        exact get_flatMap_some (·.texts) (rs.filter fun r => !hasRev tgt r.rev) r e.key
          (List.mem_filter.mpr ⟨hr, hnew⟩) (rec09_text hfa he)

/-! ### tampering, general form -/

theorem verify_nonws {calcd s : Bytes} (h : verifyPatch calcd s = true) : nonws s = nonws calcd := by
  unfold verifyPatch at h
  simp only [beq_iff_eq] at h
  rw [← nonws_norm s, ← nonws_norm calcd, h]

theorem nonws_insert_length (pre post : Bytes) (y : UInt8) (hy : isWs y = false) :
    (nonws (pre ++ y :: post)).length = (nonws (pre ++ post)).length + 1 := by
  simp [nonws, List.filter_append, List.filter_cons, hy]
  omega

end BreezyVerif.C40
