import BreezyVerif.Lemmas.C06
import BreezyVerif.Lemmas.C06Cycles
/-
C06 — aborted and suspended write groups.  Theorems about the write-group state
machine `step` / `exec` of Model/C06 for every repository state, every format
flag, every record and every operation sequence (no bound on lengths).
-/
namespace BreezyVerif.C06

/-! ### the property -/

/-- **Abort is a no-op on everything a reader can see.**  Starting a write group
on any repository, inserting any records and aborting leaves `pack-names`, the
visible keys and `upload/` exactly as they were, and no group is open. -/
theorem abort_noop (fmt : Fmt) (r : Repo) (recs : List Rec) (h : r.wg = none) :
    let r' := exec fmt r (.start :: recs.map Op.insert ++ [.abort])
    r'.packs = r.packs ∧ visible r' = visible r ∧ r'.upload = r.upload ∧ r'.wg = none := by
  have hs : (step fmt r .start).1 = { r with wg := some ⟨[], []⟩ } := by simp only [step, h]
  obtain ⟨h1, h2, h3⟩ := exec_inserts fmt recs (step fmt r .start).1 ⟨[], []⟩ (by rw [hs])
  simp only [List.cons_append, exec_cons, exec_append, exec_nil]
  generalize exec fmt (step fmt r Op.start).1 (recs.map Op.insert) = r2 at h1 h2 h3
  have : (step fmt r2 .abort).1 = { r2 with upload := removeAll r2.upload [], wg := none } := by
    simp only [step, h3]
  rw [this]
  refine ⟨by rw [h1, hs], by simp only [visible]; rw [h1, hs], by simp only [removeAll_nil]; rw [h2, hs], rfl⟩

/-- aborting any open write group (also a resumed one) never changes what is listed -/
theorem abort_keeps_packs (fmt : Fmt) (r : Repo) :
    (step fmt r .abort).1.packs = r.packs ∧ visible (step fmt r .abort).1 = visible r := by
  have := step_packs fmt r .abort (by simp)
  exact ⟨this, by simp only [visible, this]⟩

/-- **Nothing but a commit makes anything visible**: any operation sequence
without `commit` — insertions, aborts, suspends, failed and successful resumes,
in any order and with any tokens — leaves the listed packs unchanged. -/
theorem no_commit_no_change (fmt : Fmt) (ops : List Op) (r : Repo) (h : ∀ op ∈ ops, op ≠ .commit) :
    (exec fmt r ops).packs = r.packs ∧ visible (exec fmt r ops) = visible r := by
  have hp : (exec fmt r ops).packs = r.packs := by
    induction ops generalizing r with
    | nil => rfl
    | cons op ops ih =>
      rw [exec_cons, ih _ fun o ho => h o (List.mem_cons_of_mem _ ho)]
      exact step_packs fmt r op (h op List.mem_cons_self)
  exact ⟨hp, by simp only [visible, hp]⟩

/-- **A refused commit changes nothing** (the group stays open for the abort) -/
theorem refused_commit_noop (fmt : Fmt) (r : Repo) (e : Err)
    (h : (step fmt r .commit).2 = .err e) : (step fmt r .commit).1 = r := by
  simp only [step] at h ⊢
  split
  · rfl
  · rename_i g hg
    simp only [hg] at h
    split
    · rfl
    · rename_i hr
      simp [hr] at h

/-- the tokens `suspend` returns are resumable by a new `Repository` object, and
resuming restores the group's content -/
theorem token_wellformed (fmt : Fmt) (r : Repo) (g : Group) (h : r.wg = some g)
    (hin : ∀ p ∈ g.resumed, p ∈ r.upload) (hnd : g.resumed.Nodup) (hf : g.fresh ∉ g.resumed) :
    ∃ toks r1, step fmt r .suspend = (r1, .tokens toks) ∧ r1.packs = r.packs ∧ r1.wg = none ∧
      toks = (if g.fresh.isEmpty then g.resumed else g.resumed ++ [g.fresh]) ∧
      step fmt (step fmt r1 .reopen).1 (.resume (toks.map Tok.pack))
        = ({ (step fmt r1 .reopen).1 with wg := some ⟨[], toks⟩ }, .ok) := by
  by_cases he : g.fresh.isEmpty = true
  · refine ⟨g.resumed, { r with wg := none }, by simp only [step, h, he, if_true], rfl, rfl,
      by simp [he], ?_⟩
    have := resumeToks_ok r.upload g.resumed [] hin (by simpa using hnd)
    simp only [step, this, List.nil_append]
  · refine ⟨g.resumed ++ [g.fresh], { r with upload := addNew r.upload g.fresh, wg := none },
      by simp only [step, h, he]; rfl, rfl, rfl, by simp [he], ?_⟩
    have hup : ∀ p ∈ g.resumed ++ [g.fresh], p ∈ addNew r.upload g.fresh := by
      intro p hp
      simp only [addNew]
      rcases List.mem_append.mp hp with h1 | h1
      · split
        · exact hin p h1
        · exact List.mem_append_left _ (hin p h1)
      · simp only [List.mem_singleton] at h1
        subst h1
        split
        · rename_i hc; exact List.contains_iff_mem.mp hc
        · exact List.mem_append_right _ (List.mem_singleton.mpr rfl)
    have hnd' : ([] ++ (g.resumed ++ [g.fresh])).Nodup := by
      simp only [List.nil_append]
      rw [List.nodup_append]
      refine ⟨hnd, by simp, ?_⟩
      intro a ha b hb e
      simp only [List.mem_singleton] at hb
      subst hb; subst e
      exact hf ha
    have := resumeToks_ok (addNew r.upload g.fresh) (g.resumed ++ [g.fresh]) [] hup hnd'
    simp only [step, this, List.nil_append]

/-- **Suspend → new object → resume → commit ≡ commit.**  Same verdict (accepted /
refused) and the same listed packs, provided the object's missing-compression-
parent bookkeeping describes the open group (see `stale_after_abort_witness`
for why the hypothesis `hstale` is needed on knit pack formats). -/
theorem suspend_resume_commit_eq_commit_partial (fmt : Fmt) (r : Repo) (g : Group) (h : r.wg = some g)
    (hin : ∀ p ∈ g.resumed, p ∈ r.upload) (hnd : g.resumed.Nodup) (hf : g.fresh ∉ g.resumed)
    (hstale : r.stale.isEmpty = !missingCompressionParent (r.packs.flatten ++ groupRecs g) g.fresh) :
    let direct := step fmt r .commit
    let toks := if g.fresh.isEmpty then g.resumed else g.resumed ++ [g.fresh]
    let r1 := (step fmt r .suspend).1
    let r2 := (step fmt r1 .reopen).1
    let r3 := (step fmt r2 (.resume (toks.map Tok.pack))).1
    let via := step fmt r3 .commit
    (step fmt r .suspend).2 = .tokens toks ∧
    (step fmt r2 (.resume (toks.map Tok.pack))).2 = .ok ∧
    via.2 = direct.2 ∧ via.1.packs = direct.1.packs ∧
      (direct.2 = .ok → via.1.wg = none ∧ direct.1.wg = none) := by
  obtain ⟨toks, r1, hs, hp1, hw1, htoks, hres⟩ := token_wellformed fmt r g h hin hnd hf
  intro direct toks' r1' r2' r3' via
  have e1 : r1' = r1 := by simp only [r1', hs]
  have et : toks' = toks := htoks.symm
  have hro : (step fmt r1 .reopen).1 = { r1 with stale := [] } := by simp only [step, hw1]
  have e3 : r3' = { (step fmt r1 .reopen).1 with wg := some ⟨[], toks⟩ } := by
    simp only [r3', r2', e1, et, hres]
  have hw3 : r3'.wg = some ⟨[], toks⟩ := by rw [e3]
  have hp3 : r3'.packs = r.packs := by rw [e3, hro]; exact hp1
  have hs3 : r3'.stale = [] := by rw [e3, hro]
  have hall : groupRecs ⟨[], toks⟩ = groupRecs g := by
    rw [htoks]
    by_cases he : g.fresh.isEmpty = true
    · have : g.fresh = [] := List.isEmpty_iff.mp he
      simp [groupRecs, he, this]
    · simp [groupRecs, he]
  have hfl : (Group.mk [] toks).resumed.flatten = groupRecs g := by
    rw [← hall]; simp [groupRecs]
  have href : refuses fmt r3' ⟨[], toks⟩ = refuses fmt r g := by
    simp only [refuses, hp3, hs3, hall, hfl, List.isEmpty_nil, Bool.not_true, Bool.false_or]
    have : groupRecs g = g.resumed.flatten ++ g.fresh := rfl
    rw [this, any_append_mcp, ← this]
    cases hm : missingCompressionParent (r.packs.flatten ++ groupRecs g) g.fresh <;>
      simp [hm] at hstale <;> simp [hstale, hm]
  have hvia : via = step fmt r3' .commit := rfl
  have hdir : direct = step fmt r .commit := rfl
  refine ⟨by rw [et, hs], by simp only [r2', e1, et, hres], ?_⟩
  rw [hvia, hdir, step_commit fmt r3' ⟨[], toks⟩ hw3, step_commit fmt r g h, href]
  by_cases hr : refuses fmt r g = true
  · rw [if_pos hr, if_pos hr]
    exact ⟨rfl, hp3, fun hc => by cases hc⟩
  · rw [if_neg hr, if_neg hr]
    refine ⟨rfl, ?_, fun _ => ⟨rfl, rfl⟩⟩
    simp only [hp3, htoks]
    by_cases he : g.fresh.isEmpty = true <;> simp [he, List.append_assoc]

/-! ### what is refused, exactly -/

/-- what `_check_new_inventories` demands of a write group (`all`) in a repository
whose own records — listed packs and the group, no fallbacks — are `own` -/
structure GroupComplete (own all : Pack) : Prop where
  /-- every new revision has its inventory -/
  inv : ∀ i ∈ newRevIds all, hasKey own ⟨.inv, i⟩ = true
  /-- the chk root pages of the new inventories and of their present parent-only inventories are there -/
  roots : ∀ c ∈ rootsOf own (newRevIds all) ++ rootsOf own (parentOnlyInvs own all), hasKey own ⟨.chk, c⟩ = true
  /-- every text named by a new root page and not by a parent-only inventory's page is there -/
  texts : ∀ t ∈ neededTexts own all, hasKey own ⟨.text, t⟩ = true

theorem inventoryProblems_false_iff (own all : Pack) :
    inventoryProblems own all = false ↔ GroupComplete own all := by
  simp only [inventoryProblems]
  constructor
  · intro h
    by_cases h1 : (newRevIds all).any (fun i => !hasKey own ⟨.inv, i⟩) = true
    · simp [h1] at h
    · by_cases h2 : (rootsOf own (newRevIds all) ++ rootsOf own (parentOnlyInvs own all)).any
          (fun c => !hasKey own ⟨.chk, c⟩) = true
      · simp [h1, h2] at h
      · simp only [h1, h2, Bool.false_eq_true, if_false] at h
        refine ⟨?_, ?_, ?_⟩
        · intro i hi
          simp only [List.any_eq_true, Bool.not_eq_true', not_exists, not_and, Bool.not_eq_false] at h1
          exact h1 i hi
        · intro c hc
          simp only [List.any_eq_true, Bool.not_eq_true', not_exists, not_and, Bool.not_eq_false] at h2
          exact h2 c hc
        · intro t ht
          have := List.any_eq_false.mp h t ht
          simpa using this
  · rintro ⟨a, b, c⟩
    have h1 : (newRevIds all).any (fun i => !hasKey own ⟨.inv, i⟩) = false := by
      apply List.any_eq_false.mpr; intro i hi; simp [a i hi]
    have h2 : (rootsOf own (newRevIds all) ++ rootsOf own (parentOnlyInvs own all)).any
        (fun c => !hasKey own ⟨.chk, c⟩) = false := by
      apply List.any_eq_false.mpr; intro x hx; simp [b x hx]
    simp only [h1, h2, Bool.false_eq_true, if_false]
    apply List.any_eq_false.mpr; intro t ht; simp [c t ht]

/-- **A commit is accepted exactly when the group is complete**: the object
remembers no missing compression parent, no resumed pack lacks one, and (CHK
formats) every new revision comes with its inventory, the chk root pages and the
texts its inventory introduces.  Otherwise it is refused with `BzrCheckError`
(and then nothing changes: `refused_commit_noop`). -/
theorem commit_accepted_iff (fmt : Fmt) (r : Repo) (g : Group) (h : r.wg = some g) :
    (step fmt r .commit).2 = .ok ↔
      (r.stale = [] ∧
       missingCompressionParent (r.packs.flatten ++ groupRecs g) g.resumed.flatten = false ∧
       (fmt.checkInv = true → GroupComplete (r.packs.flatten ++ groupRecs g) (groupRecs g))) := by
  rw [step_commit fmt r g h]
  have href : refuses fmt r g = false ↔
      (r.stale = [] ∧
       missingCompressionParent (r.packs.flatten ++ groupRecs g) g.resumed.flatten = false ∧
       (fmt.checkInv = true → GroupComplete (r.packs.flatten ++ groupRecs g) (groupRecs g))) := by
    simp only [refuses, Bool.or_eq_false_iff, Bool.and_eq_false_iff, Bool.not_eq_false', List.isEmpty_iff]
    constructor
    · rintro ⟨⟨h1, h2⟩, h3⟩
      refine ⟨h1, h2, fun hc => ?_⟩
      rcases h3 with h3 | h3
      · rw [hc] at h3; cases h3
      · exact (inventoryProblems_false_iff _ _).mp h3
    · rintro ⟨h1, h2, h3⟩
      refine ⟨⟨h1, h2⟩, ?_⟩
      by_cases hc : fmt.checkInv = true
      · exact Or.inr ((inventoryProblems_false_iff _ _).mpr (h3 hc))
      · exact Or.inl (by simpa using hc)
  rw [← href]
  by_cases hr : refuses fmt r g = true
  · simp [hr]
  · simp [hr]

/-- the accepted direction, spelled out: whatever a CHK-format commit accepts is complete -/
theorem accepted_commit_complete (fmt : Fmt) (hfmt : fmt.checkInv = true) (r : Repo) (g : Group) (h : r.wg = some g)
    (hok : (step fmt r .commit).2 = .ok) :
    GroupComplete (r.packs.flatten ++ groupRecs g) (groupRecs g) :=
  ((commit_accepted_iff fmt r g h).mp hok).2.2 hfmt

theorem refused_of_problems (fmt : Fmt) (hfmt : fmt.checkInv = true) (r : Repo) (g : Group) (h : r.wg = some g)
    (hp : inventoryProblems (r.packs.flatten ++ groupRecs g) (groupRecs g) = true) :
    step fmt r .commit = (r, .err .check) := by
  rw [step_commit fmt r g h]
  have : refuses fmt r g = true := by simp [refuses, hfmt, hp]
  rw [if_pos this]

/-- **a new revision without its inventory is refused** (the repository is not changed) -/
theorem missing_inventory_refused (fmt : Fmt) (hfmt : fmt.checkInv = true) (r : Repo) (g : Group) (h : r.wg = some g)
    (i : Nat) (hrev : ∃ rec ∈ groupRecs g, rec.key = ⟨.rev, i⟩)
    (hinv : ∀ rec ∈ r.packs.flatten ++ groupRecs g, rec.key ≠ ⟨.inv, i⟩) :
    step fmt r .commit = (r, .err .check) := by
  apply refused_of_problems fmt hfmt r g h
  have hi : i ∈ newRevIds (groupRecs g) := by
    obtain ⟨rec, hm, hk⟩ := hrev
    simp only [newRevIds, List.mem_map, List.mem_filter]
    exact ⟨rec, ⟨hm, by simp [hk]⟩, by simp [hk]⟩
  have hno : hasKey (r.packs.flatten ++ groupRecs g) ⟨.inv, i⟩ = false := by
    simp only [hasKey, List.any_eq_false, beq_iff_eq]
    intro rec hm; exact hinv rec hm
  simp only [inventoryProblems]
  have : (newRevIds (groupRecs g)).any (fun i => !hasKey (r.packs.flatten ++ groupRecs g) ⟨.inv, i⟩) = true :=
    List.any_eq_true.mpr ⟨i, hi, by simp [hno]⟩
  simp [this]

/-- **a new inventory whose chk root page is absent is refused** -/
theorem missing_chk_root_refused (fmt : Fmt) (hfmt : fmt.checkInv = true) (r : Repo) (g : Group) (h : r.wg = some g)
    (i c : Nat) (irec : Rec) (hi : i ∈ newRevIds (groupRecs g))
    (hinv : invRec (r.packs.flatten ++ groupRecs g) i = some irec) (hc : c ∈ irec.roots)
    (hno : hasKey (r.packs.flatten ++ groupRecs g) ⟨.chk, c⟩ = false) :
    step fmt r .commit = (r, .err .check) := by
  apply refused_of_problems fmt hfmt r g h
  have hroot : c ∈ rootsOf (r.packs.flatten ++ groupRecs g) (newRevIds (groupRecs g)) := by
    simp only [rootsOf, List.mem_flatMap]
    exact ⟨i, hi, by simp [hinv, hc]⟩
  simp only [inventoryProblems]
  split
  · rfl
  · have : (rootsOf (r.packs.flatten ++ groupRecs g) (newRevIds (groupRecs g)) ++
        rootsOf (r.packs.flatten ++ groupRecs g) (parentOnlyInvs (r.packs.flatten ++ groupRecs g) (groupRecs g))).any
        (fun c => !hasKey (r.packs.flatten ++ groupRecs g) ⟨.chk, c⟩) = true :=
      List.any_eq_true.mpr ⟨c, List.mem_append_left _ hroot, by simp [hno]⟩
    simp [this]

/-- **a new revision whose inventory names a text that is neither present nor
named by a parent-only inventory is refused** -/
theorem missing_text_refused (fmt : Fmt) (hfmt : fmt.checkInv = true) (r : Repo) (g : Group) (h : r.wg = some g)
    (i c t : Nat) (irec crec : Rec) (hi : i ∈ newRevIds (groupRecs g))
    (hinv : invRec (r.packs.flatten ++ groupRecs g) i = some irec) (hc : c ∈ irec.roots)
    (hpage : (r.packs.flatten ++ groupRecs g).find? (·.key == ⟨.chk, c⟩) = some crec) (ht : t ∈ crec.items)
    (hnew : c ∉ rootsOf (r.packs.flatten ++ groupRecs g)
      (parentOnlyInvs (r.packs.flatten ++ groupRecs g) (groupRecs g)))
    (hnot : t ∉ itemsOf (r.packs.flatten ++ groupRecs g) (rootsOf (r.packs.flatten ++ groupRecs g)
      (parentOnlyInvs (r.packs.flatten ++ groupRecs g) (groupRecs g))))
    (hno : hasKey (r.packs.flatten ++ groupRecs g) ⟨.text, t⟩ = false) :
    step fmt r .commit = (r, .err .check) := by
  apply refused_of_problems fmt hfmt r g h
  have hroot : c ∈ rootsOf (r.packs.flatten ++ groupRecs g) (newRevIds (groupRecs g)) := by
    simp only [rootsOf, List.mem_flatMap]
    exact ⟨i, hi, by simp [hinv, hc]⟩
  have hneed : t ∈ neededTexts (r.packs.flatten ++ groupRecs g) (groupRecs g) := by
    simp only [neededTexts, List.mem_filter, itemsOf, List.mem_flatMap]
    refine ⟨⟨c, ⟨hroot, by simpa using hnew⟩, by simp [hpage, ht]⟩, ?_⟩
    simpa [itemsOf] using hnot
  simp only [inventoryProblems]
  split
  · rfl
  · split
    · rfl
    · exact List.any_eq_true.mpr ⟨t, hneed, by simp [hno]⟩

/-! ### the hypotheses of `token_wellformed` hold in every reachable state -/

/-- the resumed packs of an open group are distinct files in `upload/` -/
def ResumedWf (r : Repo) : Prop :=
  ∀ g, r.wg = some g → (∀ p ∈ g.resumed, p ∈ r.upload) ∧ g.resumed.Nodup

theorem resumeToks_sound (up : List Pack) (toks : List Tok) (acc ps : List Pack)
    (h : resumeToks up toks acc = .ok ps) (ha : ∀ p ∈ acc, p ∈ up) (hn : acc.Nodup) :
    (∀ p ∈ ps, p ∈ up) ∧ ps.Nodup := by
  induction toks generalizing acc with
  | nil => simp only [resumeToks, Except.ok.injEq] at h; subst h; exact ⟨ha, hn⟩
  | cons t toks ih =>
    cases t with
    | malformed => simp [resumeToks] at h
    | pack p =>
      simp only [resumeToks, List.contains_iff_mem] at h
      by_cases h1 : p ∈ acc
      · rw [if_pos h1] at h; cases h
      · by_cases h2 : p ∈ up
        · rw [if_neg h1, if_pos h2] at h
          apply ih (acc ++ [p]) h
          · intro q hq
            rcases List.mem_append.mp hq with hq | hq
            · exact ha q hq
            · simp only [List.mem_singleton] at hq; subst hq; exact h2
          · rw [List.nodup_append]
            refine ⟨hn, by simp, ?_⟩
            intro a ha' b hb e
            simp only [List.mem_singleton] at hb
            subst hb; subst e; exact h1 ha'
        · rw [if_neg h1, if_neg h2] at h; cases h

theorem resumedWf_step (fmt : Fmt) (r : Repo) (op : Op) (h : ResumedWf r) : ResumedWf (step fmt r op).1 := by
  have none_wf : ∀ r' : Repo, r'.wg = none → ResumedWf r' := by
    intro r' hn g' hg'; rw [hn] at hg'; cases hg'
  cases op with
  | start =>
    cases hw : r.wg with
    | some g =>
      have : (step fmt r .start).1 = r := by simp only [step, hw]
      rw [this]; exact h
    | none =>
      have : (step fmt r .start).1 = { r with wg := some ⟨[], []⟩ } := by simp only [step, hw]
      rw [this]
      intro g' hg'
      simp only [Option.some.injEq] at hg'
      subst hg'
      exact ⟨fun _ hp => (by cases hp), List.nodup_nil⟩
  | insert rec =>
    cases hw : r.wg with
    | none =>
      have : (step fmt r (.insert rec)).1 = r := by simp only [step, hw]
      rw [this]; exact h
    | some g =>
      have : (step fmt r (.insert rec)).1 =
          { r with wg := some { g with fresh := g.fresh ++ [rec] }, stale := staleAfter r g rec } := by
        simp only [step, hw]
      rw [this]
      intro g' hg'
      simp only [Option.some.injEq] at hg'
      subst hg'
      exact h g hw
  | abort =>
    cases hw : r.wg with
    | none =>
      have : (step fmt r .abort).1 = r := by simp only [step, hw]
      rw [this]; exact h
    | some g => exact none_wf _ (by simp only [step, hw])
  | suspend =>
    cases hw : r.wg with
    | none =>
      have : (step fmt r .suspend).1 = r := by simp only [step, hw]
      rw [this]; exact h
    | some g =>
      apply none_wf
      simp only [step, hw]
      split <;> rfl
  | resume toks =>
    cases hw : r.wg with
    | some g =>
      have : (step fmt r (.resume toks)).1 = r := by simp only [step, hw]
      rw [this]; exact h
    | none =>
      cases hres : resumeToks r.upload toks [] with
      | ok ps =>
        have : (step fmt r (.resume toks)).1 = { r with wg := some ⟨[], ps⟩ } := by simp only [step, hw, hres]
        rw [this]
        intro g' hg'
        simp only [Option.some.injEq] at hg'
        subst hg'
        exact resumeToks_sound r.upload toks [] ps hres (fun _ hp => (by cases hp)) List.nodup_nil
      | error e =>
        apply none_wf
        obtain ⟨e1, acc⟩ := e
        cases e1 <;> simp only [step, hw, hres]
  | commit =>
    cases hw : r.wg with
    | none =>
      have : (step fmt r .commit).1 = r := by simp only [step, hw]
      rw [this]; exact h
    | some g =>
      rw [step_commit fmt r g hw]
      split
      · exact h
      · exact none_wf _ rfl
  | reopen =>
    apply none_wf
    cases hw : r.wg with
    | none => simp only [step, hw]
    | some g => simp only [step, hw]

/-- **`hin` and `hnd` are invariants**: after ANY operation sequence, from any
state satisfying them (in particular any state without an open group) -/
theorem resumed_wf_invariant (fmt : Fmt) (ops : List Op) (r : Repo) (h : ResumedWf r) :
    ResumedWf (exec fmt r ops) := by
  induction ops generalizing r with
  | nil => exact h
  | cons op ops ih => rw [exec_cons]; exact ih _ (resumedWf_step fmt r op h)

/-- **the bookkeeping hypothesis `hstale` holds for every group opened on a clean
object**: start (or resume on a new object), then any insertions -/
theorem stale_tracks_inserts (fmt : Fmt) (r : Repo) (resumed : List Pack) (recs : List Rec)
    (hw : r.wg = some ⟨[], resumed⟩) (hs : r.stale = []) :
    let r2 := exec fmt r (recs.map Op.insert)
    r2.wg = some ⟨recs, resumed⟩ ∧
    r2.stale.isEmpty = !missingCompressionParent (r2.packs.flatten ++ groupRecs ⟨recs, resumed⟩) recs := by
  obtain ⟨_, _, h3⟩ := exec_inserts fmt recs r ⟨[], resumed⟩ hw
  have ok := staleOK_inserts fmt recs r ⟨[], resumed⟩ hw (staleOK_clean r resumed hs)
  simp only [List.nil_append] at h3 ok
  exact ⟨h3, stale_isEmpty_of_ok ok⟩

/-! ### suspend / resume any number of times ≡ commit -/

/-- **Suspending and resuming a write group any number of times, inserting
between the cycles and after the last resume, then committing, is the same as
inserting everything into one group and committing it**: the same verdict
(accepted / refused with `BzrCheckError`), the same visible records, and when
refused nothing is listed in either run.  From any state with a clean
`Repository` object and no open group, for all record lists `cs` (one per
cycle; a cycle may insert nothing) and `last`, provided the non-empty chunks are
pairwise different packs (no record is inserted twice). -/
theorem suspend_resume_cycles_eq_commit (fmt : Fmt) (r : Repo) (cs : List Pack) (last : Pack)
    (hw : r.wg = none) (hs : r.stale = []) (hnd : (nonempty cs).Nodup) :
    let via := step fmt (exec fmt r (.start :: cyclePrefix [] cs last)) .commit
    let direct := step fmt (exec fmt r (.start :: (cs.flatten ++ last).map Op.insert)) .commit
    via.2 = direct.2 ∧ visible via.1 = visible direct.1 ∧
      (direct.2 = .ok →
        via.1.wg = none ∧ direct.1.wg = none ∧
        via.1.packs = r.packs ++ nonempty cs ++ (if last.isEmpty then [] else [last])) ∧
      (direct.2 ≠ .ok → via.1.packs = r.packs ∧ direct.1.packs = r.packs ∧ direct.2 = .err .check) := by
  intro via direct
  have hstart : (step fmt r .start).1 = { r with wg := some ⟨[], []⟩ } := by simp only [step, hw]
  -- the run with the cycles
  obtain ⟨v1, v2, v3⟩ := exec_cyclePrefix fmt cs last [] { r with wg := some ⟨[], []⟩ } rfl hs
    (fun _ hp => by cases hp) (fun _ hp => by cases hp) (by simpa using hnd)
  simp only [List.nil_append] at v2 v3
  -- the direct run
  obtain ⟨d1, _, d3⟩ := exec_inserts fmt (cs.flatten ++ last) { r with wg := some ⟨[], []⟩ } ⟨[], []⟩ rfl
  have d4 := staleOK_inserts fmt (cs.flatten ++ last) { r with wg := some ⟨[], []⟩ } ⟨[], []⟩ rfl
    (staleOK_clean _ [] hs)
  simp only [List.nil_append] at d3 d4
  have hvia : via = step fmt (exec fmt { r with wg := some ⟨[], []⟩ } (cyclePrefix [] cs last)) .commit := by
    simp only [via, exec_cons, hstart]
  have hdir : direct = step fmt (exec fmt { r with wg := some ⟨[], []⟩ } ((cs.flatten ++ last).map Op.insert)) .commit := by
    simp only [direct, exec_cons, hstart]
  generalize exec fmt { r with wg := some ⟨[], []⟩ } (cyclePrefix [] cs last) = rv at v1 v2 v3 hvia
  generalize exec fmt { r with wg := some ⟨[], []⟩ } ((cs.flatten ++ last).map Op.insert) = rd at d1 d3 d4 hdir
  have v1' : rv.packs = r.packs := v1
  have d1' : rd.packs = r.packs := d1
  have hall : groupRecs ⟨last, nonempty cs⟩ = cs.flatten ++ last := by
    simp [groupRecs, flatten_nonempty]
  have hall' : groupRecs ⟨cs.flatten ++ last, []⟩ = cs.flatten ++ last := by simp [groupRecs]
  have href : refuses fmt rv ⟨last, nonempty cs⟩ = refuses fmt rd ⟨cs.flatten ++ last, []⟩ := by
    simp only [refuses, hall, hall', v1', d1']
    have e1 := stale_isEmpty_of_ok v3
    have e2 := stale_isEmpty_of_ok d4
    rw [hall, v1'] at e1
    rw [hall', d1'] at e2
    rw [e1, e2, flatten_nonempty]
    simp only [Bool.not_not, List.flatten_nil, any_append_mcp]
    have : missingCompressionParent (r.packs.flatten ++ (cs.flatten ++ last)) [] = false := rfl
    rw [this]
    cases missingCompressionParent (r.packs.flatten ++ (cs.flatten ++ last)) last <;>
      cases missingCompressionParent (r.packs.flatten ++ (cs.flatten ++ last)) cs.flatten <;> simp
  rw [hvia, hdir, step_commit fmt rv _ v2, step_commit fmt rd _ d3, href]
  by_cases hr : refuses fmt rd ⟨cs.flatten ++ last, []⟩ = true
  · rw [if_pos hr, if_pos hr]
    refine ⟨rfl, by simp only [visible, v1', d1'], fun hc => (by cases hc), fun _ => ⟨v1', d1', rfl⟩⟩
  · rw [if_neg hr, if_neg hr]
    refine ⟨rfl, ?_, fun _ => ⟨rfl, rfl, by simp only [v1', List.append_assoc]⟩, fun hc => absurd rfl hc⟩
    have fo : ∀ x : Pack, (if x.isEmpty then ([] : List Pack) else [x]).flatten = x := by
      intro x; cases x <;> simp
    simp only [visible, v1', d1', List.flatten_append, fo, flatten_nonempty, List.flatten_nil, List.append_nil,
      List.append_assoc]

/-- a malformed or unknown token makes `resume` fail, nothing becomes listed
and no write group is open afterwards -/
theorem resume_rejects_bad_tokens (fmt : Fmt) (r : Repo) (toks : List Tok) (h : r.wg = none)
    (hbad : ∃ t ∈ toks, t = Tok.malformed ∨ ∃ p, t = Tok.pack p ∧ p ∉ r.upload) :
    ((step fmt r (.resume toks)).2 = .err .unresumable ∨ (step fmt r (.resume toks)).2 = .err .assertion) ∧
      (step fmt r (.resume toks)).1.packs = r.packs ∧ (step fmt r (.resume toks)).1.wg = none := by
  obtain ⟨e, acc', he, hcase⟩ := resumeToks_bad r.upload toks [] hbad
  simp only [step, h, he]
  rcases hcase with hc | hc <;> subst hc <;> simp [h]

/-! ### the finding: abort does not reset the object's bookkeeping -/

private def deltaRec : Rec := ⟨⟨.text, 1⟩, some 0, [], [], []⟩
private def fullRec : Rec := ⟨⟨.text, 2⟩, none, [], [], []⟩

/-- knit pack formats: after a group with a missing compression parent was
aborted, the same `Repository` object refuses a later, complete group; a new
object accepts it.  (Reproduced on the real code: family
`knit-missing-compression-parent-survives-abort`.) -/
theorem stale_after_abort_witness :
    (run ⟨false⟩ ⟨[], [], none, []⟩
        [.start, .insert deltaRec, .abort, .start, .insert fullRec, .commit]).2.getLast?
      = some (.err .check) ∧
    (run ⟨false⟩ ⟨[], [], none, []⟩
        [.start, .insert deltaRec, .abort, .reopen, .start, .insert fullRec, .commit]).2.getLast?
      = some .ok := by decide

/-- … and therefore suspend/resume/commit and a direct commit disagree there -/
theorem suspend_resume_witness :
    (run ⟨false⟩ ⟨[], [], none, []⟩
        [.start, .insert deltaRec, .abort, .start, .insert fullRec, .commit]).2.getLast?
      ≠ (run ⟨false⟩ ⟨[], [], none, []⟩
        [.start, .insert deltaRec, .abort, .start, .insert fullRec, .suspend, .reopen,
         .resume [.pack [fullRec]], .commit]).2.getLast? := by decide

/-- without delta records (all CHK formats) an aborted fresh write group restores
the whole state, bookkeeping included -/
theorem abort_restores_object_partial (fmt : Fmt) (r : Repo) (recs : List Rec) (h : r.wg = none)
    (hs : r.stale = []) (hd : ∀ rec ∈ recs, rec.cparent = none) :
    exec fmt r (.start :: recs.map Op.insert ++ [.abort]) = r := by
  have hstart : (step fmt r .start).1 = { r with wg := some ⟨[], []⟩ } := by simp only [step, h]
  have key : ∀ (recs : List Rec) (r2 : Repo) (g : Group), r2.wg = some g → r2.stale = [] →
      (∀ rec ∈ recs, rec.cparent = none) →
      (exec fmt r2 (recs.map Op.insert)).stale = [] := by
    intro recs
    induction recs with
    | nil => intro r2 g _ h2 _; simpa [exec_nil] using h2
    | cons rec recs ih =>
      intro r2 g hg h2 hd
      simp only [List.map_cons, exec_cons]
      have hst : (step fmt r2 (.insert rec)).1 =
          { r2 with wg := some { g with fresh := g.fresh ++ [rec] }, stale := staleAfter r2 g rec } := by
        simp only [step, hg]
      apply ih _ { g with fresh := g.fresh ++ [rec] } (by rw [hst])
      · rw [hst]
        simp [staleAfter, h2, hd rec List.mem_cons_self]
      · exact fun x hx => hd x (List.mem_cons_of_mem _ hx)
  obtain ⟨h1, h2, h3⟩ := exec_inserts fmt recs (step fmt r .start).1 ⟨[], []⟩ (by rw [hstart])
  have h4 := key recs (step fmt r .start).1 ⟨[], []⟩ (by rw [hstart]) (by rw [hstart]; exact hs) hd
  simp only [List.cons_append, exec_cons, exec_append, exec_nil]
  generalize exec fmt (step fmt r Op.start).1 (recs.map Op.insert) = r2 at h1 h2 h3 h4
  have : (step fmt r2 .abort).1 = { r2 with upload := removeAll r2.upload [], wg := none } := by
    simp only [step, h3]
  rw [this]
  cases r2; cases r
  simp_all [removeAll_nil]

/-! ### non-vacuity -/

private def exRepo : Repo :=
  { packs := [[fullRec]], upload := [[deltaRec]], wg := some ⟨[⟨⟨.rev, 7⟩, none, [], [], []⟩], [[deltaRec]]⟩,
    stale := [] }

example : exRepo.wg = some ⟨[⟨⟨.rev, 7⟩, none, [], [], []⟩], [[deltaRec]]⟩ ∧
    (∀ p ∈ [[deltaRec]], p ∈ exRepo.upload) ∧ ([[deltaRec]] : List Pack).Nodup ∧
    ([⟨⟨.rev, 7⟩, none, [], [], []⟩] : Pack) ∉ ([[deltaRec]] : List Pack) := by decide

/-- the hypotheses of `suspend_resume_commit_eq_commit_partial` hold for a
resumed group with a missing compression parent and new data: both ways refuse -/
example : exRepo.stale.isEmpty = !missingCompressionParent (exRepo.packs.flatten ++
    groupRecs ⟨[⟨⟨.rev, 7⟩, none, [], [], []⟩], [[deltaRec]]⟩) [⟨⟨.rev, 7⟩, none, [], [], []⟩] := by decide
example : (step ⟨false⟩ exRepo .commit).2 = .err .check := by decide
example : (step ⟨true⟩ { exRepo with wg := some ⟨[], []⟩ } .commit).2 = .ok := by decide
example : (step ⟨true⟩ ⟨[], [], some ⟨[⟨⟨.rev, 7⟩, none, [], [], []⟩], []⟩, []⟩ .commit).2 = .err .check := by
  decide
example : ∃ t ∈ [Tok.pack [fullRec], Tok.malformed], t = Tok.malformed ∨
    ∃ p, t = Tok.pack p ∧ p ∉ exRepo.upload := ⟨.malformed, by simp, Or.inl rfl⟩

/-! non-vacuity of the refusal theorems: a CHK-format group with revision 1 whose
inventory (root page 5, which names text 9) arrives piecemeal -/

private def revRec : Rec := ⟨⟨.rev, 1⟩, none, [], [], []⟩
private def invRec1 : Rec := ⟨⟨.inv, 1⟩, none, [0], [5], []⟩
private def pageRec : Rec := ⟨⟨.chk, 5⟩, none, [], [], [9]⟩
private def textRec : Rec := ⟨⟨.text, 9⟩, none, [], [], []⟩
private def grp (l : Pack) : Repo := ⟨[], [], some ⟨l, []⟩, []⟩

-- hypotheses of `missing_inventory_refused`
example : (∃ rec ∈ groupRecs ⟨[revRec], []⟩, rec.key = ⟨.rev, 1⟩) ∧
    (∀ rec ∈ (grp [revRec]).packs.flatten ++ groupRecs ⟨[revRec], []⟩, rec.key ≠ ⟨.inv, 1⟩) := by decide
example : step ⟨true⟩ (grp [revRec]) .commit = (grp [revRec], .err .check) := by decide
-- hypotheses of `missing_chk_root_refused`
example : 1 ∈ newRevIds (groupRecs ⟨[revRec, invRec1], []⟩) ∧
    invRec ((grp [revRec, invRec1]).packs.flatten ++ groupRecs ⟨[revRec, invRec1], []⟩) 1 = some invRec1 ∧
    5 ∈ invRec1.roots ∧
    hasKey ((grp [revRec, invRec1]).packs.flatten ++ groupRecs ⟨[revRec, invRec1], []⟩) ⟨.chk, 5⟩ = false := by
  decide
-- hypotheses of `missing_text_refused` (no parent-only inventory is present: nothing is inherited)
example :
    let own := (grp [revRec, invRec1, pageRec]).packs.flatten ++ groupRecs ⟨[revRec, invRec1, pageRec], []⟩
    own.find? (·.key == ⟨.chk, 5⟩) = some pageRec ∧ 9 ∈ pageRec.items ∧
    5 ∉ rootsOf own (parentOnlyInvs own (groupRecs ⟨[revRec, invRec1, pageRec], []⟩)) ∧
    9 ∉ itemsOf own (rootsOf own (parentOnlyInvs own (groupRecs ⟨[revRec, invRec1, pageRec], []⟩))) ∧
    hasKey own ⟨.text, 9⟩ = false := by decide
example : step ⟨true⟩ (grp [revRec, invRec1, pageRec]) .commit = (grp [revRec, invRec1, pageRec], .err .check) := by
  decide
-- … and the complete group is accepted (`commit_accepted_iff`, right to left)
example : (step ⟨true⟩ (grp [revRec, invRec1, pageRec, textRec]) .commit).2 = .ok := by decide
-- a text named by a parent-only inventory's page need not be present (stacking): the parent inventory 0
-- with the same root page is there, revision 0 is not new
example : (step ⟨true⟩ (grp [revRec, invRec1, pageRec, ⟨⟨.inv, 0⟩, none, [], [5], []⟩]) .commit).2 = .ok := by
  decide
-- hypotheses of `suspend_resume_cycles_eq_commit`: three cycles, the second inserts nothing
example : (nonempty [[revRec, invRec1], [], [pageRec]]).Nodup ∧
    (exec ⟨true⟩ ⟨[], [], none, []⟩ (.start :: cyclePrefix [] [[revRec, invRec1], [], [pageRec]] [textRec])).wg
      = some ⟨[textRec], [[revRec, invRec1], [pageRec]]⟩ := by decide

end BreezyVerif.C06
