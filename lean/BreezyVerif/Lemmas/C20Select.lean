import BreezyVerif.Lemmas.C20Conflicts
/-! C20 — helper lemmas: selection loop and merge-modified loop. -/
namespace BreezyVerif.C20

theorem selectLoop_eq (paths ids : List Str) (recurse : Bool) (cs new sel : List Conflict) :
    selectLoop paths ids recurse cs (new, sel)
      = (new ++ cs.filter (fun c => !isSelected paths ids recurse c),
         sel ++ cs.filter (fun c => isSelected paths ids recurse c)) := by
  induction cs generalizing new sel with
  | nil => simp [selectLoop]
  | cons c t ih =>
    unfold selectLoop
    by_cases h : isSelected paths ids recurse c = true
    · simp [h, ih]
    · simp only [Bool.not_eq_true] at h
      simp [h, ih]

/-! ### merge-modified -/

theorem find?_unique {α : Type} (l : List α) (key : α → Str) (hn : (l.map key).Nodup) (x : α)
    (hx : x ∈ l) : l.find? (fun f => key f == key x) = some x := by
  induction l with
  | nil => simp at hx
  | cons y t ih =>
    simp only [List.map_cons, List.nodup_cons, List.mem_map, not_exists, not_and] at hn
    rcases List.mem_cons.mp hx with rfl | hx
    · simp
    · have : key y ≠ key x := fun e => hn.1 x hx e.symm
      have hb : (key y == key x) = false := by simp [this]
      simp only [List.find?_cons, hb]
      exact ih hn.2 hx

theorem dset_new (d : List (Str × Str)) (k v : Str) (h : k ∉ d.map Prod.fst) : dset d k v = d ++ [(k, v)] := by
  induction d with
  | nil => rfl
  | cons e t ih =>
    obtain ⟨a, b⟩ := e
    simp only [List.map_cons, List.mem_cons, not_or] at h
    have : a ≠ k := fun e => h.1 e.symm
    simp [dset, this, ih h.2]

/-- which recorded hashes survive: the path is versioned and the hash is the file's current one -/
def mmKeep (tree : List TFile) (ph : Str × Str) : Bool :=
  match tree.find? fun f => f.path == ph.1 with
  | some f => decide (some ph.2 = f.sha)
  | none => false

def mmStanzas (tree : List TFile) (hashes : List (Str × Str)) : List Stanza :=
  hashes.filterMap fun ph => (path2id tree ph.1).map fun i => [(tFileId, i), (tHash, ph.2)]

theorem mmLoop_spec (tree : List TFile) (hid : (tree.map (·.fileId)).Nodup)
    (hashes : List (Str × Str)) (hp : (hashes.map Prod.fst).Nodup) (acc : List (Str × Str))
    (hacc : ∀ ph ∈ hashes, ph.1 ∉ acc.map Prod.fst) :
    mmLoop tree (mmStanzas tree hashes) acc = some (acc ++ hashes.filter (mmKeep tree)) := by
  induction hashes generalizing acc with
  | nil => simp [mmStanzas, mmLoop]
  | cons ph rest ih =>
    obtain ⟨p, h⟩ := ph
    simp only [List.map_cons, List.nodup_cons] at hp
    have hrest : ∀ q ∈ rest, q.1 ∉ acc.map Prod.fst := fun q hq => hacc q (by simp [hq])
    cases hf : tree.find? (fun f => f.path == p) with
    | none =>
      have h1 : mmStanzas tree ((p, h) :: rest) = mmStanzas tree rest := by
        simp [mmStanzas, path2id, hf]
      have h2 : mmKeep tree (p, h) = false := by simp [mmKeep, hf]
      rw [h1, List.filter_cons, h2]
      exact ih hp.2 acc hrest
    | some f =>
      have hmem : f ∈ tree := List.mem_of_find?_eq_some hf
      have hpath : f.path = p := by
        have := List.find?_some hf; simpa using this
      have h1 : mmStanzas tree ((p, h) :: rest)
          = [(tFileId, f.fileId), (tHash, h)] :: mmStanzas tree rest := by
        simp [mmStanzas, path2id, hf]
      have hid2 : id2file tree f.fileId = some f := find?_unique tree (·.fileId) hid f hmem
      have hg1 : sgetFirst [(tFileId, f.fileId), (tHash, h)] tFileId = some f.fileId := by
        simp [sgetFirst]
      have hg2 : sgetFirst [(tFileId, f.fileId), (tHash, h)] tHash = some h := by
        simp [sgetFirst, tFileId, tHash]
      rw [h1, mmLoop]
      simp only [hg1, hg2, hid2]
      by_cases hs : some h = f.sha
      · have h2 : mmKeep tree (p, h) = true := by simp [mmKeep, hf, hs]
        have hnew : f.path ∉ acc.map Prod.fst := by rw [hpath]; exact hacc (p, h) (by simp)
        simp only [hs, if_true]
        rw [dset_new acc f.path h hnew, List.filter_cons]
        simp only [h2, if_true]
        rw [ih hp.2 (acc ++ [(f.path, h)])]
        · simp [hpath]
        · intro q hq
          simp only [List.map_append, List.map_cons, List.map_nil, List.mem_append, List.mem_cons,
            List.not_mem_nil, or_false, not_or]
          refine ⟨hrest q hq, ?_⟩
          rw [hpath]
          intro e
          exact hp.1 (by rw [← e]; exact List.mem_map_of_mem hq)
      · have h2 : mmKeep tree (p, h) = false := by simp [mmKeep, hf, hs]
        simp only [hs, if_false]
        rw [List.filter_cons, h2]
        exact ih hp.2 acc hrest

theorem mmStanzas_ok (tree : List TFile) (hashes : List (Str × Str))
    (ht : ∀ f ∈ tree, crSafe f.fileId) (hh : ∀ ph ∈ hashes, crSafe ph.2) :
    ∀ s ∈ mmStanzas tree hashes, StanzaOk s := by
  intro s hs
  simp only [mmStanzas, List.mem_filterMap, Option.map_eq_some_iff] at hs
  obtain ⟨ph, hph, i, hi, rfl⟩ := hs
  simp only [path2id, Option.map_eq_some_iff] at hi
  obtain ⟨f, hf, rfl⟩ := hi
  have hmem : f ∈ tree := List.mem_of_find?_eq_some hf
  obtain ⟨_, _, t3, _, _, _, t7⟩ := tags_valid
  refine ⟨by simp, ?_⟩
  intro q hq
  simp only [List.mem_cons, List.not_mem_nil, or_false] at hq
  rcases hq with rfl | rfl
  · exact ⟨t3, ht f hmem⟩
  · exact ⟨t7, hh ph hph⟩

end BreezyVerif.C20
