"""Repro (C25 family delta-matching-crashes-on-ghost-left-parent).

A branch whose ancestry contains a merged revision with a ghost as its
left-most parent: `log FILE` by the per-file graph works, the same log by
delta matching (`_match_using_deltas=True`, the default for `brz log FILE`
whenever several files/directories are given, and what `brz log -v` uses)
dies with NoSuchRevision: Repository.get_revision_deltas asks for the tree of
the ghost.

Run:  PYTHONPATH=/repo /venv/bin/python repro_delta_log_ghost_left_parent.py   (exit 1 = defect present)
"""
import os
import sys
import tempfile

os.environ["HOME"] = tempfile.mkdtemp(prefix="c25-repro-", dir="/var/tmp")
os.environ["BRZ_EMAIL"] = "Repro <repro@example.com>"

import breezy
import breezy.bzr  # noqa: F401
from breezy import log
from breezy.branchbuilder import BranchBuilder
from breezy.controldir import format_registry
from breezy.transport import get_transport  # noqa: F401
from dromedary.memory import MemoryTransport

breezy.initialize()
t = MemoryTransport("memory:///repro/")
bb = BranchBuilder(t, format=format_registry.make_controldir("2a"))
bb.start_series()
# side line that starts at a ghost (built first, on the empty branch)
bb.build_snapshot([b"ghost"], [("add", ("", b"root-id", "directory", None)),
                               ("add", ("f", b"f-id", "file", b"side\n"))],
                  revision_id=b"side", allow_leftmost_as_ghost=True)
b = bb.get_branch()
with b.lock_write():
    b.set_last_revision_info(0, b"null:")
bb._tree.unlock()
bb._tree = b.create_memorytree()
bb._tree.lock_write()
bb.build_snapshot([], [("add", ("", b"root-id", "directory", None)),
                       ("add", ("f", b"f-id", "file", b"main\n"))], revision_id=b"m1")
bb.build_snapshot([b"m1", b"side"], [("modify", ("f", b"merged\n"))], revision_id=b"m2")
bb.finish_series()
b = bb.get_branch()


def file_log(deltas):
    rq = log.make_log_request_dict(direction="reverse", specific_files=["f"], levels=0,
                                   generate_tags=False, _match_using_deltas=deltas)
    with b.lock_read():
        return [(lr.rev.revision_id, lr.revno, lr.merge_depth)
                for lr in log._DefaultLogGenerator(b, **rq).iter_log_revisions()]


print("per-file graph :", file_log(False))
try:
    print("delta matching :", file_log(True))
except Exception as e:
    print("delta matching : %s: %s" % (type(e).__name__, e))
    sys.exit(1)
