import BreezyVerif.Common
import BreezyVerif.Model.C02
/-
C02 driver.

  rec <commit>|<commit>|…          history, OLDEST first
      commit = `<id>;<parents>;<tree>`; parents = `p,p` or `-`;
      tree = entries joined by `/` or `-`; entry = `f.k.p.n.x.c`
      (k = 0 file | 1 symlink | 2 directory, p parent id, n name, x exec 0|1, c sha / target number)
  reply: `<H:T|F> <invs> <texts> <check>`
      invs  = per commit (oldest first) `id;f=rev,f=rev` joined by `|`
      texts = `f.r=p.p` (`f.r=-` without parents) joined by `,` in commit order then tree order, `-` if none
      check = `ok` | `wrong:<n>:<m>:<k>` (wrong parents, unreferenced versions, invalid references)

  recb <commit>|<commit>|…         the same history through the literal merged_ids / changes
      bookkeeping (`buildB`); entries carry a 7th field `r` = 1 iff the real `iter_changes`
      reported the id: `f.k.p.n.x.c.r`
  reply: `<H:T|F> <R:T|F> <invs> <texts> <check>` (R = `repsOk`: reported iff differs) or
      `undefined` when an unreported id is in merged_ids with another kind than the basis

  chk <rec>|<rec>|…                an arbitrary (possibly inconsistent) repository, OLDEST first
      rec = `<id>;<parents>;<inv>;<texts>`; inv = `f=rev,…` or `-`; texts = `f=p.p,f=-,…` or `-`
  reply: `W:<f.r=stored>expected,…|-> U:<f.r,…|->` (wrong parents with the stored and the
      expected parent lists, unreferenced text versions; both sorted by (f, r)); a key of the
      index without a text has stored = `M`

  heads <graph> <cands>             one file's graph `r=p.p,r=-,…` OLDEST first; cands `c,c`
  reply: heads in candidate order (`-` = none)

  lin <commit>|…                    linear history, oldest first
  reply: `<linear T|F> f=rev,…` for the newest commit, from `linLast`
-/
namespace BreezyVerif.C02

def parseNats (sep : String) (s : String) : Option (List Nat) :=
  if s == "-" then some [] else (s.splitOn sep).mapM String.toNat?

def parseEntry (s : String) : Option (FileId × Attr) :=
  match (s.splitOn ".").mapM String.toNat? with
  | some [f, k, p, n, x, c] =>
    if x > 1 then none else
    match k with
    | 0 => some (f, ⟨p, n, .file (x == 1) c⟩)
    | 1 => if x == 0 then some (f, ⟨p, n, .link c⟩) else none
    | 2 => if x == 0 && c == 0 then some (f, ⟨p, n, .dir⟩) else none
    | _ => none
  | _ => none

def parseTree (s : String) : Option Tree :=
  if s == "-" then some [] else (s.splitOn "/").mapM parseEntry

def parseCommit (s : String) : Option Commit :=
  match s.splitOn ";" with
  | [i, ps, t] => do
    let i ← i.toNat?
    let ps ← parseNats "," ps
    let t ← parseTree t
    pure ⟨i, ps, t⟩
  | _ => none

def parseHist (s : String) : Option (List Commit) :=
  if s == "-" then some [] else (s.splitOn "|").mapM parseCommit

def joinWith (sep : String) (l : List String) : String :=
  if l.isEmpty then "-" else sep.intercalate l

def showNats (sep : String) (l : List Nat) : String := joinWith sep (l.map toString)

def showInv (r : Rec) : String :=
  s!"{r.id};" ++ joinWith "," (r.inv.map fun t => s!"{t.1}={t.2.rev}")

def showTexts (st : State) : String :=
  joinWith "," (st.reverse.flatMap fun r => r.texts.map fun t => s!"{t.1}.{r.id}={showNats "." t.2}")

def showCheck (st : State) : String :=
  let w := wrongParents st
  let u := unreferenced st
  let i := invalidRefs st
  if w.isEmpty && u.isEmpty && i.isEmpty then "ok" else s!"wrong:{w.length}:{u.length}:{i.length}"

def parseGraphEntry (s : String) : Option ((FileId × Rev) × List Rev) :=
  match s.splitOn "=" with
  | [r, ps] => do
    let r ← r.toNat?
    let ps ← parseNats "." ps
    pure ((0, r), ps)
  | _ => none

def parseEntryB (s : String) : Option ((FileId × Attr) × Bool) :=
  match s.splitOn "." with
  | [f, k, p, n, x, c, r] =>
    match parseEntry (".".intercalate [f, k, p, n, x, c]), r with
    | some e, "0" => some (e, false)
    | some e, "1" => some (e, true)
    | _, _ => none
  | _ => none

def parseCommitB (s : String) : Option (Commit × List FileId) :=
  match s.splitOn ";" with
  | [i, ps, t] => do
    let i ← i.toNat?
    let ps ← parseNats "," ps
    let es ← if t == "-" then some [] else (t.splitOn "/").mapM parseEntryB
    pure (⟨i, ps, es.map (·.1)⟩, (es.filter (·.2)).map (·.1.1))
  | _ => none

def parseKV (sep : String) (s : String) : Option (Nat × List Nat) :=
  match s.splitOn "=" with
  | [f, v] => do
    let f ← f.toNat?
    let v ← parseNats sep v
    pure (f, v)
  | _ => none

def parseInvItem (e : String) : Option (FileId × Entry) :=
  match (e.splitOn "=").mapM String.toNat? with
  | some [f, r] => some (f, ⟨⟨0, 0, .dir⟩, r⟩)
  | _ => none

def parseRec (s : String) : Option Rec :=
  match s.splitOn ";" with
  | [i, ps, inv, ts] => do
    let i ← i.toNat?
    let ps ← parseNats "," ps
    let inv ← if inv == "-" then some [] else (inv.splitOn ",").mapM parseInvItem
    let ts ← if ts == "-" then some [] else (ts.splitOn ",").mapM (parseKV ".")
    pure ⟨i, ps, inv, ts⟩
  | _ => none

def keyLe (a b : FileId × Rev) : Bool := a.1 < b.1 || (a.1 == b.1 && a.2 ≤ b.2)

def showChk (st : State) : String :=
  let idx := expIndex st
  let g := textsOf st
  let wrong := (idx.filter fun k => g.lookup k.1 != some k.2).mergeSort fun a b => keyLe a.1 b.1
  let w := wrong.map fun k =>
    let stored := match g.lookup k.1 with
      | some ps => showNats "." ps
      | none => "M"
    s!"{k.1.1}.{k.1.2}={stored}>{showNats "." k.2}"
  let u := (unreferenced st).mergeSort keyLe
  s!"W:{joinWith "," w} U:{joinWith "," (u.map fun k => s!"{k.1}.{k.2}")}"

def handle : List String → String
  | ["recb", h] =>
    match (if h == "-" then some [] else (h.splitOn "|").mapM parseCommitB) with
    | some cs =>
      let hs := cs.reverse
      let hOk := decide (hist (hs.map (·.1)))
      match buildB hs with
      | some st =>
        s!"H:{showBool hOk} R:{showBool (repsOk hs)} {joinWith "|" (st.reverse.map showInv)} {showTexts st} {showCheck st}"
      | none => "undefined"
    | none => "bad-op"
  | ["chk", h] =>
    match (if h == "-" then some [] else (h.splitOn "|").mapM parseRec) with
    | some rs => showChk rs.reverse
    | none => "bad-op"
  | ["rec", h] =>
    match parseHist h with
    | some cs =>
      let st := build cs.reverse
      let hOk := decide (hist cs.reverse)
      s!"H:{showBool hOk} {joinWith "|" (st.reverse.map showInv)} {showTexts st} {showCheck st}"
    | none => "bad-op"
  | ["heads", g, cs] =>
    match (if g == "-" then some [] else (g.splitOn ",").mapM parseGraphEntry), parseNats "," cs with
    | some g, some cs => showNats "," (heads g.reverse 0 (dedup cs))
    | _, _ => "bad-op"
  | ["lin", h] =>
    match parseHist h with
    | some cs =>
      let n := cs.reverse
      match n with
      | [] => "bad-op"
      | c :: _ =>
        s!"{showBool (linear n)} " ++ joinWith "," (c.tree.filterMap fun t =>
          (linLast n t.1).map fun r => s!"{t.1}={r}")
    | none => "bad-op"
  | _ => "bad-op"

end BreezyVerif.C02

def main : IO Unit := BreezyVerif.runDriver BreezyVerif.C02.handle
