import BreezyVerif.Common
import BreezyVerif.Model.C26
namespace BreezyVerif.C26

def parseCfg (s : String) : Option Cfg :=
  match s.splitOn "." with
  | [h, u, st] => do
      let h ← h.toNat?
      let u ← u.toNat?
      let st ← parseBool st
      pure ⟨h, u, st⟩
  | _ => none

def parseNonce (s : String) : Option Nonce :=
  match s.splitOn "." with
  | [o, k] => do
      let o ← o.toNat?
      let k ← k.toNat?
      pure ⟨o, k⟩
  | _ => none

/-- `-` absent, `e` no info file, `o<owner>.<serial>`, `b<tag>` -/
def parseHeld (s : String) : Option (Option Dir) :=
  if s == "-" then some none
  else if s == "e" then some (some none)
  else match s.toList with
    | 'o' :: rest => (parseNonce (String.ofList rest)).map (fun n => some (some (.ok n)))
    | 'b' :: rest => (String.ofList rest).toNat?.map (fun t => some (some (.bad t)))
    | _ => none

def parseOp : Char → Option Op
  | 'a' => some .attempt | 'u' => some .unlock | 'c' => some .confirm | 'b' => some .brk
  | _ => none

/-- `s<i><a|u|c|b>` start, `t<i>` step, `f<i><T|P>` fault, `x<i>` crash -/
def parseEv (s : String) : Option Ev :=
  match s.toList with
  | 's' :: rest =>
    match rest.reverse with
    | o :: ds => do
        let op ← parseOp o
        let i ← (String.ofList ds.reverse).toNat?
        pure (.start i op)
    | [] => none
  | 't' :: rest => (String.ofList rest).toNat?.map .step
  | 'x' :: rest => (String.ofList rest).toNat?.map .crash
  | 'f' :: rest =>
    match rest.reverse with
    | k :: ds => do
        let k ← (if k == 'T' then some FaultKind.T else if k == 'P' then some FaultKind.P else none)
        let i ← (String.ofList ds.reverse).toNat?
        pure (.fault i k)
    | [] => none
  | _ => none

def cfgFun (cs : List Cfg) : Nat → Cfg := fun i =>
  match cs[i]? with
  | some c => c
  | none => ⟨1, 1, false⟩

/-- observations after every prefix of the schedule -/
def trace (n : Nat) (s : Sys) : List Ev → List String
  | [] => [s.show n]
  | e :: es => s.show n :: trace n (s.step e) es

/-- `run n cfgs held events` | `kd hostEq isLocalhost userEq pidRecorded pidDead` -/
def handle : List String → String
  | ["run", n, cfgs, held, evs] =>
    match n.toNat?, (splitList cfgs).mapM parseCfg, parseHeld held, (splitList evs).mapM parseEv with
    | some n, some cs, some h, some evs =>
      if cs.length = n then "|".intercalate (trace n (Sys.init (cfgFun cs) h) evs) else "bad-op"
    | _, _, _, _ => "bad-op"
  | ["kd", a, b, c, d, e] =>
    match parseBool a, parseBool b, parseBool c, parseBool d, parseBool e with
    | some a, some b, some c, some d, some e => showBool (knownDead a b c d e)
    | _, _, _, _, _ => "bad-op"
  | _ => "bad-op"

end BreezyVerif.C26

def main : IO Unit := BreezyVerif.runDriver BreezyVerif.C26.handle
