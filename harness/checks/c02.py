"""C02 — per-file last-changed revisions and per-file parents
(breezy/bzr/vf_repository.py: VersionedFileCommitBuilder.record_iter_changes,
breezy/bzr/pack_repo.py: PackCommitBuilder._heads, _VersionedFileChecker /
_do_generate_text_key_index, breezy/bzr/check.py).

T2: generated history scripts (edit / chmod / rename / move / delete / re-add an
id / file<->symlink / commit / branch / merge (also criss-cross and of an
ancestor) / add a pending parent without merging content / revert a file after
the merge / resurrect an old version / identical parallel edits from a small
content pool) are interpreted by real working trees of several branches in one
shared repository (`WorkingTree.commit`, `merge_from_branch`, `revert`,
`add_parent_tree_id`).  The working-tree state captured *before* every commit is
the model's input; compared with the Lean model `build`: the last-changed
revision of every (revision, file id) (`RevisionTree.get_file_revision`), the
stored per-file parents of every text key (`texts.get_parent_map`), and the
verdict of `Repository.check()`.  `heads` (the specification of vcsgraph's
`Graph.heads`) is compared with the real per-file graph object on random key
subsets; linear scripts are also compared with `linLast`.

Oracle (no model involved): stored per-file parents == heads (own ancestry walk
over the real text graph) of the versions in the revision's parents, in parent
order; the last-changed revision is an ancestor-or-self whose recorded
attributes are identical; it is the new revision iff there is not exactly one
per-file head with identical attributes (and, for a single parent: iff the
attributes differ from the parent's); a text key exists iff the revision is the
last-changed one; `check()` reports no inconsistent parents / unreferenced
versions; the committed attributes equal the captured working-tree state.

Mutants this was built against (scratch worktree, never /repo):
 M1 record_iter_changes: carry-over test ignores the executable bit
    (`and parent_entry.executable == …` dropped)                      -> caught (oracle + T2)
 M2 record_iter_changes: `if len(heads) == 1` -> `if len(heads) >= 1`  (carry over the
    first head although there are two)                                 -> caught
 M3 PackCommitBuilder._heads returns all candidates (no head reduction) -> caught
 M4 merged_ids of a later parent not appended (`merged_ids[..].append` dropped: third
    parent's version ignored)                                          -> caught (3-parent cases)
 M5 unchanged_merged dropped (`for file_id in unchanged_merged` loop skipped: identical
    parallel change / revert-after-merge keep the basis version)       -> caught
 M6 carry-over compares name only against the basis (`parent_entry.name != entry_name`
    dropped)                                                            -> caught
 M7 _do_generate_text_key_index sorts expected parents by revision id instead of
    candidate order                                                     -> caught (check() verdict)
 M8 carry-over test ignores parent_id (`parent_entry.parent_id != entry_parent_id` dropped) -> caught
 M9 symlink carry-over ignores the target                                -> caught
 R1 fix abcfbf0 reverted (VersionedFileCommitBuilder._heads on the revision graph again)   -> caught: plain
    VIOLATION on corpus/C02/knit-readded-id.json (oracle + check() verdict)
 H1 harmless: heads preserved-order loop rewritten as a list comprehension,
    `set(head_candidates)` -> `frozenset(...)`                          -> clean

Former finding `revgraph-heads-readded-file-id` (knit formats took the heads in the *revision*
graph; a file id removed, re-added and merged with a branch still holding the old version got
per-file parents that check() reports as inconsistent): fixed in /repo abcfbf0.  Its input is kept
as corpus/C02/knit-readded-id.json and expects the fixed behaviour; reverting the fix gives a plain
VIOLATION with that input (mutant R1).
A crash inside merge_from_branch (tree transform, e.g. NoFinalPath) is counted and skipped.
"""
import hashlib
import os

from vlib import env

THEOREMS = [
    "perfile_parents_are_heads", "perfile_parents_antichain", "perfile_parents_from_parents",
    "lastchanged_sound", "lastchanged_fresh", "text_key_iff_fresh", "inventory_records_tree",
    "linear_characterisation", "check_passes",
]
RULE = ("case = (format, history script); scripts are random op lists over <=3 branches, 5 file ids "
        "(root, a directory, 3 files/symlinks), <=10 commits; non-trivial = the history contains a "
        "commit with >=2 parents or a carried-over entry whose last-changed revision is not the basis's")
ASSUMPTIONS = [
    "revision ids, file ids, names, sha1s and symlink targets are compared only for equality (numbered by the harness)",
    "rich-root formats (2a, rich-root-pack, rich-root): the root directory is an ordinary text key",
    "no ghost parents in the generated histories (theorem hypothesis `hist`: parents are present)",
]
TRUSTED = [
    "vcsgraph Graph.heads / KnownGraph (external, compiled): Model `heads` is its specification, compared on every per-file graph built",
    "inventory serialisation, CHK maps, group-compress/knit text storage, dirstate iter_changes are exercised, not modelled",
]

FORMATS_QUICK = ("2a", "rich-root-pack")
FORMATS_ALL = ("2a", "rich-root-pack", "rich-root", "1.9-rich-root")

FIDS = [b"TREE_ROOT", b"dir-id", b"file-a", b"file-b", b"file-c"]   # numbered 1..5; 0 = no parent
NAMES = ["", "d", "x", "y", "z", "w"]
CONTENTS = [b"c0\n", b"c1\nline\n", b"c2\n", b""]
TARGETS = ["t0", "t1"]


# --------------------------------------------------------------------------
# script generation
# --------------------------------------------------------------------------

def _edit_op(rng, b):
    r = rng.random()
    fi = rng.randrange(1, 5)
    if r < 0.42:
        return ["edit", b, rng.randrange(2, 5), rng.randrange(4)]
    if r < 0.50:
        return ["chmod", b, rng.randrange(2, 5)]
    if r < 0.62:
        return ["mv", b, fi, rng.randrange(2, 6), rng.random() < 0.4]
    if r < 0.68:
        return ["rm", b, fi]
    if r < 0.77:
        return ["add", b, fi, rng.randrange(2, 6), "d" if fi == 1 else rng.choice("ffl"),
                rng.randrange(4), fi != 1 and rng.random() < 0.3]
    if r < 0.86:
        return ["kind", b, rng.randrange(2, 5)]
    if r < 0.92:
        return ["revert", b, fi]
    return ["revive", b, fi, rng.randrange(1, 4)]


def gen_script(rng, linear=False, max_commits=8):
    """history script: an initial commit on b0, early branching, then rounds of
    (a few tree edits | identical edit on two branches) followed by commit or by
    merge(s) + post-merge tweaks + commit"""
    ops = []
    branches = ["b0"]
    for fi in (1, 2, 3, 4):
        if rng.random() < 0.9:
            ops.append(["add", "b0", fi, fi + 1, "d" if fi == 1 else rng.choice("fffl"),
                        rng.randrange(4), fi != 1 and rng.random() < 0.3])
    ops.append(["commit", "b0"])
    ncommits = 1
    if not linear:
        branches.append("b1")
        ops.append(["branch", "b0", "b1"])
        if rng.random() < 0.7:
            branches.append("b2")
            ops.append(["branch", "b0", "b2"])
    while ncommits < max_commits:
        b = rng.choice(branches)
        r = rng.random()
        if len(branches) == 3 and r > 0.9 and ncommits + 4 <= max_commits + 2:
            # octopus: the same file changed on all three branches, merged with three parents
            fi = rng.randrange(2, 5)
            for x in branches:
                ops.append(rng.choice([["edit", x, fi, rng.randrange(4)], ["chmod", x, fi],
                                       ["mv", x, fi, rng.randrange(2, 6), False]]))
                ops.append(["commit", x])
            others = [x for x in branches if x != b]
            rng.shuffle(others)
            for src in others:
                ops.append([rng.choice(["merge", "merge", "addparent"]), b, src])
            if rng.random() < 0.5:
                ops.append(["edit", b, fi, rng.randrange(4)])
            ops.append(["commit", b])
            ncommits += 4
            continue
        if not linear and r < 0.12:
            # identical parallel change (cherry-pick by content)
            o = rng.choice([x for x in branches if x != b])
            fi, c = rng.randrange(2, 5), rng.randrange(4)
            ops += [["edit", b, fi, c], ["commit", b], ["edit", o, fi, c], ["commit", o]]
            ncommits += 2
            continue
        for _ in range(rng.choice((1, 1, 2, 2, 3))):
            ops.append(_edit_op(rng, b))
        if linear or rng.random() < 0.55:
            ops.append(["commit", b])
            ncommits += 1
            continue
        others = [x for x in branches if x != b]
        rng.shuffle(others)
        nmerge = 2 if (len(others) > 1 and rng.random() < 0.4) else 1
        for src in others[:nmerge]:
            ops.append(["merge" if rng.random() < 0.8 else "addparent", b, src])
        # post-merge tweaks: the carry-over test must notice every attribute
        for _ in range(rng.choice((0, 1, 1, 2))):
            k = rng.random()
            fi = rng.randrange(2, 5)
            if k < 0.25:
                ops.append(["revert", b, rng.randrange(1, 5)])
            elif k < 0.40:
                ops.append(["edit", b, fi, rng.randrange(4)])
            elif k < 0.55:
                ops.append(["chmod", b, fi])
            elif k < 0.75:
                ops.append(["mv", b, fi, rng.randrange(2, 6), rng.random() < 0.5])
            elif k < 0.85:
                ops.append(["kind", b, fi])
            else:
                ops.append(_edit_op(rng, b))
        ops.append(["commit", b])
        ncommits += 1
    return ops


# --------------------------------------------------------------------------
# the real side
# --------------------------------------------------------------------------

class World:
    def __init__(self, fmt):
        from breezy.controldir import ControlDir, format_registry
        self.fmt = format_registry.make_controldir(fmt)
        self.base = env.fresh_dir("c02")
        ControlDir.create(self.base, format=self.fmt).create_repository(shared=True)
        br = ControlDir.create_branch_convenience(os.path.join(self.base, "b0"), format=self.fmt,
                                                  force_new_tree=True)
        wt = br.controldir.open_workingtree()
        wt.set_root_id(FIDS[0])
        self.wts = {"b0": wt}
        self.commits = []     # (revno-number, revid, snapshot)
        self.skipped = 0
        self.applied = 0
        self.merge_crashes = []

    # -- helpers -------------------------------------------------------
    def _path(self, wt, fi):
        try:
            return wt.id2path(FIDS[fi])
        except Exception:
            return None

    def _abspath(self, wt, path):
        return os.path.join(wt.basedir, path)

    def _free(self, wt, relpath):
        return not os.path.lexists(self._abspath(wt, relpath))

    def _write(self, wt, path, kind, content, exe):
        ap = self._abspath(wt, path)
        if os.path.lexists(ap):
            os.unlink(ap)
        if kind == "f":
            with open(ap, "wb") as f:
                f.write(CONTENTS[content])
            os.chmod(ap, 0o755 if exe else 0o644)
        else:
            os.symlink(TARGETS[content % 2], ap)

    def snapshot(self, wt):
        """id -> (kind, parent id number, name number, exec, content key) as commit will see it"""
        snap = {}
        with wt.lock_read():
            for path, ie in wt.iter_entries_by_dir():
                kind = wt.kind(path)
                fid = FIDS.index(ie.file_id) + 1
                par = 0 if ie.parent_id is None else FIDS.index(ie.parent_id) + 1
                if kind == "file":
                    ap = self._abspath(wt, path)
                    c = ("f", bool(os.stat(ap).st_mode & 0o100), hashlib.sha1(open(ap, "rb").read()).hexdigest())
                elif kind == "symlink":
                    c = ("l", False, os.readlink(self._abspath(wt, path)))
                else:
                    c = ("d", False, "")
                snap[fid] = (c[0], par, ie.name, c[1], c[2])
        return snap

    # -- ops -----------------------------------------------------------
    def apply(self, op):
        kind = op[0]
        wt = self.wts.get(op[1])
        if wt is None:
            self.skipped += 1
            return
        if kind == "branch":
            done = self.op_branch(wt, *op[2:])
        else:
            with wt.lock_write():
                done = getattr(self, "op_" + kind)(wt, *op[2:])
        if done is False:
            self.skipped += 1
        else:
            self.applied += 1

    def op_add(self, wt, fi, ni, kind, content, in_dir):
        if self._path(wt, fi) is not None:
            return False
        name = NAMES[ni] if fi != 1 else "d"
        rel = name
        if in_dir and fi != 1:
            dp = self._path(wt, 1)
            if dp is None or wt.kind(dp) != "directory":
                return False
            rel = dp + "/" + name
        if not self._free(wt, rel):
            return False
        if fi == 1:
            os.mkdir(self._abspath(wt, rel))
        else:
            self._write(wt, rel, kind, content, False)
        wt.add([rel], ids=[FIDS[fi]])

    def op_edit(self, wt, fi, content):
        p = self._path(wt, fi)
        if p is None or fi == 1:
            return False
        k = wt.kind(p)
        if k == "file":
            exe = wt.is_executable(p)
            self._write(wt, p, "f", content, exe)
        elif k == "symlink":
            self._write(wt, p, "l", content, False)
        else:
            return False

    def op_chmod(self, wt, fi):
        p = self._path(wt, fi)
        if p is None or wt.kind(p) != "file":
            return False
        ap = self._abspath(wt, p)
        os.chmod(ap, 0o644 if wt.is_executable(p) else 0o755)

    def op_mv(self, wt, fi, ni, in_dir):
        p = self._path(wt, fi)
        if p is None:
            return False
        name = NAMES[ni] if fi != 1 else "d"
        rel = name
        if in_dir and fi != 1:
            dp = self._path(wt, 1)
            if dp is None or wt.kind(dp) != "directory":
                return False
            rel = dp + "/" + name
        if rel == p or not self._free(wt, rel):
            return False
        wt.rename_one(p, rel)

    def op_rm(self, wt, fi):
        p = self._path(wt, fi)
        if p is None:
            return False
        wt.remove([p], keep_files=False, force=True)

    def op_kind(self, wt, fi):
        p = self._path(wt, fi)
        if p is None or fi == 1:
            return False
        k = wt.kind(p)
        if k == "file":
            self._write(wt, p, "l", 0, False)
        elif k == "symlink":
            self._write(wt, p, "f", 2, False)
        else:
            return False

    def op_revert(self, wt, fi):
        basis = wt.basis_tree()
        with basis.lock_read():
            try:
                bp = basis.id2path(FIDS[fi])
            except Exception:
                bp = None
        p = self._path(wt, fi)
        paths = [x for x in (p, bp) if x is not None]
        if not paths:
            return False
        try:
            wt.revert(sorted(set(paths)), backups=False)
        except Exception as e:       # e.g. parent directory not versioned: skip, state unchanged enough
            self.err = repr(e)
            return False
        self._settle(wt)

    def op_revive(self, wt, fi, back):
        repo = wt.branch.repository
        revs = [r for r in reversed(list(self._lefthand(wt)))]
        if len(revs) <= back:
            return False
        old = repo.revision_tree(revs[back])
        with old.lock_read():
            try:
                op = old.id2path(FIDS[fi])
            except Exception:
                return False
        try:
            wt.revert([op], old_tree=old, backups=False)
        except Exception as e:
            self.err = repr(e)
            return False
        self._settle(wt)

    def _lefthand(self, wt):
        repo = wt.branch.repository
        with repo.lock_read():
            g = repo.get_graph()
            return list(reversed(list(g.iter_lefthand_ancestry(wt.branch.last_revision(), [b"null:"]))))

    def _settle(self, wt):
        """drop conflicts and any file that names a versioned id but is missing on disk"""
        from breezy.bzr.conflicts import ConflictList
        wt.set_conflicts(ConflictList())
        missing = []
        with wt.lock_read():
            for path, ie in wt.iter_entries_by_dir():
                if not os.path.lexists(self._abspath(wt, path)):
                    missing.append(path)
        if missing:
            wt.remove(missing, keep_files=False, force=True)

    def op_branch(self, wt, new):
        if new in self.wts or wt.branch.last_revision() == b"null:":
            return False
        if wt.has_changes():
            return False
        self.wts[new] = wt.controldir.sprout(os.path.join(self.base, new)).open_workingtree()

    def op_merge(self, wt, src):
        from breezy.workingtree import PointlessMerge
        o = self.wts.get(src)
        if o is None or len(wt.get_parent_ids()) > 2:
            return False
        try:
            wt.merge_from_branch(o.branch, force=True)
        except PointlessMerge:
            return False
        except Exception as e:
            # a crash inside merge (tree transform) is not this property's business: the
            # transform rolls back and no pending merge is recorded; counted and skipped
            self.merge_crashes.append(type(e).__name__)
            return False
        self._settle(wt)

    def op_addparent(self, wt, src):
        o = self.wts.get(src)
        if o is None:
            return False
        tip = o.branch.last_revision()
        if tip in wt.get_parent_ids() or len(wt.get_parent_ids()) > 2:
            return False
        wt.add_parent_tree_id(tip)

    def op_commit(self, wt):
        self._settle(wt)
        snap = self.snapshot(wt)
        n = len(self.commits) + 1
        rid = b"r%03d" % n
        parents = list(wt.get_parent_ids())
        wt.commit("c%d" % n, rev_id=rid)
        self.commits.append((n, rid, parents, snap))


def observe(world):
    """everything the comparison needs, as plain data"""
    wt = world.wts["b0"]
    repo = wt.branch.repository
    num = {rid: n for n, rid, _, _ in world.commits}
    from breezy.bzr.vf_repository import VersionedFileCommitBuilder
    out = dict(commits=[], texts={}, extra_texts=[], check=None,
               revgraph_heads=(repo._commit_builder_class._heads is VersionedFileCommitBuilder._heads))
    with repo.lock_read():
        pm = repo.get_parent_map([rid for _, rid, _, _ in world.commits])
        for n, rid, wparents, snap in world.commits:
            tree = repo.revision_tree(rid)
            inv = {}
            attrs = {}
            with tree.lock_read():
                for path, ie in tree.iter_entries_by_dir():
                    fid = FIDS.index(ie.file_id) + 1
                    lr = tree.get_file_revision(path)
                    inv[fid] = num[lr]
                    par = 0 if ie.parent_id is None else FIDS.index(ie.parent_id) + 1
                    if ie.kind == "file":
                        c = ("f", bool(ie.executable), ie.text_sha1.decode())
                    elif ie.kind == "symlink":
                        c = ("l", False, ie.symlink_target)
                    else:
                        c = ("d", False, "")
                    attrs[fid] = (c[0], par, ie.name, c[1], c[2])
            out["commits"].append(dict(n=n, parents=[num[p] for p in pm[rid] if p != b"null:"],
                                       wparents=[num[p] for p in wparents],
                                       snap={str(k): list(v) for k, v in snap.items()},
                                       inv={str(k): v for k, v in inv.items()},
                                       attrs={str(k): list(v) for k, v in attrs.items()}))
        keys = sorted(repo.texts.keys())
        tpm = repo.texts.get_parent_map(keys)
        for k in keys:
            f = FIDS.index(k[0]) + 1
            out["texts"]["%d.%d" % (f, num[k[1]])] = [num[p[1]] for p in tpm[k]]
        # Graph.heads on the real per-file graph, as PackCommitBuilder builds it
        out["heads"] = []
        try:
            import vcsgraph.graph as _vg
            fg = _vg.Graph(repo._pack_collection.text_index.combined_index)
        except AttributeError:
            fg = repo.get_file_graph()
        out["_fg"] = fg
        out["_repo"] = repo
        res = repo.check()
        out["check"] = dict(inconsistent=[[num[a], FIDS.index(b) + 1, [num[x] for x in c], [num[x] for x in d]]
                                          for a, b, c, d in res.inconsistent_parents],
                            unreferenced=sorted("%d.%d" % (FIDS.index(k[0]) + 1, num[k[1]])
                                                for k in res.unreferenced_versions))
    return out


def heads_queries(rng_seed, obs):
    """random key subsets per file id, answered by the real per-file graph"""
    import random
    rng = random.Random(rng_seed)
    fg = obs.pop("_fg")
    repo = obs.pop("_repo")
    byfile = {}
    for k, ps in obs["texts"].items():
        f, r = map(int, k.split("."))
        byfile.setdefault(f, {})[r] = ps
    qs = []
    with repo.lock_read():
        for f, g in sorted(byfile.items()):
            revs = sorted(g)
            if len(revs) < 2:
                continue
            for _ in range(3):
                cands = rng.sample(revs, rng.randrange(2, min(4, len(revs)) + 1))
                keys = [(FIDS[f - 1], b"r%03d" % r) for r in cands]
                real = {int(k[1][1:]) for k in fg.heads(keys)}
                qs.append(dict(f=f, graph=[[r, g[r]] for r in revs], cands=cands,
                               heads=[c for c in cands if c in real]))
    return qs


def run_script(fmt, ops):
    w = World(fmt)
    for op in ops:
        w.apply(op)
    if not w.commits:
        w.apply(["commit", "b0"])
    return w


def _worker(item):
    idx, fmt, ops, seed = item
    try:
        w = run_script(fmt, ops)
        obs = observe(w)
        obs["heads"] = heads_queries(seed * 7919 + idx, obs)
        obs["applied"] = w.applied
        obs["skipped"] = w.skipped
        obs["merge_crashes"] = w.merge_crashes
        return obs
    except Exception as e:  # reported as a violation of the harness' own expectations by the caller
        import traceback
        return dict(error=repr(e), tb=traceback.format_exc()[-1500:])


# --------------------------------------------------------------------------
# model lines
# --------------------------------------------------------------------------

class Numbering:
    def __init__(self):
        self.c = {}

    def num(self, kind, key):
        d = self.c.setdefault(kind, {})
        if key not in d:
            d[key] = len(d) + 1
        return d[key]


def model_line(obs, op="rec"):
    nb = Numbering()
    cs = []
    for c in obs["commits"]:
        ents = []
        for f in sorted(c["snap"], key=int):
            k, par, name, exe, content = c["snap"][f]
            kn = {"f": 0, "l": 1, "d": 2}[k]
            cn = 0 if k == "d" else nb.num(k, content)
            ents.append("%s.%d.%d.%d.%d.%d" % (f, kn, par, nb.num("n", name), 1 if exe else 0, cn))
        cs.append("%d;%s;%s" % (c["n"], ",".join(map(str, c["wparents"])) or "-", "/".join(ents) or "-"))
    return "%s %s" % (op, "|".join(cs))


def impl_reply(obs):
    invs = []
    texts = []
    for c in obs["commits"]:
        fs = sorted(c["inv"], key=int)
        invs.append("%d;%s" % (c["n"], ",".join("%s=%d" % (f, c["inv"][f]) for f in fs) or "-"))
        for f in fs:
            if c["inv"][f] == c["n"]:
                k = "%s.%d" % (f, c["n"])
                ps = obs["texts"].get(k)
                texts.append("%s=%s" % (k, "MISSING" if ps is None else (".".join(map(str, ps)) or "-")))
    chk = obs["check"]
    ok = not chk["inconsistent"] and not chk["unreferenced"]
    return "H:T %s %s %s" % ("|".join(invs), ",".join(texts) or "-",
                             "ok" if ok else "wrong:%d:%d:0" % (len(chk["inconsistent"]), len(chk["unreferenced"])))


def impl_lin(obs):
    c = obs["commits"][-1]
    return "T " + (",".join("%s=%d" % (f, c["inv"][f]) for f in sorted(c["inv"], key=int)) or "-")


# --------------------------------------------------------------------------
# oracle
# --------------------------------------------------------------------------

def _anc(pm, k, memo):
    if k in memo:
        return memo[k]
    s = set()
    for p in pm.get(k, ()):
        s.add(p)
        s |= _anc(pm, p, memo)
    memo[k] = s
    return s


def oracle(ctx, case, obs):
    """returns [(message, family)].  No finding family is classified any more: the former
    `revgraph-heads-readded-file-id` defect (knit formats took heads in the revision graph) was
    fixed in /repo abcfbf0 and is a plain violation if it returns (corpus/C02/knit-readded-id.json
    is the regression input)."""
    bad = []
    commits = {c["n"]: c for c in obs["commits"]}
    rpm = {n: c["parents"] for n, c in commits.items()}
    rmemo = {}
    tg = {}
    for k, ps in obs["texts"].items():
        f, r = map(int, k.split("."))
        tg[(f, r)] = [(f, p) for p in ps]
    tmemo = {}
    fam_at = {}

    def cands_heads(c, f):
        fi = int(f)
        cands = []
        for p in c["parents"]:
            pr = commits[p]["inv"].get(f)
            if pr is not None and pr not in cands:
                cands.append(pr)
        hs = [h for h in cands
              if not any(o != h and (fi, h) in _anc(tg, (fi, o), tmemo) for o in cands)]
        rhs = [h for h in cands if not any(o != h and h in _anc(rpm, o, rmemo) for o in cands)]
        if rhs != hs:
            obs["_revgraph_differs"] = obs.get("_revgraph_differs", 0) + 1
        fam = None
        fam_at[(c["n"], fi)] = fam
        return cands, hs, fam

    for c in obs["commits"]:
        n = c["n"]
        if c["parents"] != c["wparents"]:
            bad.append(("r%d: recorded parents %r != working tree parents %r" % (n, c["parents"], c["wparents"]), None))
        if c["attrs"] != c["snap"]:
            bad.append(("r%d: committed attributes differ from the working tree state: %r vs %r" % (
                n, c["attrs"], c["snap"]), None))
        for f, lr in c["inv"].items():
            a = c["attrs"][f]
            # soundness
            if lr != n and lr not in _anc(rpm, n, rmemo):
                bad.append(("r%d file %s: last-changed r%d is not an ancestor" % (n, f, lr), None))
                continue
            src = commits[lr]
            if src["attrs"].get(f) != a or src["inv"].get(f) != lr:
                bad.append(("r%d file %s: last-changed r%d holds different attributes %r vs %r" % (
                    n, f, lr, src["attrs"].get(f), a), None))
            # candidates / heads, own computation on the real text graph
            cands, hs, fam = cands_heads(c, f)
            carry = len(hs) == 1 and commits[hs[0]]["attrs"].get(f) == a
            if (lr != n) != carry:
                bad.append(("r%d file %s: last-changed r%d but heads of parents' versions %r (candidates %r), "
                            "attributes %s the head's" % (n, f, lr, hs, cands,
                                                          "equal" if carry else "differ from"), fam))
            if len(c["parents"]) == 1:
                pa = commits[c["parents"][0]]["attrs"].get(f)
                if (lr == n) != (pa != a):
                    bad.append(("r%d file %s (single parent): changed=%r but last-changed r%d" % (
                        n, f, pa != a, lr), None))
            if not c["parents"] and lr != n:
                bad.append(("r%d file %s: initial commit names r%d" % (n, f, lr), None))
            key = "%s.%d" % (f, n)
            if lr == n:
                if key not in obs["texts"]:
                    bad.append(("r%d file %s: no text key for the new version" % (n, f), None))
                elif obs["texts"][key] != hs:
                    bad.append(("r%d file %s: stored per-file parents %r, heads of the parents' versions %r "
                                "(candidates %r)" % (n, f, obs["texts"][key], hs, cands), fam))
            elif key in obs["texts"]:
                bad.append(("r%d file %s: text key stored although the entry names r%d" % (n, f, lr), None))
    for k in obs["texts"]:
        f, r = k.split(".")
        if commits[int(r)]["inv"].get(f) != int(r):
            bad.append(("text key %s is not referenced by inventory r%s" % (k, r), None))
    chk = obs["check"]
    for inc in chk["inconsistent"]:
        bad.append(("check(): inconsistent parents: revision r%d file %d stored %r expected %r" % tuple(inc),
                    fam_at.get((inc[0], inc[1]))))
    if chk["unreferenced"]:
        bad.append(("check(): unreferenced versions %r" % (chk["unreferenced"][:3],), None))
    for msg, fam in bad[:3]:
        ctx.violation(case, msg, family=fam)
    return bad


# --------------------------------------------------------------------------
# run / replay
# --------------------------------------------------------------------------

def _stats(ctx, obs):
    merges = sum(1 for c in obs["commits"] if len(c["parents"]) >= 2)
    tri = sum(1 for c in obs["commits"] if len(c["parents"]) >= 3)
    carried_other = 0
    multi = 0
    for c in obs["commits"]:
        binv = None
        if c["parents"]:
            binv = next(x for x in obs["commits"] if x["n"] == c["parents"][0])["inv"]
        for f, lr in c["inv"].items():
            if lr != c["n"] and binv is not None and binv.get(f) != lr:
                carried_other += 1
            if lr == c["n"] and len(obs["texts"].get("%s.%d" % (f, lr), [])) >= 2:
                multi += 1
    ctx.count("commits", len(obs["commits"]))
    ctx.count("merge_commits", merges)
    ctx.count("three_parent_commits", tri)
    ctx.count("entries_carried_from_non_basis", carried_other)
    ctx.count("texts_with_2plus_parents", multi)
    ctx.count("kinds:" + "".join(sorted({v[0] for c in obs["commits"] for v in c["snap"].values()})))
    return merges > 0 or carried_other > 0


def run(ctx, n=None):
    fmts = ctx.pick(FORMATS_QUICK, FORMATS_ALL)
    n = n or ctx.pick(60, 500)
    items = []
    corpus_dir = os.path.join(env.VERIF, "corpus", "C02")
    if os.path.isdir(corpus_dir):
        import json
        for fn in sorted(os.listdir(corpus_dir)):
            c = json.load(open(os.path.join(corpus_dir, fn)))
            items.append((len(items), c["fmt"], c["ops"], ctx.seed))
    for i in range(n):
        linear = ctx.rng.random() < 0.2
        ops = gen_script(ctx.rng, linear=linear, max_commits=ctx.rng.choice((5, 8, 10)))
        fmt = fmts[i % len(fmts)]
        items.append((len(items), fmt, ops, ctx.seed))
    results = ctx.pmap(_worker, items, chunksize=1)
    cases, lines, impls = [], [], []
    hq_cases, hq_lines, hq_impls = [], [], []
    for (idx, fmt, ops, _), obs in zip(items, results):
        case = dict(fmt=fmt, ops=ops)
        if "error" in obs:
            ctx.violation(case, "history script crashed in real code: %s\n%s" % (obs["error"], obs["tb"]),
                          family=None)
            ctx.count("crashed")
            continue
        nontrivial = _stats(ctx, obs)
        ctx.case(case, nontrivial=nontrivial)
        ctx.count("fmt:" + fmt)
        ctx.count("ops_applied", obs["applied"])
        ctx.count("ops_skipped", obs["skipped"])
        for mc in obs.get("merge_crashes", ()):
            ctx.count("merge_crashed_and_skipped:" + mc)
        oracle(ctx, case, obs)
        if obs.get("_revgraph_differs"):
            ctx.count("histories_where_revision_graph_heads_differ_from_per_file_heads")
        cases.append(case)
        lines.append(model_line(obs))
        impls.append(impl_reply(obs))
        if all(len(c["parents"]) <= 1 for c in obs["commits"]) and \
                all(c["parents"] == [c["n"] - 1] for c in obs["commits"][1:]):
            ctx.count("linear_histories")
            cases.append(dict(case, op="lin"))
            lines.append(model_line(obs, "lin"))
            impls.append(impl_lin(obs))
        for q in obs["heads"]:
            hq_cases.append(dict(case, heads_query=q["cands"], f=q["f"]))
            hq_lines.append("heads %s %s" % (
                ",".join("%d=%s" % (r, ".".join(map(str, ps)) or "-") for r, ps in q["graph"]),
                ",".join(map(str, q["cands"]))))
            hq_impls.append(",".join(map(str, q["heads"])) or "-")
            ctx.count("heads_queries")
    if ctx.model_available:
        ctx.diff(cases, lines, impls)
        ctx.diff(hq_cases, hq_lines, hq_impls, tie="T2-heads")


def widen(ctx):
    run(ctx, n=150)


def replay(ctx, case):
    obs = _worker((0, case["fmt"], case["ops"], 0))
    if "error" in obs:
        return dict(case=case, error=obs["error"], tb=obs["tb"])
    bad = oracle(ctx, case, obs)
    line = model_line(obs)
    m = ctx.model([line])[0] if ctx.model_available else None
    return dict(case=case, impl=impl_reply(obs), model=m, line=line,
                oracle_failures=[dict(what=w, family=f) for w, f in bad],
                commits=[dict(n=c["n"], parents=c["parents"], inv=c["inv"]) for c in obs["commits"]],
                texts=obs["texts"], check=obs["check"])
