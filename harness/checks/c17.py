"""C17 — tree merges obey the three-way merge laws.

Mechanism: breezy/merge.py Merge3Merger._compute_transform (incl. the `if copied:` normalisation) / _entries3 /
_merge_names / _do_merge_contents + merge_contents / _merge_executable, the
Merger front end (from_revision_ids, find_base, make_merger, do_merge) and
wt.merge_from_branch; merge types Merge3Merger, WeaveMerger, LCAMerger; bzr 2a
and git working trees.

Model (Model/C17.lean):
  * `mergeEntry` (per file id, every attribute through C18.threeWay) and `merge3`;
  * `mergeChange`: the literal loop body of _compute_transform on ONE element of _entries3 given as the
    attribute triples (changed, pairs3, parents3, names3, executable3, copied), with `normCopy` = the
    `if copied:` block;
  * `applyChanges`: a whole merge on path-keyed (git) trees driven by whatever (base path, other path, this
    path, copied) pairing iter_changes / the rename detector reports.
Theorems (Props/C17.lean, all for ALL trees / entries, no bound):
  merge_other_eq_base, merge_this_eq_base, merge_identical, merge_disjoint (+ _wf, union_spec)   the four laws, id-keyed
  mergeEntry_attr_disjoint, merge_attr_disjoint     each attribute changed by at most one side => every change taken, no conflict (A5)
  mergeEntry_conflicts_nil_iff, threeWay_conflict_iff   NO conflict is reported  <=>  OTHER left the file alone or name,
                                                    parent, kind+content are each clean (converse of the laws' hypotheses)
  mergeChange_ofEntries        the triple-level loop body refines to mergeEntry
  mergeChange_copied_general   a copy is merged as an ADD of OTHER's entry against what THIS has, versioned, at the copy's OWN path
                               (the `if copied:` block since 2bc6965+a2e75d3), whatever the attributes of the copy source;
  mergeChange_copied / _same / _clash_witness   nothing there: OTHER's own entry (own exec bit); the same file there: unchanged;
                               a different file there: text merge / conflict, never a silent overwrite
  git_merge_other_eq_base, git_merge_this_eq_base, git_merge_identical, git_merge_disjoint
                               the four laws for path-keyed trees and ANY enumeration satisfying IsDiff (renames,
                               exact / inexact copies, adds, deletes), via placements_of_results / applyChanges_of_results
  pathKeyed_no_path_conflict   id = path => never a path conflict
  witnesses: conflict_witness, conflict_kinds_witness, copy_without_normalisation_witness, exec_norm_needed_witness

T2: a random well-formed BASE tree over a small namespace (dirs, files,
symlinks, exec bits; git: files/symlinks keyed by path) and one or two random
change scripts (edit, rename, move, delete (recursive), add, chmod, kind change)
give tree triples generated AS the relationships
    L1 other=base | L2 this=base | L3 this=other | L4 disjoint id sets with
    well-formed union | A5 same ids, different attributes (THIS renames/moves,
    OTHER edits/chmods) | T6 same file, disjoint line ranges (bzr: all merge
    types; git: merge3 only)
  + the COPY family (git mostly): OTHER contains files that git's rename detector reports as copies of a BASE
    file (OTHER rewrites / chmods / renames / deletes the source and adds 1..3 verbatim or similar copies, each
    with its OWN random exec bit, in random directories), as L2 / L3 / L4
  + G8 (git, NOT a law, tie only): THIS has added a DIFFERENT file at the path of one of OTHER's copies (entries tie:
    the copy is merged with THIS's file at that path)
  + X3 (bzr, oracle only): criss-cross history (two LCAs, _entries_lca / _lca_multi_way) with identical tips
  + C7 (bzr, NOT a law, tie only): both sides change the SAME entry differently, every (op of THIS, op of OTHER)
    pair of rename/move/delete/edit/chmod/kind.
The three trees are committed on real branches (base -> this in the working
tree, base -> other in a sprouted branch), merged through the real front end,
and compared with the model in three ways:
  (a) id/path-keyed: the working tree dump (id -> parent, name, kind, content, exec from disk) plus conflicts()
      against driver op `merge` (mergeEntry per id);
  (b) entries-level: list(real Merge3Merger._entries3()) of a second, never-executed merger is fed element by
      element to driver op `change` (mergeChange; contents looked up in the abstract trees, every other attribute
      taken from the real element), THIS + the per-element results (`compose`, mirrors applyChanges) must be
      the real merged tree — this ties the copy normalisation and git's rename pairing;
  (c) C7: the model's per-file conflicts (path / contents; text merge) against wt.conflicts() per file id
      (cook_conflicts drops a path conflict beside a contents conflict), and the merged tree when only
      path / text conflicts occurred (winner_idx "conflict" -> OTHER's value);
  (d) the hypotheses of the git_merge_* theorems (IsDiff, where THIS has the files) are evaluated on the real
      enumeration of every git L2/L3/L4 case (a failure is reported as a tie gap).
L4 candidates whose union is not well-formed go to an excluded-input stream (counted, the
real outcome recorded, nothing demanded).
Oracle: the law itself, evaluated on the dump without the model: L1 == THIS,
L2 == OTHER, L3 == THIS, L4 == union, A5/T6 == both changes applied; always:
no conflicts — neither in wt.conflicts() nor in the list do_merge() / merge_from_branch() RETURNS (a git working
tree does not persist every conflict) — and no stray files.

Findings on the unchanged tree (families computed from the input):
  git-dir-rename-vs-change-inside   git: one side renames/moves a directory, the other adds/changes a
                                    path inside it: no conflict is reported, the file is moved on disk
                                    but the index keeps the old path (versioned+missing, new path unversioned)
  git-duplicate-content-rename-detection
                                    git: the same blob is introduced at different paths by the two sides (or a
                                    moved blob has several candidate sources): find_previous_path / rename
                                    detection pairs unrelated files, one side's file disappears
  git-identical-move-into-new-directory
                                    git: both sides move a file into the same new directory: merge raises
                                    KeyError / ImmortalPendingDeletion (the file can vanish from disk)
  git-identical-directory-rename-spurious-conflict   (NEW, found through the returned-conflicts oracle)
                                    git: both sides empty directory X and move its file into the same new directory Y:
                                    git reports the directory rename X -> Y, find_previous_path finds no X in THIS, the
                                    element (X, Y, None) gives a path conflict: do_merge() returns / prints
                                    "Text conflict in Y" although the trees are identical; the index drops it.
                                    (repaired: bb2cb24; pinned in fixed_finding_cases)
  git-emptied-directory-vs-add-inside-spurious-conflict   (NEW, pending triage; pinned last)
                                    git, L4: OTHER removes / moves away every file of directory X (git reports the deletion of X
                                    itself), THIS adds a file below X: the tree is right (X kept) but the cooked fs-level
                                    'deleting parent' comes back as "Text conflict in X" from do_merge() (brz merge exits 1);
                                    the index drops it.  Patch: git cook_conflicts treats 'deleting parent' like 'missing parent'.
  git-rename-onto-replaced-path-vs-change   (NEW, pending triage; pinned last)
                                    git: THIS deletes / replaces file q and renames p onto q while OTHER touches p or q too (e.g. L3:
                                    both sides do the same): iter_changes(other vs base) says "q modified, p deleted",
                                    find_previous_path(base -> this, p) says q: the element (p, None, q) deletes THIS's q and
                                    reports a conflict — a file is lost in a merge of identical trees.
                                    A family violation whose ONLY difference is an executable bit is never attributed
                                    to a git family (they are all about paths).
Repaired in /repo after this check found it (fix: ec61b74, _set_mode os.stat -> os.lstat): THIS has a
symlink whose target chain loops (b -> b), OTHER turns it into a file: the merge died with ELOOP.  No family
is attached to it any more; reverting the fix gives a plain VIOLATION (self-test mutant 12).

Mutants this was built against (scratch worktree; caught = oracle violation with a
concrete triple, plus model mismatch): (1) winner_idx "other" -> index 2;
(2) _merge_names early return when only name_winner == "this" (moves from OTHER
lost); (3) _three_way on contents with this/other swapped; (4)
_merge_executable returning when winner == "other" and not modified (exec flips
of OTHER lost); (12) _set_mode back to os.stat (= fix ec61b74 reverted); (13) `changed = True` dropped from the
`if copied:` branch of _compute_transform (git: OTHER adds a copy of a BASE-version file while rewriting or
renaming the source: the copy silently missing; pinned corpus + randomised copy shapes); (6) _default_other_winner_merge "delete" -> "done" (OTHER's
deletions lost); (7) contents_pair ignoring symlink targets; (8) _merge_names
only when changed_content (pure renames lost); (10) Merger.find_base choosing
this_basis as base; (11) executability = other or this; (17 = seeded change C17b) the copy block taking
executable3[0] (the SOURCE's bit in BASE) instead of executable3[1]: oracle (L2/L3/L4, all merge types) + entries tie;
(15) the copy block keeping parents3[0]: a copy into another directory gets a path conflict that only do_merge()'s
return value shows: oracle (returned conflicts) + entries tie.  Caught by the tie only (conflict situations, outside
the four laws; VIOLATION … no-failing-input-found): (14) winner_idx "conflict" -> 2 (C7 tree comparison);
(16) _merge_executable conflict fallback always "other" (C7, needs the widened search on some seeds); (5) dropping the
`this_name is None` override (C7: on some seeds only — it shows in the tree only through the parent of a file THIS
deleted and OTHER renamed below a directory).  Not detectable (dead in practice): (9) the exec fallback
`elif this_path is not None` (only reached after a contents conflict, where final_kind is None).
Harmless rewrites kept clean: resolver(*names) spelled out and reordered; the copy block's executable3 unpacked into
three names first.
"""
import os
import shutil
import stat

from vlib import env

THEOREMS = [
    "mergeEntry_other_eq_base", "mergeEntry_this_eq_base", "mergeEntry_same",
    "merge_other_eq_base", "merge_this_eq_base", "merge_identical", "merge_disjoint",
    "merge_disjoint_wf", "union_spec", "conflict_witness",
    # the loop body on _entries3 triples, copies
    "mergeChange_ofEntries", "mergeChange_copied_general", "mergeChange_copied", "mergeChange_copied_same",
    "mergeChange_copied_clash_witness", "mergeChange_changed_irrelevant", "copy_without_normalisation_witness",
    # attribute-wise disjoint changes, exact conflict characterisation
    "mergeEntry_attr_disjoint", "merge_attr_disjoint", "threeWay_conflict_iff", "mergeEntry_conflicts_nil_iff",
    "conflict_kinds_witness", "pathKeyed_no_path_conflict", "exec_norm_needed_witness",
    # whole merges on path-keyed (git) trees for any enumeration
    "look_norm", "placements_of_results", "applyChanges_of_results", "removes_cases", "git_merge_other_eq_base",
    "git_merge_this_eq_base", "git_merge_identical", "git_merge_disjoint",
    # helper lemmas the refinement rests on (Lemmas/C17.lean)
    "namesStepC_ofEntries", "contentsStepC_ofEntries", "execStepC_ofEntries", "normCopy_ofEntries_copied",
    "namesStep_one_side", "contentsStep_one_side", "execStep_one_side", "threeWay_one_side",
]
RULE = ("case = (format 2a|git, merge type merge3|weave|lca, front end from_revision_ids|merge_from_branch, "
        "relationship L1..L4/A5/T6, copy family shape x L2/L3/L4, or C7 op pair; BASE tree, change scripts); non-trivial = "
        "at least one side changed something other than content (rename/move/delete/add/kind/exec/copy) or both sides "
        "changed; distinct by the three trees")
ASSUMPTIONS = [
    "the file-system conflict pass (transform.resolve_conflicts) is the identity when the attribute-level result is a "
    "well-formed tree (checked: every law-shaped case ends without conflicts and equals the model)",
    "git: the enumeration of iter_changes (dulwich tree_changes + RenameDetector) and find_previous_path satisfy the "
    "hypotheses of git_merge_* (IsDiff; THIS has the files where the relationship says) — evaluated on the real "
    "enumeration of every git L2/L3/L4 case; criss-cross histories (_entries_lca) are not generated",
]
TRUSTED = ["text merge of one file changed on both sides is not modelled (T6 compares it with the obvious expected text only)",
           "C18.threeWay is the model of _three_way (tied by C18's own T1/T2)",
           "entries-level tie: contents of an element are looked up in the harness's abstract trees by the element's real paths; "
           "putting the per-element results back into THIS (compose) is harness code mirroring Model.applyChanges"]

F_GITDIR = "git-dir-rename-vs-change-inside"
F_GITSAME = "git-duplicate-content-rename-detection"
F_GITNEWDIR = "git-identical-move-into-new-directory"
F_GITDIRREN = "git-identical-directory-rename-spurious-conflict"
F_GITEMPTIED = "git-emptied-directory-vs-add-inside-spurious-conflict"
F_GITREPLACED = "git-rename-onto-replaced-path-vs-change"
ROOT = "ROOT"
NAMES = ["a", "b", "c", "d", "e", "f", "g"]


# --------------------------------------------------------------------------
# abstract trees: id -> dict(parent, name, kind f|d|l, content bytes, exec bool)

def E(parent, name, kind, content=b"", ex=False):
    return dict(parent=parent, name=name, kind=kind, content=content, exec=ex)


def copy_tree(t):
    return {k: dict(v) for k, v in t.items()}


def paths_of(t):
    out = {}

    def p(i, depth=0):
        if i in out:
            return out[i]
        if depth > len(t) + 1:
            raise ValueError("cycle")
        e = t[i]
        if e["parent"] is None:
            out[i] = ""
        else:
            pp = p(e["parent"], depth + 1)
            out[i] = e["name"] if pp == "" else pp + "/" + e["name"]
        return out[i]
    for i in t:
        p(i)
    return out


def wf(t):
    roots = [i for i, e in t.items() if e["parent"] is None]
    if len(roots) != 1:
        return False
    seen = set()
    for i, e in t.items():
        if e["parent"] is not None:
            pe = t.get(e["parent"])
            if pe is None or pe["kind"] != "d":
                return False
            key = (e["parent"], e["name"])
            if key in seen:
                return False
            seen.add(key)
    try:
        paths_of(t)
    except (ValueError, KeyError):
        return False
    return True


def descendants(t, i):
    out = set()
    todo = [i]
    while todo:
        x = todo.pop()
        for j, e in t.items():
            if e["parent"] == x and j not in out:
                out.add(j)
                todo.append(j)
    return out


def dirs_of(t, exclude=()):
    return [i for i, e in t.items() if e["kind"] == "d" and i not in exclude]


def free_name(rng, t, parent):
    used = {e["name"] for e in t.values() if e["parent"] == parent}
    cand = [n for n in NAMES if n not in used]
    return rng.choice(cand) if cand else None


def text(rng):
    n = rng.randint(0, 4)
    return b"".join(rng.choice([b"x\n", b"y\n", b"z\n", b"hello\n", b"w\n"]) for _ in range(n))


def gen_base(rng, git=False):
    t = {ROOT: E(None, "", "d")}
    n = rng.randint(3, 8)
    k = 0
    for _ in range(n):
        k += 1
        parent = rng.choice(dirs_of(t))
        name = free_name(rng, t, parent)
        if name is None:
            continue
        r = rng.random()
        if r < 0.25:
            t["d%d" % k] = E(parent, name, "d")
        elif r < 0.85:
            t["f%d" % k] = E(parent, name, "f", text(rng) + b"%d\n" % k, rng.random() < 0.25)
        else:
            t["s%d" % k] = E(parent, name, "l", rng.choice([b"a", b"b", b"target"]))
    return t


OPS = ["edit", "edit", "rename", "move", "delete", "add", "add", "chmod", "kind"]


def apply_op(rng, t, op, allowed, fresh):
    """apply one random op of the given kind to ids in `allowed` (None = all).  Returns the set of ids changed, or None."""
    ids = [i for i in t if i != ROOT and (allowed is None or i in allowed)]
    if op == "add":
        parent = rng.choice([d for d in dirs_of(t) if allowed is None or d in allowed or d == ROOT] or [ROOT])
        name = free_name(rng, t, parent)
        if name is None:
            return None
        i = fresh()
        r = rng.random()
        if r < 0.2:
            t[i] = E(parent, name, "d")
        elif r < 0.85:
            t[i] = E(parent, name, "f", text(rng) + i.encode() + b"\n", rng.random() < 0.3)
        else:
            t[i] = E(parent, name, "l", b"tgt-" + i.encode())
        return {i}
    if not ids:
        return None
    i = rng.choice(ids)
    e = t[i]
    if op == "edit":
        if e["kind"] == "f":
            e["content"] = e["content"] + rng.choice([b"more\n", b"edit\n", b"k\n"])
        elif e["kind"] == "l":
            e["content"] = e["content"] + b"2"
        else:
            return None
        return {i}
    if op == "rename":
        name = free_name(rng, t, e["parent"])
        if name is None:
            return None
        e["name"] = name
        return {i}
    if op == "move":
        bad = descendants(t, i) | {i}
        cand = [d for d in dirs_of(t, bad) if d != e["parent"]]
        if not cand:
            return None
        d = rng.choice(cand)
        if any(x["parent"] == d and x["name"] == e["name"] for x in t.values()):
            return None
        e["parent"] = d
        return {i}
    if op == "delete":
        gone = descendants(t, i) | {i}
        if allowed is not None and not gone <= set(allowed):
            return None
        for j in gone:
            del t[j]
        return gone
    if op == "chmod":
        if e["kind"] != "f":
            return None
        e["exec"] = not e["exec"]
        return {i}
    if op == "kind":
        if e["kind"] == "f":
            e.update(kind="l", content=b"was-file-" + i.encode(), exec=False)
        elif e["kind"] == "l":
            e.update(kind="f", content=b"was link " + i.encode() + b"\n", exec=False)
        else:
            return None
        return {i}
    return None


def script(rng, base, allowed, tag, ops=None, nmax=4):
    t = copy_tree(base)
    changed = set()
    cnt = [0]

    def fresh():
        cnt[0] += 1
        return "n%s%d" % (tag, cnt[0])
    used_ops = []
    for _ in range(rng.randint(1, nmax)):
        op = rng.choice(ops or OPS)
        al = None if allowed is None else [i for i in allowed if i in t]
        ch = apply_op(rng, t, op, al, fresh)
        if ch:
            changed |= ch
            used_ops.append(op)
    return t, changed, used_ops


def changed_ids(base, t):
    return {i for i in set(base) | set(t) if base.get(i) != t.get(i)}


LONG = [b"line %d\n" % i for i in range(1, 13)]


C7_OPS = ["rename", "move", "delete", "edit", "chmod", "kind"]


def gen_case(rng, rel, git=False, pair=None):
    """returns (base, this, other, expected, info) abstract trees"""
    base = gen_base(rng, git)
    info = {}
    if rel == "L1":
        this, _, ops = script(rng, base, None, "t")
        other = copy_tree(base)
        exp = this
    elif rel == "L2":
        other, _, ops = script(rng, base, None, "o")
        this = copy_tree(base)
        exp = other
    elif rel == "L3":
        this, _, ops = script(rng, base, None, "x")
        other = copy_tree(this)
        exp = this
    elif rel == "L4":
        this, _, ops1 = script(rng, base, None, "t")
        cht = changed_ids(base, this)
        # OTHER may only touch ids THIS left alone (and may not add below a directory THIS removed: union check)
        allowed = [i for i in base if i not in cht and i != ROOT]
        other, _, ops2 = script(rng, base, allowed, "o")
        ops = ops1 + ops2
        cho = changed_ids(base, other)
        if cht & cho:
            return None
        exp = {}
        for i in set(base) | set(this) | set(other):
            src = other if i in cho else this
            if i in src:
                exp[i] = dict(src[i])
        info["union_wf"] = wf(exp)
    elif rel == "A5":
        files = [i for i, e in base.items() if e["kind"] == "f"]
        if not files:
            return None
        this, _, ops1 = script(rng, base, files, "t", ops=["rename", "move"], nmax=3)
        other, _, ops2 = script(rng, base, files, "o", ops=["edit", "chmod"], nmax=3)
        ops = ops1 + ops2
        exp = copy_tree(this)
        for i in exp:
            if i in other and other[i] != base[i]:
                exp[i]["content"] = other[i]["content"]
                exp[i]["exec"] = other[i]["exec"]
    elif rel == "T6":
        base["long"] = E(ROOT, "long-file", "f", b"".join(LONG))
        this, other = copy_tree(base), copy_tree(base)
        a, b = rng.randint(0, 3), rng.randint(8, 11)
        if rng.random() < 0.5:
            a, b = b, a
        lt, lo = list(LONG), list(LONG)
        lt[a] = b"THIS changed %d\n" % a
        lo[b] = b"OTHER changed %d\n" % b
        both = list(LONG); both[a] = lt[a]; both[b] = lo[b]
        this["long"]["content"] = b"".join(lt)
        other["long"]["content"] = b"".join(lo)
        exp = copy_tree(this)
        exp["long"]["content"] = b"".join(both)
        ops = ["edit", "edit"]
    elif rel == "X3":
        # criss-cross history (two LCAs B, C; Merger hands their trees to the merge type, which then enumerates with
        # _entries_lca and decides with _lca_multi_way): both tips carry the SAME tree => THIS unchanged, no conflicts
        lb, _, ops1 = script(rng, base, None, "b")
        lc, _, ops2 = script(rng, base, None, "c")
        this, _, ops3 = script(rng, lb, None, "x")
        other = copy_tree(this)
        exp = this
        ops = ops1 + ops2 + ops3
        if not (wf(lb) and wf(lc)) or lb == lc:
            return None
        info["lcas"] = (lb, lc)
    elif rel == "C7":
        # NOT a law: both sides change the SAME entry, differently (`pair` = the op of THIS and the op of OTHER).
        # Only the tie is evaluated here (the model's conflict branches, winner_idx "conflict", the this-absent
        # override, the exec fallbacks)
        cand = [i for i, e in base.items() if i != ROOT]
        files = [i for i in cand if base[i]["kind"] == "f"]
        if not cand:
            return None
        target = rng.choice(files if files and rng.random() < 0.7 else cand)
        opt, opo = pair or (rng.choice(C7_OPS), rng.choice(C7_OPS))
        this, _, ops1 = script(rng, base, [target], "t", ops=[opt], nmax=1)
        other, _, ops2 = script(rng, base, [target], "o", ops=[opo], nmax=1)
        if rng.random() < 0.3:      # a second change on one side
            extra = rng.choice(C7_OPS)
            if rng.random() < 0.5:
                this, _, o3 = script(rng, this, [target], "t", ops=[extra], nmax=1)
                this = this if wf(this) else None
            else:
                other, _, o3 = script(rng, other, [target], "o", ops=[extra], nmax=1)
                other = other if wf(other) else None
            if this is None or other is None:
                return None
            ops1 = ops1 + o3
        both = [i for i in changed_ids(base, this) & changed_ids(base, other) if this.get(i) != other.get(i)]
        if not both:
            return None
        ops = ops1 + ops2
        info["pair"] = "%s/%s" % (opt, opo)
        exp = {}
    else:
        raise ValueError(rel)
    if not (wf(base) and wf(this) and wf(other)):
        return None
    info["ops"] = ops
    return base, this, other, exp, info


def symlink_loop_to_file(this, exp):
    """input shape of the repaired ELOOP defect (only counted): an entry that is a symlink in THIS and must become a file, and
    whose link target chain (relative names, followed in THIS) never leaves symlinks: os.stat raises ELOOP"""
    tp = paths_of(this)
    by_path = {p: i for i, p in tp.items()}
    for i, e in this.items():
        if e["kind"] != "l" or i not in exp or exp[i]["kind"] != "f":
            continue
        cur, seen = i, set()
        while cur is not None and this[cur]["kind"] == "l" and cur not in seen:
            seen.add(cur)
            d = os.path.dirname(tp[cur])
            tgt = os.path.normpath(os.path.join(d, this[cur]["content"].decode()))
            cur = by_path.get(tgt)
        if cur is not None and this[cur]["kind"] == "l":
            return True
    return False


def git_family(base, this, other):
    """input classifiers (git views) of two rename-detection defects"""
    def same(a, b):
        return (a["kind"], a["content"]) == (b["kind"], b["content"])
    def blob(e):
        return (e["kind"], e["content"])

    def added(t):      # paths whose blob is new at that path on this side
        return {p: blob(e) for p, e in t.items() if p != ROOT and (p not in base or blob(base[p]) != blob(e))}

    def removed(t):    # base paths whose blob is gone from that path on this side
        return {p: blob(e) for p, e in base.items() if p != ROOT and (p not in t or blob(t[p]) != blob(e))}
    at, ao = added(this), added(other)
    # (1) both sides introduce the same blob at different paths: find_previous_path(OTHER -> THIS) pairs them
    for p, x in ao.items():
        for q, y in at.items():
            if x == y and p != q and other.get(q) != this.get(q):
                return F_GITSAME
    # (2) a blob that one side introduces somewhere has several candidate SOURCES (duplicate contents in
    # BASE): rename detection may pair the wrong one.  Several targets of one source (a copy: OTHER keeps or
    # renames `a` and adds an identical `c`) are handled correctly by /repo and are NOT part of the family
    for t, a in ((this, at), (other, ao)):
        r = removed(t)
        for x in set(a.values()):
            srcs = [p for p, y in r.items() if y == x] + [p for p, e in base.items() if p != ROOT and p not in r and blob(e) == x]
            tgts = [p for p, y in a.items() if y == x]
            if len(srcs) >= 2 and tgts:
                return F_GITSAME
    # THIS renames a file p onto a path q whose BASE file it replaces, and OTHER touches p or q too: iter_changes
    # (other vs base) sees "q modified, p deleted", find_previous_path(base -> this) sees "p renamed to q"
    for q, te in this.items():
        if q == ROOT or q not in base or blob(base[q]) == blob(te):
            continue
        for pth, be in base.items():
            if pth != ROOT and pth != q and pth not in this and blob(be) == blob(te) and (
                    other.get(pth) != be or other.get(q) != base[q]):
                return F_GITREPLACED
    # both sides move a file into a directory that does not exist in BASE
    for p, te in this.items():
        if p == ROOT or p in base or other.get(p) != te or "/" not in p:
            continue
        d = os.path.dirname(p)
        if any(x == d or x.startswith(d + "/") for x in base if x != ROOT):
            continue
        if any(q != ROOT and q not in this and same(be, te) for q, be in base.items()):
            return F_GITNEWDIR
    return None


def _dirs(t):
    out = set()
    for p in t:
        if p != ROOT:
            while "/" in p:
                p = p.rsplit("/", 1)[0]
                out.add(p)
    return out


def emptied_dir_vs_add_inside(base, this, other, reported):
    """input classifier (git views): OTHER removes / moves away every file below a directory X of BASE (git then
    reports the deletion of the directory X itself) while THIS adds a new path below X; every reported conflict
    is on such an X"""
    xs = set()
    for x in _dirs(base) - _dirs(other):
        if any(p != ROOT and p.startswith(x + "/") and p not in base for p in this):
            xs.add(x)
    return bool(xs) and all(path in xs for _t, path in reported)


def identical_dir_rename(base, this, other, reported):
    """input classifier (git views): both sides empty a directory X of BASE completely and both have the same new
    directory Y holding a blob that was below X (git then reports the directory rename X -> Y); every reported
    conflict is on such a Y"""
    def dirs(t):
        out = set()
        for p in t:
            if p != ROOT:
                while "/" in p:
                    p = p.rsplit("/", 1)[0]
                    out.add(p)
        return out
    db, dt, do = dirs(base), dirs(this), dirs(other)
    gone = db - dt - do
    new = (dt & do) - db
    ys = set()
    for y in new:
        for p, e in this.items():
            if p != ROOT and p.startswith(y + "/") and other.get(p) == e and any(
                    q != ROOT and any(q.startswith(x + "/") for x in gone) and (be["kind"], be["content"]) == (e["kind"], e["content"])
                    for q, be in base.items()):
                ys.add(y)
    return bool(ys) and all(path in ys for _t, path in reported)


# --------------------------------------------------------------------------
# git view: only files/symlinks, keyed by path (directories are implicit)

def git_view(t):
    p = paths_of(t)
    out = {ROOT: E(None, "", "d")}
    for i, e in t.items():
        if e["kind"] in ("f", "l"):
            out[p[i]] = E(ROOT, p[i], e["kind"], e["content"], e["exec"])
    return out


# --------------------------------------------------------------------------
# real trees

def make_obj(path, e):
    if e["kind"] == "d":
        os.mkdir(path)
    elif e["kind"] == "l":
        os.symlink(e["content"].decode(), path)
    else:
        with open(path, "wb") as f:
            f.write(e["content"])
        os.chmod(path, 0o755 if e["exec"] else 0o644)


def rm_obj(path):
    if os.path.islink(path) or os.path.isfile(path):
        os.unlink(path)
    elif os.path.isdir(path):
        shutil.rmtree(path)


def bfs(t):
    order, todo = [], [ROOT]
    while todo:
        x = todo.pop(0)
        order.append(x)
        todo += sorted(j for j, e in t.items() if e["parent"] == x)
    return order


def sync_bzr(wt, cur, tgt):
    """bring a bzr working tree from abstract state `cur` to `tgt`, keeping file ids"""
    root = wt.basedir
    with wt.lock_write():
        parked = set()
        for i in cur:
            if i != ROOT and i in tgt and (cur[i]["parent"], cur[i]["name"]) != (tgt[i]["parent"], tgt[i]["name"]):
                wt.rename_one(wt.id2path(i.encode()), "zz-" + i)
                parked.add(i)
        removed = [i for i in cur if i not in tgt]
        removed.sort(key=lambda i: -wt.id2path(i.encode()).count("/"))
        for i in removed:
            p = wt.id2path(i.encode())
            wt.remove([p], keep_files=False, force=True)
            rm_obj(os.path.join(root, p))
        tp = paths_of(tgt)
        for i in bfs(tgt):
            if i == ROOT:
                continue
            final = tp[i]
            absf = os.path.join(root, final)
            if i in cur:
                if i in parked:
                    wt.rename_one("zz-" + i, final)
                c, g = cur[i], tgt[i]
                if (c["kind"], c["content"], c["exec"]) != (g["kind"], g["content"], g["exec"]) and g["kind"] != "d":
                    rm_obj(absf)
                    make_obj(absf, g)
            else:
                make_obj(absf, tgt[i])
                wt.add([final], ids=[i.encode()])


def build_bzr(wt, t):
    tp = paths_of(t)
    for i in bfs(t):
        if i != ROOT:
            make_obj(os.path.join(wt.basedir, tp[i]), t[i])
    ids = [i for i in bfs(t) if i != ROOT]
    if ids:
        wt.add([tp[i] for i in ids], ids=[i.encode() for i in ids])


def prune_empty(root):
    for d, ds, fs in os.walk(root, topdown=False):
        if d != root and "/.git" not in d and not d.endswith("/.git") and not os.listdir(d):
            os.rmdir(d)


def sync_git(wt, cur, tgt):
    """path-keyed: cur/tgt are git views"""
    root = wt.basedir
    # a kind change is done as remove + add: committing an in-place kind change drops the path from the
    # git index (a commit defect outside this property, reported separately)
    rekind = {p for p in cur if p != ROOT and p in tgt and cur[p]["kind"] != tgt[p]["kind"]}
    gone = [p for p in cur if p != ROOT and (p not in tgt or p in rekind)]
    if gone:
        wt.remove(gone, keep_files=False, force=True)
        for p in gone:
            rm_obj(os.path.join(root, p))
    # a path that changes kind or turns from file into directory prefix: remove first
    for p in tgt:
        if p != ROOT and p in cur and cur[p] != tgt[p]:
            rm_obj(os.path.join(root, p))
    prune_empty(root)
    new = []
    for p in sorted(tgt):
        if p == ROOT:
            continue
        if p not in cur or cur[p] != tgt[p]:
            absf = os.path.join(root, p)
            os.makedirs(os.path.dirname(absf), exist_ok=True)
            make_obj(absf, tgt[p])
            if p not in cur or p in rekind:
                new.append(p)
    if new:
        wt.add(new)


def repair_git_index(wt, view):
    """GitWorkingTree.commit drops a path whose kind changed (file <-> symlink) from the index although
    the committed tree contains it (a commit defect, reported separately): put such paths back so that
    the working tree equals its basis before the merge."""
    missing = [p for p in view if p != ROOT and not wt.is_versioned(p)]
    if missing:
        wt.add(missing)
    return len(missing)


def dump_bzr(wt):
    out, extra = {}, []
    root = wt.basedir
    with wt.lock_read():
        rootid = wt.path2id("")
        versioned = set()
        for path, ie in wt.iter_entries_by_dir():
            versioned.add(path)
            i = ROOT if ie.file_id == rootid else ie.file_id.decode()
            if path == "":
                out[i] = E(None, "", "d")
                continue
            parent = ROOT if ie.parent_id == rootid else ie.parent_id.decode()
            out[i] = disk_entry(os.path.join(root, path), parent, ie.name)
    for d, ds, fs in os.walk(root):
        ds[:] = [x for x in ds if x != ".bzr"]
        for x in ds + fs:
            rel = os.path.relpath(os.path.join(d, x), root)
            if rel not in versioned:
                extra.append(rel)
    return out, sorted(extra)


def disk_entry(absf, parent, name):
    if os.path.islink(absf):
        return E(parent, name, "l", os.readlink(absf).encode())
    if os.path.isdir(absf):
        return E(parent, name, "d")
    if os.path.isfile(absf):
        with open(absf, "rb") as f:
            c = f.read()
        return E(parent, name, "f", c, bool(os.stat(absf).st_mode & stat.S_IXUSR))
    return E(parent, name, "missing")


def dump_git(wt):
    out, extra = {ROOT: E(None, "", "d")}, []
    root = wt.basedir
    with wt.lock_read():
        versioned = {p for p in wt.all_versioned_paths() if p and wt.kind(p) != "directory"} if False else None
        paths = [p for p in wt.all_versioned_paths() if p]
    vs = set()
    for p in paths:
        absf = os.path.join(root, p)
        if os.path.isdir(absf) and not os.path.islink(absf):
            continue
        vs.add(p)
        out[p] = disk_entry(absf, ROOT, p)
    for d, ds, fs in os.walk(root):
        ds[:] = [x for x in ds if x != ".git"]
        for x in fs + [y for y in ds if os.path.islink(os.path.join(d, y))]:
            rel = os.path.relpath(os.path.join(d, x), root)
            if rel not in vs:
                extra.append(rel)
    return out, sorted(extra)


MERGE_TYPES = {"merge3": "Merge3Merger", "weave": "WeaveMerger", "lca": "LCAMerger"}


def _s(x):
    return x.decode() if isinstance(x, bytes) else x


def real_entries(merger):
    """list(Merge3Merger._entries3()) of a not-yet-executed merger, made picklable; None for a criss-cross merger"""
    if merger._lca_trees is not None:
        return None
    ents = []
    with merger.base_tree.lock_read(), merger.other_tree.lock_read(), merger.this_tree.lock_read():
        for file_id, changed, paths3, parents3, names3, executable3, copied in merger._entries3():
            ents.append(dict(file_id=_s(file_id), changed=bool(changed), paths3=[_s(x) for x in paths3],
                             parents3=[_s(x) for x in parents3], names3=[_s(x) for x in names3],
                             executable3=list(executable3), copied=bool(copied)))
    return ents


def by_path(t, git):
    """path -> entry of an abstract tree (git: of its git view)"""
    if git:
        return {p: e for p, e in t.items() if p != ROOT}
    pp = paths_of(t)
    return {pp[i]: e for i, e in t.items()}


def change_lines(c, res, codes):
    """the model requests `change ...` for the real _entries3 elements of one case, and what is needed to put the
    model's per-element results back into a tree.  Contents come from the abstract trees (by path), every other
    attribute from the real element."""
    git = c["fmt"] == "git"
    trees = [c["base"], c["other"], c["this"]]
    if git:
        trees = [git_view(t) for t in trees]
    maps = [by_path(t, git) for t in trees]
    ents = res["entries"]
    ptab, ntab = {}, {}

    def code(tab, v):
        return tab.setdefault(v, len(tab) + 1)
    lines, keys = [], []
    for en in ents:
        pairs, parents, names, execs = [], [], [], []
        ok = True
        for k in range(3):
            path = en["paths3"][k]
            if path is None:
                pairs.append("~"); parents.append("~"); names.append("~")
                execs.append("~" if en["executable3"][k] is None else "T" if en["executable3"][k] else "F")
                continue
            e = maps[k].get(path)
            if e is None:
                if git and path == "":
                    ok = False      # the root directory of a git tree: not part of the git view
                    break
                # a directory of a git tree (implicit in the view)
                pairs.append("d.0")
            else:
                pairs.append("%s.%d" % (e["kind"], 0 if e["kind"] == "d" else codes.conts[e["content"]]))
            par = en["parents3"][k]
            parents.append("^" if par is None else str(code(ptab, par)))
            names.append("~" if en["names3"][k] is None else str(code(ntab, en["names3"][k])))
            x = en["executable3"][k]
            execs.append("~" if x is None else "T" if x else "F")
        if not ok:
            continue
        # what THIS has, versioned, at the copy's OWN path (read by the `if copied:` block since 2bc6965+a2e75d3)
        tc = "~"
        en["this_at_copy"] = None
        if en["copied"] and en["paths3"][1] is not None:
            te = maps[2].get(en["paths3"][1])
            if te is not None and te["kind"] != "d":
                q = en["paths3"][1]
                dn, bn = (q.rsplit("/", 1) if "/" in q else ("", q))
                if not git:           # (copies are only reported by git trees)
                    dn = en["parents3"][1]
                tc = "%s.%d;%s;%d;%s" % (te["kind"], codes.conts[te["content"]], code(ptab, dn), code(ntab, bn),
                                        "T" if te["exec"] else "F")
                en["this_at_copy"] = q
        lines.append("change %s %s %s %s %s %s %s" % ("T" if en["changed"] else "F", "T" if en["copied"] else "F",
                                                    "/".join(pairs), "/".join(parents), "/".join(names), "/".join(execs), tc))
        keys.append(en)
    return lines, keys, {v: k for k, v in ptab.items()}, {v: k for k, v in ntab.items()}


def compose(c, res, codes, keys, replies, pinv, ninv, dump):
    """THIS with the model's per-element results put in place: (tree, {key: [conflict kinds]}).
    bzr: keyed by file id; git: keyed by path (the element's trans_id is THIS's path, its final place parent/name)."""
    git = c["fmt"] == "git"
    cinv = {v: k for k, v in codes.conts.items()}
    exp = copy_tree(git_view(c["this"]) if git else c["this"])
    confs = {}
    placed = []
    for en, rep in zip(keys, replies):
        ent, cf = rep.split(" ")
        fid = en["file_id"]
        if git:
            key = en["paths3"][1] if en["copied"] else (en["paths3"][2] or en["paths3"][1] or en["paths3"][0])
            if not en["copied"] and en["paths3"][2] is not None:
                exp.pop(en["paths3"][2], None)
            if en["copied"] and en.get("this_at_copy") is not None:
                exp.pop(en["this_at_copy"], None)      # the element's trans_id is THIS's file at the copy's path
        else:
            key = ROOT if fid == res.get("rootid") else fid
            exp.pop(key, None)
        if cf != "-":
            confs[key] = cf.split(",")
        if ent == "-":
            continue
        p, n, k, cc, x = ent.split(":")
        parent = None if p == "^" else pinv[int(p)]
        name = ninv[int(n)]
        if git:
            if k == "d":
                continue
            path = name if parent in (None, "") else parent + "/" + name
            content = dump.get(path, {}).get("content") if cc == "?" else cinv[int(cc)]
            placed.append((path, E(ROOT, path, k, content, x == "T")))
        else:
            parent = ROOT if parent == res.get("rootid") else parent
            content = b"" if k == "d" else dump.get(key, {}).get("content") if cc == "?" else cinv[int(cc)]
            placed.append((key, E(parent, name, k, content, x == "T")))
    for key, e in placed:
        exp[key] = e
    return exp, confs


def run_case(c):
    """c: dict(fmt, mtype, via, rel, base, this, other).  Builds the branches, merges, dumps."""
    from breezy import merge as _mod_merge
    fmt = c["fmt"]
    base, this, other = c["base"], c["this"], c["other"]
    out = dict(exc=None, dump=None, extra=None, conflicts=None, reported=None)
    try:
        wt = env.make_tree(fmt)
        if fmt == "git":
            gb, gt, go = git_view(base), git_view(this), git_view(other)
            sync_git(wt, {ROOT: gb[ROOT]}, gb)
        else:
            build_bzr(wt, base)
        base_rev = wt.commit("base", allow_pointless=True)
        odir = env.fresh_dir("other")
        owt = wt.controldir.sprout(odir).open_workingtree()
        if c["rel"] == "X3":
            # base -> B (in THIS's branch), base -> C (in OTHER's branch); each tip then records the other side's
            # LCA as a merged parent and carries the tree this/other: LCAs of the tips = {B, C}
            lb, lc = c["info"]["lcas"]
            sync_bzr(wt, base, lb)
            rev_b = wt.commit("lca B", allow_pointless=True)
            sync_bzr(owt, base, lc)
            rev_c = owt.commit("lca C", allow_pointless=True)
            wt.branch.repository.fetch(owt.branch.repository, rev_c)
            owt.branch.repository.fetch(wt.branch.repository, rev_b)
            owt.add_pending_merge(rev_b)
            sync_bzr(owt, lc, other)
            other_rev = owt.commit("other (merges B)", allow_pointless=True)
            wt.add_pending_merge(rev_c)
            sync_bzr(wt, lb, this)
            wt.commit("this (merges C)", allow_pointless=True)
        elif fmt == "git":
            sync_git(owt, gb, go)
            other_rev = owt.commit("other", allow_pointless=True)
        else:
            sync_bzr(owt, base, other)
            other_rev = owt.commit("other", allow_pointless=True)
        if fmt == "git":
            out["index_repaired"] = repair_git_index(owt, go)
            if c.get("info", {}).get("copy"):
                # how many entries the real iter_changes(OTHER vs BASE) reports as copies (evidence only)
                repo = owt.branch.repository
                ot, bt = repo.revision_tree(other_rev), repo.revision_tree(base_rev)
                with ot.lock_read(), bt.lock_read():
                    out["copied"] = sum(1 for ch in ot.iter_changes(bt) if ch.copied)
        if c["rel"] == "X3":
            pass
        elif fmt == "git":
            sync_git(wt, gb, gt)
            wt.commit("this", allow_pointless=True)
        else:
            sync_bzr(wt, base, this)
            wt.commit("this", allow_pointless=True)
        if fmt == "git":
            out["index_repaired"] = (out.get("index_repaired") or 0) + repair_git_index(wt, gt)
    except Exception as e:  # noqa
        out["exc"] = "setup:" + type(e).__name__ + ":" + str(e)[:200]
        return out
    mt = getattr(_mod_merge, MERGE_TYPES[c["mtype"]])
    try:
        # the elements the real _entries3 yields for this merge (input of the entries-level tie): taken from
        # a second, never-executed merger so that the merge under test runs exactly as a user would run it
        with wt.lock_write():
            m0 = _mod_merge.Merger.from_revision_ids(wt, other_rev, other_branch=owt.branch)
            m0.merge_type = mt
            out["entries"] = real_entries(m0.make_merger())
            out["criss_cross"] = bool(m0._is_criss_cross)
            if fmt != "git":
                out["rootid"] = wt.path2id("").decode()
    except Exception as e:  # noqa
        out["entries_exc"] = type(e).__name__ + ":" + str(e)[:200]
    try:
        if c["via"] == "merger":
            with wt.lock_write():
                m = _mod_merge.Merger.from_revision_ids(wt, other_rev, other_branch=owt.branch)
                m.merge_type = mt
                reported = m.do_merge()
        else:
            reported = wt.merge_from_branch(owt.branch, merge_type=mt)
        # the conflicts the merge itself REPORTS (its return value): a git working tree does not persist every
        # conflict in its index, so wt.conflicts() alone would miss some
        out["reported"] = sorted((x.typestring, getattr(x, "path", None) or "") for x in (reported or []))
    except Exception as e:  # noqa
        out["exc"] = "merge:" + type(e).__name__ + ":" + str(e)[:200]
    try:
        out["dump"], out["extra"] = (dump_git if fmt == "git" else dump_bzr)(wt)
        out["conflicts"] = sorted((x.typestring, x.path) for x in wt.conflicts())
        out["conflict_ids"] = sorted((x.typestring, (getattr(x, "file_id", None) or b"").decode()) for x in wt.conflicts())
    except Exception as e:  # noqa
        out["exc"] = (out["exc"] or "") + " dump:" + type(e).__name__ + ":" + str(e)[:200]
    return out


# --------------------------------------------------------------------------
# encoding for the model

class Codes:
    def __init__(self, trees):
        ids, names, conts = set(), set(), set()
        for t in trees:
            for i, e in t.items():
                ids.add(i)
                names.add(e["name"])
                if e["kind"] != "d":
                    conts.add(e["content"])
        rest = sorted(ids - {ROOT})
        self.ids = {ROOT: 0}
        self.ids.update({i: k + 1 for k, i in enumerate(rest)})
        self.names = {n: k for k, n in enumerate(sorted(names))}
        self.conts = {c: k + 1 for k, c in enumerate(sorted(conts))}

    def tree(self, t, strict=True):
        parts = []
        for i in sorted(t, key=lambda x: self.ids.get(x, 10 ** 6)):
            e = t[i]
            ic = self.ids.get(i, "?" + i)
            pc = "~" if e["parent"] is None else self.ids.get(e["parent"], "?" + str(e["parent"]))
            nc = self.names.get(e["name"], "?" + e["name"])
            cc = 0 if e["kind"] == "d" else self.conts.get(e["content"], "?")
            parts.append("%s:%s:%s:%s:%s:%s" % (ic, pc, nc, e["kind"], cc, "T" if e["exec"] else "F"))
        return ",".join(parts) or "-"


def jsonable(t):
    return {i: [e["parent"], e["name"], e["kind"], e["content"].decode("latin-1"), e["exec"]] for i, e in sorted(t.items())}


def unjson(j):
    return {i: E(v[0], v[1], v[2], v[3].encode("latin-1"), v[4]) for i, v in j.items()}


def _run(c):
    return run_case(c)


def corpus_cases():
    """minimised past failures, run first on every run"""
    out = []
    # a symlink pointing at itself becomes a file in OTHER (ELOOP in _set_mode before fix ec61b74)
    base = {ROOT: E(None, "", "d"), "s1": E(ROOT, "b", "l", b"b"), "f2": E(ROOT, "a", "f", b"x\n2\n"),
            "s3": E(ROOT, "c", "l", b"d"), "s4": E(ROOT, "d", "l", b"c")}
    other = copy_tree(base)
    other["s1"] = E(ROOT, "b", "f", b"was link s1\n")
    other["s3"] = E(ROOT, "c", "f", b"was link s3\n", True)
    this = copy_tree(base)
    out.append(dict(fmt="2a", mtype="merge3", via="merger", rel="L2", base=base, this=this, other=other,
                    exp=copy_tree(other), info=dict(ops=["kind"])))
    this2 = copy_tree(base)
    this2["f2"]["content"] = b"x\n2\nedit\n"
    exp = copy_tree(other)
    exp["f2"] = dict(this2["f2"])
    out.append(dict(fmt="2a", mtype="weave", via="mfb", rel="L4", base=base, this=this2, other=copy_tree(other),
                    exp=exp, info=dict(ops=["kind", "edit"], union_wf=True)))
    return out


def fixed_finding_cases():
    """pinned inputs of findings of this check that were repaired in /repo (regression guard)"""
    out = []
    # git: both sides empty directory c (move its only file into the same new directory d): the trees are identical,
    # yet do_merge() returned "Text conflict in d" (family git-identical-directory-rename-spurious-conflict; fix bb2cb24)
    base = {ROOT: E(None, "", "d"), "d2": E(ROOT, "c", "d"), "d6": E(ROOT, "d", "d"), "f5": E(ROOT, "a", "f", b"y\n5\n"),
            "s4": E("d2", "c", "l", b"target")}
    this = copy_tree(base)
    this["s4"]["parent"] = "d6"
    out.append(dict(fmt="git", mtype="merge3", via="merger", rel="L3", base=base, this=this, other=copy_tree(this),
                    exp=copy_tree(this), info=dict(ops=["move"])))
    return out


def pending_finding_cases():
    """pinned inputs of findings that are NOT yet triaged (no fix in /repo, no known-finding entry): evaluated LAST so
    that any other violation of a run is the one reported first"""
    out = []
    # git, L4: OTHER deletes the only file of directory c, THIS adds c/g: do_merge() returns "Text conflict in c"
    # (family git-emptied-directory-vs-add-inside-spurious-conflict)
    base = {ROOT: E(None, "", "d"), "d1": E(ROOT, "c", "d"), "f2": E(ROOT, "b", "f", b"top\n"), "f3": E("d1", "b", "f", b"in c\n")}
    this = copy_tree(base)
    this["nt1"] = E("d1", "g", "f", b"new in this\n", True)
    other = copy_tree(base)
    del other["f3"]
    exp = copy_tree(this)
    del exp["f3"]
    out.append(dict(fmt="git", mtype="merge3", via="merger", rel="L4", base=base, this=this, other=other, exp=exp,
                    info=dict(ops=["add", "delete"], union_wf=True)))
    # git, L3: both sides delete d and rename e to d: the merge deletes d and returns "Text conflict in d"
    # (family git-rename-onto-replaced-path-vs-change)
    base = {ROOT: E(None, "", "d"), "f4": E(ROOT, "d", "f", b"4\n"), "f5": E(ROOT, "e", "f", b"w\nx\nz\nx\n5\n"),
            "f6": E(ROOT, "keep", "f", b"k\n")}
    this = copy_tree(base)
    del this["f4"]
    this["f5"]["name"] = "d"
    out.append(dict(fmt="git", mtype="merge3", via="merger", rel="L3", base=base, this=this, other=copy_tree(this),
                    exp=copy_tree(this), info=dict(ops=["delete", "rename"])))
    return out


OLD = b"".join(b"line %d\n" % i for i in range(8))


def copy_case(shape, law, mtype="merge3", via="merger", old=OLD, xname="x", ex=False, cex=None):
    """git: OTHER adds `c`, a copy of the BASE version of `a` (dulwich reports it as copied), while it also
    rewrites `a` (shape "modify") or renames it to `b` (shape "rename"); law L2 (THIS = BASE) or L4 (THIS
    edits another file)."""
    base = {ROOT: E(None, "", "d"), "fa": E(ROOT, "a", "f", old, ex), "fx": E(ROOT, xname, "f", b"x1\n", True)}
    other = copy_tree(base)
    if shape == "modify":
        other["fa"]["content"] = b"completely rewritten\n"
    else:
        other["fa"]["name"] = "b"
    other["nc"] = E(ROOT, "c", "f", old, ex if cex is None else cex)
    if shape == "split":
        # OTHER deletes `a` and adds two identical files: one is the rename, the other a copy
        del other["fa"]
        other["nc"]["exec"] = ex
        other["nd"] = E(ROOT, "c2", "f", old, ex if cex is None else cex)
    this = copy_tree(base)
    if law == "L4":
        this["fx"]["content"] = b"x1\nthis edit\n"
    if law == "L3":
        this = copy_tree(other)
    exp = copy_tree(other)
    exp["fx"] = dict(this["fx"])
    return dict(fmt="git", mtype=mtype, via=via, rel=law, base=base, this=this, other=other, exp=exp,
                info=dict(ops=["copy", shape], union_wf=True))


COPY_SHAPES = ["modify", "chmod", "rename", "split", "near"]
WORDS = [b"alpha", b"beta", b"gamma", b"delta", b"epsilon", b"zeta"]


def gen_copy_case(rng, law, shape, fmt="git", mtype="merge3", via="merger"):
    """OTHER contains files that git's rename detector reports as COPIES of a BASE file `src` (bzr trees never report
    copies: the same triple is then an ordinary add).  Shapes: OTHER rewrites ("modify") or only chmods ("chmod") src and
    adds verbatim copies of its BASE text; renames src and adds copies ("rename": of the identical adds one is the
    rename, the others are copies); deletes src and adds >= 2 identical files ("split"); rewrites src and adds a
    similar-but-not-identical file ("near": an inexact copy).  Every copy gets its own random exec bit, independent of
    the exec bit of src in BASE (the copy's attributes are OTHER's, not the source's).  Laws: L2 (THIS = BASE),
    L3 (THIS = OTHER), L4 (THIS changes other files)."""
    base = gen_base(rng, True)
    lines = [b"%s %d\n" % (rng.choice(WORDS), rng.randint(0, 999)) for _ in range(rng.randint(6, 12))]
    old = b"".join(lines)
    parent = rng.choice(dirs_of(base))
    name = free_name(rng, base, parent)
    if name is None:
        return None
    base["src"] = E(parent, name, "f", old, rng.random() < 0.5)
    other = copy_tree(base)
    ncopies = rng.randint(1, 2)
    if shape == "modify":
        other["src"]["content"] = rng.choice([b"completely rewritten\n", old + b"one more line\n", b"".join(lines[1:])])
    elif shape == "chmod":
        other["src"]["exec"] = not other["src"]["exec"]
    elif shape == "rename":
        nn = free_name(rng, other, other["src"]["parent"])
        if nn is None:
            return None
        other["src"]["name"] = nn
    elif shape == "split":
        del other["src"]
        ncopies = rng.randint(2, 3)
    elif shape == "near":
        other["src"]["content"] = b"completely rewritten\n"
    else:
        raise ValueError(shape)
    execs = []
    for k in range(ncopies):
        d = rng.choice(dirs_of(other))
        nn = free_name(rng, other, d)
        if nn is None:
            return None
        content = old
        if shape == "near" or (shape in ("modify", "rename") and rng.random() < 0.25):
            near = list(lines)
            near[rng.randrange(len(near))] = b"changed in the copy %d\n" % k
            content = b"".join(near)
        ex = rng.random() < 0.5
        execs.append(ex)
        other["nc%d" % (k + 1)] = E(d, nn, "f", content, ex)
    info = dict(ops=["copy", "copy:" + shape], union_wf=True, copy=True,
                copy_exec=("differs" if any(x != base["src"]["exec"] for x in execs) else "same"))
    if law == "L2":
        this = copy_tree(base)
        exp = copy_tree(other)
    elif law == "L3":
        this = copy_tree(other)
        exp = copy_tree(other)
    elif law == "G8":
        # NOT a law (tie only): THIS has added a DIFFERENT file at the path of one of OTHER's copies: the copy block
        # must merge the copy with THIS's file at that path (not with the copy source, not overwrite it)
        this = copy_tree(base)
        k = rng.randint(1, ncopies)
        ce = other["nc%d" % k]
        if ce["parent"] not in this:
            return None
        this["ntc"] = E(ce["parent"], ce["name"], "f", b"this side's own file\n" + text(rng), rng.random() < 0.5)
        exp = {}
        info["ops"] = info["ops"] + ["add"]
    elif law == "L4":
        allowed = [i for i, e in base.items() if i not in (ROOT, "src") and e["kind"] != "d"]
        if not allowed:
            return None
        this, _, ops = script(rng, base, allowed, "t", ops=["edit", "chmod", "rename", "delete", "add", "kind"], nmax=3)
        cht, cho = changed_ids(base, this), changed_ids(base, other)
        if not cht or cht & cho:
            return None
        exp = {}
        for i in set(base) | set(this) | set(other):
            src = other if i in cho else this
            if i in src:
                exp[i] = dict(src[i])
        if not wf(exp):
            return None
        vb, vt, vo = git_view(base), git_view(this), git_view(other)
        if changed_ids(vb, vt) & changed_ids(vb, vo):
            return None
        info["ops"] = info["ops"] + ops
    else:
        raise ValueError(law)
    if not (wf(base) and wf(this) and wf(other)):
        return None
    return dict(fmt=fmt, mtype=mtype, via=via, rel=law, base=base, this=this, other=other, exp=exp, info=info)


def build_cases(ctx, n, scale=1):
    rng = ctx.rng
    cases = corpus_cases() + fixed_finding_cases()
    # pinned: copies on git trees (seeded defect: `changed = True` dropped from the `if copied:` branch)
    for shape in ("modify", "rename"):
        for law in ("L2", "L4"):
            cases.append(copy_case(shape, law))
    # pinned: a copy whose exec bit differs from its source's bit in BASE (seeded defect C17b: executable3[0])
    cases.append(copy_case("modify", "L2", ex=True, cex=False))
    cases.append(copy_case("split", "L3", mtype="weave", ex=False, cex=True))
    cases.append(copy_case("rename", "L4", mtype="lca", via="mfb", ex=False, cex=True))
    # and randomised variants of the same shapes
    for _ in range(ctx.pick(4, 40)):
        old = b"".join(rng.choice([b"alpha\n", b"beta\n", b"gamma\n", b"delta %d\n" % rng.randint(0, 99)])
                       for _ in range(rng.randint(6, 12)))
        cases.append(copy_case(rng.choice(["modify", "rename"]), rng.choice(["L2", "L4"]),
                               mtype=rng.choice(["merge3", "weave", "lca"]), via=rng.choice(["merger", "mfb"]),
                               old=old, xname=rng.choice(["x", "d", "e"]), ex=rng.random() < 0.3))
    # the copy family at large: every shape x law, random surroundings, independent exec bits of the copies
    k = 0
    want = ctx.pick(40, 260) * scale
    got = 0
    for _ in range(want * 20):
        if got >= want:
            break
        shape = COPY_SHAPES[k % len(COPY_SHAPES)]
        law = ["L2", "L3", "L4", "G8"][(k // len(COPY_SHAPES)) % 4]
        g = gen_copy_case(rng, law, shape, fmt="2a" if law != "G8" and rng.random() < 0.15 else "git",
                          mtype=rng.choice(["merge3", "merge3", "weave", "lca"]), via=rng.choice(["merger", "merger", "mfb"]))
        k += 1
        if g is None:
            continue
        cases.append(g)
        got += 1
    # the conflict stream: every (op of THIS, op of OTHER) pair on one entry, bzr trees (conflicts are compared per file id)
    for rnd in range(ctx.pick(1, 6) * scale):
        for opt in C7_OPS:
            for opo in C7_OPS:
                for _try in range(6):
                    g = gen_case(rng, "C7", False, pair=(opt, opo))
                    if g is not None:
                        base, this, other, exp, info = g
                        cases.append(dict(fmt="2a", mtype=rng.choice(["merge3", "merge3", "weave", "lca"]),
                                          via=rng.choice(["merger", "merger", "mfb"]), rel="C7", base=base, this=this,
                                          other=other, exp=exp, info=info))
                        break
    # criss-cross histories with identical tips (bzr: _entries_lca needs inventories)
    got = 0
    for _ in range(ctx.pick(12, 80) * scale * 10):
        if got >= ctx.pick(12, 80) * scale:
            break
        g = gen_case(rng, "X3", False)
        if g is None:
            continue
        base, this, other, exp, info = g
        cases.append(dict(fmt="2a", mtype=["merge3", "weave", "lca"][got % 3], via=rng.choice(["merger", "mfb"]), rel="X3",
                          base=base, this=this, other=other, exp=exp, info=info))
        got += 1
    rels = ["L1", "L2", "L3", "L4", "L4", "L4", "A5", "T6"]
    k = 0
    tries = 0
    n += len(cases)
    while len(cases) < n and tries < n * 20:
        tries += 1
        rel = rels[k % len(rels)]
        fmt = "git" if (k // len(rels)) % 3 == 2 else "2a"
        g = gen_case(rng, rel, fmt == "git")
        if g is None:
            continue
        base, this, other, exp, info = g
        mtype = rng.choice(["merge3", "merge3", "weave", "lca"])
        if fmt == "git" and rel in ("T6", "A5"):
            mtype = "merge3"       # git trees have no plan_file_merge: weave/lca text merges raise AttributeError
        via = rng.choice(["merger", "merger", "mfb"])
        if fmt == "git":
            # empty directories are not representable; compare the git views
            if rel == "L4" and info.get("union_wf"):
                vb, vt, vo = git_view(base), git_view(this), git_view(other)
                if changed_ids(vb, vt) & changed_ids(vb, vo):
                    continue          # e.g. both sides touch the same path through renames
        cases.append(dict(fmt=fmt, mtype=mtype, via=via, rel=rel, base=base, this=this, other=other, exp=exp, info=info))
        k += 1
    return cases + pending_finding_cases()


def evaluate(ctx, c, res, lines, impls, recs, pend=None):
    fmt, rel = c["fmt"], c["rel"]
    base, this, other, exp = c["base"], c["this"], c["other"], c["exp"]
    excluded = rel == "L4" and not (c["info"].get("union_wf") and wf(exp))
    fam = None
    if fmt == "git":
        base, this, other = git_view(base), git_view(this), git_view(other)
        idexp = git_view(exp) if not excluded else {}
        exp = idexp
        if rel == "L4" and not excluded:
            # path-keyed union: OTHER's entry where OTHER changed the path, else THIS's
            cho = changed_ids(base, other)
            exp = {}
            for p in set(base) | set(this) | set(other):
                src = other if p in cho else this
                if p in src:
                    exp[p] = dict(src[p])
            paths = [p for p in exp if p != ROOT]
            if any(q.startswith(p + "/") for p in paths for q in paths):
                # a path is a file on one side and a directory on the other: the path-keyed union is not a tree
                ctx.count("excluded:git-L4-file-directory-clash:" + ("raised" if res["exc"] else "conflicts" if res["conflicts"] else "clean"))
                ctx.case([fmt, rel, "file-dir-clash", jsonable(c["base"]), jsonable(c["this"]), jsonable(c["other"])], nontrivial=False)
                return
            if exp != idexp:
                # one side renames/moves a directory, the other adds or keeps a changed path inside it
                fam = F_GITDIR
        fam = fam or git_family(base, this, other)
        if fam:
            ctx.count("family-input:" + fam)
    rec = dict(fmt=fmt, mtype=c["mtype"], via=c["via"], rel=rel,
               base=jsonable(c["base"]), this=jsonable(c["this"]), other=jsonable(c["other"]))
    if rel == "X3":
        rec["lcas"] = [jsonable(t) for t in c["info"]["lcas"]]
    interesting = bool(set(c["info"]["ops"]) - {"edit"}) or rel in ("L4", "A5", "T6")
    ctx.case([fmt, c["mtype"], c["via"], rel, rec["base"], rec["this"], rec["other"], rec.get("lcas")],
             nontrivial=interesting and not excluded)
    ctx.count("fmt:" + fmt); ctx.count("type:" + c["mtype"]); ctx.count("via:" + c["via"]); ctx.count("rel:" + rel)
    ctx.count("ids:%d" % len(set(base) | set(this) | set(other)))
    for op in c["info"]["ops"]:
        ctx.count("op:" + op)
    if c["info"].get("copy"):
        ctx.count("copy-exec-vs-source:%s:%s" % (fmt, c["info"].get("copy_exec")))
        if fmt == "git":
            ctx.count("git-copies-reported-by-iter_changes:%s:%s:%s" % (c["info"]["ops"][1], rel, min(res.get("copied") or 0, 3)))
    if res.get("index_repaired"):
        ctx.count("git-index-repaired-after-kind-change-commit", res["index_repaired"])
    if res["exc"] and res["exc"].startswith("setup:"):
        ctx.count("setup-failed")
        ctx.extra.setdefault("setup_failures", []).append(res["exc"])
        return
    if rel == "G8":
        ctx.count("G8:" + ("raised" if res["exc"] else "conflicts" if res["conflicts"] else "clean"))
        if pend is not None and not res["exc"] and res.get("entries") is not None and res["dump"] is not None:
            codes2 = Codes([base, this, other])
            cl, keys, pinv, ninv = change_lines(c, res, codes2)
            if not any(en.get("this_at_copy") for en in keys):
                # the detector made THIS's path the RENAME target (or a plain add), not a copy: a duplicate, resolved by
                # the file-system conflict pass (b.moved), which is not modelled
                ctx.count("G8:clash-path-is-not-a-copy-target")
                return
            pend.append(dict(c=c, res=res, codes=codes2, lines=cl, keys=keys, pinv=pinv, ninv=ninv, rec=rec,
                             dump=res["dump"], mode="clash"))
            ctx.count("entries-tie:clash-cases")
            ctx.count("entries-tie:elements", len(cl))
            ctx.count("G8:this-at-copy-elements", sum(1 for en in keys if en.get("this_at_copy")))
        return
    if rel == "C7":
        ctx.count("C7:" + ("raised" if res["exc"] else "conflicts" if res["conflicts"] else "clean"))
        ctx.count("C7:pair:" + c["info"].get("pair", "?"))
        for t, _p in res["conflicts"] or []:
            ctx.count("C7:real:" + t)
        if pend is not None and not res["exc"] and res.get("entries") is not None and res["dump"] is not None:
            codes2 = Codes([base, this, other])
            cl, keys, pinv, ninv = change_lines(c, res, codes2)
            pend.append(dict(c=c, res=res, codes=codes2, lines=cl, keys=keys, pinv=pinv, ninv=ninv, rec=rec,
                             dump=res["dump"], mode="conflict"))
            ctx.count("entries-tie:conflict-cases")
            ctx.count("entries-tie:elements", len(cl))
        return
    if fmt == "git" and rel == "A5" and any(p in base and this[p] != base[p] for p in this):
        # THIS renamed a file onto a path another file had in BASE (rename chain / swap): "the same file"
        # is not defined for path-keyed trees; outside the laws, outcome only recorded
        ctx.count("excluded:git-A5-path-reuse:" + ("raised" if res["exc"] else "conflicts" if res["conflicts"] else "clean"))
        return
    if excluded:
        # union not well-formed (e.g. OTHER adds below a directory THIS deleted): nothing is demanded
        ctx.count("excluded:L4-union-not-wf:" + ("conflicts" if res["conflicts"] else "clean") + (":raised" if res["exc"] else ""))
        return
    if res["exc"]:
        if symlink_loop_to_file(c["this"], c["exp"]):
            ctx.count("input:symlink-loop-becomes-file")      # repaired (fix: ec61b74); a failure here is a plain violation
        ctx.violation(rec, "%s merge raised %s" % (rel, res["exc"]), family=fam)
        return
    dump = res["dump"]
    # ---- oracle: the law itself -------------------------------------------
    nviol = len(ctx.violations)
    if fam == F_GITNEWDIR and not res["conflicts"] and not res["extra"] and dump == exp and res.get("reported") \
            and identical_dir_rename(base, this, other, res["reported"]):
        # the tree is right, but the merge RETURNS a conflict on the new directory (not the raise of F_GITNEWDIR)
        fam = F_GITDIRREN
    if not fam and fmt == "git" and not res["conflicts"] and not res["extra"] and dump == exp and res.get("reported") \
            and emptied_dir_vs_add_inside(base, this, other, res["reported"]):
        # the tree is right; the merge RETURNS the cooked 'deleting parent' of the directory OTHER emptied
        fam = F_GITEMPTIED
    if res["conflicts"]:
        ctx.violation(rec, "%s: conflicts reported %r" % (rel, res["conflicts"]), family=fam)
    elif res.get("reported"):
        ctx.violation(rec, "%s: the merge returned conflicts %r (not recorded in the working tree)" % (rel, res["reported"]),
                      family=fam)
    if res["extra"]:
        ctx.violation(rec, "%s: stray unversioned files %r" % (rel, res["extra"]), family=fam)
    if dump != exp:
        diff = {i: (jsonable({i: dump[i]})[i] if i in dump else None, jsonable({i: exp[i]})[i] if i in exp else None)
                for i in set(dump) | set(exp) if dump.get(i) != exp.get(i)}
        # the known git families are about PATHS (a file at the wrong place / missing / unversioned); a merged
        # tree that has every path, kind and content right and only an executable bit wrong is none of them
        exec_only = set(dump) == set(exp) and all(
            {k: v for k, v in dump[i].items() if k != "exec"} == {k: v for k, v in exp[i].items() if k != "exec"} for i in dump)
        ctx.violation(rec, "%s: merged tree differs from %s: {id: (got, expected)} = %r" % (
            rel, {"L1": "THIS", "L2": "OTHER", "L3": "THIS", "X3": "THIS", "L4": "the union"}.get(rel, "both changes applied"), diff),
            family=None if exec_only else fam)
    if fam and len(ctx.violations) > nviol:
        return      # reported under its family; the path-keyed model has nothing more to say about it
    if rel == "X3":
        ctx.count("X3:criss-cross-detected:%s" % res.get("criss_cross"))
        return          # oracle only: _entries_lca / _lca_multi_way enumeration is not modelled here (C18 models the decision)
    # ---- entries-level tie: the model's loop body on the elements the real _entries3 yields --------------
    if pend is not None and res.get("entries") is not None and not fam:
        codes2 = Codes([base, this, other])
        cl, keys, pinv, ninv = change_lines(c, res, codes2)
        pend.append(dict(c=c, res=res, codes=codes2, lines=cl, keys=keys, pinv=pinv, ninv=ninv, rec=rec, dump=dump,
                         mode="law"))
        ctx.count("entries-tie:cases")
        ctx.count("entries-tie:elements", len(cl))
        if fmt == "git" and rel in ("L2", "L3", "L4"):
            bad = isdiff_check(c, res)
            ctx.count("git-IsDiff-hypotheses:" + rel + ":" + ("hold" if not bad else "fail:" + "+".join(bad)))
            if bad:
                # the git_merge_* theorems do not cover this enumeration: a gap in the tie, reported as such
                ctx.mismatch(rec, impl="real _entries3 enumeration %r" % [(e["paths3"], e["copied"]) for e in res["entries"]],
                             model="hypotheses of git_merge_* (IsDiff / where THIS has the files) fail: %s" % "+".join(bad))
        for en in keys:
            if en["copied"]:
                ctx.count("entries-tie:copied-elements")
            elif en["paths3"][0] and en["paths3"][1] and en["paths3"][0] != en["paths3"][1]:
                ctx.count("entries-tie:renamed-elements")
    elif pend is not None and res.get("entries_exc"):
        ctx.count("entries-tie:unavailable")
    # ---- model ----------------------------------------------------------------
    if fmt == "git" and rel == "A5":
        # rename + edit of the same file: the real code follows git's rename detection, the path-keyed
        # model sees "deleted here, modified there"; only the oracle (both changes applied) is evaluated
        ctx.count("git-A5-oracle-only")
        return
    codes = Codes([base, this, other] + ([exp] if rel == "T6" else []))
    ids = ",".join(str(v) for v in sorted(codes.ids.values()))
    line = "merge %s %s %s %s" % (ids, codes.tree(base), codes.tree(this), codes.tree(other))
    conf = "-"
    if res["conflicts"]:
        conf = ",".join("%s:%s" % (p, t.replace(" ", "_")) for t, p in res["conflicts"])
    if rel == "T6":
        # content of the text-merged file is not predicted by the model: compare it as `?`
        d2 = copy_tree(dump)
        impl_tree = codes.tree(d2)
        lc = codes.ids["long" if fmt != "git" else "long-file"]
        impl_tree = ",".join((p.rsplit(":", 2)[0] + ":?:" + p.rsplit(":", 1)[1]) if p.split(":")[0] == str(lc) else p
                             for p in impl_tree.split(","))
        conf = "%d:textmerge" % lc if not res["conflicts"] else conf
    else:
        impl_tree = codes.tree(dump)
    lines.append(line)
    impls.append("%s %s %s" % (impl_tree, conf, "T" if wf(dump) else "F"))
    recs.append(rec)


def isdiff_check(c, res):
    """the hypotheses of git_merge_this_eq_base / _identical / _disjoint (IsDiff + where THIS has the files),
    evaluated on the REAL enumeration of a git case.  Returns the list of conditions that fail ([] = all hold)."""
    vb, vo, vt = git_view(c["base"]), git_view(c["other"]), git_view(c["this"])
    for t in (vb, vo, vt):
        t.pop(ROOT, None)
    els = []
    for en in res["entries"]:
        src, dst, cur = en["paths3"]
        # directories are implicit in git trees: elements about them carry no information in the view
        if (src is not None and src not in vb) or (dst is not None and dst not in vo):
            if (src is None or src not in vb) and (dst is None or dst not in vo):
                continue
        els.append((src, dst, cur, en["copied"]))
    bad = []
    dsts = {d for _s, d, _c, _cp in els if d is not None}
    for src, dst, cur, cp in els:
        if not cp and vo.get(dst) == vb.get(src):      # view entries carry their path as name
            bad.append("changed")
        if cp and dst not in vo:
            bad.append("copyTarget")
        if cp and dst in vb:
            bad.append("copyFresh")
        if dst is not None and (dst not in vo or vo.get(dst) == vb.get(dst)):
            bad.append("target")
        if src is not None and src not in vb:
            bad.append("source")
        if not cp and src is not None and not (src not in vo or src in dsts):
            bad.append("vacated")
    for p in set(vb) | set(vo):
        if vo.get(p) != vb.get(p):
            if not (p in dsts or (p not in vo and any(s == p and not cp for s, _d, _c, cp in els))):
                bad.append("complete")
    rel = c["rel"]
    for src, dst, cur, cp in els:
        if cp:
            continue
        if rel == "L2" and cur != src:
            bad.append("cur=src")
        if rel == "L3" and cur != dst:
            bad.append("cur=dst")
        if rel == "L4" and (cur != src or vt.get(src) != vb.get(src)):
            bad.append("cur=src,this=base")
    return sorted(set(bad))


def entries_tie(ctx, pend):
    """one batched model call for all `change` requests; per case: THIS with the model's per-element results put
    in place must be the real merged tree, and the model must report no conflict (law-shaped cases)"""
    flat = [l for p in pend for l in p["lines"]]
    if not flat:
        return
    replies = ctx.model(flat)
    k = 0
    for p in pend:
        rep = replies[k:k + len(p["lines"])]
        k += len(p["lines"])
        if any(r == "bad-op" or " " not in r for r in rep):
            ctx.mismatch(p["rec"], impl="(entries)", model="bad-op for %r" % [l for l, r in zip(p["lines"], rep) if " " not in r or r == "bad-op"][:2])
            continue
        try:
            exp, confs = compose(p["c"], p["res"], p["codes"], p["keys"], rep, p["pinv"], p["ninv"], p["dump"])
        except Exception as e:  # noqa
            ctx.mismatch(p["rec"], impl="(entries)", model="compose failed: %r" % (e,))
            continue
        dump = p["dump"]
        ctx.traces += 1
        if p["mode"] == "conflict":
            # cook_conflicts drops the path conflict of a file that also has a contents conflict
            want = set()
            tm = set()
            for i, v in confs.items():
                if "contents" in v:
                    want.add((i, "contents conflict"))
                elif "path" in v:
                    want.add((i, "path conflict"))
                if "textmerge" in v:
                    tm.add(i)
            rootid = p["res"].get("rootid")
            real = [(ROOT if i == rootid else i, t) for t, i in p["res"]["conflict_ids"]]
            got = {(i, t) for i, t in real if t in ("path conflict", "contents conflict")}
            text = {i for i, t in real if t == "text conflict"}
            other_types = {t for i, t in real if t not in ("path conflict", "contents conflict", "text conflict")}
            for i, t in want:
                ctx.count("C7:model:" + t)
            if tm:
                ctx.count("C7:model:text merge", len(tm))
            if want != got or not text <= tm:
                ctx.mismatch(p["rec"], impl="conflicts %r text %r" % (sorted(got), sorted(text)),
                             model="conflicts %r text-merged %r" % (sorted(want), sorted(tm)))
            elif not other_types and not any(t == "contents conflict" for _i, t in got):
                # only path / text conflicts: the merged tree is predicted too (winner_idx: conflict -> OTHER's value)
                ctx.count("C7:tree-compared")
                if exp != dump:
                    diff = {i: (jsonable({i: dump[i]})[i] if i in dump else None, jsonable({i: exp[i]})[i] if i in exp else None)
                            for i in set(dump) | set(exp) if dump.get(i) != exp.get(i)}
                    ctx.mismatch(p["rec"], impl="merged tree (real)", model="entries-level model: {key: (real, model)} = %r" % (diff,))
            continue
        if p["mode"] in ("law", "clash"):
            confs = {i: [x for x in v if x != "textmerge"] for i, v in confs.items()}
            confs = {i: v for i, v in confs.items() if v}
            if exp != dump or confs:
                diff = {i: (jsonable({i: dump[i]})[i] if i in dump else None, jsonable({i: exp[i]})[i] if i in exp else None)
                        for i in set(dump) | set(exp) if dump.get(i) != exp.get(i)}
                ctx.mismatch(p["rec"], impl="merged tree (real)", model="entries-level model: {key: (real, model)} = %r conflicts=%r"
                             % (diff, confs))


def run(ctx, scale=1):
    n = ctx.pick(120, 800) * scale
    cases = build_cases(ctx, n, scale)
    results = ctx.pmap(_run, cases)
    lines, impls, recs, pend = [], [], [], []
    for c, r in zip(cases, results):
        evaluate(ctx, c, r, lines, impls, recs, pend)
    ctx.diff(recs, lines, impls)
    entries_tie(ctx, pend)
    ctx.extra["cases"] = len(cases)


def widen(ctx):
    run(ctx, scale=3)


def replay(ctx, case):
    c = dict(fmt=case["fmt"], mtype=case["mtype"], via=case["via"], rel=case["rel"],
             base=unjson(case["base"]), this=unjson(case["this"]), other=unjson(case["other"]))
    base, this, other = c["base"], c["this"], c["other"]
    rel = c["rel"]
    cho = changed_ids(base, other)
    if rel in ("L1", "L3", "X3"):
        exp = this
    elif rel == "L2":
        exp = other
    else:
        exp = {}
        for i in set(base) | set(this) | set(other):
            src = other if i in cho else this
            if i in src:
                exp[i] = dict(src[i])
        if rel in ("A5", "T6"):
            exp = None
    c["info"] = dict(ops=["replay"], union_wf=wf(exp) if exp else True)
    if rel == "X3":
        c["info"]["lcas"] = tuple(unjson(t) for t in case["lcas"])
    res = run_case(c)
    out = dict(case=case, exc=res["exc"], conflicts=res["conflicts"], extra=res["extra"],
               dump=jsonable(res["dump"]) if res["dump"] else None, entries=res.get("entries"))
    if exp is not None:
        c["exp"] = exp
        lines, impls, recs, pend = [], [], [], []
        evaluate(ctx, c, res, lines, impls, recs, pend)
        if lines:
            out["model"] = ctx.model(lines)[0]
            out["impl"] = impls[0]
        entries_tie(ctx, pend)          # the loop-body model on the real _entries3 elements (and, C7, the conflicts)
        out["entries_tie_mismatches"] = [dict(impl=m.get("impl"), model=m.get("model")) for m in ctx.mismatches if m]
    out["oracle_failures"] = [v["what"] for v in ctx.violations]
    return out
