import BreezyVerif.Common
import BreezyVerif.Model.C12
/-
C12 driver.  Requests:

  revert <keepWhenNoBasis> <changed> <wtKind f|d|l|~> <backups> <tkind> <tversioned> <mmIsWt> <basisPresent> <basisIsWt>
      -> kept | backup | gone
  remove <keep> <force> <role s|n> <inBasis> <changed>          -> kept | backup | gone
  backup <base> <taken names joined by , or ->                  -> the name | ~
  merge <thisChanged> <otherChanged> <otherDeleted> <sameChange> <textConflict>  -> kept | helper | merged | gone
  mm <otherChangedContent> <otherAdded> <onlyMoved>             -> recorded | absent   (merge-hashes after a merge-like command)
(booleans are T/F)
-/
namespace BreezyVerif.C12

def parseKind (s : String) : Option (Option Kind) :=
  if s == "f" then some (some .file) else if s == "d" then some (some .dir)
  else if s == "l" then some (some .symlink) else if s == "~" then some none else none

def Fate.show : Fate → String
  | .kept => "kept" | .backup => "backup" | .helper => "helper" | .merged => "merged" | .gone => "gone"

def handle : List String → String
  | ["revert", fl, ch, wk, bk, tk, tv, mm, bp, bi] =>
    match parseBool fl, parseBool ch, parseKind wk, parseBool bk, parseKind tk, parseBool tv, parseBool mm, parseBool bp, parseBool bi with
    | some fl, some ch, some wk, some bk, some tk, some tv, some mm, some bp, some bi =>
      (revertFate { keepWhenNoBasis := fl }
        { changedContent := ch, wtKind := wk, backups := bk, targetKind := tk, targetVersioned := tv,
          mergeModifiedIsWt := mm, basisPresent := bp, basisIsWt := bi }).show
    | _, _, _, _, _, _, _, _, _ => "bad-op"
  | ["remove", k, f, r, ib, ch] =>
    match parseBool k, parseBool f, (if r == "s" then some Role.selected else if r == "n" then some Role.nestedUnversioned else none),
          parseBool ib, parseBool ch with
    | some k, some f, some r, some ib, some ch =>
      (removeFate { keep := k, force := f, role := r, inBasis := ib, changedContent := ch }).show
    | _, _, _, _, _ => "bad-op"
  | ["backup", base, taken] =>
    match availableBackupName base (splitList taken) with
    | some n => n
    | none => "~"
  | ["merge", a, b, c, d, e] =>
    match parseBool a, parseBool b, parseBool c, parseBool d, parseBool e with
    | some a, some b, some c, some d, some e =>
      (mergeFate { thisChanged := a, otherChanged := b, otherDeleted := c, sameChange := d, textConflict := e }).show
    | _, _, _, _, _ => "bad-op"
  | ["mm", a, b, c] =>
    match parseBool a, parseBool b, parseBool c with
    | some a, some b, some c =>
      if mergeRecords { otherChangedContent := a, otherAdded := b, onlyMoved := c } then "recorded" else "absent"
    | _, _, _ => "bad-op"
  | _ => "bad-op"

end BreezyVerif.C12

def main : IO Unit := BreezyVerif.runDriver BreezyVerif.C12.handle
