import BreezyVerif.Lemmas.C29LP
/-! ChunkedBodyDecoder: segmentation independence and round trip -/
namespace BreezyVerif.C29
namespace CK

theorem feed_eH (buf x : Bytes) : feed (.expectingHeader buf) x = headerStep (buf ++ x) := rfl
theorem feed_eL (buf x : Bytes) (acc : CKAcc) :
    feed (.expectingLength buf acc) x = lengthStep (buf ++ x) acc := rfl
theorem feed_rC (l : Nat) (cur x : Bytes) (acc : CKAcc) :
    feed (.readingChunk l cur acc) x =
      if l ≤ x.length then lengthStep (x.drop l) (acc.push (cur ++ x.take l))
      else .readingChunk (l - x.length) (cur ++ x) acc := rfl
theorem feed_done (cs : List Chunk) (u x : Bytes) : feed (.done cs u) x = .done cs (u ++ x) := rfl
theorem feed_failed (e : CKErr) (x : Bytes) : feed (.failed e) x = .failed e := rfl

theorem lengthStep_none {b : Bytes} (acc : CKAcc) (h : splitLine b = none) :
    lengthStep b acc = .expectingLength b acc := by
  rw [lengthStep]
  split
  · rfl
  · rename_i l r h2; rw [h] at h2; cases h2

theorem lengthStep_some {b line rest : Bytes} (acc : CKAcc) (h : splitLine b = some (line, rest)) :
    lengthStep b acc =
      if line = errLine then lengthStep rest acc.startErr
      else if line = endLine then .done acc.finish rest
      else match parseNat 16 line with
        | none => .failed .badLength
        | some n =>
          if n ≤ rest.length then lengthStep (rest.drop n) (acc.push (rest.take n))
          else .readingChunk (n - rest.length) rest acc := by
  rw [lengthStep]
  split
  · rename_i h2; rw [h] at h2; cases h2
  · rename_i l r h2; rw [h] at h2; cases h2; rfl

theorem feed_lengthStep (u : Bytes) (acc : CKAcc) (y : Bytes) :
    feed (lengthStep u acc) y = lengthStep (u ++ y) acc := by
  induction hn : u.length using Nat.strongRecOn generalizing u acc with
  | _ n ih =>
    subst hn
    cases h : splitLine u with
    | none => rw [lengthStep_none acc h, feed_eL]
    | some lr =>
      obtain ⟨line, rest⟩ := lr
      have hlt := splitLine_length h
      rw [lengthStep_some acc h, lengthStep_some acc (splitLine_append_some y h)]
      by_cases hE : line = errLine
      · simp only [hE, if_true]
        exact ih _ hlt rest _ rfl
      · by_cases hD : line = endLine
        · subst hD
          simp only [show endLine ≠ errLine by decide, if_true, if_false, feed_done]
        · simp only [hE, hD, if_false]
          cases parseNat 16 line with
          | none => rfl
          | some n =>
            simp only
            by_cases hle : n ≤ rest.length
            · have hle' : n ≤ (rest ++ y).length := by simp; omega
              simp only [hle, hle', if_true]
              rw [List.take_append_of_le_length hle, List.drop_append_of_le_length hle]
              exact ih _ (by simp; omega) _ _ rfl
            · have hr : rest.length ≤ n := by omega
              simp only [hle, if_false, feed_rC]
              simp only [List.length_append, List.take_append, List.drop_append,
                List.take_of_length_le hr, List.drop_of_length_le hr, List.nil_append]
              by_cases h2 : n - rest.length ≤ y.length
              · have : n ≤ rest.length + y.length := by omega
                simp [h2, this]
              · have : ¬ n ≤ rest.length + y.length := by omega
                simp only [h2, this, if_false]
                congr 1; omega

theorem feed_headerStep (u y : Bytes) : feed (headerStep u) y = headerStep (u ++ y) := by
  unfold headerStep
  cases h : splitLine u with
  | none => simp only [feed_eH]; rfl
  | some lr =>
    obtain ⟨line, rest⟩ := lr
    rw [splitLine_append_some y h]
    simp only
    by_cases hc : line = chunkedHeader
    · simp only [hc, if_true, feed_lengthStep]
    · simp only [hc, if_false, feed_failed]

/-- one `accept_bytes(a ++ b)` ≡ `accept_bytes(a); accept_bytes(b)` — equality of the whole state -/
theorem feed_append (s : CK) (a b : Bytes) : feed (feed s a) b = feed s (a ++ b) := by
  cases s with
  | expectingHeader buf => rw [feed_eH, feed_headerStep, feed_eH, List.append_assoc]
  | expectingLength buf acc => rw [feed_eL, feed_lengthStep, feed_eL, List.append_assoc]
  | readingChunk l cur acc =>
    rw [feed_rC, feed_rC]
    by_cases hle : l ≤ a.length
    · have hle' : l ≤ (a ++ b).length := by simp; omega
      simp only [hle, hle', if_true, feed_lengthStep]
      rw [List.take_append_of_le_length hle, List.drop_append_of_le_length hle]
    · have hr : a.length ≤ l := by omega
      simp only [hle, if_false, feed_rC]
      simp only [List.length_append, List.take_append, List.drop_append,
        List.take_of_length_le hr, List.drop_of_length_le hr, List.nil_append, List.append_assoc]
      by_cases h2 : l - a.length ≤ b.length
      · have : l ≤ a.length + b.length := by omega
        simp [h2, this]
      · have : ¬ l ≤ a.length + b.length := by omega
        simp only [h2, this, if_false]
        congr 1; omega
  | done cs u => rw [feed_done, feed_done, feed_done, List.append_assoc]
  | failed e => rfl

/-! ### round trip -/

theorem hex_ne_err (n : Nat) : natDigits 16 n ≠ errLine := by
  intro h
  have := natDigits_notMem (base := 16) (by omega) (by omega) n 69 (by simp)
  rw [h] at this
  exact this (by decide)

theorem hex_ne_end (n : Nat) : natDigits 16 n ≠ endLine := by
  intro h
  have := natDigits_notMem (base := 16) (by omega) (by omega) n 69 (by simp)
  rw [h] at this
  exact this (by decide)

theorem lengthStep_chunk (c tail : Bytes) (acc : CKAcc) :
    lengthStep (natDigits 16 c.length ++ 10 :: (c ++ tail)) acc = lengthStep tail (acc.push c) := by
  rw [lengthStep_some acc
    (splitLine_of_notMem _ (natDigits_notMem (by omega) (by omega) _ 10 (by simp)))]
  simp only [hex_ne_err, hex_ne_end, if_false,
    parseNat_natDigits (base := 16) (by omega) (by omega)]
  simp

theorem lengthStep_chunks (cs : List Bytes) (tail : Bytes) (acc : CKAcc) :
    lengthStep (encodeChunks cs ++ tail) acc = lengthStep tail (cs.foldl CKAcc.push acc) := by
  induction cs generalizing acc with
  | nil => rfl
  | cons c cs ih =>
    simp only [encodeChunks, List.append_assoc, List.cons_append, List.foldl_cons]
    rw [lengthStep_chunk, ih]

theorem lengthStep_end (rest : Bytes) (acc : CKAcc) :
    lengthStep (endLine ++ 10 :: rest) acc = .done acc.finish rest := by
  rw [lengthStep_some acc (splitLine_of_notMem _ (by decide))]
  simp only [show endLine ≠ errLine by decide, if_false, if_true]

theorem lengthStep_err (tail : Bytes) (acc : CKAcc) :
    lengthStep (errLine ++ 10 :: tail) acc = lengthStep tail acc.startErr := by
  rw [lengthStep_some acc (splitLine_of_notMem _ (by decide))]
  simp only [if_true]

theorem foldl_push_ok (cs : List Bytes) (acc : CKAcc) (h : acc.error = false) :
    cs.foldl CKAcc.push acc = { acc with chunks := acc.chunks ++ cs.map .data } := by
  induction cs generalizing acc with
  | nil => simp
  | cons c cs ih =>
    simp only [List.foldl_cons]
    have hp : acc.push c = { acc with chunks := acc.chunks ++ [.data c] } := by
      simp [CKAcc.push, h]
    rw [hp, ih _ (by simpa using h)]
    simp

theorem foldl_push_err (cs : List Bytes) (acc : CKAcc) (h : acc.error = true) :
    cs.foldl CKAcc.push acc = { acc with errParts := acc.errParts ++ cs } := by
  induction cs generalizing acc with
  | nil => simp
  | cons c cs ih =>
    simp only [List.foldl_cons]
    have hp : acc.push c = { acc with errParts := acc.errParts ++ [c] } := by
      simp [CKAcc.push, h]
    rw [hp, ih _ (by simpa using h)]
    simp

theorem feed_init_encode (chunks : List Bytes) (err : Option (List Bytes)) (rest : Bytes) :
    feed init (ckEncode chunks err ++ rest) = .done (ckExpected chunks err) rest := by
  cases err with
  | none =>
    have hw : ckEncode chunks none ++ rest
        = chunkedHeader ++ 10 :: (encodeChunks chunks ++ (endLine ++ 10 :: rest)) := by
      simp [ckEncode]
    rw [hw, init, feed_eH, List.nil_append, headerStep,
      splitLine_of_notMem _ (by decide)]
    simp only [if_true]
    rw [lengthStep_chunks, lengthStep_end, foldl_push_ok _ _ rfl]
    simp [CKAcc.finish, CKAcc.empty, ckExpected]
  | some args =>
    have hw : ckEncode chunks (some args) ++ rest
        = chunkedHeader ++ 10 :: (encodeChunks chunks ++
            (errLine ++ 10 :: (encodeChunks args ++ (endLine ++ 10 :: rest)))) := by
      simp [ckEncode]
    rw [hw, init, feed_eH, List.nil_append, headerStep,
      splitLine_of_notMem _ (by decide)]
    simp only [if_true]
    rw [lengthStep_chunks, lengthStep_err, lengthStep_chunks, lengthStep_end,
      foldl_push_ok chunks CKAcc.empty rfl, foldl_push_err args _ rfl]
    simp [CKAcc.finish, CKAcc.empty, CKAcc.startErr, ckExpected]

end CK
end BreezyVerif.C29
