"""C35 — git object export is consistent and round-trips.

Mechanism: breezy/git/object_store.py (_tree_to_objects, directory_to_tree,
BazaarObjectStore._revision_to_objects / _update_sha_map_revision and the SHA
map it fills), breezy/git/fetch.py (import_git_objects / import_git_commit /
import_git_tree / import_git_blob), breezy/git/interrepo.py
(InterToLocalGitRepository.fetch_revs = push/dpush of native revisions,
InterLocalGitNonGitRepository.fetch = fetch into a native repository),
breezy/git/mapping.py (object_mode, mode_kind, mode_is_executable).

Model (lean/BreezyVerif/Model/C35.lean): the from-scratch export `expRoot`
(git's real object ids: SHA-1 and the tree serialisation are implemented in
the model, so model and code are compared on the actual 40-hex ids), the
incremental export `incrRoot` (cache re-use, other-parent re-use, pointless
commit), the import `impRoot` from an object store, the canonical form
`canonRoot` of a round trip and the mode functions.

T2 per generated native history (working-tree scripts over a namespace chosen
for git's entry order — `ab` as directory next to `ab-c`, `ab.c`, `ab0` —,
single-character and non-ASCII names, files, symlinks, empty and nested
directories, exec flips, kind changes, renames of files and directories,
removals, copies of a text under a second file id, forks and merges):
  * every revision: `_tree_to_objects(tree, [], empty map)` (path -> id of every
    object) against `exp`;
  * every revision in topological order through `_update_sha_map_revision`
    with (a) the default on-disk index map and (b) a dict map from which
    random blob entries are evicted between revisions: the recorded root tree
    id against `incr` run on the map's content at that moment, the first
    parent's recorded root tree id and the parent trees;
  * push of all heads into a git repository in two stages
    (`InterRepository.get(native, git).fetch_revs(..., lossy=True)`), fetch
    back into a fresh native repository in two stages; the dump of each
    fetched-back tree against `rt` (= import(export) and the canonical form)
    and against `imp` run on the objects actually found in the git repository.
T2 per generated git history (dulwich objects: default and unusual modes,
symlinks, nested trees, merges): fetch into a native repository; the dump of
each imported tree against `imp`; `exp` of the imported tree (with the
unusual modes the revision records) against the original tree id.
T2 modes: `mode_kind`, `mode_is_executable`, stat dispatch, unusual-mode rule
and `object_mode` against the model for a sweep of modes.

Oracle (independent of the model): warm root id == evicted-map root id ==
from-scratch root id for every revision; the tree id of the pushed commit is
that id and every object reachable from it exists in the target repository;
the fetched-back tree has the same paths, kinds, contents, executable bits and
symlink targets as the original (directories without files excepted);
for git histories the re-exported root id (from scratch, and through a fresh
SHA map) equals the original tree id and a second from-scratch run with the
parents gives the same id.

Mutants this was built against (scratch worktrees; all caught on seeds 0 and 1
with a concrete history):
  M1 _tree_to_objects: dirty_dirs only gets the new path's directory
     (`for p in change.path[1:]`; a removal-only commit keeps its parent's
     root tree) — oracle: warm id != from-scratch id;
  M2 ie_to_hexsha: the blob rebuilt after a SHA-map miss takes only the first
     line of the text — caught only by the evicted dict map (warm index map
     and from-scratch agree);
  M3 directory_to_tree: the empty-directory rule disabled — T2 (ids differ
     from the model's) and oracle (the empty tree object is never sent:
     reachable object missing in the target);
  M4 find_unchanged_parent_ie: other-parent re-use without comparing the sha1
     (needs a merge whose text differs from both parents) — oracle;
  M5 import_git_blob: executable taken from the base mode — oracle (round trip)
     and T2 (`rt`/`imp` dumps);
  M6 import_git_tree: remove_disappeared_children skipped — oracle + T2;
  M7 object_mode: 0o755 and 0o644 swapped — mode sweep, T2, oracle;
  M9 InterToLocalGitRepository.missing_revisions: parents not walked —
     oracle (revision not pushed);
  M10 _tree_to_objects: symlink blob yielded iff *not* changed_content —
     oracle (reachable object missing in the target repository);
  R1 fix 29406e9 reverted (fetch.import_git_blob calls find_source_paths with a
     str): fetching back a changed file named `a` / `a/a` raises TypeError —
     plain VIOLATION (corpus/C35/single-char-path.json runs first);
  R2 fix 9095241 reverted (_tree_to_objects does not mark the new location of
     a renamed directory dirty when a child left it in the same revision): the
     renamed directory's tree object is never sent — plain VIOLATION
     (corpus/C35/moved-dir-lost-child.json);
  harmless: `sorted(dirty_dirs, reverse=True)` replaced by a sort on
  (-depth, path): stays clean.
"""
import hashlib
import os
import shutil
import stat

from vlib import env

THEOREMS = [
    "incr_eq_scratch", "incrNode_eq_expNode", "sameGit_export_eq",
    "export_import_tree", "import_fuel_mono_partial", "reexport_canon",
    "mode_roundtrip", "mode_roundtrip_git", "mode_kind_agrees_with_import",
    "sortBy_sorted", "sortBy_id_of_sorted", "objsRoot_wf",
    "run_history_roots", "run_history_from", "run_history_keys_witness",
    "import_export_git", "import_export_git_unsorted_witness",
    "canon_items", "roundtrip_items", "canon_items_unusual_witness",
]
RULE = ("native case = one revision of a generated history (script of working-tree operations on up to 3 lanes "
        "with forks and merges), identified by the digest of its tree and parents; non-trivial = the revision has a "
        "parent and its tree has at least one directory with a represented child; git case = one commit of a generated "
        "dulwich history; mode cases = swept modes; distinct by tree digest + parent digests")
ASSUMPTIONS = [
    "sibling names in a versioned tree are unique (inventory invariant; the model's tree objects keep duplicates, dulwich's Tree is a dict)",
    "(file_id, revision) identifies one text (repository invariant; this is what makes any SHA map filled from ancestors 'correct' in the sense of cacheOK)",
    "iter_changes reports every path whose leaf differs from the base (C10); the model decides 'nothing changed' by structural comparison",
    "git repositories are built from the same value space as native histories (no empty trees, no submodules, no '.git' entries, default file modes)",
    "entries named '.git' (BANNED_FILENAMES) cannot exist in a git tree: the export drops them and the round-trip oracle excepts them (and everything below a directory of that name), as the model's itemsNC does",
    "no ghost parents: a parent that is not present is skipped by the model; the pointless-commit branch of _revision_to_objects with a ghost leftmost parent is not modelled",
]
TRUSTED = [
    "sha-1, zlib and pack files are dulwich's; the model's SHA-1 and tree serialisation are tied by T2 on real ids, not proved",
    "InterTree.iter_changes / find_source_path, inventories and texts (bzrformats) are exercised, not modelled",
    "commit objects (C34) are not part of this property; only tree and blob ids are compared",
]

NAMES = ["ab", "ab-c", "ab.c", "ab0", "a", "b", "ff", "gg", "dd", "eé", "zz", "Ab"]
BANNED = ".git"          # BANNED_FILENAMES: only ever generated below a directory (never at the tree root)
CONTENTS = [b"", b"x\n", b"hello\n", b"hello2\n", b"\x00\xff bin", b"a\r\nb", b"tgt", b"same\n"]
TARGETS = ["tgt", "ab", "../x", "eé", "a b"]


# --------------------------------------------------------------------------
# script generation (pure: only the rng)

# --------------------------------------------------------------------------
# interpretation on real working trees

class Lane:
    def __init__(self, wt):
        self.wt = wt
        self.commits = []


def _mirror(wt):
    out = {}
    with wt.lock_read():
        for p, ie in wt.iter_entries_by_dir():
            if p:
                out[p] = {"file": "f", "directory": "d", "symlink": "l"}.get(ie.kind, "?")
    return out


def _rm(path):
    if os.path.islink(path) or not os.path.isdir(path):
        os.unlink(path)
    else:
        shutil.rmtree(path)


def apply_step(lanes, s, root):
    lane, op = s[0], s[1]
    if op == "fork":
        main = lanes[0]
        revid = main.commits[s[2]]
        d = os.path.join(root, "lane%d" % lane)
        wt = main.wt.controldir.sprout(d, revision_id=revid).open_workingtree()
        lanes[lane] = Lane(wt)
        return
    L = lanes[lane]
    wt = L.wt
    ab = wt.abspath
    if op == "write":
        with open(ab(s[2]), "wb") as f:
            f.write(bytes.fromhex(s[3]))
        os.chmod(ab(s[2]), 0o755 if s[4] else 0o644)
        wt.add([s[2]])
    elif op == "mkdir":
        os.mkdir(ab(s[2]))
        wt.add([s[2]])
    elif op == "symlink":
        os.symlink(s[3], ab(s[2]))
        wt.add([s[2]])
    elif op == "modify":
        with open(ab(s[2]), "wb") as f:
            f.write(bytes.fromhex(s[3]))
    elif op == "chmod":
        os.chmod(ab(s[2]), 0o755 if s[3] else 0o644)
    elif op == "retarget":
        os.unlink(ab(s[2]))
        os.symlink(s[3], ab(s[2]))
    elif op == "rename":
        wt.rename_one(s[2], s[3])
    elif op == "remove":
        wt.remove([s[2]], keep_files=False, force=True)
        if os.path.lexists(ab(s[2])):
            _rm(ab(s[2]))
    elif op == "tolink":
        os.unlink(ab(s[2]))
        os.symlink(s[3], ab(s[2]))
    elif op == "tofile":
        os.unlink(ab(s[2]))
        with open(ab(s[2]), "wb") as f:
            f.write(bytes.fromhex(s[3]))
    elif op == "copy":
        with open(ab(s[2]), "rb") as f:
            data = f.read()
        with open(ab(s[3]), "wb") as f:
            f.write(data)
        wt.add([s[3]])
    elif op == "merge":
        other = lanes[s[2]]
        from breezy.workingtree import PointlessMerge
        try:
            wt.merge_from_branch(other.wt.branch, force=True)
        except PointlessMerge:
            pass
        from breezy.conflicts import ConflictList
        try:
            wt.set_conflicts(ConflictList())
        except Exception:
            wt.set_conflicts([])
        for p in list(wt.unknowns()):
            if os.path.lexists(ab(p)):
                _rm(ab(p))
    elif op == "commit":
        n = len([1 for l in lanes.values() for _ in l.commits])
        revid = wt.commit("m %s" % s[2], rev_id=s[2].encode(), timestamp=1500000000 + 60 * n, timezone=0,
                          committer="C <c@example.com>", allow_pointless=True)
        L.commits.append(revid)
    elif op == "sync":
        pass
    else:
        raise ValueError(op)


def build_history(seed_tuple, nsteps):
    """generate and interpret a script; returns (script, lanes, root).  The
    script is concrete: re-interpreting it reproduces the same history."""
    import random
    rng = random.Random(repr(seed_tuple))
    root = env.fresh_dir("h")
    wt = env.make_tree("2a", os.path.join(root, "lane0"))
    lanes = {0: Lane(wt)}
    state = {0: {}}
    script = []
    ncommit = [0]

    def do(s):
        apply_step(lanes, s, root)
        script.append(s)

    def commit(lane):
        ncommit[0] += 1
        do([lane, "commit", "r%d-l%d" % (ncommit[0], lane)])

    sub = _StepGen(rng)
    merged = set()
    for _ in range(nsteps):
        lane = rng.choice(sorted(lanes))
        r = rng.random()
        if r < 0.10 and len(lanes) < 3 and lanes[0].commits:
            new = max(lanes) + 1
            do([new, "fork", rng.randrange(len(lanes[0].commits))])
            state[new] = _mirror(lanes[new].wt)
            fs = sorted(p for p, k in state[new].items() if k == "f")
            if fs and rng.random() < 0.6:
                do([new, "modify", rng.choice(fs), (rng.choice(CONTENTS) + b"F").hex()])
            for _k in range(rng.randrange(1, 4)):
                s = sub.step(new, state[new])
                if s:
                    do(s)
            commit(new)
            continue
        mergeable = [l for l in sorted(lanes) if l != 0 and lanes[l].commits and lanes[l].commits[-1] not in merged]
        if r < 0.24 and mergeable:
            src = rng.choice(mergeable)
            merged.add(lanes[src].commits[-1])
            do([0, "merge", src])
            state[0] = _mirror(lanes[0].wt)
            if rng.random() < 0.5:
                # edit on top of the merge result: the text then differs from both parents
                fs = sorted(p for p, k in state[0].items() if k == "f")
                if fs:
                    do([0, "modify", rng.choice(fs), (rng.choice(CONTENTS) + b"M").hex()])
            commit(0)
            continue
        if r < 0.32:
            commit(lane)
            continue
        s = sub.step(lane, state[lane])
        if s:
            do(s)
    for lane in sorted(lanes):
        commit(lane)
    return script, lanes, root


def replay_history(script):
    root = env.fresh_dir("h")
    wt = env.make_tree("2a", os.path.join(root, "lane0"))
    lanes = {0: Lane(wt)}
    for s in script:
        apply_step(lanes, s, root)
    return lanes, root


class _StepGen:
    def __init__(self, rng):
        self.rng = rng

    def step(self, lane, st):
        rng = self.rng

        def dirs():
            return [""] + sorted(p for p, k in st.items() if k == "d")

        def newpath(excl=None):
            d = rng.choice(dirs())
            if excl and (d == excl or d.startswith(excl + "/")):
                return None
            n = rng.choice(NAMES)
            if d and rng.random() < 0.07:
                n = BANNED
            p = n if not d else d + "/" + n
            return None if p in st or p.count("/") > 2 else p

        def under(p):
            return [q for q in sorted(st) if q == p or q.startswith(p + "/")]

        def target(p):
            # not the link's own name: a self-referential link makes WorkingTree.remove fail with ELOOP
            return rng.choice([t for t in TARGETS if t != p.rpartition("/")[2]])

        files = sorted(p for p, k in st.items() if k == "f")
        links = sorted(p for p, k in st.items() if k == "l")
        r = rng.random()
        if r < 0.24 or not st:
            p = newpath()
            if p:
                st[p] = "f"
                return [lane, "write", p, rng.choice(CONTENTS).hex(), rng.random() < 0.3]
        elif r < 0.33:
            p = newpath()
            if p:
                st[p] = "d"
                return [lane, "mkdir", p]
        elif r < 0.40:
            p = newpath()
            if p:
                st[p] = "l"
                return [lane, "symlink", p, target(p)]
        elif r < 0.53 and files:
            return [lane, "modify", rng.choice(files), (rng.choice(CONTENTS) + bytes([rng.randrange(97, 123)])).hex()]
        elif r < 0.61 and files:
            return [lane, "chmod", rng.choice(files), rng.random() < 0.5]
        elif r < 0.65 and links:
            p = rng.choice(links)
            return [lane, "retarget", p, target(p)]
        elif r < 0.78 and st:
            src = rng.choice(sorted(st))
            dst = newpath(excl=src)
            if dst and dst not in st:
                for q in under(src):
                    st[dst + q[len(src):]] = st.pop(q)
                return [lane, "rename", src, dst]
        elif r < 0.88 and st:
            p = rng.choice(sorted(st))
            for q in under(p):
                del st[q]
            return [lane, "remove", p]
        elif r < 0.93 and (files or links):
            p = rng.choice(files + links)
            if st[p] == "f":
                st[p] = "l"
                return [lane, "tolink", p, target(p)]
            st[p] = "f"
            return [lane, "tofile", p, rng.choice(CONTENTS).hex()]
        elif files:
            p = newpath()
            if p:
                st[p] = "f"
                return [lane, "copy", rng.choice(files), p]
        return None


# --------------------------------------------------------------------------
# dumps and encodings

def hx(b):
    return b.hex() or "-"


def enc_name(s):
    return s.encode("utf-8", "surrogateescape")


def tree_nodes(tree, unusual=None):
    """nested dict name(bytes) -> node; node = ('F', fid, rev, content, exec, um) |
    ('L', fid, rev, target, um) | ('D', children)"""
    unusual = unusual or {}
    root = {}
    index = {"": root}
    with tree.lock_read():
        for path, ie in tree.iter_entries_by_dir():
            if path == "":
                continue
            parent, _, name = path.rpartition("/")
            um = unusual.get(path)
            if ie.kind == "directory":
                ch = {}
                index[path] = ch
                node = ("D", ch)
            elif ie.kind == "file":
                node = ("F", ie.file_id, ie.revision, tree.get_file_text(path), bool(ie.executable), um)
            elif ie.kind == "symlink":
                node = ("L", ie.file_id, ie.revision, enc_name(tree.get_symlink_target(path)), um)
            else:
                raise AssertionError(ie.kind)
            index[parent][enc_name(name)] = node
    return root


def enc_children(ch):
    toks = [str(len(ch))]
    for name in sorted(ch):
        toks.append(hx(name))
        toks.extend(enc_node(ch[name]))
    return toks


def enc_node(n):
    if n[0] == "F":
        return ["F", hx(n[1]), hx(n[2]), hx(n[3]), "T" if n[4] else "F", "~" if n[5] is None else str(n[5])]
    if n[0] == "L":
        return ["L", hx(n[1]), hx(n[2]), hx(n[3]), "~" if n[4] is None else str(n[4])]
    return ["D"] + enc_children(n[1])


def enc_tree(ch):
    return ",".join(enc_children(ch))


def enc_path(p):
    return "." if p == "" else "/".join(hx(enc_name(c)) for c in p.split("/"))


def enc_bpath(p):
    return "." if p == b"" else "/".join(hx(c) for c in p.split(b"/"))


def leaves_keys(ch, out=None):
    out = [] if out is None else out
    for n in ch.values():
        if n[0] == "D":
            leaves_keys(n[1], out)
        else:
            out.append((n[1], n[2]))
    return out


def _has_banned(ch):
    return any(name == b".git" or (n[0] == "D" and _has_banned(n[1])) for name, n in ch.items())


def has_content(n):
    return n[0] != "D" or any(has_content(c) for name, c in n[1].items() if name != b".git")


def plain_dump(ch, pre=""):
    """model-independent dump for the oracle: {path: (kind, payload, exec)} with
    directories that have no represented descendant dropped"""
    out = {}
    for name, n in ch.items():
        if name == b".git":
            continue
        p = pre + name.decode("utf-8", "surrogateescape")
        if n[0] == "F":
            out[p] = ("f", n[3], n[4])
        elif n[0] == "L":
            out[p] = ("l", n[3], False)
        elif has_content(n):
            out[p] = ("d", b"", False)
            out.update(plain_dump(n[1], p + "/"))
    return out


def model_dump_of(ch, pre=b""):
    """the `dump` format of the driver for a real (fetched) tree; modes from
    object_mode unless an unusual mode is recorded"""
    from breezy.git.mapping import object_mode
    out = []
    for name, n in ch.items():
        p = name if not pre else pre + b"/" + name
        if n[0] == "F":
            m = n[5] if n[5] is not None else object_mode("file", n[4])
            out.append("%s|f|%s|%d" % (enc_bpath(p), hx(n[3]), m))
        elif n[0] == "L":
            m = n[4] if n[4] is not None else object_mode("symlink", False)
            out.append("%s|l|%s|%d" % (enc_bpath(p), hx(n[3]), m))
        else:
            out.append("%s|d" % enc_bpath(p))
            out.extend(model_dump_of(n[1], p))
    return out


def items_str(d):
    """the driver's `items` format for an oracle dump {path: (kind, payload, exec)}"""
    return ";".join(sorted("%s|%s|%s|%s" % (enc_path(p), k, hx(data), "T" if x else "F")
                           for p, (k, data, x) in d.items())) or "-"


def native_dump_of(ch, pre=b""):
    """the driver's `impn` format for a real fetched tree: kinds, contents, executable flags and recorded
    unusual modes as they are in the inventory / revision properties"""
    out = []
    for name, n in ch.items():
        p = name if not pre else pre + b"/" + name
        if n[0] == "F":
            out.append("%s|f|%s|%s|%s" % (enc_bpath(p), hx(n[3]), "T" if n[4] else "F", "~" if n[5] is None else n[5]))
        elif n[0] == "L":
            out.append("%s|l|%s|%s" % (enc_bpath(p), hx(n[3]), "~" if n[4] is None else n[4]))
        else:
            out.append("%s|d" % enc_bpath(p))
            out.extend(native_dump_of(n[1], p))
    return out


def show_dump(lines):
    return ";".join(sorted(lines)) or "-"


def digest(s):
    return hashlib.sha1(s.encode()).hexdigest()[:12]


# --------------------------------------------------------------------------
# real exports

def scratch_export(tree, unusual=None):
    from breezy.git.cache import DictGitShaMap
    from breezy.git.object_store import _tree_to_objects
    from breezy.git.mapping import default_mapping
    out = {}
    with tree.lock_read():
        for path, obj, _key in _tree_to_objects(tree, [], DictGitShaMap(), unusual or {}, default_mapping.BZR_DUMMY_FILE):
            out[path] = obj.id
    return out


def topo(repo, revids):
    g = repo.get_graph()
    return [r for r in g.iter_topo_order(revids)]


def commit_tree_sha(idmap, commit_sha):
    for kind, data in idmap.lookup_git_sha(commit_sha):
        if kind == "commit":
            t = data[1]
            return t if isinstance(t, bytes) else t.encode()
    raise KeyError(commit_sha)


def _as_bytes(x):
    return x if isinstance(x, bytes) else x.encode("ascii")


def warm_export(repo, order, trees, nodes, evict_rng=None):
    """drive BazaarObjectStore revision by revision.  Returns
    {revid: (root_sha, model_line, evicted keys)}"""
    from breezy.git.cache import DictBzrGitCache
    from breezy.git.object_store import BazaarObjectStore
    store = BazaarObjectStore(repo)
    if evict_rng is not None:
        store._cache = DictBzrGitCache()
        store.start_write_group = store._cache.idmap.start_write_group
        store.abort_write_group = store._cache.idmap.abort_write_group
        store.commit_write_group = store._cache.idmap.commit_write_group
    idmap = store._cache.idmap
    res = {}
    with store.lock_read():
        for revid in order:
            rev = repo.get_revision(revid)
            present = [p for p in rev.parent_ids if p in trees]
            evicted = []
            if evict_rng is not None:
                for r2 in sorted(idmap._by_fileid):
                    for fid in sorted(idmap._by_fileid[r2]):
                        if evict_rng.random() < 0.25:
                            del idmap._by_fileid[r2][fid]
                            evicted.append((fid, r2))
            # the cache content for every key the conversion may ask for
            keys = set(leaves_keys(nodes[revid]))
            for p in present:
                keys.update(leaves_keys(nodes[p]))
            centries = []
            store.start_write_group()
            try:
                for (fid, r2) in sorted(keys):
                    try:
                        centries.append("%s:%s:%s" % (hx(fid), hx(r2), _as_bytes(idmap.lookup_blob_id(fid, r2)).decode()))
                    except KeyError:
                        pass
                if present:
                    base = present[0]
                    bsha = commit_tree_sha(idmap, store._lookup_revision_sha1(base)).decode()
                    btree = enc_tree(nodes[base])
                else:
                    bsha = btree = "~"
                others = "|".join(enc_tree(nodes[p]) for p in present[1:]) or "-"
                csha = store._update_sha_map_revision(revid)
            except BaseException:
                store.abort_write_group()
                raise
            else:
                store.commit_write_group()
            root = commit_tree_sha(idmap, csha).decode()
            line = "incr %s %s %s %s %s" % (";".join(centries) or "-", btree, bsha, others, enc_tree(nodes[revid]))
            res[revid] = (root, line, evicted)
    return res


def git_closure(ostore, tree_sha, out):
    """collect the objects reachable from a tree id; raises KeyError when one is missing"""
    from dulwich.objects import Tree
    if tree_sha in out:
        return
    o = ostore[tree_sha]
    out[tree_sha] = o
    if isinstance(o, Tree):
        for e in o.iteritems():
            if stat.S_ISDIR(e.mode):
                git_closure(ostore, e.sha, out)
            elif (e.mode & 0o170000) == 0o160000:
                continue
            else:
                if e.sha not in out:
                    out[e.sha] = ostore[e.sha]


def enc_store(objs):
    from dulwich.objects import Tree
    parts = []
    for sha in sorted(objs):
        o = objs[sha]
        if isinstance(o, Tree):
            body = "T:" + "+".join("%d/%s/%s" % (e.mode, hx(e.path), e.sha.decode()) for e in o.iteritems())
        else:
            body = "B:" + hx(o.data)
        parts.append("%s=%s" % (sha.decode(), body))
    return ";".join(parts) or "-"


def new_git_repo():
    from breezy.controldir import ControlDir, format_registry
    d = env.fresh_dir("git")
    cd = ControlDir.create(d, format=format_registry.make_controldir("git-bare"))
    return cd.open_repository()


def new_native_repo():
    from breezy.controldir import ControlDir, format_registry
    d = env.fresh_dir("nat")
    cd = ControlDir.create(d, format=format_registry.make_controldir("2a"))
    return cd.create_repository()


def plain_dump_all(ch, pre=""):
    out = {}
    for name, n in ch.items():
        p = pre + name.decode("utf-8", "surrogateescape")
        if n[0] == "F":
            out[p] = ("f", n[3], n[4])
        elif n[0] == "L":
            out[p] = ("l", n[3], False)
        else:
            out[p] = ("d", b"", False)
            out.update(plain_dump_all(n[1], p + "/"))
    return out


def env_error(e):
    """is this exception a problem of the machine (disk, memory, descriptors, a killed worker) rather
    than behaviour of the code under test?  Such a run is an infrastructure failure (exit 2)."""
    import errno
    if isinstance(e, (MemoryError, TimeoutError, BrokenPipeError)):
        return True
    if isinstance(e, OSError) and e.errno in (errno.ENOSPC, errno.EDQUOT, errno.EMFILE, errno.ENFILE, errno.ENOMEM,
                                              errno.EIO, errno.EROFS, errno.EAGAIN):
        return True
    return False


# --------------------------------------------------------------------------
# one native history (runs in a worker process)

def native_case(arg):
    seed_tuple, nsteps, script = arg
    R = dict(cases=[], lines=[], impls=[], viol=[], counts={}, seed=list(seed_tuple), stat_lines=[])

    def count(k, n=1):
        R["counts"][k] = R["counts"].get(k, 0) + n

    def viol(case, what, family=None):
        R["viol"].append((case, what, family))

    import random
    rng = random.Random(repr(seed_tuple) + "eval")
    try:
        if script is None:
            script, lanes, root = build_history(seed_tuple, nsteps)
        else:
            lanes, root = replay_history(script)
    except Exception as e:
        count("history-build-failed:" + type(e).__name__)
        R["error"] = repr(e)
        if env_error(e):
            R["infra"] = "%s: %s" % (type(e).__name__, str(e)[:200])
        return R
    R["script"] = script
    for s in script:
        count("op:" + s[1])
    base_case = dict(history=list(seed_tuple), script=script)
    try:
        repo = lanes[0].wt.branch.repository
        for l in lanes.values():
            if l is not lanes[0] and l.commits:
                repo.fetch(l.wt.branch.repository)
        heads = [l.commits[-1] for l in lanes.values() if l.commits]
        with repo.lock_read():
            allrevs = sorted(repo.all_revision_ids())
            order = topo(repo, allrevs)
            parents = {r: [p for p in repo.get_revision(r).parent_ids if p in allrevs] for r in allrevs}
            repo_parent_ids = {r: list(repo.get_revision(r).parent_ids) for r in allrevs}
            trees = {r: repo.revision_tree(r) for r in order}
            nodes = {r: tree_nodes(trees[r]) for r in order}
        count("revisions", len(order))
        count("revisions-with-banned-name", sum(1 for r in order if _has_banned(nodes[r])))
        count("merges", sum(1 for r in order if len(parents[r]) > 1))
        # ---- from scratch, per revision --------------------------------
        scratch = {}
        for r in order:
            sc = scratch_export(trees[r])
            scratch[r] = sc
            tline = enc_tree(nodes[r])
            impl = "%s %s" % (sc[""].decode(), ";".join(sorted("%s=%s" % (enc_path(p), s.decode()) for p, s in sc.items())))
            case = dict(base_case, rev=r.decode(), what="scratch")
            nontriv = bool(parents[r]) and any(n[0] == "D" and has_content(n) for n in nodes[r].values())
            R["cases"].append((case, dict(tree=digest(tline), parents=[digest(enc_tree(nodes[p])) for p in parents[r]]), nontriv))
            R["lines"].append("exp " + tline)
            R["impls"].append(impl)
        # ---- warm (index map) and evicted dict map ------------------------
        with repo.lock_write():
            warm = warm_export(repo, order, trees, nodes)
            evic = warm_export(repo, order, trees, nodes, evict_rng=rng)
        for r in order:
            for tag, res in (("warm", warm), ("evict", evic)):
                root, line, _ev = res[r]
                case = dict(base_case, rev=r.decode(), what=tag)
                R["cases"].append((case, None, False))
                R["lines"].append(line)
                R["impls"].append(root)
                R["stat_lines"].append("incrstat" + line[4:])
                if root != scratch[r][""].decode():
                    viol(case, "revision %s: root tree id %s through the %s SHA map, %s from scratch" % (
                        r.decode(), root, tag, scratch[r][""].decode()))
        # the whole history through the model's `runHist` (SHA map kept by the model itself; the keys the
        # real map lost are evicted in the model too): every recorded root id
        pos = {r: i for i, r in enumerate(order)}
        for tag, res in (("warm", warm), ("evict", evic)):
            revs = []
            for r in order:
                ps = ".".join(str(pos[q]) for q in repo_parent_ids[r] if q in pos) or "-"
                ev = ".".join("%s:%s" % (hx(f), hx(v)) for f, v in res[r][2]) or "-"
                revs.append("%s!%s!%s" % (ps, ev, enc_tree(nodes[r])))
            R["cases"].append((dict(base_case, what="hist-" + tag), None, False))
            R["lines"].append("hist " + "|".join(revs))
            R["impls"].append(";".join(res[r][0] for r in order) or "-")
            count("hist-evicted-keys", sum(len(res[r][2]) for r in order))
        # ---- push in two stages --------------------------------------------
        from breezy.repository import InterRepository
        grepo = new_git_repo()
        inter = InterRepository.get(repo, grepo)
        revidmap = {}
        stage1 = [rng.choice(order)]
        with repo.lock_read():
            revidmap.update(inter.fetch_revs([(None, r) for r in stage1], lossy=True))
            revidmap.update(inter.fetch_revs([(None, r) for r in heads], lossy=True))
        ostore = grepo._git.object_store
        count("pushed", len(revidmap))
        pushed_ok = True
        for r in order:
            case = dict(base_case, rev=r.decode(), what="push")
            if r not in revidmap:
                viol(case, "revision %s was not pushed" % r.decode())
                pushed_ok = False
                continue
            gsha, new_revid = revidmap[r]
            try:
                c = ostore[gsha]
                if c.tree.decode() != warm[r][0]:
                    viol(case, "pushed commit of %s has tree %s, the object store computed %s" % (r.decode(), c.tree.decode(), warm[r][0]))
                objs = {}
                git_closure(ostore, c.tree, objs)
            except KeyError as e:
                viol(case, "object %s reachable from the pushed revision %s is missing in the target repository" % (e, r.decode()))
                pushed_ok = False
                continue
            # the import model on what is really in the git repository
            R["cases"].append((dict(case, what="imp-of-pushed"), None, False))
            R["lines"].append("imp %s %s %d" % (enc_store(objs), c.tree.decode(), 12))
            R["impls"].append(("fetched", r))          # resolved below
        # ---- fetch back in two stages ---------------------------------------
        back = {}
        fetch_err = None
        if pushed_ok:
            brepo = new_native_repo()
            try:
                for group in (stage1, heads):
                    for r in group:
                        brepo.fetch(grepo, revision_id=revidmap[r][1])
                with brepo.lock_read():
                    for r in order:
                        back[r] = tree_nodes(brepo.revision_tree(revidmap[r][1]))
            except Exception as e:
                fetch_err = e
                if env_error(e):
                    raise
                viol(dict(base_case, what="fetch"), "fetching the pushed history back raised %s: %s" % (type(e).__name__, str(e)[:200]))
                count("fetch-failed:" + type(e).__name__)
        # resolve the deferred `imp` expectations and add the `rt` lines
        keep = [i for i, x in enumerate(R["impls"]) if not isinstance(x, tuple) or x[1] in back]
        for i in keep:
            x = R["impls"][i]
            if isinstance(x, tuple):
                R["impls"][i] = show_dump(model_dump_of(back[x[1]]))
        R["cases"] = [R["cases"][i] for i in keep]
        R["lines"] = [R["lines"][i] for i in keep]
        R["impls"] = [R["impls"][i] for i in keep]
        for r in order:
            if r not in back:
                continue
            case = dict(base_case, rev=r.decode(), what="roundtrip")
            d = show_dump(model_dump_of(back[r]))
            R["cases"].append((case, None, False))
            R["lines"].append("rt " + enc_tree(nodes[r]))
            R["impls"].append("%s %s" % (d, d))
            want = plain_dump(nodes[r])
            got = plain_dump_all(back[r])
            # the model's specification of what must survive (itemsNC) against the oracle's own, and the
            # items of the model's canonical form against the tree that really came back
            R["cases"].append((dict(case, what="items"), None, False))
            R["lines"].append("items " + enc_tree(nodes[r]))
            R["impls"].append("%s %s" % (items_str(want), items_str(got)))
            if want != got:
                diff = sorted(set(want.items()) ^ set(got.items()), key=repr)[:4]
                viol(case, "revision %s after push + fetch differs from the original: %r" % (r.decode(), diff))
        count("roundtrips", len(back))
    except Exception as e:
        import traceback
        R["error"] = traceback.format_exc()[-1500:]
        if env_error(e):
            R["infra"] = "%s: %s" % (type(e).__name__, str(e)[:200])
        else:
            viol(base_case, "unexpected %s while exporting/pushing: %s" % (type(e).__name__, str(e)[:300]))
    finally:
        shutil.rmtree(root, ignore_errors=True)
    return R


# --------------------------------------------------------------------------
# git-first histories

# default modes only: a git repository built from a native history has no other ones (the
# 'unusual file modes' of foreign repositories are outside this property; see unusual_mode_probe)
GIT_MODES = [0o100644, 0o100644, 0o100755, 0o120000]


def gen_git_history(rng, ncommits):
    """list of commits: (parents indices, {path(bytes): (mode, data)})"""
    commits = []
    files = {}
    for i in range(ncommits):
        if i == 0:
            parents = []
        elif len(commits) >= 2 and rng.random() < 0.25:
            a = len(commits) - 1
            b = rng.randrange(len(commits) - 1)
            parents = [a, b]
            # take some paths from the other parent
            for p, v in commits[b][1].items():
                if rng.random() < 0.5 and not any(q.startswith(p + b"/") or p.startswith(q + b"/") for q in files if q != p):
                    files[p] = v
        else:
            parents = [len(commits) - 1]
        for _ in range(rng.randrange(1, 5)):
            r = rng.random()
            if r < 0.5 or not files:
                depth = rng.randrange(3)
                comps = [enc_name(rng.choice(NAMES)) for _ in range(depth + 1)]
                p = b"/".join(comps)
                if any(q == p or q.startswith(p + b"/") or p.startswith(q + b"/") for q in files):
                    continue
                mode = rng.choice(GIT_MODES)
                data = enc_name(rng.choice(TARGETS)) if mode == 0o120000 else rng.choice(CONTENTS)
                files[p] = (mode, data)
            elif r < 0.7:
                p = rng.choice(sorted(files))
                mode, data = files[p]
                if mode != 0o120000:
                    files[p] = (mode, data + b"+")
                else:
                    files[p] = (mode, enc_name(rng.choice(TARGETS)))
            elif r < 0.85:
                p = rng.choice(sorted(files))
                mode, data = files[p]
                if mode != 0o120000:
                    files[p] = (rng.choice([m for m in GIT_MODES if m != 0o120000]), data)
            else:
                del files[rng.choice(sorted(files))]
        commits.append((parents, dict(files)))
    return commits


def write_git_tree(ostore, files):
    """build tree objects bottom-up with dulwich; returns root id"""
    from dulwich.objects import Blob, Tree
    nested = {}
    for p, (mode, data) in files.items():
        cur = nested
        comps = p.split(b"/")
        for c in comps[:-1]:
            cur = cur.setdefault(c, {})
        cur[comps[-1]] = (mode, data)

    def build(d):
        t = Tree()
        for name, v in d.items():
            if isinstance(v, dict):
                t.add(name, stat.S_IFDIR, build(v))
            else:
                b = Blob.from_string(v[1])
                ostore.add_object(b)
                t.add(name, v[0], b.id)
        ostore.add_object(t)
        return t.id
    return build(nested)


def git_case(arg):
    seed_tuple, ncommits, hist = arg
    R = dict(cases=[], lines=[], impls=[], viol=[], counts={}, seed=list(seed_tuple))

    def count(k, n=1):
        R["counts"][k] = R["counts"].get(k, 0) + n

    def viol(case, what, family=None):
        R["viol"].append((case, what, family))

    import random
    from dulwich.objects import Commit
    from breezy.git.mapping import default_mapping
    from breezy.git.object_store import BazaarObjectStore, _tree_to_objects
    from breezy.git.cache import DictBzrGitCache, DictGitShaMap
    rng = random.Random(repr(seed_tuple))
    if hist is None:
        hist = gen_git_history(rng, ncommits)
    jhist = [[ps, sorted([p.hex(), m, d.hex()] for p, (m, d) in fs.items())] for ps, fs in hist]
    base_case = dict(git_history=list(seed_tuple), commits=jhist)
    try:
        grepo = new_git_repo()
        ostore = grepo._git.object_store
        shas = []
        for i, (parents, files) in enumerate(hist):
            c = Commit()
            c.tree = write_git_tree(ostore, files)
            c.parents = [shas[p] for p in parents]
            c.author = c.committer = b"G <g@example.com>"
            c.author_time = c.commit_time = 1500000000 + 60 * i
            c.author_timezone = c.commit_timezone = 0
            c.message = b"c%d\n" % i
            ostore.add_object(c)
            shas.append(c.id)
        count("git-commits", len(shas))
        count("git-merges", sum(1 for ps, _ in hist if len(ps) > 1))
        brepo = new_native_repo()
        revids = [default_mapping.revision_id_foreign_to_bzr(s) for s in shas]
        # two stages: a middle commit, then the tip(s)
        mid = rng.randrange(len(shas))
        try:
            brepo.fetch(grepo, revision_id=revids[mid])
            for i in range(len(shas)):
                brepo.fetch(grepo, revision_id=revids[i]) if i == len(shas) - 1 or rng.random() < 0.2 else None
            missing = [i for i in range(len(shas)) if not brepo.has_revision(revids[i])]
            for i in missing:
                brepo.fetch(grepo, revision_id=revids[i])
        except Exception as e:
            if env_error(e):
                raise
            viol(dict(base_case, what="fetch"), "fetching the git history raised %s: %s" % (type(e).__name__, str(e)[:200]))
            count("git-fetch-failed:" + type(e).__name__)
            return R
        from breezy.git.mapping import extract_unusual_modes
        with brepo.lock_write():
            trees, nodes, unusual = {}, {}, {}
            for i, rid in enumerate(revids):
                rev = brepo.get_revision(rid)
                unusual[i] = extract_unusual_modes(rev)
                trees[i] = brepo.revision_tree(rid)
                nodes[i] = tree_nodes(trees[i], unusual[i])
                if unusual[i]:
                    count("unusual-modes", len(unusual[i]))
            for i, (parents, files) in enumerate(hist):
                orig = ostore[shas[i]].tree
                case = dict(base_case, commit=i, what="git-import")
                objs = {}
                git_closure(ostore, orig, objs)
                d = show_dump(model_dump_of(nodes[i]))
                nontriv = bool(parents) and any(b"/" in p for p in files)
                R["cases"].append((case, dict(tree=orig.decode(), parents=[shas[p].decode() for p in parents]), nontriv))
                R["lines"].append("imp %s %s %d" % (enc_store(objs), orig.decode(), 12))
                R["impls"].append(d)
                # oracle: the imported tree is the git tree
                want = {}
                for p, (m, data) in files.items():
                    want[p.decode("utf-8", "surrogateescape")] = ("l", data, False) if m == 0o120000 else ("f", data, bool(m & 0o111))
                    comps = p.split(b"/")
                    for k in range(1, len(comps)):
                        want[b"/".join(comps[:k]).decode("utf-8", "surrogateescape")] = ("d", b"", False)
                got = plain_dump_all(nodes[i])
                if want != got:
                    diff = sorted(set(want.items()) ^ set(got.items()), key=repr)[:4]
                    viol(case, "commit %d imported from git differs from the git tree: %r" % (i, diff))
                # re-export: from scratch, incrementally with the parents, model
                sc = {}
                for path, obj, _k in _tree_to_objects(trees[i], [], DictGitShaMap(), unusual[i], None):
                    sc[path] = obj.id
                if sc.get("") != orig:
                    viol(dict(case, what="git-reexport"), "commit %d: re-exported root tree %r, original %r" % (i, sc.get(""), orig))
                R["cases"].append((dict(case, what="git-reexport-model"), None, False))
                R["lines"].append("reexp %s %s %d" % (enc_store(objs), orig.decode(), 12))
                R["impls"].append("%s %s T" % (_as_bytes(sc.get("", b"?")).decode(), _as_bytes(sc.get("", b"?")).decode()))
                R["cases"].append((dict(case, what="git-import-native"), None, False))
                R["lines"].append("impn %s %s %d" % (enc_store(objs), orig.decode(), 12))
                R["impls"].append(show_dump(native_dump_of(nodes[i])))
                R["cases"].append((dict(case, what="git-reexport"), None, False))
                R["lines"].append("exp " + enc_tree(nodes[i]))
                R["impls"].append("%s %s" % (orig.decode(), ";".join(sorted("%s=%s" % (enc_path(p), s.decode()) for p, s in sc.items()))))
            # through a fresh SHA map (the one filled by the fetch is discarded)
            store = BazaarObjectStore(brepo)
            store._cache = DictBzrGitCache()
            store.start_write_group = store._cache.idmap.start_write_group
            store.abort_write_group = store._cache.idmap.abort_write_group
            store.commit_write_group = store._cache.idmap.commit_write_group
            with store.lock_read():
                try:
                    store._update_sha_map()
                except AssertionError as e:
                    viol(dict(base_case, what="git-reexport-warm"), "re-exporting the imported history: %s" % str(e)[:300])
                else:
                    for i, s in enumerate(shas):
                        got = commit_tree_sha(store._cache.idmap, s)
                        if got != ostore[s].tree:
                            viol(dict(base_case, commit=i, what="git-reexport-warm"),
                                 "commit %d: root tree %r through a fresh SHA map, original %r" % (i, got, ostore[s].tree))
    except Exception as e:
        import traceback
        R["error"] = traceback.format_exc()[-1500:]
        if env_error(e):
            R["infra"] = "%s: %s" % (type(e).__name__, str(e)[:200])
        else:
            viol(base_case, "unexpected %s in the git-first round trip: %s" % (type(e).__name__, str(e)[:300]))
    return R


# --------------------------------------------------------------------------
# modes

def mode_cases(ctx):
    from breezy.git import mapping as m
    from dulwich.objects import S_ISGITLINK
    randoms = [ctx.rng.randrange(0, 0o1000000) for _ in range(ctx.pick(300, 3000))]
    modes = sorted(set(
        [0, 0o040000, 0o100644, 0o100755, 0o120000, 0o160000, 0o100664, 0o100600, 0o100775, 0o100777, 0o100000,
         0o120777, 0o040755, 0o060000, 0o140000, 0o010644, 0o020000, 0o200000, 0o300644, 0o700000, 0o1000000 | 0o100644]
        + randoms
        + [t | p for t in (0o040000, 0o100000, 0o120000, 0o160000) for p in (0, 0o111, 0o644, 0o755, 0o444, 0o001, 0o010, 0o100)]))
    default = (stat.S_IFDIR, 0o100644, stat.S_IFLNK, 0o100755, 0o160000)
    structured = set(modes) - set(randoms)
    cases, lines, impls = [], [], []
    for mode in modes:
        try:
            k = {"file": "f", "directory": "d", "symlink": "l", "tree-reference": "t"}[m.mode_kind(mode)]
        except AssertionError:
            k = "E"
        if stat.S_ISDIR(mode):
            cls = "tree"
        elif S_ISGITLINK(mode):
            cls = "gitlink"
        elif stat.S_ISLNK(mode):
            cls = "symlink"
        else:
            cls = "file"
        unusual = None if mode in default else mode
        ex = m.mode_is_executable(mode) if cls == "file" else False
        kind = {"tree": "directory", "gitlink": "tree-reference", "symlink": "symlink", "file": "file"}[cls]
        re_mode = unusual if unusual is not None else m.object_mode(kind, ex)
        if re_mode != mode:
            ctx.violation(dict(mode=mode), "mode %o is re-exported as %o" % (mode, re_mode))
        cases.append(dict(mode=mode))
        lines.append("mode %d" % mode)
        impls.append("%s %s %s %s %d" % (k, cls, "~" if unusual is None else unusual, "T" if ex else "F", re_mode))
        ctx.case(dict(mode=mode), nontrivial=mode not in default and mode in structured)
        ctx.count("mode-class:" + cls)
    for kind, k in (("file", "f"), ("directory", "d"), ("symlink", "l"), ("tree-reference", "t")):
        for x in (False, True):
            om = m.object_mode(kind, x)
            cases.append(dict(kind=kind, exec=x))
            lines.append("omode %s %s" % (k, "T" if x else "F"))
            impls.append(str(om))
            ctx.case(dict(kind=kind, exec=x))
            try:
                back = m.mode_kind(om)
            except AssertionError:
                back = None
            if back != kind:
                ctx.violation(dict(kind=kind, exec=x), "mode_kind(object_mode(%s, %s)) = %r" % (kind, x, back))
            if kind == "file" and m.mode_is_executable(om) != x:
                ctx.violation(dict(kind=kind, exec=x), "mode_is_executable(object_mode(file, %s)) is wrong" % x)
    ctx.diff(cases, lines, impls)


# --------------------------------------------------------------------------

def _absorb(ctx, R, allc, alll, alli, stats=None):
    if R.get("infra"):
        raise env.InfraError("C35 worker: %s" % R["infra"])
    if stats is not None:
        stats.extend(R.get("stat_lines", []))
    for k, n in R["counts"].items():
        ctx.count(k, n)
    if R.get("error"):
        ctx.count("case-error")
        ctx.extra.setdefault("errors", []).append(R["error"][-400:])
    for case, what, fam in R["viol"]:
        ctx.violation(case, what, family=fam)
    for (case, key, nontriv), line, impl in zip(R["cases"], R["lines"], R["impls"]):
        if key is not None:
            ctx.case(key, nontrivial=nontriv)
        allc.append(case)
        alll.append(line)
        alli.append(impl)


def unusual_mode_probe():
    """informational only (outside the property: no native history produces such a
    mode): can a git tree with a 0o100664 file be fetched and re-exported?"""
    from dulwich.objects import Commit
    from breezy.git.mapping import default_mapping
    try:
        grepo = new_git_repo()
        ostore = grepo._git.object_store
        c = Commit()
        c.tree = write_git_tree(ostore, {b"ff": (0o100664, b"x\n")})
        c.parents = []
        c.author = c.committer = b"G <g@example.com>"
        c.author_time = c.commit_time = 1500000000
        c.author_timezone = c.commit_timezone = 0
        c.message = b"m\n"
        ostore.add_object(c)
        brepo = new_native_repo()
        rid = default_mapping.revision_id_foreign_to_bzr(c.id)
        brepo.fetch(grepo, revision_id=rid)
        from breezy.git.mapping import extract_unusual_modes
        um = extract_unusual_modes(brepo.get_revision(rid))
        sc = scratch_export(brepo.revision_tree(rid), um)
        return "fetched; re-export %s" % ("reproduces the tree id" if sc[""] == c.tree else "gives another tree id")
    except Exception as e:
        return "raises %s: %s" % (type(e).__name__, str(e)[:120])


def run(ctx, nnative=None, ngit=None):
    nnative = nnative or ctx.pick(8, 220)
    ngit = ngit or ctx.pick(6, 160)
    mode_cases(ctx)
    ctx.extra["unusual_mode_probe"] = unusual_mode_probe()
    cases, lines, impls, stats = [], [], [], []
    corpus = _corpus()
    args = [(("corpus", i), 0, c["script"]) for i, c in enumerate(corpus) if "script" in c]
    args += [((ctx.seed, "n", i), ctx.rng.choice(ctx.pick([14, 22, 34], [14, 30, 60])), None) for i in range(nnative)]
    for R in ctx.pmap(native_case, args, procs=ctx.pick(4, 8)):
        _absorb(ctx, R, cases, lines, impls, stats)
    gargs = [((ctx.seed, "g", i), ctx.rng.choice([3, 5, 8]), None) for i in range(ngit)]
    for R in ctx.pmap(git_case, gargs, procs=ctx.pick(4, 8)):
        _absorb(ctx, R, cases, lines, impls)
    if lines:
        ctx.diff(cases, lines, impls)
    if stats and ctx.model_available:
        # which branch of the incremental conversion each leaf of each converted revision took (model's
        # view of the real SHA map at that moment): reachability of cache hit / miss / other-parent re-use
        for rep in ctx.model(stats):
            for kv in rep.split(";"):
                k, _, n = kv.partition("=")
                if n.isdigit() and int(n):
                    ctx.count("incr:" + k, int(n))


def _corpus():
    import json
    d = os.path.join(env.VERIF, "corpus", "C35")
    out = []
    if os.path.isdir(d):
        for f in sorted(os.listdir(d)):
            if f.endswith(".json"):
                out.append(json.load(open(os.path.join(d, f))))
    return out


def widen(ctx):
    run(ctx, nnative=40, ngit=30)


def replay(ctx, case):
    if "mode" in case or "kind" in case:
        mode_cases(ctx)
        return dict(case=case, oracle_failures=[v["what"] for v in ctx.violations])
    if "script" in case:
        R = native_case((tuple(case.get("history", ["replay"])), 0, case["script"]))
    else:
        hist = [(ps, {bytes.fromhex(p): (m, bytes.fromhex(d)) for p, m, d in fs}) for ps, fs in case["commits"]]
        R = git_case((tuple(case.get("git_history", ["replay"])), len(hist), hist))
    cases, lines, impls = [], [], []
    _absorb(ctx, R, cases, lines, impls)
    outs = ctx.model(lines) if lines else []
    diffs = [dict(case={k: v for k, v in c.items() if k not in ("script", "commits")}, impl=i[:300], model=m[:300])
             for c, i, m in zip(cases, impls, outs) if i != m]
    return dict(case={k: v for k, v in case.items()}, lines=len(lines), model_differences=diffs[:5],
                error=R.get("error"), oracle_failures=[v["what"] for v in ctx.violations])
