import BreezyVerif.Common
import BreezyVerif.Model.C16
/-
C16 driver.

graph   = as in the C21 driver: entries `<rev>:<p1>,<p2>…` joined by `;`, newest first, `-` = empty
tip     = `~` | <rev>
tags    = `<name>=<rev>` joined by `+`, `-` = none   (names and revisions are numbers)
branch  = `<tip>/<revno>/<tags>`;  master = `-` | branch
revs    = comma separated list, `-` = empty

  unc <graph> <branch> <master> <tree parents revs> <d> <keepTags T|F> <local T|F>
      -> `ok <branch> <master> <tree parents>` | `E:…`
  unt … (same fields)  -> uncommit(tree=None);   und … (same fields) -> uncommit(dry_run=True)
  cu  <graph> <branch> <master> <tree parents revs> <new rev>
      -> state after commit of <new rev> followed by uncommit of one revision (same format)
  cul … (same fields)  -> commit --local of <new rev> followed by uncommit --local
  fua <graph> <u> <commons revs>          -> sorted unique ancestors
  heads <graph> <revs>                    -> sorted heads
  filter <graph> <revs>                   -> parent list kept by set_parent_ids
-/
namespace BreezyVerif.C16
open BreezyVerif.C21

def parseEntry (s : String) : Option (Rev × List Rev) :=
  match s.splitOn ":" with
  | [n, ps] => do
    let n ← n.toNat?
    let ps ← if ps.isEmpty then some [] else (ps.splitOn ",").mapM String.toNat?
    pure (n, ps)
  | _ => none

def parseGraph (s : String) : Option Graph :=
  if s == "-" then some [] else (s.splitOn ";").mapM parseEntry

def parseTip (s : String) : Option Tip :=
  if s == "~" then some none else s.toNat?.map some

def showTip : Tip → String
  | none => "~"
  | some r => toString r

def parseTag (s : String) : Option (Nat × Rev) :=
  match s.splitOn "=" with
  | [n, r] => do pure (← n.toNat?, ← r.toNat?)
  | _ => none

def parseTags (s : String) : Option Tags :=
  if s == "-" then some [] else (s.splitOn "+").mapM parseTag

def showTags (t : Tags) : String :=
  let l := (t.mergeSort fun a b => decide (a.1 ≤ b.1)).map fun x => s!"{x.1}={x.2}"
  if l.isEmpty then "-" else "+".intercalate l

def parseBranch (s : String) : Option Branch :=
  match s.splitOn "/" with
  | [t, n, tg] => do
    pure { tip := ← parseTip t, revno := ← n.toNat?, tags := ← parseTags tg }
  | _ => none

def parseMaster (s : String) : Option (Option Branch) :=
  if s == "-" then some none else (parseBranch s).map some

def showBranch (b : Branch) : String := s!"{showTip b.tip}/{b.revno}/{showTags b.tags}"

def showSt (st : St) : String :=
  let m := match st.master with | none => "-" | some m => showBranch m
  s!"ok {showBranch st.br} {m} {joinList (st.parents.map toString)}"

def showSorted (l : List Rev) : String :=
  joinList ((l.eraseDups.mergeSort fun a b => decide (a ≤ b)).map toString)

def handleUnc (f : Graph → St → Nat → Bool → Bool → Except Err St) (g br m ps d keep loc : String) : String :=
  match parseGraph g, parseBranch br, parseMaster m, parseNatList ps, d.toNat?, parseBool keep, parseBool loc with
  | some g, some br, some m, some ps, some d, some keep, some loc =>
    if !wf g then "not-wf" else
    match f g { br := br, master := m, parents := ps } d keep loc with
    | .ok st => showSt st
    | .error e => e.toString
  | _, _, _, _, _, _, _ => "bad-op"

def handle : List String → String
  | ["unc", g, br, m, ps, d, keep, loc] => handleUnc uncommit g br m ps d keep loc
  | ["unt", g, br, m, ps, d, keep, loc] => handleUnc uncommitNoTree g br m ps d keep loc
  | ["und", g, br, m, ps, d, keep, loc] => handleUnc uncommitDry g br m ps d keep loc
  | ["cul", g, br, m, ps, r] =>
    match parseGraph g, parseBranch br, parseMaster m, parseNatList ps, r.toNat? with
    | some g, some br, some m, some ps, some r =>
      if !wf ((r, ps) :: g) then "not-wf" else
      let (g', st') := commitLocal g { br := br, master := m, parents := ps } r
      match uncommit g' st' 1 false true with
      | .ok st => showSt st
      | .error e => e.toString
    | _, _, _, _, _ => "bad-op"
  | ["cu", g, br, m, ps, r] =>
    match parseGraph g, parseBranch br, parseMaster m, parseNatList ps, r.toNat? with
    | some g, some br, some m, some ps, some r =>
      if !wf ((r, ps) :: g) then "not-wf" else
      let (g', st') := commit g { br := br, master := m, parents := ps } r
      match uncommit g' st' 1 false false with
      | .ok st => showSt st
      | .error e => e.toString
    | _, _, _, _, _ => "bad-op"
  | ["fua", g, u, cs] =>
    match parseGraph g, u.toNat?, parseNatList cs with
    | some g, some u, some cs =>
      if !wf g then "not-wf" else showSorted (findUniqueAncestors g u cs)
    | _, _, _ => "bad-op"
  | ["heads", g, ks] =>
    match parseGraph g, parseNatList ks with
    | some g, some ks =>
      if !wf g then "not-wf" else showSorted ((heads g (ks.map some)).filterMap id)
    | _, _ => "bad-op"
  | ["filter", g, ks] =>
    match parseGraph g, parseNatList ks with
    | some g, some ks =>
      if !wf g then "not-wf" else joinList ((filterParents g ks).map toString)
    | _, _ => "bad-op"
  | _ => "bad-op"

end BreezyVerif.C16

def main : IO Unit := BreezyVerif.runDriver BreezyVerif.C16.handle
