import BreezyVerif.Common
import BreezyVerif.Model.C45
namespace BreezyVerif.C45

/-- chunk list: comma separated hex chunks, `_` = empty chunk, `-` = no chunk -/
def parseChunks (s : String) : Option (List Bytes) :=
  (splitList s).mapM fun x => if x == "_" then some [] else
    if x == "-" then none else fromHex x

/-- `lf c` | `crlf c` | `glf c` (converters on one content) |
`out win key chunks` | `in win key content` | `rt win key content`
(read back what was written); unknown key ↦ `E:BzrError` -/
def handle : List String → String
  | ["lf", c] => match fromHex c with
    | some c => toHex (toLf c)
    | none => "bad-op"
  | ["crlf", c] => match fromHex c with
    | some c => toHex (toCrlf c)
    | none => "bad-op"
  | ["glf", c] => match fromHex c with
    | some c => toHex (toLfGuarded c)
    | none => "bad-op"
  | ["out", win, key, chunks] =>
    match parseBool win, parseChunks chunks with
    | some win, some chunks =>
      match eolLookup win key with
      | some st => toHex (outputBytes chunks st).flatten
      | none => "E:BzrError"
    | _, _ => "bad-op"
  | ["in", win, key, c] =>
    match parseBool win, fromHex c with
    | some win, some c =>
      match eolLookup win key with
      | some st => toHex (inputFile c st)
      | none => "E:BzrError"
    | _, _ => "bad-op"
  | ["rt", win, key, c] =>
    match parseBool win, fromHex c with
    | some win, some c =>
      match eolLookup win key with
      | some st => toHex (readIn st (writeOut st c))
      | none => "E:BzrError"
    | _, _ => "bad-op"
  | _ => "bad-op"

end BreezyVerif.C45

def main : IO Unit := BreezyVerif.runDriver BreezyVerif.C45.handle
