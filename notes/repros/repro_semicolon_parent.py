"""C36 family parent-config-value-semicolon: dulwich's ConfigFile writes a value containing ';' unquoted
(_format_string only quotes for '#' and leading/trailing blanks) and reads it back cut at the ';' (comment).
A parent branch called `a;b` (a legal git branch name) comes back as branch `a`.  Exit 1 when the round trip fails."""
import os, sys
sys.path.insert(0, os.path.dirname(os.path.abspath(__file__)))
from _boot import git_tree, ControlDir
from breezy.git.urls import git_url_to_bzr_url
wt = git_tree()
u = git_url_to_bzr_url("https://h/r", branch="a;b")
br = wt.branch
br.set_parent(u)
got = ControlDir.open(wt.basedir).open_branch().get_parent()
print("set_parent(%r) -> get_parent() = %r" % (u, got))
print(open(os.path.join(wt.basedir, ".git", "config")).read())
from dulwich.config import _format_string, _parse_string
print("dulwich: _parse_string(_format_string(b'refs/heads/a;b')) =", _parse_string(_format_string(b"refs/heads/a;b")))
sys.exit(1 if got != u else 0)
