/-
C41 — testament text generation.  Literal model of
`breezy/bzr/testament.py`: `Testament`, `StrictTestament`, `StrictTestament3`
(`__init__` checks, `as_text_lines`, `_entry_to_line`, `_escape_path`,
`_revprops_to_lines`) over an abstract revision record.

Python `str` is `List Char` (code points); the final `.encode("utf-8")` and the
`.decode("utf-8")` of ids are outside the model (injective codecs, the driver
does them).  The float timestamp is modelled as integer milliseconds
(`Commit` rounds to 3 decimals) and `"%d" % ts` as truncation toward zero.
`tree.list_files()` is modelled as the entries sorted by path components
(`entryKey`), `sorted(parent_ids)` / `sorted(revprops.items())` as sorts by
code point order.
-/
namespace BreezyVerif.C41

abbrev Str := List Char

inductive Variant where
  | v1 | strict | strict3
  deriving DecidableEq, Repr

inductive Kind where
  | file | directory | symlink | treeref
  deriving DecidableEq, Repr

inductive Err where
  | value | assert
  deriving DecidableEq, Repr

/-- one `(path, ie)` pair of `tree.list_files()` -/
structure Entry where
  path : Str
  kind : Kind
  fileId : Str
  sha1 : Str        -- `ie.text_sha1` (files)
  target : Str      -- `ie.symlink_target` (symlinks)
  revision : Str    -- `ie.revision`
  executable : Bool
  deriving DecidableEq, Repr

/-- what `Testament.__init__` copies from the `Revision` plus the tree -/
structure Rev where
  revisionId : Str
  committer : Str
  timestampMs : Int           -- rev.timestamp * 1000
  timezone : Option Int       -- `rev.timezone or 0`
  parents : List Str          -- rev.parent_ids, storage order
  message : Str
  entries : List Entry        -- inventory entries, storage order
  props : List (Str × Str)    -- rev.properties.items(), dict order
  deriving DecidableEq, Repr

/-! ### osutils predicates and `str.splitlines` -/

/-- `osutils.contains_whitespace`: any of `" \t\n\r\x0b\x0c"` -/
def isWs (c : Char) : Bool :=
  c == ' ' || c == '\t' || c == '\n' || c == '\r' || c == '\x0b' || c == '\x0c'

def hasWs (s : Str) : Bool := s.any isWs

/-- `osutils.contains_linebreaks`: any of `"\n\r\x0c"` -/
def isLb (c : Char) : Bool := c == '\n' || c == '\r' || c == '\x0c'

def hasLb (s : Str) : Bool := s.any isLb

/-- the line boundaries of Python's `str.splitlines` -/
def isBreak (c : Char) : Bool :=
  c == '\n' || c == '\r' || c == '\x0b' || c == '\x0c' || c == '\x1c' || c == '\x1d' ||
  c == '\x1e' || c == '\u0085' || c.toNat == 0x2028 || c.toNat == 0x2029

/-- `s.splitlines()` (keepends=False): `\r\n` is one boundary, no empty last line -/
def splitlines : Str → List Str
  | [] => []
  | '\r' :: '\n' :: rest => [] :: splitlines rest
  | c :: rest =>
    if isBreak c then [] :: splitlines rest
    else
      match splitlines rest with
      | [] => [[c]]
      | l :: ls => (c :: l) :: ls

/-! ### sorting (`sorted(...)`, `list_files` order) -/

/-- code-point comparison key of a Python `str` -/
def strKey (s : Str) : List Nat := s.map Char.toNat

/-- depth-first, children-by-name order of inventory paths = lexicographic
order of the component lists = string order with `/` below every other char -/
def pathKey (p : Str) : List Nat := p.map fun c => if c == '/' then 0 else c.toNat + 1

def leKey (a b : List Nat) : Bool := decide (a ≤ b)

def sortStrs (l : List Str) : List Str := l.mergeSort fun a b => leKey (strKey a) (strKey b)

def sortEntries (l : List Entry) : List Entry :=
  l.mergeSort fun a b => leKey (pathKey a.path) (pathKey b.path)

def sortProps (l : List (Str × Str)) : List (Str × Str) :=
  l.mergeSort fun a b => leKey (strKey a.1) (strKey b.1)

/-! ### text generation -/

def header : Variant → Str
  | .v1 => "bazaar-ng testament version 1\n".toList
  | .strict => "bazaar-ng testament version 2.1\n".toList
  | .strict3 => "bazaar testament version 3 strict\n".toList

def shortHeader : Variant → Str
  | .v1 => "bazaar-ng testament short form 1\n".toList
  | .strict => "bazaar-ng testament short form 2.1\n".toList
  | .strict3 => "bazaar testament short form 3 strict\n".toList

def Kind.str : Kind → Str
  | .file => "file".toList
  | .directory => "directory".toList
  | .symlink => "symlink".toList
  | .treeref => "tree-reference".toList

/-- `"%d" % n` -/
def showInt (n : Int) : Str := (Int.repr n).toList

/-- `.replace("\\", "/")` -/
def replBackslash (p : Str) : Str := p.map fun c => if c == '\\' then '/' else c

/-- `.replace(" ", "\\ ")` -/
def escSpace (p : Str) : Str := p.flatMap fun c => if c == ' ' then ['\\', ' '] else [c]

/-- `StrictTestament3._escape_path` maps `""` to `"."` first -/
def dotRoot (v : Variant) (p : Str) : Str :=
  if v = .strict3 ∧ p = [] then ['.'] else p

/-- `_escape_path` (after the linebreak check) -/
def escapePath (v : Variant) (p : Str) : Str := escSpace (replBackslash (dotRoot v p))

def isStrict : Variant → Bool
  | .v1 => false
  | _ => true

/-- `content_spacer + content` of `_entry_to_line` -/
def contentPart (v : Variant) (e : Entry) : Str :=
  match e.kind with
  | .file => ' ' :: e.sha1
  | .symlink => ' ' :: escapePath v e.target
  | _ => []

/-- `StrictTestament._entry_to_line` suffix -/
def strictPart (v : Variant) (e : Entry) : Str :=
  if isStrict v then
    ' ' :: e.revision ++ (if e.executable then " yes".toList else " no".toList)
  else []

/-- `_entry_to_line(path, ie)` once the checks have passed -/
def entryLine (v : Variant) (e : Entry) : Str :=
  ' ' :: ' ' :: e.kind.str ++ ' ' :: escapePath v e.path ++ ' ' :: e.fileId ++
    contentPart v e ++ strictPart v e ++ ['\n']

/-- the exception `_entry_to_line` raises, in evaluation order -/
def entryErr (e : Entry) : Option Err :=
  if hasWs e.fileId then some .value
  else
    let pathErr : Option Err := if hasLb e.path then some .value else none
    match e.kind with
    | .file => if e.sha1 = [] then some .assert else pathErr
    | .symlink =>
      if e.target = [] then some .assert
      else if hasLb e.target then some .value
      else pathErr
    | _ => pathErr

def wsErr (s : Str) : Option Err := if hasWs s then some .value else none

def indent2 (s : Str) : Str := ' ' :: ' ' :: s ++ ['\n']
def indent4 (s : Str) : Str := ' ' :: ' ' :: ' ' :: ' ' :: s ++ ['\n']

def propLines : List (Str × Str) → List Str
  | [] => []
  | (n, val) :: rest =>
    (' ' :: ' ' :: n ++ [':', '\n']) :: ((splitlines val).map indent4 ++ propLines rest)

/-- `_revprops_to_lines` -/
def revpropsLines (props : List (Str × Str)) : List Str :=
  if props = [] then [] else "properties:\n".toList :: propLines (sortProps props)

/-- `rev.timezone or 0` (None and 0 both give 0) -/
def timezoneOf (r : Rev) : Int :=
  match r.timezone with
  | none => 0
  | some z => z

/-- `"%d" % self.timestamp` on a float with ≤ 3 decimals: truncation toward zero -/
def timestampOf (r : Rev) : Int := Int.tdiv r.timestampMs 1000

/-- first exception raised by `__init__` + `as_text_lines`, in evaluation order -/
def check (r : Rev) : Option Err :=
  (wsErr r.revisionId).orElse fun _ =>
  (if hasLb r.committer then some Err.value else none).orElse fun _ =>
  ((sortStrs r.parents).findSome? wsErr).orElse fun _ =>
  ((sortEntries r.entries).findSome? entryErr).orElse fun _ =>
  ((sortProps r.props).findSome? fun nv => wsErr nv.1)

/-- `as_text_lines()` (before `.encode`) when no exception is raised -/
def render (v : Variant) (r : Rev) : List Str :=
  [ header v,
    "revision-id: ".toList ++ r.revisionId ++ ['\n'],
    "committer: ".toList ++ r.committer ++ ['\n'],
    "timestamp: ".toList ++ showInt (timestampOf r) ++ ['\n'],
    "timezone: ".toList ++ showInt (timezoneOf r) ++ ['\n'],
    "parents:\n".toList ] ++
  ((sortStrs r.parents).map indent2 ++
  ("message:\n".toList :: ((splitlines r.message).map indent2 ++
  ("inventory:\n".toList :: ((sortEntries r.entries).map (entryLine v) ++
  revpropsLines r.props)))))

/-- `as_text_lines()` -/
def textLines (v : Variant) (r : Rev) : Except Err (List Str) :=
  match check r with
  | some e => .error e
  | none => .ok (render v r)

/-- `as_text()` -/
def text (v : Variant) (r : Rev) : Except Err Str :=
  match check r with
  | some e => .error e
  | none => .ok (render v r).flatten

/-! ### what the text attests (after the normalisations the code applies) -/

/-- the entry fields the line of class `v` depends on, normalised as the code
normalises them (`\` → `/`, root `""` → `"."` in v3; sha only for files,
target only for symlinks, revision/executable only in the strict classes) -/
def normEntry (v : Variant) (e : Entry) : Entry :=
  { path := replBackslash (dotRoot v e.path)
    kind := e.kind
    fileId := e.fileId
    sha1 := if e.kind = .file then e.sha1 else []
    target := if e.kind = .symlink then replBackslash (dotRoot v e.target) else []
    revision := if isStrict v then e.revision else []
    executable := if isStrict v then e.executable else false }

structure Attested where
  revisionId : Str
  committer : Str
  timestamp : Int               -- whole seconds
  timezone : Int
  parents : List Str            -- sorted
  message : List Str            -- splitlines
  entries : List Entry          -- list_files order, normalised
  props : List (Str × List Str) -- sorted by name, values as splitlines
  deriving DecidableEq, Repr

def attested (v : Variant) (r : Rev) : Attested :=
  { revisionId := r.revisionId
    committer := r.committer
    timestamp := timestampOf r
    timezone := timezoneOf r
    parents := sortStrs r.parents
    message := splitlines r.message
    entries := (sortEntries r.entries).map (normEntry v)
    props := (sortProps r.props).map fun nv => (nv.1, splitlines nv.2) }

/-! ### `as_short_text()` -/

/-- `as_short_text()`: `short_header + b"revision-id: %s\nsha1: %s\n" % (revision_id, as_sha1())`.
`sha` stands for `sha_strings` of the encoded lines (UTF-8 encoding, SHA-1,
hex digest); the exceptions are those of `__init__` / `as_text_lines()`. -/
def shortText (sha : Str → Str) (v : Variant) (r : Rev) : Except Err Str :=
  match text v r with
  | .error e => .error e
  | .ok t => .ok (shortHeader v ++ ("revision-id: ".toList ++ (r.revisionId ++ '\n' ::
      ("sha1: ".toList ++ (sha t ++ ['\n'])))))

/-! ### canonical messages / property values -/

/-- `"\n".join(lines)` -/
def joinNl : List Str → Str
  | [] => []
  | [a] => a
  | a :: b :: r => a ++ '\n' :: joinNl (b :: r)

/-- a message / property value on which `splitlines` loses nothing: the only
line boundary it contains is `\n` and it does not end with one -/
def msgCanon (s : Str) : Bool :=
  s.all (fun c => !isBreak c || c == '\n') && s.getLast? != some '\n'

end BreezyVerif.C41
