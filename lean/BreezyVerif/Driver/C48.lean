import BreezyVerif.Common
import BreezyVerif.Model.C48
namespace BreezyVerif.C48

/-- a string travels as its code points in decimal joined by `.`; `e` = empty -/
def decStr (s : String) : Option (List Char) :=
  if s == "e" then some [] else
  (s.splitOn ".").mapM fun f => (f.toNat?).bind fun n =>
    if n < 0xd800 ∨ (0xdfff < n ∧ n < 0x110000) then some (Char.ofNat n) else none

def encStr (s : List Char) : String :=
  if s.isEmpty then "e" else ".".intercalate (s.map fun c => toString c.toNat)

/-- a list of strings: `,`-separated, `-` = empty list -/
def decList (s : String) : Option (List (List Char)) := (splitList s).mapM decStr

def showRes : Option (Option (List Char)) → String
  | none => "E"
  | some none => "N"
  | some (some p) => "S " ++ encStr p

def okName (n : List Char) : Bool := !n.contains '\n'

/-- `greedy` = the shared greedy extension prefix of the current code; `inorder` = the variant -/
def variant (s : String) : Option Bool :=
  if s == "greedy" then some false else if s == "inorder" then some true else none

/-- `norm p` | `ident p` | `one p name` | `glob variant g pats name` | `exc variant g pats name` | `ord pats name` -/
def handle : List String → String
  | ["norm", p] =>
    match decStr p with
    | some p => encStr (normalize p)
    | none => "bad-op"
  | ["ident", p] =>
    match decStr p with
    | some p => (identify (normalize p)).toString
    | none => "bad-op"
  | ["one", p, n] =>
    match decStr p, decStr n with
    | some p, some n =>
      if okName n then
        match compile (normalize p) with
        | some cp => showBool (cpMatches cp n)
        | none => "E"
      else "bad-op"
    | _, _ => "bad-op"
  | ["glob", v, g, ps, n] =>
    match variant v, g.toNat?, decList ps, decStr n with
    | some v, some g, some ps, some n => if g > 0 ∧ okName n then showRes (globster v g ps n) else "bad-op"
    | _, _, _, _ => "bad-op"
  | ["exc", v, g, ps, n] =>
    match variant v, g.toNat?, decList ps, decStr n with
    | some v, some g, some ps, some n => if g > 0 ∧ okName n then showRes (exceptionGlobster v g ps n) else "bad-op"
    | _, _, _, _ => "bad-op"
  | ["ord", ps, n] =>
    match decList ps, decStr n with
    | some ps, some n => if okName n then showRes (ordered ps n) else "bad-op"
    | _, _ => "bad-op"
  | _ => "bad-op"

end BreezyVerif.C48

def main : IO Unit := BreezyVerif.runDriver BreezyVerif.C48.handle
