import BreezyVerif.Model.C19
import BreezyVerif.Lemmas.C19
import BreezyVerif.Lemmas.C19Place
/-!
C19 — theorems.  All statements are over arbitrary region lists, arbitrary
lines (byte strings, any length, with or without trailing newline, including
lines that start with the sentinel or look like markers) and both option flags;
nothing is bounded.

The region computation of the external `merge3` package is an input (see
Model/C19.lean); "the three-way merge has conflicting regions" is
`regions.any Region.isConflict`.
-/
namespace BreezyVerif.C19

/-- the start marker `text_merge` uses is fresh: no BASE / OTHER / THIS line starts with it
(the `while … += b"!"` loop of the code, modelled with proved-sufficient fuel) -/
theorem marker_fresh (base other this : List Line) :
    ∀ l ∈ base ++ other ++ this, (freshMarker base other this).isPrefixOf l = false :=
  freshMarker_fresh base other this

/-- **Main theorem.**  For ALL inputs — including lines that start with the
sentinel or look like markers — `text_merge` writes exactly the conventional
rendering (start marker `<<<<<<< TREE`) and its `text_conflicts` flag is exactly
"some region is a conflict".  The only hypothesis is that the regions denote
lines of the inputs.  Errors (`CantReprocessAndShowBase`, merge3's assertion)
coincide. -/
theorem text_merge_spec (o : Opts) (base this other : List Line) (regions : List Region)
    (h : FromInputs o.showBase base this other regions) (hopt : (o.showBase && o.reprocess) = false) :
    textMerge o base this other regions =
      match renderSpec o this regions with
      | .error e => .error e
      | .ok ls => .ok (ls, regions.any Region.isConflict) := by
  unfold textMerge renderSpec
  simp only [hopt, Bool.false_eq_true, if_false]
  obtain ⟨r0, hr0⟩ := freshMarker_form base other this
  have hf := freshMarker_fresh base other this
  rw [hr0] at hf ⊢
  exact mergeLines_marker o r0 (newlineOf this) regions (fun r hr l hl => hf l (h r hr l hl))

/-- the flag is set iff some region is a conflict -/
theorem render_conflict_iff (o : Opts) (base this other : List Line) (regions : List Region)
    (h : FromInputs o.showBase base this other regions) (ls : List Line) (flag : Bool)
    (hr : textMerge o base this other regions = .ok (ls, flag)) :
    flag = true ↔ ∃ r ∈ regions, r.isConflict = true := by
  have hopt : (o.showBase && o.reprocess) = false := by
    cases hb : (o.showBase && o.reprocess) with
    | false => rfl
    | true => simp [textMerge, hb] at hr
  rw [text_merge_spec o base this other regions h hopt] at hr
  cases hs : renderSpec o this regions with
  | error e => simp [hs] at hr
  | ok l =>
    simp only [hs, Except.ok.injEq, Prod.mk.injEq] at hr
    rw [← hr.2]; simp

/-- **The title of the property.**  If no input line is itself the line `<<<<<<< TREE` (+ newline),
then a text conflict is recorded exactly when that marker line is written to the file — and with it
the `=======` and `>>>>>>> MERGE-SOURCE` lines.  (Without the hypothesis only "recorded ⇒ written"
holds: a user line that looks like the marker is copied verbatim and records nothing.) -/
theorem markers_written_iff (o : Opts) (base this other : List Line) (regions : List Region)
    (h : FromInputs o.showBase base this other regions) (ls : List Line) (flag : Bool)
    (hr : textMerge o base this other regions = .ok (ls, flag))
    (hu : ∀ l ∈ base ++ other ++ this, l ≠ withName lt7 nameA ++ newlineOf this) :
    (flag = true ↔ (withName lt7 nameA ++ newlineOf this) ∈ ls) ∧
    (flag = true → (eq7 ++ newlineOf this) ∈ ls ∧ (withName gt7 nameB ++ newlineOf this) ∈ ls) := by
  have hopt : (o.showBase && o.reprocess) = false := by
    cases hb : (o.showBase && o.reprocess) with
    | false => rfl
    | true => simp [textMerge, hb] at hr
  rw [text_merge_spec o base this other regions h hopt] at hr
  cases hs : renderSpec o this regions with
  | error e => simp [hs] at hr
  | ok l =>
    simp only [hs, Except.ok.injEq, Prod.mk.injEq] at hr
    obtain ⟨rfl, rfl⟩ := hr
    unfold renderSpec at hs
    refine ⟨⟨?_, ?_⟩, ?_⟩
    · intro hf
      simp only [List.any_eq_true] at hf
      obtain ⟨r, hr1, hr2⟩ := hf
      exact mem_of_mergeLines_conflict _ _ _ regions l hs r hr1 hr2
    · intro hm
      cases hf : regions.any Region.isConflict with
      | true => rfl
      | false =>
        exfalso
        have hc : ∀ r ∈ regions, r.isConflict = false := by
          intro r hr; simp only [List.any_eq_false] at hf; simpa using hf r hr
        rw [mergeLines_clean _ _ _ regions hc] at hs
        simp only [Except.ok.injEq] at hs
        subst hs
        simp only [List.mem_flatMap] at hm
        obtain ⟨r, hr1, hr2⟩ := hm
        have : r.chosen = r.emitted o.showBase := by
          have := hc r hr1
          cases r <;> simp_all [Region.chosen, Region.emitted, Region.isConflict]
        rw [this] at hr2
        exact hu _ (h r hr1 _ hr2) rfl
    · intro hf
      simp only [List.any_eq_true] at hf
      obtain ⟨r, hr1, hr2⟩ := hf
      exact mem_markers_of_conflict _ _ _ regions l hs r hr1 hr2

/-- a conflict region always sets the flag — no hypothesis at all -/
theorem flag_of_conflict (o : Opts) (base this other : List Line) (regions : List Region)
    (ls : List Line) (flag : Bool) (hr : textMerge o base this other regions = .ok (ls, flag))
    (hc : ∃ r ∈ regions, r.isConflict = true) : flag = true := by
  unfold textMerge at hr
  split at hr
  · cases hr
  · simp only at hr
    cases hm : mergeLines (withName (freshMarker base other this) nameA) (baseMarkerOf o) (newlineOf this) regions with
    | error e => simp [hm] at hr
    | ok l =>
      simp only [hm, Except.ok.injEq, iterMerge3, Prod.mk.injEq] at hr
      rw [← hr.2]
      obtain ⟨r, hr1, hr2⟩ := hc
      exact any_fix_of_conflict _ _ (newlineOf this) regions l hm r hr1 hr2

/-- without conflict regions the rendering is the cleanly merged text: the
chosen side of every region, in order, and no marker line at all -/
theorem render_clean (o : Opts) (this : List Line) (regions : List Region)
    (hc : ∀ r ∈ regions, r.isConflict = false) :
    renderSpec o this regions = .ok (regions.flatMap Region.chosen) := by
  unfold renderSpec
  exact mergeLines_clean _ _ _ regions hc

/-- consequently: no conflict region ⇒ the file holds the clean merge and no conflict is recorded -/
theorem text_merge_clean (o : Opts) (base this other : List Line) (regions : List Region)
    (h : FromInputs o.showBase base this other regions) (hopt : (o.showBase && o.reprocess) = false)
    (hc : ∀ r ∈ regions, r.isConflict = false) :
    textMerge o base this other regions = .ok (regions.flatMap Region.chosen, false) := by
  rw [text_merge_spec o base this other regions h hopt, render_clean o this regions hc]
  have : regions.any Region.isConflict = false := by
    simp only [List.any_eq_false]; intro r hr; simp [hc r hr]
  simp [this]

/-- rendering is a homomorphism over region lists: regions are rendered
independently and in order -/
theorem render_append (s : Bytes) (bm : Option Bytes) (nl : Bytes) (r1 r2 : List Region) :
    mergeLines s bm nl (r1 ++ r2) =
      match mergeLines s bm nl r1, mergeLines s bm nl r2 with
      | .ok x, .ok y => .ok (x ++ y)
      | .error e, _ => .error e
      | .ok _, .error e => .error e :=
  mergeLines_append s bm nl r1 r2

/-- between the markers stand exactly the THIS and OTHER lines of the region … -/
theorem render_content_plain (o : Opts) (this : List Line) (hb : o.showBase = false)
    (base : Option (List Line)) (ta tb : List Line) :
    renderSpec o this [.conflict base ta tb] =
      .ok ((withName lt7 nameA ++ newlineOf this) :: ta ++ (eq7 ++ newlineOf this) :: tb
            ++ [withName gt7 nameB ++ newlineOf this]) := by
  simp [renderSpec, mergeLines, renderRegion, baseMarkerOf, hb]

/-- … and with show-base additionally the BASE lines after `||||||| BASE-REVISION` -/
theorem render_content_show_base (o : Opts) (this : List Line) (hb : o.showBase = true)
    (bl ta tb : List Line) :
    renderSpec o this [.conflict (some bl) ta tb] =
      .ok ((withName lt7 nameA ++ newlineOf this) :: ta ++ (withName bar7 nameBase ++ newlineOf this) :: bl
            ++ (eq7 ++ newlineOf this) :: tb ++ [withName gt7 nameB ++ newlineOf this]) := by
  simp [renderSpec, mergeLines, renderRegion, baseMarkerOf, hb]

/-- **Former witness of finding F3, now positive.**  A conflict-free merge in
which THIS added a line starting with the sentinel (and even one starting with
the once-extended sentinel) is written verbatim and records no conflict. -/
theorem sentinel_line_clean :
    textMerge ⟨false, false⟩ [[97, 10]] [[97, 10], sentinel ++ [32, 120, 10], sentinel ++ [33, 10]] [[97, 10], [99, 10]]
        [.unchanged [[97, 10]], .a [sentinel ++ [32, 120, 10], sentinel ++ [33, 10]], .b [[99, 10]]]
      = .ok ([[97, 10], sentinel ++ [32, 120, 10], sentinel ++ [33, 10], [99, 10]], false) ∧
    freshMarker [[97, 10]] [[97, 10], [99, 10]] [[97, 10], sentinel ++ [32, 120, 10], sentinel ++ [33, 10]]
      = sentinel ++ [33, 33] := by
  decide

/-- `split_lines` loses nothing: helper files written from the line lists hold exactly the texts -/
theorem join_splitLines (t : Bytes) : joinLines (splitLines t) = t := by
  unfold splitLines joinLines
  have := join_splitLinesAux t []
  simpa using this

/-- helper files hold exactly the BASE, THIS and OTHER texts, for every input -/
theorem helpers_exact (o : Opts) (base this other : List Line) (regions : List Region)
    (c b t x : Bytes) (h : mergeFile o base this other regions = .textConflict c b t x) :
    b = joinLines base ∧ t = joinLines this ∧ x = joinLines other := by
  unfold mergeFile at h
  repeat' split at h
  all_goals (cases h <;> exact ⟨rfl, rfl, rfl⟩)

/-- **File-level statement.**  For text files (no NUL) and legal options: a text conflict is recorded iff both sides changed the text
differently and the merge has a conflict region; then the file holds the marker
rendering and the helpers hold the three texts; otherwise the file holds the
cleanly merged text (THIS / OTHER when only one side changed) and there are no
helpers and no record. -/
theorem merge_file_spec (o : Opts) (base this other : List Line) (regions : List Region)
    (h : FromInputs o.showBase base this other regions) (hopt : (o.showBase && o.reprocess) = false)
    (hbin : (isBinary base || isBinary other || isBinary this) = false)
    (ls : List Line) (hs : renderSpec o this regions = .ok ls) :
    mergeFile o base this other regions =
      match C18.threeWay (joinLines base) (joinLines other) (joinLines this) with
      | .this => .clean (joinLines this)
      | .other => .clean (joinLines other)
      | .conflict =>
        if regions.any Region.isConflict then
          .textConflict (joinLines ls) (joinLines base) (joinLines this) (joinLines other)
        else .clean (joinLines ls) := by
  unfold mergeFile
  rw [text_merge_spec o base this other regions h hopt, hs]
  cases C18.threeWay (joinLines base) (joinLines other) (joinLines this) <;> simp only [hbin]
  cases regions.any Region.isConflict <;> simp

/-- resolving a text conflict: the file gets the content of the chosen helper,
all helpers and the record are gone, the file id is on the file -/
theorem resolve_text (w : Side) (s s' : Slot) (h : resolveText w s = .ok s') :
    s'.file = s.helper w ∧ s'.file.isSome ∧ s'.hBase = none ∧ s'.hThis = none ∧ s'.hOther = none ∧
      s'.record = none ∧ s'.idOn = .item := by
  unfold resolveText at h
  split at h
  · cases h
  · rename_i c hc
    cases h; simp [hc]

/-- take-this after a recorded text conflict leaves exactly the THIS text … -/
theorem resolve_take_this (c b t x : Bytes) :
    (Outcome.textConflict c b t x).slot.map (resolveText .this) =
      some (.ok ⟨some t, none, none, none, none, .item⟩) := rfl

/-- … and take-other exactly the OTHER text; helpers and record removed. -/
theorem resolve_take_other (c b t x : Bytes) :
    (Outcome.textConflict c b t x).slot.map (resolveText .other) =
      some (.ok ⟨some x, none, none, none, none, .item⟩) := rfl

/-- end to end: merge, then take-this / take-other, for every input that produces a text conflict -/
theorem merge_then_resolve (o : Opts) (base this other : List Line) (regions : List Region)
    (c b t x : Bytes) (h : mergeFile o base this other regions = .textConflict c b t x) (w : Side) :
    (mergeFile o base this other regions).slot.map (resolveText w) =
      some (.ok ⟨some (match w with | .this => joinLines this | .other => joinLines other),
                 none, none, none, none, .item⟩) := by
  obtain ⟨_, h2, h3⟩ := helpers_exact o base this other regions c b t x h
  rw [h]; subst h2 h3
  cases w <;> rfl

/-- contents conflict (both sides present, e.g. binary): take-other works … -/
theorem resolve_contents_take_other (b t x : Bytes) :
    (Outcome.contentsConflict b t x).slot.map (resolveContents .other) =
      some ⟨some x, none, none, none, none, .item⟩ := rfl

/-- … and so does take-this (after the fix: the file id is handed over to the
helper that is kept): exactly the THIS content, no helpers, no record. -/
theorem resolve_contents_take_this (b t x : Bytes) :
    (Outcome.contentsConflict b t x).slot.map (resolveContents .this) =
      some ⟨some t, none, none, none, none, .item⟩ := rfl


/-! ### placement: the final path, the helper names and path-keyed resolution

All statements are over arbitrary locations (any directory identities, any
names — including names that themselves end in `.THIS` etc.) of the file in
BASE, THIS and OTHER. -/

/-- only OTHER renamed / moved the file: it ends at OTHER's location, no path conflict -/
theorem merge_loc_other_moved (b o : Loc) : mergeLoc (some b) b o = ⟨o, false⟩ := by
  obtain ⟨bp, bn⟩ := b; obtain ⟨op, on⟩ := o
  by_cases h1 : bn = on <;> by_cases h2 : bp = op <;>
    simp [mergeLoc, C18.threeWay, pickWinner, h1, h2, eq_comm]

/-- only THIS renamed / moved the file: it stays at THIS's location, no path conflict -/
theorem merge_loc_this_moved (b t : Loc) : mergeLoc (some b) t b = ⟨t, false⟩ := by
  simp [mergeLoc, C18.threeWay, pickWinner]

/-- both sides moved it to the same place (or both added it there) -/
theorem merge_loc_same_move (b : Option Loc) (t : Loc) : mergeLoc b t t = ⟨t, false⟩ := by
  cases b with
  | none => simp [mergeLoc, C18.threeWay, pickWinner]
  | some b =>
    obtain ⟨bp, bn⟩ := b; obtain ⟨tp, tn⟩ := t
    by_cases h1 : bn = tn <;> by_cases h2 : bp = tp <;>
      simp [mergeLoc, C18.threeWay, pickWinner, h1, h2]

/-- name and directory are merged independently; each comes from THIS or OTHER, and a path conflict is
reported exactly when one of the two attributes was changed differently by both sides -/
theorem merge_loc_components (b t o : Loc) :
    ((mergeLoc (some b) t o).final.name = t.name ∨ (mergeLoc (some b) t o).final.name = o.name) ∧
    ((mergeLoc (some b) t o).final.parent = t.parent ∨ (mergeLoc (some b) t o).final.parent = o.parent) ∧
    ((mergeLoc (some b) t o).pathConflict = true ↔
      (b.name ≠ o.name ∧ t.name ≠ b.name ∧ t.name ≠ o.name) ∨
      (b.parent ≠ o.parent ∧ t.parent ≠ b.parent ∧ t.parent ≠ o.parent)) := by
  obtain ⟨bp, bn⟩ := b; obtain ⟨tp, tn⟩ := t; obtain ⟨op, on⟩ := o
  by_cases h1 : bn = on <;> by_cases h2 : bp = op <;> by_cases h3 : tn = bn <;> by_cases h4 : tp = bp <;>
    by_cases h5 : tn = on <;> by_cases h6 : tp = op <;>
    simp_all [mergeLoc, C18.threeWay, pickWinner]

/-- a file added by both sides (not in BASE): it ends at OTHER's location, and a path conflict is
reported exactly when the two sides put it under different names or into different directories -/
theorem merge_loc_added (t o : Loc) :
    (mergeLoc none t o).final = o ∧ ((mergeLoc none t o).pathConflict = true ↔ t ≠ o) := by
  obtain ⟨tp, tn⟩ := t; obtain ⟨op, on⟩ := o
  by_cases h5 : tn = on <;> by_cases h6 : tp = op <;>
    simp_all [mergeLoc, C18.threeWay, pickWinner]

/-- helper files of an entry that may be absent from BASE hold exactly the texts (`[]` for an absent BASE) -/
theorem helpers_exact_opt (o : Opts) (base : Option (List Line)) (this other : List Line) (regions : List Region)
    (c b t x : Bytes) (h : mergeFileOpt o base this other regions = .textConflict c b t x) :
    b = joinLines (baseLinesOf base) ∧ t = joinLines this ∧ x = joinLines other := by
  unfold mergeFileOpt at h
  repeat' split at h
  all_goals (cases h <;> exact ⟨rfl, rfl, rfl⟩)

/-- **Where a text conflict goes.**  Whatever the three locations (or two, for a file added by both
sides): the record carries the merged (final) path, the marker file is there, the helper files are
`final.BASE` (iff the file is in BASE), `final.THIS`, `final.OTHER` in the same directory and hold
exactly the three texts, the file id stays on the file, and the entry leaves no file under any other
name. -/
theorem entry_text_conflict_placed (o : Opts) (base : Option (Loc × List Line)) (tl ol : Loc)
    (this other : List Line) (regions : List Region) (c b t x : Bytes)
    (h : mergeFileOpt o (base.map (·.2)) this other regions = .textConflict c b t x) :
    ∃ p, mergeEntry o base tl ol this other regions = some p ∧
      p.record = some (.text, (mergeLoc (base.map (·.1)) tl ol).final) ∧
      p.get (mergeLoc (base.map (·.1)) tl ol).final = some c ∧
      p.get ((mergeLoc (base.map (·.1)) tl ol).final.suffixed sfxBase) = base.map (fun b => joinLines b.2) ∧
      p.get ((mergeLoc (base.map (·.1)) tl ol).final.suffixed sfxThis) = some (joinLines this) ∧
      p.get ((mergeLoc (base.map (·.1)) tl ol).final.suffixed sfxOther) = some (joinLines other) ∧
      p.idAt = some (mergeLoc (base.map (·.1)) tl ol).final ∧
      ∀ f ∈ p.files, f.1 = (mergeLoc (base.map (·.1)) tl ol).final ∨
        f.1 = (mergeLoc (base.map (·.1)) tl ol).final.suffixed sfxBase ∨
        f.1 = (mergeLoc (base.map (·.1)) tl ol).final.suffixed sfxThis ∨
        f.1 = (mergeLoc (base.map (·.1)) tl ol).final.suffixed sfxOther := by
  obtain ⟨hb, ht, hx⟩ := helpers_exact_opt o _ this other regions c b t x h
  subst hb ht hx
  have he : mergeEntry o base tl ol this other regions =
      place (mergeLoc (base.map (·.1)) tl ol).final (mergeLoc (base.map (·.1)) tl ol).pathConflict base.isSome
        (.textConflict c (joinLines (baseLinesOf (base.map (·.2)))) (joinLines this) (joinLines other)) := by
    simp only [mergeEntry, h]
  refine ⟨_, he, rfl, ?_, ?_, ?_, ?_, rfl, ?_⟩
  · simp [Placed.get, lookupLoc]
  · cases base <;> simp [Placed.get, lookupLoc, optFile, baseLinesOf]
  · cases base <;> simp [Placed.get, lookupLoc, optFile]
  · cases base <;> simp [Placed.get, lookupLoc, optFile]
  · intro f hf
    cases base <;> simp [optFile] at hf <;> rcases hf with rfl | rfl | rfl | rfl <;> simp

/-- a clean merge leaves exactly one file, at the merged location -/
theorem entry_clean_placed (o : Opts) (base : Option (Loc × List Line)) (tl ol : Loc) (this other : List Line)
    (regions : List Region) (c : Bytes) (h : mergeFileOpt o (base.map (·.2)) this other regions = .clean c) :
    mergeEntry o base tl ol this other regions =
      some ⟨[((mergeLoc (base.map (·.1)) tl ol).final, c)], none, some (mergeLoc (base.map (·.1)) tl ol).final,
            (mergeLoc (base.map (·.1)) tl ol).pathConflict⟩ := by
  simp only [mergeEntry, h, place]

/-- **End to end with paths.**  For every input that produces a text conflict and every way the
file was renamed / moved on either side (or added by both): resolving the recorded conflict (by its
recorded path) with take-this / take-other leaves exactly one file, at the merged location, holding
exactly the THIS / OTHER text; all helper files and the record are gone. -/
theorem entry_merge_then_resolve (o : Opts) (base : Option (Loc × List Line)) (tl ol : Loc)
    (this other : List Line) (regions : List Region) (c b t x : Bytes)
    (h : mergeFileOpt o (base.map (·.2)) this other regions = .textConflict c b t x) (w : Side) :
    (mergeEntry o base tl ol this other regions).map (resolvePlaced w) =
      some (.ok ⟨[((mergeLoc (base.map (·.1)) tl ol).final,
                    match w with | .this => joinLines this | .other => joinLines other)],
                 none, some (mergeLoc (base.map (·.1)) tl ol).final,
                 (mergeLoc (base.map (·.1)) tl ol).pathConflict⟩) := by
  obtain ⟨hb, ht, hx⟩ := helpers_exact_opt o _ this other regions c b t x h
  subst hb ht hx
  cases base with
  | none =>
    simp only [Option.map_none] at h
    cases w <;>
      simp [mergeEntry, h, place, resolvePlaced, Placed.view, Placed.get, Placed.idLoc, lookupLoc, resolveText,
        Slot.helper, Placed.putSlot, optFile]
  | some bb =>
    simp only [Option.map_some] at h
    cases w <;>
      simp [mergeEntry, h, place, resolvePlaced, Placed.view, Placed.get, Placed.idLoc, lookupLoc, resolveText,
        Slot.helper, Placed.putSlot, optFile]

/-- the same for a both-sides contents conflict (binary file) -/
theorem entry_contents_then_resolve (o : Opts) (base : Option (Loc × List Line)) (tl ol : Loc)
    (this other : List Line) (regions : List Region) (b t x : Bytes)
    (h : mergeFileOpt o (base.map (·.2)) this other regions = .contentsConflict b t x) (w : Side) :
    (mergeEntry o base tl ol this other regions).map (resolvePlaced w) =
      some (.ok ⟨[((mergeLoc (base.map (·.1)) tl ol).final, match w with | .this => t | .other => x)],
                 none, some (mergeLoc (base.map (·.1)) tl ol).final, false⟩) := by
  cases base with
  | none =>
    simp only [Option.map_none] at h
    cases w <;>
      simp [mergeEntry, h, place, resolvePlaced, Placed.view, Placed.get, Placed.idLoc, lookupLoc, resolveContents,
        Placed.putSlot, optFile]
  | some bb =>
    simp only [Option.map_some] at h
    cases w <;>
      simp [mergeEntry, h, place, resolvePlaced, Placed.view, Placed.get, Placed.idLoc, lookupLoc, resolveContents,
        Placed.putSlot, optFile]

/-- for a file that is in BASE the entry-level content merge is `mergeFile`, so `merge_file_spec`,
`text_merge_spec`, `markers_written_iff` … describe what `mergeEntry` places -/
theorem entry_content_is_merge_file (o : Opts) (bl : Loc) (base this other : List Line) (regions : List Region) :
    mergeFileOpt o ((some (bl, base)).map (·.2)) this other regions = mergeFile o base this other regions :=
  mergeFileOpt_some o base this other regions

/-- a file added by both sides with different texts is text-merged against an empty BASE; a recorded
conflict then has no `.BASE` helper -/
theorem entry_added_no_base_helper (o : Opts) (tl ol : Loc) (this other : List Line) (regions : List Region)
    (p : Placed) (h : mergeEntry o none tl ol this other regions = some p) :
    p.get ((mergeLoc none tl ol).final.suffixed sfxBase) = none := by
  simp only [mergeEntry, Option.map_none, Option.isSome_none] at h
  cases hm : mergeFileOpt o none this other regions with
  | clean c => simp only [hm, place, Option.some.injEq] at h; subst h; simp [Placed.get, lookupLoc]
  | textConflict c b t x => simp only [hm, place, Option.some.injEq] at h; subst h; simp [Placed.get, lookupLoc, optFile]
  | contentsConflict b t x => simp only [hm, place, Option.some.injEq] at h; subst h; simp [Placed.get, lookupLoc, optFile]
  | error e => simp [hm, place] at h

/-- the seeded scenario, concretely: BASE `1/f`, THIS edits, OTHER edits and renames to `1/g` -/
example :
    (mergeEntry ⟨false, false⟩ (some (⟨1, [102]⟩, [[97, 10]])) ⟨1, [102]⟩ ⟨1, [103]⟩ [[98, 10]] [[99, 10]]
        [.conflict none [[98, 10]] [[99, 10]]]).map (fun p => (p.record, p.files.map (·.1), resolvePlaced .this p)) =
      some (some (.text, ⟨1, [103]⟩),
            [⟨1, [103]⟩, ⟨1, [103, 46, 66, 65, 83, 69]⟩, ⟨1, [103, 46, 84, 72, 73, 83]⟩, ⟨1, [103, 46, 79, 84, 72, 69, 82]⟩],
            .ok ⟨[(⟨1, [103]⟩, [98, 10])], none, some ⟨1, [103]⟩, false⟩) := by
  decide

/-- added by both sides under different names: path conflict, OTHER's name, helpers `.THIS` / `.OTHER` only -/
example :
    (mergeEntry ⟨false, false⟩ none ⟨1, [102]⟩ ⟨1, [103]⟩ [[98, 10]] [[99, 10]]
        [.conflict none [[98, 10]] [[99, 10]]]).map (fun p => (p.record, p.files.map (·.1), p.pathConflict)) =
      some (some (.text, ⟨1, [103]⟩),
            [⟨1, [103]⟩, ⟨1, [103, 46, 84, 72, 73, 83]⟩, ⟨1, [103, 46, 79, 84, 72, 69, 82]⟩], true) := by
  decide

/-! non-vacuity of the hypotheses -/

example : FromInputs true [[97, 10], [98, 10]] [[97, 10], [66, 10]] [[97, 10], [88]]
    [.unchanged [[97, 10]], .conflict (some [[98, 10]]) [[66, 10]] [[88]]] := by
  decide
example :
    textMerge ⟨false, true⟩ [[97, 13, 10], [98, 10]] [[97, 13, 10], [66, 10]] [[97, 13, 10], [88]]
        [.unchanged [[97, 13, 10]], .conflict (some [[98, 10]]) [[66, 10]] [[88]]]
      = .ok ([[97, 13, 10], withName lt7 nameA ++ [13, 10], [66, 10], withName bar7 nameBase ++ [13, 10], [98, 10],
              eq7 ++ [13, 10], [88], withName gt7 nameB ++ [13, 10]], true) := by
  decide
example : mergeFile ⟨true, false⟩ [[97, 10]] [[98, 10]] [[99, 10]] [.conflict none [[98, 10]] [[99, 10]]]
    = .textConflict (withName lt7 nameA ++ [10] ++ [98, 10] ++ eq7 ++ [10] ++ [99, 10] ++ withName gt7 nameB ++ [10])
        [97, 10] [98, 10] [99, 10] := by
  decide
example : (isBinary [[97, 10]] || isBinary [[99, 10]] || isBinary [[98, 10]]) = false := by decide

/-- binary detection looks at whole lines until the 1024-byte window is full: a NUL in the line that
overflows the window still counts, a NUL after it does not -/
theorem binary_window (pre : List Line) (l : Line) (rest : List Line)
    (hp : ∀ x ∈ pre, x.contains 0 = false) (hfit : (pre.map List.length).sum ≤ 1024)
    (hover : (pre.map List.length).sum + l.length > 1024) :
    isBinary (pre ++ l :: rest) = l.contains 0 := by
  have key : ∀ (off : Nat) (pre : List Line), (∀ x ∈ pre, x.contains 0 = false) →
      off + (pre.map List.length).sum ≤ 1024 → off + (pre.map List.length).sum + l.length > 1024 →
      checkTextLines off (pre ++ l :: rest) = !l.contains 0 := by
    intro off pre
    induction pre generalizing off with
    | nil =>
      intro _ _ h2
      simp only [List.nil_append, checkTextLines]
      cases hl : l.contains 0 with
      | true => simp
      | false =>
        simp only [List.map_nil, List.sum_nil, Nat.add_zero] at h2
        simp [h2]
    | cons x xs ih =>
      intro h0 h1 h2
      have hx := h0 x (by simp)
      simp only [List.map_cons, List.sum_cons] at h1 h2
      simp only [List.cons_append, checkTextLines, hx, Bool.false_eq_true, if_false]
      have : ¬ (off + x.length > 1024) := by omega
      simp only [this, if_false]
      exact ih (off + x.length) (fun y hy => h0 y (by simp [hy])) (by omega) (by omega)
  have := key 0 pre hp (by simpa using hfit) (by simpa using hover)
  simp [isBinary, this]

/-- non-vacuity of `binary_window`: a 1000-byte line, then a 30-byte line that overflows the window -/
example : (∀ x ∈ [List.replicate 1000 (97 : UInt8)], x.contains 0 = false) ∧
    ([List.replicate 1000 (97 : UInt8)].map List.length).sum ≤ 1024 ∧
    ([List.replicate 1000 (97 : UInt8)].map List.length).sum + (List.replicate 30 (98 : UInt8)).length > 1024 := by
  refine ⟨?_, ?_, ?_⟩
  · intro x hx
    rw [List.mem_singleton] at hx
    subst hx
    cases h : (List.replicate 1000 (97 : UInt8)).contains 0 with
    | false => rfl
    | true =>
      rw [List.contains_iff_mem, List.mem_replicate] at h
      exact absurd h.2 (by decide)
  · simp only [List.map_cons, List.map_nil, List.length_replicate, List.sum_cons, List.sum_nil]; omega
  · simp only [List.map_cons, List.map_nil, List.length_replicate, List.sum_cons, List.sum_nil]; omega
/-- `markers_written_iff`: its hypothesis holds for ordinary texts and fails for a text that contains the marker line -/
example : ∀ l ∈ [[97, 10]] ++ [[99, 10]] ++ [[98, 10]], l ≠ withName lt7 nameA ++ newlineOf [[98, 10]] := by decide
example : ¬ ∀ l ∈ [[97, 10]] ++ [[99, 10]] ++ [withName lt7 nameA ++ [10]], l ≠ withName lt7 nameA ++ newlineOf [withName lt7 nameA ++ [10]] := by
  decide

end BreezyVerif.C19
