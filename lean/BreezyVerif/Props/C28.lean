import BreezyVerif.Model.C28
import BreezyVerif.Lemmas.C28
/-!
C28 — reentrant locking takes and releases the physical lock exactly once.

Every theorem quantifies over ALL operation sequences (`List Op`, no length
bound), all tokens and both initial on-disk situations, by induction over the
sequence through the invariants of `Lemmas/C28.lean` (`CL.Inv`, `LF.Inv`,
`Repo.Inv`, `Branch.Inv`, each established at `init` and preserved by every
step).  `Balanced log held` says the log of physical calls is a prefix of
`(acquire release)*` ending with the lock `held`.

`*_refused_unchanged`: a call that raises leaves the object exactly as it was;
`*_ok_count`: a call that returns changes the nesting count by exactly one;
`*_edge`: the physical lock (for the repository: the fallback repositories) is
acquired exactly on the 0→1 edge of the count and released exactly on the 1→0
edge, and not touched otherwise.

For `BzrBranch` the unchanged code violates "unlocking more often than locking
is refused without changing the lock state": `branch_over_unlock_witness`.
-/
namespace BreezyVerif.C28

/-! ### CountedLock -/

/-- For every operation sequence: the physical log is balanced, the physical
lock is held iff the count is positive iff `is_locked()`. -/
theorem cl_physical_balanced (ext : Bool) (ops : List Op) :
    let s := (CL.init ext).run ops
    Balanced s.phys.log (decide (0 < s.count)) ∧
    (s.phys.held.isSome = true ↔ 0 < s.count) ∧ (s.isLocked = true ↔ 0 < s.count) := by
  intro s
  have h : s.Inv := CL.inv_run (CL.inv_init ext) ops
  obtain ⟨h1, h2, h3⟩ := h
  refine ⟨?_, by rw [← h1]; exact h2, h2⟩
  have : s.phys.held.isSome = decide (0 < s.count) := by
    rw [← h1]
    by_cases hc : 0 < s.count
    · simp [hc, h2.mpr hc]
    · have : s.mode.isSome = false := by
        cases hm : s.mode.isSome with
        | false => rfl
        | true => exact absurd (h2.mp hm) hc
      simp [hc, this]
  rw [← this]; exact h3

theorem cl_refused_unchanged (s : CL) (o : Op) (e : Err)
    (hr : (s.step o).2 = .error e) : (s.step o).1 = s := by
  cases o <;> simp only [CL.step, CL.lockRead, CL.lockWrite, CL.unlock] at hr ⊢ <;>
    (repeat' split at hr) <;> simp_all

theorem cl_ok_count (s : CL) (h : s.Inv) (o : Op) (t : Option Nat)
    (hr : (s.step o).2 = .ok t) :
    if o = .unlock then (s.step o).1.count + 1 = s.count else (s.step o).1.count = s.count + 1 := by
  obtain ⟨h1, h2, h3⟩ := h
  cases o <;> simp only [CL.step, CL.lockRead, CL.lockWrite, CL.unlock] at hr ⊢ <;>
    (repeat' split at hr) <;> simp_all <;> omega

/-- the physical lock is taken exactly when the first lock is taken, released
exactly when the last one is released, and not touched otherwise -/
theorem cl_edge (s : CL) (h : s.Inv) (o : Op) :
    (s.count = 0 → 0 < (s.step o).1.count →
      ∃ e, e ≠ Ev.rel ∧ (s.step o).1.phys.log = s.phys.log ++ [e]) ∧
    (0 < s.count → (s.step o).1.count = 0 → (s.step o).1.phys.log = s.phys.log ++ [.rel]) ∧
    ((s.count = 0 ↔ (s.step o).1.count = 0) → (s.step o).1.phys.log = s.phys.log) := by
  obtain ⟨h1, h2, h3⟩ := h
  cases o with
  | lockRead =>
    simp only [CL.step, CL.lockRead]
    split
    · next hm => have := h2.mp hm; refine ⟨by intro; omega, by intro _ h; simp at h, by intro; rfl⟩
    · next hm =>
      have : s.count = 0 := by
        have : ¬ 0 < s.count := fun h => hm (h2.mpr h)
        omega
      refine ⟨fun _ _ => ⟨.acqR, by decide, rfl⟩, by intro h; omega, by intro h; simp [this] at h⟩
  | lockWrite tok =>
    simp only [CL.step, CL.lockWrite]
    split
    · next hc =>
      split
      · refine ⟨by intro _ h; simp [hc] at h, by intro h; omega, by intro; rfl⟩
      · next p t hp =>
        obtain ⟨hw, e, he, hl⟩ := Phys.lockWrite_ok hp
        refine ⟨fun _ _ => ⟨e, he, hl⟩, by intro h; omega, by intro h; simp [hc] at h⟩
    · next hc =>
      split
      · exact ⟨by intro h; omega, by intro _ h; simp at h; omega, by intro; rfl⟩
      · split
        · exact ⟨by intro h; omega, by intro _ h; simp at h; omega, by intro; rfl⟩
        · exact ⟨by intro h; omega, by intro _ h; simp at h, by intro; rfl⟩
  | unlock =>
    simp only [CL.step, CL.unlock]
    split
    · next hc => exact ⟨by intro _ h; simp [hc] at h, by intro h; omega, by intro; rfl⟩
    · next hc =>
      split
      · next hc1 => exact ⟨by intro h; omega, fun _ _ => rfl, by intro h; simp at h; omega⟩
      · next hc1 => exact ⟨by intro h; omega, by intro _ h; simp at h; omega, by intro; rfl⟩

/-- a write lock requested while read-locked is refused, nothing changes -/
theorem cl_write_after_read_refused (s : CL) (h : s.Inv) (hm : s.mode = some .r) (tok : Option Nat) :
    s.step (.lockWrite tok) = (s, .error .readOnly) := by
  have hc : 0 < s.count := h.mode_count.mp (by simp [hm])
  have : ¬ s.count = 0 := by omega
  simp [CL.step, CL.lockWrite, this, hm]

/-- unlocking more often than locking is refused, nothing changes -/
theorem cl_over_unlock_refused (s : CL) (hc : s.count = 0) :
    s.step .unlock = (s, .error .notHeld) := by
  simp [CL.step, CL.unlock, hc]

/-! ### LockableFiles -/

theorem lf_physical_balanced (ext : Bool) (ops : List Op) :
    let s := (LF.init ext).run ops
    Balanced s.phys.log (decide (0 < s.count)) ∧
    (s.phys.held.isSome = true ↔ 0 < s.count) ∧ (s.isLocked = true ↔ 0 < s.count) := by
  intro s
  have h : s.Inv := LF.inv_run (LF.inv_init ext) ops
  obtain ⟨h1, _, h2, h3⟩ := h
  refine ⟨?_, by rw [← h1]; exact h2, by simp [LF.isLocked]; omega⟩
  have : s.phys.held.isSome = decide (0 < s.count) := by
    rw [← h1]
    by_cases hc : 0 < s.count
    · simp [hc, h2.mpr hc]
    · have : s.mode.isSome = false := by
        cases hm : s.mode.isSome with
        | false => rfl
        | true => exact absurd (h2.mp hm) hc
      simp [hc, this]
  rw [← this]; exact h3

theorem lf_refused_unchanged (s : LF) (h : s.Inv) (o : Op) (e : Err)
    (hr : (s.step o).2 = .error e) : (s.step o).1 = s := by
  obtain ⟨h1, ht, h2, h3⟩ := h
  cases o <;> simp only [LF.step, LF.lockRead, LF.lockWrite, LF.unlock] at hr ⊢ <;>
    (repeat' split at hr) <;> simp_all

theorem lf_ok_count (s : LF) (h : s.Inv) (o : Op) (t : Option Nat)
    (hr : (s.step o).2 = .ok t) :
    if o = .unlock then (s.step o).1.count + 1 = s.count else (s.step o).1.count = s.count + 1 := by
  cases o with
  | lockRead =>
    obtain ⟨s', e, hc, _, _⟩ := LF.lockRead_spec h
    simp only [LF.step, e, reduceCtorEq, if_false]; exact hc
  | lockWrite tok =>
    obtain ⟨h1, ht, h2, h3⟩ := h
    simp only [LF.step, LF.lockWrite, reduceCtorEq, if_false] at hr ⊢
    (repeat' split at hr) <;> simp_all
  | unlock =>
    rcases LF.unlock_spec h with ⟨_, e⟩ | ⟨_, s', e, hc, _⟩
    · simp only [LF.step, e] at hr; cases hr
    · simp only [LF.step, e, if_true]; exact hc

theorem lf_edge (s : LF) (h : s.Inv) (o : Op) :
    (s.count = 0 → 0 < (s.step o).1.count →
      ∃ e, e ≠ Ev.rel ∧ (s.step o).1.phys.log = s.phys.log ++ [e]) ∧
    (0 < s.count → (s.step o).1.count = 0 → (s.step o).1.phys.log = s.phys.log ++ [.rel]) ∧
    ((s.count = 0 ↔ (s.step o).1.count = 0) → (s.step o).1.phys.log = s.phys.log) := by
  obtain ⟨h1, ht, h2, h3⟩ := h
  have hmc : s.mode.isSome = false → s.count = 0 := fun hm => by
    have : ¬ 0 < s.count := fun h => by rw [h2.mpr h] at hm; cases hm
    omega
  cases o with
  | lockRead =>
    simp only [LF.step, LF.lockRead]
    split
    · next hm => have := h2.mp hm; refine ⟨by intro; omega, by intro _ h; simp at h, by intro; rfl⟩
    · next hm =>
      have hmn : s.mode = none := by simpa using hm
      have htn : s.txn = none := by rw [ht]; exact hmn
      have hc := hmc (by simp [hmn])
      simp only [htn, Option.isSome_none, Bool.false_eq_true, if_false]
      refine ⟨fun _ _ => ⟨.acqR, by decide, rfl⟩, by intro h; omega, by intro h; simp [hc] at h⟩
  | lockWrite tok =>
    simp only [LF.step, LF.lockWrite]
    split
    · next hm =>
      have hc := h2.mp hm
      split
      · exact ⟨by intro h; omega, by intro _ h; simp at h; omega, by intro; rfl⟩
      · split
        · exact ⟨by intro h; omega, by intro _ h; simp at h; omega, by intro; rfl⟩
        · exact ⟨by intro h; omega, by intro _ h; simp at h, by intro; rfl⟩
    · next hm =>
      have hmn : s.mode = none := by simpa using hm
      have htn : s.txn = none := by rw [ht]; exact hmn
      have hc := hmc (by simp [hmn])
      split
      · exact ⟨by intro _ h; simp at h; omega, by intro h; omega, by intro; rfl⟩
      · next p t hp =>
        obtain ⟨hw, e, he, hl⟩ := Phys.lockWrite_ok hp
        simp only [htn, Option.isSome_none, Bool.false_eq_true, if_false]
        refine ⟨fun _ _ => ⟨e, he, hl⟩, by intro h; omega, by intro h; simp [hc] at h⟩
  | unlock =>
    simp only [LF.step, LF.unlock]
    split
    · next hm =>
      have hc := hmc (by cases hmm : s.mode <;> simp_all)
      exact ⟨by intro _ h; simp at h; omega, by intro h; omega, by intro; rfl⟩
    · next hm =>
      split
      · next hc => exact ⟨by intro h; omega, by intro _ h; simp at h; omega, by intro; rfl⟩
      · next hc =>
        have hs : s.mode.isSome = true := by
          cases hmm : s.mode with
          | none => rw [hmm] at hm; exact absurd rfl hm
          | some _ => rfl
        have hpos := h2.mp hs
        have htn : s.txn.isNone = false := by
          rw [ht]
          cases hmm : s.mode with
          | none => rw [hmm] at hs; cases hs
          | some _ => rfl
        simp only [htn, Bool.false_eq_true, if_false]
        exact ⟨by intro h; omega, fun _ _ => rfl, by intro h; simp at h; omega⟩

theorem lf_write_after_read_refused (s : LF) (hm : s.mode = some .r) (tok : Option Nat) :
    s.step (.lockWrite tok) = (s, .error .readOnly) := by
  simp [LF.step, LF.lockWrite, hm]

theorem lf_over_unlock_refused (s : LF) (h : s.Inv) (hc : s.count = 0) :
    s.step .unlock = (s, .error .notHeld) := by
  rcases LF.unlock_spec h with ⟨_, e⟩ | ⟨hp, _⟩
  · simp [LF.step, e]
  · omega

/-! ### PackRepository -/

/-- closes the arithmetic side goals of `repo_edge` -/
macro "edge_close" : tactic =>
  `(tactic| first
      | trivial
      | omega
      | (rename_i a; have := a.mp (by omega); omega)
      | (rename_i a; have := a.mpr (by omega); omega))

/-- For every operation sequence on a PackRepository: the control files'
physical log and the fallback repositories' log are balanced, the fallbacks are
locked (once) exactly while the repository is locked. -/
theorem repo_physical_balanced (ext : Bool) (ops : List Op) :
    let s := (Repo.init ext).run ops
    Balanced s.cf.phys.log s.cf.phys.held.isSome ∧
    (s.cf.phys.held.isSome = true ↔ 0 < s.cf.count) ∧
    (s.isLocked = true ↔ 0 < s.depth) ∧
    (0 < s.depth → s.fb = 1 ∧ Balanced s.fbLog true) ∧
    (s.depth = 0 → s.fb = 0 ∧ Balanced s.fbLog false) := by
  intro s
  have h : s.Inv := Repo.inv_run (Repo.inv_init ext) ops
  refine ⟨h.cf.bal, ?_, Repo.isLocked_iff s, fun hd => ⟨h.fb_pos hd, h.fb_bal_pos hd⟩,
    fun hd => ⟨h.fb_zero hd, h.fb_bal_zero hd⟩⟩
  rw [← h.cf.mode_held]; exact h.cf.mode_count

theorem repo_refused_unchanged (s : Repo) (h : s.Inv) (o : Op) (e : Err)
    (hr : (s.step o).2 = .error e) : (s.step o).1 = s := by
  cases o with
  | lockWrite tok =>
    simp only [Repo.step] at hr ⊢
    rcases Repo.lockWrite_spec h tok with ⟨_, _, e⟩ | ⟨_, e⟩ | ⟨_, e⟩ <;> rw [e] at hr ⊢ <;> first | rfl | cases hr
  | lockRead =>
    simp only [Repo.step] at hr ⊢
    rcases Repo.lockRead_spec h with ⟨_, e⟩ | ⟨_, _, _, _, _, _, e⟩ <;> rw [e] at hr <;> cases hr
  | unlock =>
    simp only [Repo.step] at hr ⊢
    rcases Repo.unlock_spec h with ⟨_, e⟩ | ⟨_, e⟩ | ⟨_, _, _, _, _, _, e⟩ <;> rw [e] at hr ⊢ <;>
      first | rfl | cases hr

theorem repo_ok_count (s : Repo) (h : s.Inv) (o : Op) (t : Option Nat)
    (hr : (s.step o).2 = .ok t) :
    if o = .unlock then (s.step o).1.depth + 1 = s.depth else (s.step o).1.depth = s.depth + 1 := by
  cases o with
  | lockWrite tok =>
    simp only [Repo.step, reduceCtorEq, if_false] at hr ⊢
    rcases Repo.lockWrite_spec h tok with ⟨_, _, e⟩ | ⟨_, e⟩ | ⟨hd, e⟩ <;> rw [e] at hr ⊢
    · cases hr
    · simp only [Repo.depth]; omega
    · simp only [Repo.depth] at hd ⊢; omega
  | lockRead =>
    simp only [Repo.step, reduceCtorEq, if_false] at hr ⊢
    rcases Repo.lockRead_spec h with ⟨_, e⟩ | ⟨_, cf', _, hc, _, _, e⟩ <;> rw [e]
    · simp only [Repo.depth]; omega
    · split <;> simp only [Repo.depth] <;> omega
  | unlock =>
    simp only [Repo.step, if_true] at hr ⊢
    rcases Repo.unlock_spec h with ⟨_, e⟩ | ⟨hw, e⟩ | ⟨_, _, cf', _, hc, _, e⟩ <;> rw [e] at hr ⊢
    · cases hr
    · split <;> simp only [Repo.depth] <;> omega
    · split <;> simp only [Repo.depth] <;> omega

/-- the fallback repositories are locked exactly when the repository's first
lock is taken and unlocked exactly when its last lock is released -/
theorem repo_edge (s : Repo) (h : s.Inv) (o : Op) :
    (s.depth = 0 → 0 < (s.step o).1.depth → (s.step o).1.fbLog = s.fbLog ++ [.acqR]) ∧
    (0 < s.depth → (s.step o).1.depth = 0 → (s.step o).1.fbLog = s.fbLog ++ [.rel]) ∧
    ((s.depth = 0 ↔ (s.step o).1.depth = 0) → (s.step o).1.fbLog = s.fbLog) := by
  cases o with
  | lockWrite tok =>
    simp only [Repo.step]
    rcases Repo.lockWrite_spec h tok with ⟨hw, hc, e⟩ | ⟨hw, e⟩ | ⟨hd, e⟩ <;> rw [e] <;>
      simp only [Repo.depth] at * <;> refine ⟨?_, ?_, ?_⟩ <;> intros <;> edge_close
  | lockRead =>
    simp only [Repo.step]
    rcases Repo.lockRead_spec h with ⟨hw, e⟩ | ⟨hw, cf', _, hc, _, _, e⟩ <;> rw [e]
    · simp only [Repo.depth] at * <;> refine ⟨?_, ?_, ?_⟩ <;> intros <;> edge_close
    · split <;> simp only [Repo.depth] at * <;> refine ⟨?_, ?_, ?_⟩ <;> intros <;> edge_close
  | unlock =>
    simp only [Repo.step]
    rcases Repo.unlock_spec h with ⟨hd, e⟩ | ⟨hw, e⟩ | ⟨hw, hcp, cf', _, hc, _, e⟩ <;> rw [e]
    · simp only [Repo.depth] at * <;> refine ⟨?_, ?_, ?_⟩ <;> intros <;> edge_close
    · have := h.excl
      split <;> simp only [Repo.depth] at * <;> refine ⟨?_, ?_, ?_⟩ <;> intros <;> edge_close
    · split <;> simp only [Repo.depth] at * <;> refine ⟨?_, ?_, ?_⟩ <;> intros <;> edge_close

theorem repo_write_after_read_refused (s : Repo) (h : s.Inv) (hw : s.wcount = 0) (hc : 0 < s.cf.count)
    (tok : Option Nat) : s.step (.lockWrite tok) = (s, .error .readOnly) := by
  simp only [Repo.step]
  rcases Repo.lockWrite_spec h tok with ⟨_, _, e⟩ | ⟨_, e⟩ | ⟨hd, e⟩
  · exact e
  · omega
  · simp only [Repo.depth] at hd; omega

theorem repo_over_unlock_refused (s : Repo) (h : s.Inv) (hd : s.depth = 0) :
    s.step .unlock = (s, .error .notHeld) := by
  simp only [Repo.step]
  rcases Repo.unlock_spec h with ⟨_, e⟩ | ⟨_, e⟩ | ⟨_, _, _, _, _, _, e⟩
  · exact e
  · simp only [Repo.depth] at hd; omega
  · simp only [Repo.depth] at hd; omega

/-! ### BzrBranch over PackRepository -/

/-- For every interleaving of operations on a branch and directly on its
repository: the branch's physical log, the repository's control-files log and
the fallback log are all balanced. -/
theorem branch_physical_balanced (ext : Bool) (ops : List SOp) :
    let s := (Branch.init ext).run ops
    Balanced s.cf.phys.log s.cf.phys.held.isSome ∧
    (s.cf.phys.held.isSome = true ↔ 0 < s.cf.count) ∧
    (s.isLocked = true ↔ 0 < s.cf.count) ∧
    Balanced s.repo.cf.phys.log s.repo.cf.phys.held.isSome ∧
    (0 < s.repo.depth → s.repo.fb = 1 ∧ Balanced s.repo.fbLog true) ∧
    (s.repo.depth = 0 → s.repo.fb = 0 ∧ Balanced s.repo.fbLog false) := by
  intro s
  have h : s.Inv := Branch.inv_run (Branch.inv_init ext) ops
  refine ⟨h.cf.bal, ?_, ?_, h.repo.cf.bal, fun hd => ⟨h.repo.fb_pos hd, h.repo.fb_bal_pos hd⟩,
    fun hd => ⟨h.repo.fb_zero hd, h.repo.fb_bal_zero hd⟩⟩
  · rw [← h.cf.mode_held]; exact h.cf.mode_count
  · simp [Branch.isLocked, LF.isLocked]; omega

/-- FINDING.  A refused `branch.unlock()` changes the lock state: with the
repository read-locked once by another holder and the branch unlocked,
`unlock` raises `LockNotHeld` *and* releases the repository's lock (and its
fallbacks). -/
theorem branch_over_unlock_witness :
    let s := (Branch.init false).run [.repo .lockRead]
    s.isLocked = false ∧ s.repo.isLocked = true ∧ s.repo.fb = 1 ∧
    (s.step (.branch .unlock)).2 = .error .notHeld ∧
    (s.step (.branch .unlock)).1.repo.isLocked = false ∧
    (s.step (.branch .unlock)).1.repo.fb = 0 := by decide

theorem branch_write_after_read_refused (s : Branch) (h : s.Inv) (hm : s.cf.mode = some .r)
    (tok : Option Nat) : s.step (.branch (.lockWrite tok)) = (s, .error .readOnly) := by
  have hc : 0 < s.cf.count := h.cf.mode_count.mp (by simp [hm])
  have hl : s.isLocked = true := by simp [Branch.isLocked, LF.isLocked]; omega
  have e := lf_write_after_read_refused s.cf hm tok
  simp only [LF.step] at e
  simp [Branch.step, Branch.lockWrite, hl, e, Branch.finishLock]

/-- over-unlock of a branch whose repository is not locked either is refused
and changes nothing (the case the finding excludes: repository locked by
another holder) -/
theorem branch_over_unlock_refused_partial (s : Branch) (h : s.Inv) (hc : s.cf.count = 0)
    (hd : s.repo.depth = 0) : s.step (.branch .unlock) = (s, .error .notHeld) := by
  have e1 := lf_over_unlock_refused s.cf h.cf hc
  have e2 := repo_over_unlock_refused s.repo h.repo hd
  simp only [LF.step, Repo.step] at e1 e2
  simp [Branch.step, Branch.unlock, e1, e2, LF.isLocked, hc]

/-- A refused call leaves the lock state (everything but the logs) of the
whole branch/repository stack unchanged — PARTIAL: except for `unlock` of an
unlocked branch whose repository is locked by another holder
(`branch_over_unlock_witness`); `Consistent` excludes callers that unlocked the
repository behind a locked branch's back. -/
theorem branch_refused_unchanged_partial (s : Branch) (h : s.Inv) (hcons : s.Consistent) (o : SOp)
    (e : Err) (hr : (s.step o).2 = .error e)
    (hex : ¬ (o = .branch .unlock ∧ s.cf.count = 0 ∧ 0 < s.repo.depth)) :
    (s.step o).1.core = s.core := by
  cases o with
  | repo o =>
    simp only [Branch.step] at hr ⊢
    have := repo_refused_unchanged s.repo h.repo o e hr
    rw [this]
  | branch o =>
    cases o with
    | lockRead =>
      exfalso
      simp only [Branch.step, Branch.lockRead] at hr
      obtain ⟨cf', ec, _, _, _⟩ := LF.lockRead_spec h.cf
      split at hr
      · rcases Repo.lockRead_spec h.repo with ⟨_, er⟩ | ⟨_, _, _, _, _, _, er⟩ <;>
          simp [er, ec, Branch.finishLock] at hr
      · simp [ec, Branch.finishLock] at hr
    | lockWrite tok =>
      simp only [Branch.step, Branch.lockWrite] at hr ⊢
      by_cases hl : s.isLocked = true
      · simp only [hl, Bool.not_true, Bool.false_eq_true, if_false] at hr ⊢
        cases hw : s.cf.lockWrite tok with
        | mk cf r =>
          rw [hw] at hr
          cases r with
          | ok t => simp [Branch.finishLock] at hr
          | error e' =>
            have := lf_refused_unchanged s.cf h.cf (.lockWrite tok) e' (by simp [LF.step, hw])
            simp only [LF.step, hw] at this
            subst this
            simp [Branch.finishLock]
      · have hc : s.cf.count = 0 := by
          simp [Branch.isLocked, LF.isLocked] at hl; omega
        simp only [hl, Bool.not_false, if_true] at hr ⊢
        cases hrw : s.repo.lockWrite none with
        | mk repo r =>
          rw [hrw] at hr
          cases r with
          | error e' =>
            have := repo_refused_unchanged s.repo h.repo (.lockWrite none) e' (by simp [Repo.step, hrw])
            simp only [Repo.step, hrw] at this
            subst this
            rfl
          | ok t =>
            simp only at hr ⊢
            obtain ⟨r', eu, hcore⟩ := Repo.lockWrite_unlock_core h.repo hrw
            rcases LF.lockWrite_unlocked h.cf hc tok with ⟨e', ew⟩ | ⟨s', t', ew, _⟩
            · simp only [ew, Branch.finishLock, if_true, eu]
              simp only [Branch.core, hcore]
            · simp [ew, Branch.finishLock] at hr
    | unlock =>
      simp only [Branch.step, Branch.unlock] at hr ⊢
      rcases LF.unlock_spec h.cf with ⟨hc, eu⟩ | ⟨hc, cf', eu, hcc, _⟩
      · have hd : s.repo.depth = 0 := by
          cases hd : s.repo.depth with
          | zero => rfl
          | succ n => exact absurd ⟨rfl, hc, by omega⟩ hex
        have e2 := repo_over_unlock_refused s.repo h.repo hd
        simp only [Repo.step] at e2
        simp [eu, e2, LF.isLocked, hc]
      · exfalso
        rw [eu] at hr
        simp only at hr
        by_cases h1 : 1 ≤ cf'.count
        · simp [LF.isLocked, h1] at hr
        · have hdp : 0 < s.repo.depth := hcons hc
          rcases Repo.unlock_spec h.repo with ⟨hd, _⟩ | ⟨_, er⟩ | ⟨_, _, _, _, _, _, er⟩
          · omega
          · simp [LF.isLocked, h1, er] at hr
          · simp [LF.isLocked, h1, er] at hr

macro "bclose" : tactic =>
  `(tactic| (intros; first | trivial | rfl | omega | (simp only at *; omega)))

/-- A granted branch call changes the branch's count by exactly one; the
repository is locked (once more) exactly by the branch's first lock, released
exactly by its last unlock, and not touched by nested calls. -/
theorem branch_ok_edge (s : Branch) (h : s.Inv) (o : Op) (t : Option Nat)
    (hr : (s.step (.branch o)).2 = .ok t) :
    (if o = .unlock then (s.step (.branch o)).1.cf.count + 1 = s.cf.count
      else (s.step (.branch o)).1.cf.count = s.cf.count + 1) ∧
    (s.cf.count = 0 → (s.step (.branch o)).1.repo.depth = s.repo.depth + 1) ∧
    ((s.step (.branch o)).1.cf.count = 0 → (s.step (.branch o)).1.repo.depth + 1 = s.repo.depth) ∧
    (0 < s.cf.count → 0 < (s.step (.branch o)).1.cf.count → (s.step (.branch o)).1.repo = s.repo) := by
  cases o with
  | lockRead =>
    simp only [Branch.step, Branch.lockRead, reduceCtorEq, if_false] at hr ⊢
    obtain ⟨cf', ec, hcc, _, _⟩ := LF.lockRead_spec h.cf
    by_cases hl : s.isLocked = true
    · have hc : 0 < s.cf.count := by simp [Branch.isLocked, LF.isLocked] at hl; omega
      simp only [hl, Bool.not_true, Bool.false_eq_true, if_false, ec, Branch.finishLock]
      exact ⟨hcc, by bclose, by bclose, by bclose⟩
    · have hc : s.cf.count = 0 := by simp [Branch.isLocked, LF.isLocked] at hl; omega
      simp only [hl, Bool.not_false, if_true] at hr ⊢
      cases hrr : s.repo.lockRead with
      | mk repo r =>
        rw [hrr] at hr
        cases r with
        | error e' => simp at hr
        | ok t' =>
          have hd := repo_ok_count s.repo h.repo .lockRead t' (by simp [Repo.step, hrr])
          simp only [Repo.step, hrr, reduceCtorEq, if_false] at hd
          simp only [ec, Branch.finishLock]
          exact ⟨hcc, fun _ => hd, by bclose, by bclose⟩
  | lockWrite tok =>
    simp only [Branch.step, Branch.lockWrite, reduceCtorEq, if_false] at hr ⊢
    by_cases hl : s.isLocked = true
    · have hc : 0 < s.cf.count := by simp [Branch.isLocked, LF.isLocked] at hl; omega
      simp only [hl, Bool.not_true, Bool.false_eq_true, if_false] at hr ⊢
      cases hw : s.cf.lockWrite tok with
      | mk cf r =>
        rw [hw] at hr
        cases r with
        | error e' => simp [Branch.finishLock] at hr
        | ok t' =>
          have hcc := lf_ok_count s.cf h.cf (.lockWrite tok) t' (by simp [LF.step, hw])
          simp only [LF.step, hw, reduceCtorEq, if_false] at hcc
          simp only [Branch.finishLock]
          exact ⟨hcc, by bclose, by bclose, by bclose⟩
    · have hc : s.cf.count = 0 := by simp [Branch.isLocked, LF.isLocked] at hl; omega
      simp only [hl, Bool.not_false, if_true] at hr ⊢
      cases hrw : s.repo.lockWrite none with
      | mk repo r =>
        rw [hrw] at hr
        cases r with
        | error e' => simp at hr
        | ok t' =>
          have hd := repo_ok_count s.repo h.repo (.lockWrite none) t' (by simp [Repo.step, hrw])
          simp only [Repo.step, hrw, reduceCtorEq, if_false] at hd
          simp only at hr ⊢
          rcases LF.lockWrite_unlocked h.cf hc tok with ⟨e', ew⟩ | ⟨s', t'', ew, hc1⟩
          · exfalso
            simp only [ew, Branch.finishLock, if_true] at hr
            cases hu : repo.unlock with
            | mk r2 res => rw [hu] at hr; cases res <;> simp at hr
          · simp only [ew, Branch.finishLock]
            exact ⟨by bclose, fun _ => hd, by bclose, by bclose⟩
  | unlock =>
    simp only [Branch.step, Branch.unlock, if_true] at hr ⊢
    rcases LF.unlock_spec h.cf with ⟨hc, eu⟩ | ⟨hc, cf', eu, hcc, _⟩
    · exfalso
      rw [eu] at hr
      simp only [LF.isLocked] at hr
      have : ¬ s.cf.count ≥ 1 := by omega
      simp only [this, decide_false, Bool.not_false, if_true] at hr
      cases hu : s.repo.unlock with
      | mk r2 res => rw [hu] at hr; cases res <;> simp at hr
    · rw [eu] at hr ⊢
      simp only at hr ⊢
      by_cases h1 : 1 ≤ cf'.count
      · have : (!cf'.isLocked) = false := by simp [LF.isLocked, h1]
        simp only [this, Bool.false_eq_true, if_false]
        exact ⟨hcc, by bclose, by bclose, by bclose⟩
      · have : (!cf'.isLocked) = true := by simp [LF.isLocked, h1]
        simp only [this, if_true] at hr ⊢
        cases hu : s.repo.unlock with
        | mk r2 res =>
          rw [hu] at hr
          cases res with
          | error e' => simp at hr
          | ok t' =>
            have hd := repo_ok_count s.repo h.repo .unlock t' (by simp [Repo.step, hu])
            simp only [Repo.step, hu, if_true] at hd
            simp only
            exact ⟨hcc, by bclose, fun _ => hd, by bclose⟩


/-! ### the guarded variant (`Branch.stepG`: the proposed fix) — no exception left -/

theorem branchG_step_eq (s : Branch) (o : SOp) (hg : ¬ (o = .branch .unlock ∧ s.cf.count = 0)) :
    s.stepG o = s.step o := by
  cases o with
  | repo o => rfl
  | branch o =>
    cases o with
    | lockRead => rfl
    | lockWrite t => rfl
    | unlock =>
      have hc : 0 < s.cf.count := by
        cases hc : s.cf.count with
        | zero => exact absurd ⟨rfl, hc⟩ hg
        | succ n => omega
      have : s.isLocked = true := by simp [Branch.isLocked, LF.isLocked]; omega
      simp [Branch.stepG, Branch.step, this]

theorem branchG_guard (s : Branch) (hc : s.cf.count = 0) :
    s.stepG (.branch .unlock) = (s, .error .notHeld) := by
  have : s.isLocked = false := by simp [Branch.isLocked, LF.isLocked, hc]
  simp [Branch.stepG, this]

theorem branchG_inv_step {s : Branch} (h : s.Inv) (o : SOp) : (s.stepG o).1.Inv := by
  by_cases hg : o = .branch .unlock ∧ s.cf.count = 0
  · rw [hg.1, branchG_guard s hg.2]; exact h
  · rw [branchG_step_eq s o hg]; exact Branch.inv_step h o

theorem branchG_physical_balanced (ext : Bool) (ops : List SOp) :
    let s := (Branch.init ext).runG ops
    Balanced s.cf.phys.log s.cf.phys.held.isSome ∧
    (s.cf.phys.held.isSome = true ↔ 0 < s.cf.count) ∧
    Balanced s.repo.cf.phys.log s.repo.cf.phys.held.isSome ∧
    (0 < s.repo.depth → s.repo.fb = 1 ∧ Balanced s.repo.fbLog true) ∧
    (s.repo.depth = 0 → s.repo.fb = 0 ∧ Balanced s.repo.fbLog false) := by
  intro s
  have h : s.Inv := by
    have : ∀ (ops : List SOp) (s : Branch), s.Inv → (s.runG ops).Inv := by
      intro ops
      induction ops with
      | nil => intro s h; exact h
      | cons o ops ih => intro s h; exact ih _ (branchG_inv_step h o)
    exact this ops _ (Branch.inv_init ext)
  refine ⟨h.cf.bal, ?_, h.repo.cf.bal, fun hd => ⟨h.repo.fb_pos hd, h.repo.fb_bal_pos hd⟩,
    fun hd => ⟨h.repo.fb_zero hd, h.repo.fb_bal_zero hd⟩⟩
  rw [← h.cf.mode_held]; exact h.cf.mode_count

/-- with the guard every refused call leaves the lock state of the whole stack
unchanged — the full statement -/
theorem branchG_refused_unchanged (s : Branch) (h : s.Inv) (hcons : s.Consistent) (o : SOp)
    (e : Err) (hr : (s.stepG o).2 = .error e) : (s.stepG o).1.core = s.core := by
  by_cases hg : o = .branch .unlock ∧ s.cf.count = 0
  · rw [hg.1, branchG_guard s hg.2]
  · rw [branchG_step_eq s o hg] at hr ⊢
    exact branch_refused_unchanged_partial s h hcons o e hr (fun hx => hg ⟨hx.1, hx.2.1⟩)

/-- with the guard, over-unlock of a branch is refused with nothing changed,
whoever else holds the repository -/
theorem branchG_over_unlock_refused (s : Branch) (hc : s.cf.count = 0) :
    s.stepG (.branch .unlock) = (s, .error .notHeld) := branchG_guard s hc

theorem branchG_ok_edge (s : Branch) (h : s.Inv) (o : Op) (t : Option Nat)
    (hr : (s.stepG (.branch o)).2 = .ok t) :
    (if o = .unlock then (s.stepG (.branch o)).1.cf.count + 1 = s.cf.count
      else (s.stepG (.branch o)).1.cf.count = s.cf.count + 1) ∧
    (s.cf.count = 0 → (s.stepG (.branch o)).1.repo.depth = s.repo.depth + 1) ∧
    ((s.stepG (.branch o)).1.cf.count = 0 → (s.stepG (.branch o)).1.repo.depth + 1 = s.repo.depth) ∧
    (0 < s.cf.count → 0 < (s.stepG (.branch o)).1.cf.count → (s.stepG (.branch o)).1.repo = s.repo) := by
  by_cases hg : SOp.branch o = .branch .unlock ∧ s.cf.count = 0
  · have ho : o = .unlock := by injection hg.1
    subst ho
    rw [branchG_guard s hg.2] at hr; cases hr
  · rw [branchG_step_eq s _ hg] at hr ⊢
    exact branch_ok_edge s h o t hr

/-- the witness of the finding does not exist in the guarded variant -/
example : ((Branch.init false).run [.repo .lockRead]).stepG (.branch .unlock) =
    ((Branch.init false).run [.repo .lockRead], .error .notHeld) := by decide

/-! ### non-vacuity: reachable, non-trivial states satisfy the hypotheses -/

/-- `CL.Inv` / `mode = r` (hypotheses of `cl_write_after_read_refused`, `cl_edge`, `cl_ok_count`)
hold in a nested read-locked state -/
example : ((CL.init false).run [.lockRead, .lockRead]).mode = some .r ∧
    ((CL.init false).run [.lockRead, .lockRead]).count = 2 := by decide

example : ((CL.init false).run [.lockRead, .lockRead]).Inv := CL.inv_run (CL.inv_init false) _

/-- a refused call really occurs (`cl_refused_unchanged`): token mismatch while write-locked -/
example : (((CL.init false).run [.lockWrite none]).step (.lockWrite (some 9))).2 = .error .tokenMismatch := by
  decide

/-- `lf_write_after_read_refused`: a read-locked LockableFiles -/
example : ((LF.init true).run [.lockRead, .lockRead, .unlock]).mode = some .r := by decide

/-- `lf_over_unlock_refused`: count 0 after balanced use, log `R U W U` -/
example : ((LF.init false).run [.lockRead, .unlock, .lockWrite none, .unlock]).count = 0 ∧
    ((LF.init false).run [.lockRead, .unlock, .lockWrite none, .unlock]).phys.log =
      [.acqR, .rel, .acqW, .rel] := by decide

/-- `repo_write_after_read_refused`: a read-locked repository (`wcount = 0`, control files count 2) -/
example : ((Repo.init false).run [.lockRead, .lockRead]).wcount = 0 ∧
    ((Repo.init false).run [.lockRead, .lockRead]).cf.count = 2 ∧
    ((Repo.init false).run [.lockRead, .lockRead]).fbLog = [.acqR] := by decide

/-- `repo_over_unlock_refused`: depth 0 after write/read nesting, fallbacks `R U` -/
example : ((Repo.init false).run [.lockWrite none, .lockRead, .unlock, .unlock]).depth = 0 ∧
    ((Repo.init false).run [.lockWrite none, .lockRead, .unlock, .unlock]).fbLog = [.acqR, .rel] := by
  decide

/-- `branch_refused_unchanged_partial`: hypotheses hold, and a call is refused, in a state where the
branch is write-locked (token mismatch), and in one where the failed first lock is rolled back -/
example : ((Branch.init false).run [.branch (.lockWrite none)]).Consistent ∧
    (((Branch.init false).run [.branch (.lockWrite none)]).step (.branch (.lockWrite (some 9)))).2 =
      .error .tokenMismatch := by
  refine ⟨?_, by decide⟩
  intro _; decide

example : ((Branch.init true).step (.branch (.lockWrite none))).2 = .error .contention ∧
    ((Branch.init true).step (.branch (.lockWrite none))).1.repo.fbLog = [.acqR, .rel] ∧
    ((Branch.init true).step (.branch (.lockWrite none))).1.core = (Branch.init true).core := by decide

/-- `branch_over_unlock_refused_partial`: branch and repository both unlocked -/
example : (Branch.init false).cf.count = 0 ∧ (Branch.init false).repo.depth = 0 := by decide

/-- `branch_write_after_read_refused` / `branch_ok_edge`: a read-locked branch holds its repository -/
example : ((Branch.init false).run [.branch .lockRead]).cf.mode = some .r ∧
    ((Branch.init false).run [.branch .lockRead]).repo.depth = 1 := by decide

end BreezyVerif.C28
