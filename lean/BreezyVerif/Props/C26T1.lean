import BreezyVerif.Model.C26
import BreezyVerif.Generated.C26
/-!
C26 — T1 tie: the decision functions transcribed from the current Rust source
(`crates/osutils/src/lib.rs: is_local_pid_dead`, `src/lockdir.rs:
LockHeldInfo.is_lock_holder_known_dead`) equal the model's.
-/
namespace BreezyVerif.C26

/-- T1: the `match kill(pid, None)` arms of the current `is_local_pid_dead`, evaluated first-match,
give `pidDeadOf` for every outcome — `Ok`, `ESRCH`, `EPERM` and any other errno -/
theorem pid_dead_arms_eq (r : KillRes) : evalArms genPidDeadArms r = some (pidDeadOf r) := by
  cases r <;> decide

/-- T1: the early-return chain of the current `is_lock_holder_known_dead` (including the `localhost`
rule) equals the decision table `knownDead` on all 32 inputs -/
theorem known_dead_guards_eq (hostEq isLocalhost userEq pidRecorded pidDead : Bool) :
    evalGuards genKnownDeadGuards genKnownDeadTail hostEq isLocalhost userEq pidRecorded pidDead =
      knownDead hostEq isLocalhost userEq pidRecorded pidDead := by
  cases hostEq <;> cases isLocalhost <;> cases userEq <;> cases pidRecorded <;> cases pidDead <;> decide

end BreezyVerif.C26
