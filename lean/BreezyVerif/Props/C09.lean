import BreezyVerif.Model.C09
import BreezyVerif.Lemmas.C10
/-!
C09 — theorems about the working-tree step machine.  All states, all
operations, all operation lists (no bound).
-/
namespace BreezyVerif.C09
open BreezyVerif.C10

/-- **Re-opening is the identity** on the abstract state (everything observable
is persisted). -/
theorem reopen_id (fl : Flavour) (s : State) : step fl s .reopen = (s, .ok) := by
  simp [step, stepOk]

/-- running op lists composes (the induction principle behind the per-step comparison) -/
theorem run_append (fl : Flavour) (s : State) (a b : List Op) :
    run fl s (a ++ b) = run fl (run fl s a) b := by
  induction a generalizing s with
  | nil => rfl
  | cons x rest ih => simp [run, ih]

/-- **Errors leave the state unchanged**, for every operation, both flavours. -/
theorem step_error_unchanged (fl : Flavour) (s : State) (op : Op)
    (h : (step fl s op).2 = .err) : (step fl s op).1 = s := by
  unfold step at h ⊢
  split at h
  · cases h
  · rfl

/-- non-vacuity: operations that fail -/
example : (step .bzr init (.add ["zz"])).2 = .err := by decide +kernel

/-- `mkdir` below a directory that is not versioned fails and leaves nothing
behind (instance of `step_error_unchanged`; the real code used to leave the
directory on disk — fixed in /repo, kept as a regression statement) -/
theorem mkdir_error_no_leftover :
    (step .bzr (run .bzr init [.mkdir ["b"], .remove ["b"] false]) (.mkdir ["b", "c"])).2 = .err ∧
    (step .bzr (run .bzr init [.mkdir ["b"], .remove ["b"] false]) (.mkdir ["b", "c"])).1
      = run .bzr init [.mkdir ["b"], .remove ["b"] false] := by
  have h : (step .bzr (run .bzr init [.mkdir ["b"], .remove ["b"] false]) (.mkdir ["b", "c"])).2 = .err := by
    decide +kernel
  exact ⟨h, step_error_unchanged _ _ _ h⟩

/-- renaming a path that is not on disk fails in both flavours, whatever is at
the target (git's `rename_one` used to version an unversioned target file) -/
theorem rename_missing_source_fails (fl : Flavour) (s : State) (a b : Path)
    (h : idAt s.disk a = none) : step fl s (.rename a b) = (s, .err) := by
  simp [step, stepOk, h]

/-- non-vacuity: a missing source with an existing unversioned target -/
example : idAt (run .git init [.mkfile ["a"] "78"]).disk ["zz"] = none ∧
    (idAt (run .git init [.mkfile ["a"] "78"]).disk ["a"]).isSome = true := by decide +kernel

theorem contentChanged_self (n : Node) : contentChanged n n = false := by
  cases n <;> simp [contentChanged]

/-- an id with the same entry in both trees is never reported -/
theorem change_eq_unchanged {src tgt : Tree} {i : Id} {c : Change} (h : change src tgt i = some c)
    (heq : get src i = get tgt i) : c.isChanged = false := by
  unfold change at h
  rw [heq] at h
  split at h
  · cases h
  · rename_i hs ht; rw [hs] at ht; cases ht
  · rename_i hs ht; rw [hs] at ht; cases ht
  · rename_i a b hs ht
    rw [hs] at ht; cases ht
    simp at h; subst h
    have hp : pathOf src i = pathOf src i := rfl
    simp [Change.isChanged, contentChanged_self]

/-- comparing a tree with itself reports nothing -/
theorem changesOf_self (t : Tree) : changesOf t t = [] := by
  unfold changesOf
  rw [List.filter_eq_nil_iff]
  intro c hc
  unfold allRecords at hc
  rw [List.mem_filterMap] at hc
  obtain ⟨i, _, hi⟩ := hc
  simp [change_eq_unchanged hi rfl]

/-- **commit ⇒ empty status**, in every state, both flavours -/
theorem commit_status_empty (fl : Flavour) (s : State) : status (step fl s .commit).1 = [] := by
  simp only [step, stepOk, status, wtTree]
  exact changesOf_self _

/-- **status is sound and complete with respect to the basis**: an id is
reported exactly when its entry in the working tree differs from its entry in
the basis (absent counts as different from present). -/
theorem status_sound_complete (s : State) :
    (∀ c ∈ status s, get s.basis c.id ≠ get (wtTree s) c.id) ∧
    (∀ i, get s.basis i ≠ get (wtTree s) i → ∃ c ∈ status s, c.id = i) := by
  constructor
  · intro c hc heq
    have ⟨h1, h2⟩ := changesOf_true hc
    rw [change_eq_unchanged h1 heq] at h2
    cases h2
  · intro i hne
    cases hc : change s.basis (wtTree s) i with
    | none =>
      obtain ⟨a, b⟩ := change_none_iff.mp hc
      exact absurd (by rw [a, b]) hne
    | some c =>
      by_cases hch : c.isChanged = true
      · exact ⟨c, mem_changesOf hc hch, change_id hc⟩
      · exact absurd (unchanged_noop' hc (by simpa using hch)) hne

/-- non-vacuity for `status_sound_complete`: a state with a non-empty status -/
example : (status (run .bzr init [.mkdir ["a"], .commit, .mkfile ["a", "f"] "78", .add ["a", "f"]])).map (·.id)
    = ["n1"] := by decide +kernel

/-! ### revert -/

theorem get_foldr_set (b d : Tree) (i : Id) :
    get (b.foldr (fun x d => C10.set d x.1 x.2) d) i =
      match get b i with
      | some e => some e
      | none => get d i := by
  induction b with
  | nil => simp [C10.get]
  | cons x rest ih =>
    obtain ⟨k, e⟩ := x
    simp only [List.foldr_cons, get_set, C10.get]
    by_cases hk : k = i
    · simp [hk]
    · simp [hk, ih]

theorem get_map_keep (t : Tree) (f : Id × Entry → Id × Entry) (i : Id)
    (hkey : ∀ x, (f x).1 = x.1) (hfix : ∀ x, x.1 = i → f x = x) : get (t.map f) i = get t i := by
  induction t with
  | nil => rfl
  | cons x rest ih =>
    obtain ⟨k, e⟩ := x
    simp only [List.map_cons]
    by_cases hk : k = i
    · have := hfix (k, e) hk
      rw [this]; simp [C10.get, hk]
    · have h1 := hkey (k, e)
      have : get (f (k, e) :: List.map f rest) i = get (List.map f rest) i := by
        have hne : ¬ (f (k, e)).1 = i := by rw [h1]; exact hk
        cases hfe : f (k, e) with
        | mk a b => rw [hfe] at hne; simp [C10.get, hne]
      rw [this, ih]; simp [C10.get, hk]

theorem get_filter_keys (t : Tree) (p : Id → Bool) (i : Id) :
    get (t.filter fun x => p x.1) i = if p i then get t i else none := by
  induction t with
  | nil => simp [C10.get]
  | cons x rest ih =>
    obtain ⟨k, e⟩ := x
    by_cases hp : p k = true
    · simp only [List.filter_cons, hp, if_true, C10.get]
      by_cases hk : k = i
      · subst hk; simp [hp]
      · simp [hk, ih]
    · simp only [List.filter_cons, hp, Bool.false_eq_true, if_false, C10.get, ih]
      by_cases hk : k = i
      · subst hk; simp [hp]
      · simp [hk]

/-- **revert restores the versioned part**: every id of the basis is versioned
again with exactly its basis entry (position, kind, content, executable bit),
in every state, for both flavours. -/
theorem revert_restores (fl : Flavour) (s : State) (i : Id) (hi : i ∈ ids s.basis) :
    get (wtTree (revert fl s)) i = get s.basis i := by
  have hsome := get_isSome_of_mem hi
  cases hb : get s.basis i with
  | none => rw [hb] at hsome; cases hsome
  | some e =>
    unfold wtTree revert
    simp only
    rw [get_filter_keys _ (fun k => (unionNew (ids s.basis) [rootId]).contains k)]
    have hv : (unionNew (ids s.basis) [rootId]).contains i = true := by
      simp only [List.contains_eq_mem, decide_eq_true_eq]
      unfold unionNew
      simp only [List.foldl_cons, List.foldl_nil, insertNew]
      split
      · exact hi
      · simp [hi]
    simp only [hv, if_true]
    rw [get_map_keep]
    · rw [get_foldr_set, hb]
    · intro x; split <;> rfl
    · intro x hx
      split
      · rename_i hc
        rw [hx, hb] at hc; simp at hc
      · rfl

/-- … and nothing else is versioned after revert (apart from the root) -/
theorem revert_only_basis (fl : Flavour) (s : State) (i : Id) (hi : i ∉ ids s.basis) (hr : i ≠ rootId) :
    get (wtTree (revert fl s)) i = none := by
  unfold wtTree revert
  simp only
  rw [get_filter_keys _ (fun k => (unionNew (ids s.basis) [rootId]).contains k)]
  have hv : (unionNew (ids s.basis) [rootId]).contains i = false := by
    simp only [List.contains_eq_mem, decide_eq_false_iff_not]
    unfold unionNew
    simp only [List.foldl_cons, List.foldl_nil, insertNew]
    split
    · exact hi
    · simp [hi, hr]
  show (if (unionNew (ids s.basis) [rootId]).contains i = true then _ else none) = none
  rw [hv]; rfl

/-- non-vacuity: a revert that has something to restore (a removed file comes back) -/
example :
    let s := run .bzr init [.mkfile ["f"] "78", .add ["f"], .commit, .remove ["f"] true]
    ((listing (wtTree s)).length, (listing (wtTree (step .bzr s .revert).1)).length) = (1, 2) := by decide +kernel

end BreezyVerif.C09
