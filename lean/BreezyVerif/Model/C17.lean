import BreezyVerif.Common
import BreezyVerif.Model.C18
/-
C17 — tree merges obey the three-way merge laws.

Model of the per-entry decisions of `breezy/merge.py: Merge3Merger`
(`_entries3`, `_compute_transform`, `_merge_names`, `_do_merge_contents` +
`merge_contents`, `_merge_executable`) over an id-keyed tree
`Id → Option Entry(parent, name, kind, content, exec)`.  Every attribute is
resolved with `C18.threeWay` (the literal model of `_three_way`, tied to the
source by C18's T1/T2), including the `this_name is None` override, the
`winner_idx` table (`conflict ↦ other`) and the early exits of the real code.

A git tree is the special case id = path (parent and name are then functions
of the id): the harness feeds git triples through the same model.

Not modelled (inputs / out of scope): the text merge of a file changed
differently on both sides (the result entry is marked `textMerged`, its content
is not predicted), the helper files of conflicts, and the file-system level
conflict pass `resolve_conflicts` — it only acts when the attribute-level
result is not a well-formed tree (`wf`), which is a stated hypothesis.
-/
namespace BreezyVerif.C17

open BreezyVerif.C18 (threeWay Winner)

abbrev Id := Nat

inductive Kind where
  | file | dir | symlink
  deriving DecidableEq, Repr

structure Entry where
  parent : Option Id
  name : Nat
  kind : Kind
  /-- text sha / symlink target, abstracted to a code; 0 for directories -/
  content : Nat
  exec : Bool
  deriving DecidableEq, Repr

abbrev Tree := Id → Option Entry

inductive ConflictKind where
  | path | contents
  /-- both sides changed a file differently: text merge invoked, outcome not modelled -/
  | textMerge
  deriving DecidableEq, Repr

/-- `contents_pair(tree, path)` -/
def pairOf (e : Option Entry) : Option (Kind × Nat) := e.map fun e => (e.kind, e.content)

/-- the `this_name is None` override of `_merge_names` -/
def overrideAbsent (thisAbsent : Bool) (w : Winner) : Winner :=
  if thisAbsent && w == .this then .other else w

/-- `winner_idx = {"this": 2, "other": 1, "conflict": 1}` applied to `(base, other, this)` -/
def pick {α : Type} (w : Winner) (other this : α) : α :=
  match w with
  | .this => this
  | .other => other
  | .conflict => other

inductive Status where
  | unmodified | modified | deleted | conflicted
  deriving DecidableEq, Repr

structure Result where
  entry : Option Entry
  conflicts : List ConflictKind
  deriving DecidableEq, Repr

/-- the (parent, name) after `adjust_path` (nothing is adjusted when OTHER has no
such entry; a winner `this` keeps THIS's value) -/
def namesOn (nameW parentW : Winner) : Option Entry → Option Entry → Option (Option Id × Nat)
  | none, t => t.map fun e => (e.parent, e.name)
  | some oe, none => some (oe.parent, oe.name)
  | some oe, some te => some (pick parentW oe.parent te.parent, pick nameW oe.name te.name)

/-- `_merge_names`: path conflict or not, and the resulting (parent, name) -/
def namesStep (b t o : Option Entry) : List ConflictKind × Option (Option Id × Nat) :=
  let nameW := overrideAbsent t.isNone (threeWay (b.map (·.name)) (o.map (·.name)) (t.map (·.name)))
  let parentW := overrideAbsent t.isNone (threeWay (b.map (·.parent)) (o.map (·.parent)) (t.map (·.parent)))
  (if nameW = .conflict ∨ parentW = .conflict then [.path] else [], namesOn nameW parentW o t)

/-- what `merge_contents` does for a given contents winner -/
def contentsOn : Winner → Option Entry → Option Entry → Status × Option (Kind × Nat) × List ConflictKind
  | .this, t, _ => (.unmodified, pairOf t, [])
  | .other, _, some oe => (.modified, some (oe.kind, oe.content), [])
  | .other, _, none => (.deleted, none, [])
  | .conflict, some te, some oe =>
    if te.kind = .file ∧ oe.kind = .file then (.modified, some (.file, 0), [.textMerge])
    else (.conflicted, some (te.kind, te.content), [.contents])
  | .conflict, t, _ => (.conflicted, pairOf t, [.contents])

/-- `_do_merge_contents` + `merge_contents` (entered only when `changed_content`) -/
def contentsStep (b t o : Option Entry) : Status × Option (Kind × Nat) × List ConflictKind :=
  contentsOn (if pairOf o = pairOf b then Winner.this else threeWay (pairOf b) (pairOf o) (pairOf t)) t o

/-- the executable bit for a given winner (`this`: nothing is set, or THIS's own
bit is set again — absent in THIS: the default False; otherwise OTHER's, else
THIS's, else BASE's) -/
def execOn : Winner → Option Entry → Option Entry → Option Entry → Bool
  | .this, _, some te, _ => te.exec
  | .this, _, none, _ => false
  | _, _, _, some oe => oe.exec
  | _, _, some te, none => te.exec
  | _, some be, none, none => be.exec
  | _, none, none, none => false

/-- `_merge_executable` -/
def execStep (b t o : Option Entry) : Bool :=
  let w0 := threeWay (b.map (·.exec)) (o.map (·.exec)) (t.map (·.exec))
  execOn (if w0 = .conflict then (if o.isNone then .this else .other) else w0) b t o

def assemble (st : Status) (kc : Option (Kind × Nat)) (np : Option (Option Id × Nat)) (exec : Bool)
    (confs : List ConflictKind) : Result :=
  match st, kc, np with
  | .deleted, _, _ => ⟨none, confs⟩
  | _, some (k, c), some (p, n) => ⟨some ⟨p, n, k, c, if k = .file then exec else false⟩, confs⟩
  | _, _, _ => ⟨none, confs⟩

/-- what `_compute_transform` does for one file id, given its entry in BASE, THIS, OTHER -/
def mergeEntry (b t o : Option Entry) : Result :=
  if o = b then ⟨t, []⟩                    -- not reported by iter_changes(other vs base)
  else
    assemble (contentsStep b t o).1 (contentsStep b t o).2.1 (namesStep b t o).2 (execStep b t o)
      ((namesStep b t o).1 ++ (contentsStep b t o).2.2)

/-- the merged tree and, per id, the attribute-level conflicts -/
def merge3 (base this other : Tree) : Tree := fun i => (mergeEntry (base i) (this i) (other i)).entry

def conflictsAt (base this other : Tree) (i : Id) : List ConflictKind :=
  (mergeEntry (base i) (this i) (other i)).conflicts

/-- inventories keep `executable = False` for everything that is not a file -/
def ExecNorm (t : Tree) : Prop := ∀ i e, t i = some e → e.kind ≠ .file → e.exec = false

/-- union of two change sets: OTHER's entry where OTHER changed the id, else THIS's -/
def union (base this other : Tree) : Tree := fun i => if other i = base i then this i else other i

/-! ### `_entries3` elements as attribute triples, and the copy normalisation of `_compute_transform`

The real `_compute_transform` does not see entries but the 7-tuples that
`_entries3` yields: `(file_id, changed, paths3, parents3, names3, executable3,
copied)`, every `*3` a flat `(base, other, this)` triple.  For a path-keyed
(git) tree the three slots of one element may sit at three different paths:
`base` at the path in BASE, `other` at the (renamed / copied) path in OTHER,
`this` at the path `find_previous_path` finds in THIS.  `mergeChange` is the
literal per-element step; `mergeEntry` above is what it amounts to when the
triples are read off three entries (`mergeChange_ofEntries`). -/

/-- a flat `(base, other, this)` triple -/
structure T3 (α : Type) where
  base : α
  other : α
  this : α
  deriving DecidableEq, Repr

/-- one element of `_entries3`.  `pairs3` is `contents_pair(tree, path)` at the
three paths (`none`: the path is `None`); in `parents3` the outer `none` is
"no such entry", `some none` the parent of a top-level entry's parent-less root -/
structure Change where
  changed : Bool
  pairs3 : T3 (Option (Kind × Nat))
  parents3 : T3 (Option (Option Id))
  names3 : T3 (Option Nat)
  executable3 : T3 (Option Bool)
  copied : Bool
  /-- only read for a copy: what THIS has, versioned, at the copy's OWN path `paths3[1]`
  (`contents_pair`, dirname, basename, `_safe_executable`); `none`: not versioned there -/
  thisAtCopy : Option ((Kind × Nat) × Option Id × Nat × Bool) := none
  deriving DecidableEq, Repr

/-- what `_entries3` yields for the entries `b` (BASE), `o` (OTHER), `t` (THIS) of one file -/
def Change.ofEntries (b o t : Option Entry) (copied : Bool) (tc : Option Entry := none) : Change where
  changed := decide (pairOf o ≠ pairOf b)
  pairs3 := ⟨pairOf b, pairOf o, pairOf t⟩
  parents3 := ⟨b.map (·.parent), o.map (·.parent), t.map (·.parent)⟩
  names3 := ⟨b.map (·.name), o.map (·.name), t.map (·.name)⟩
  executable3 := ⟨b.map (·.exec), o.map (·.exec), t.map (·.exec)⟩
  copied := copied
  thisAtCopy := tc.map fun e => ((e.kind, e.content), e.parent, e.name, e.exec)

/-- the `if copied:` block of `_compute_transform`: "treat copies as simple adds".
The BASE and THIS slots the generator filled in describe the copy SOURCE and are
dropped; the THIS slot becomes the entry THIS already has at the copy's own path
(`this_path = paths3[1] if this_tree.is_versioned(paths3[1]) else None`), so an
existing file there is merged with OTHER's rather than overwritten -/
def normCopy (c : Change) : Change :=
  if c.copied then
    match c.thisAtCopy with
    | none =>
      { changed := true
        pairs3 := ⟨none, c.pairs3.other, none⟩
        parents3 := ⟨none, c.parents3.other, none⟩
        names3 := ⟨none, c.names3.other, none⟩
        executable3 := ⟨none, c.executable3.other, none⟩
        copied := false }
    | some (pr, par, nm, ex) =>
      { changed := true
        pairs3 := ⟨none, c.pairs3.other, some pr⟩
        parents3 := ⟨none, c.parents3.other, some par⟩
        names3 := ⟨none, c.names3.other, some nm⟩
        executable3 := ⟨none, c.executable3.other, some ex⟩
        copied := false }
  else c

/-- `_merge_names` on triples, after `name_winner = resolver(*names)`, `parent_id_winner = resolver(*parents)` -/
def namesStepW (nameW0 parentW0 : Winner) (c : Change) : List ConflictKind × Option (Option Id × Nat) :=
  let absent := c.names3.this.isNone
  let nameW := overrideAbsent absent nameW0
  let parentW := overrideAbsent absent parentW0
  let cur : Option (Option Id × Nat) := do
    let p ← c.parents3.this
    let n ← c.names3.this
    pure (p, n)
  if nameW = .this ∧ parentW = .this then ([], cur)                -- early return
  else
    (if nameW = .conflict ∨ parentW = .conflict then [.path] else [],
     if c.pairs3.other.isNone then cur                             -- `other_path is None`: nothing adjusted
     else do
       let p ← pick parentW c.parents3.other c.parents3.this
       let n ← pick nameW c.names3.other c.names3.this
       pure (p, n))

def namesStepC (c : Change) : List ConflictKind × Option (Option Id × Nat) :=
  namesStepW (threeWay c.names3.base c.names3.other c.names3.this)
    (threeWay c.parents3.base c.parents3.other c.parents3.this) c

/-- `merge_contents` for a given winner, on `contents_pair`s -/
def contentsOnP : Winner → Option (Kind × Nat) → Option (Kind × Nat) → Status × Option (Kind × Nat) × List ConflictKind
  | .this, t, _ => (.unmodified, t, [])
  | .other, _, some o => (.modified, some o, [])
  | .other, _, none => (.deleted, none, [])
  | .conflict, some (tk, tc), some (ok, _) =>
    if tk = .file ∧ ok = .file then (.modified, some (.file, 0), [.textMerge])
    else (.conflicted, some (tk, tc), [.contents])
  | .conflict, t, _ => (.conflicted, t, [.contents])

/-- `if changed: _do_merge_contents(...) else "unmodified"` -/
def contentsStepC (c : Change) : Status × Option (Kind × Nat) × List ConflictKind :=
  if c.changed then
    contentsOnP (if c.pairs3.other = c.pairs3.base then Winner.this
                 else threeWay c.pairs3.base c.pairs3.other c.pairs3.this) c.pairs3.this c.pairs3.other
  else (.unmodified, c.pairs3.this, [])

/-- `_merge_executable` on triples after `winner = resolver(*executable)`: the bit
the file ends up with (`cur`: nothing is set, the file keeps THIS's bit, a new
file the default False) -/
def execStepW (w0 : Winner) (c : Change) : Bool :=
  let ex := c.executable3
  let w := if w0 = .conflict then (if c.pairs3.other.isNone then Winner.this else Winner.other) else w0
  let cur := match ex.this with | some x => x | none => false
  match w with
  | .this => cur
  | _ =>
    let e := if c.pairs3.other.isSome then ex.other
             else if c.pairs3.this.isSome then ex.this
             else if c.pairs3.base.isSome then ex.base else none
    match e with | some x => x | none => cur

def execStepC (c : Change) : Bool :=
  execStepW (threeWay c.executable3.base c.executable3.other c.executable3.this) c

/-- one iteration of the loop of `_compute_transform` -/
def mergeChange (c0 : Change) : Result :=
  let c := normCopy c0
  assemble (contentsStepC c).1 (contentsStepC c).2.1 (namesStepC c).2 (execStepC c)
    ((namesStepC c).1 ++ (contentsStepC c).2.2)

/-- the loop body WITHOUT the copy normalisation (only used to show that the normalisation matters) -/
def mergeChangeRaw (c : Change) : Result :=
  assemble (contentsStepC c).1 (contentsStepC c).2.1 (namesStepC c).2 (execStepC c)
    ((namesStepC c).1 ++ (contentsStepC c).2.2)

/-! ### a whole merge on path-keyed (git) trees, driven by whatever `iter_changes` pairs

On git trees one element of `_entries3` relates up to three different PATHS: the
path in BASE, the path in OTHER that dulwich's rename detector paired with it
(a rename, or — `copied` — a copy) and the path `find_previous_path` finds in
THIS.  The transform then moves THIS's file (its trans_id) to the place given
by the merged (parent, name) and gives it the merged kind / content / exec bit. -/

/-- `paths3` and `copied` of one element -/
structure PChange where
  src : Option Id
  dst : Option Id
  cur : Option Id
  copied : Bool
  deriving DecidableEq, Repr

def look (t : Tree) : Option Id → Option Entry
  | none => none
  | some i => t i

/-- the loop body on the entries found at the three paths -/
def PChange.result (base this other : Tree) (c : PChange) : Result :=
  mergeChange (Change.ofEntries (look base c.src) (look other c.dst) (look this c.cur) c.copied (look this c.dst))

/-- the path the element's trans_id leaves: THIS's path; for a copy the copy's own path when THIS has a
versioned entry there (else the triples are `(None, other, None)`: a new trans_id, nothing is left) -/
def PChange.removes (this : Tree) (c : PChange) : Option Id :=
  if c.copied then (if (look this c.dst).isSome then c.dst else none) else c.cur

/-- the entries the transform puts in place, each at the path `key parent name` -/
def placements (key : Option Id → Nat → Id) (base this other : Tree) (cs : List PChange) : List (Id × Entry) :=
  cs.filterMap fun c => (c.result base this other).entry.map fun e => (key e.parent e.name, e)

/-- THIS after the transform: placed entries, vacated paths, everything else untouched -/
def applyChanges (key : Option Id → Nat → Id) (base this other : Tree) (cs : List PChange) : Tree := fun i =>
  match (placements key base this other cs).find? (fun pe => pe.1 == i) with
  | some pe => some pe.2
  | none => if cs.any (fun c => c.removes this == some i) then none else this i

/-! ### finite trees for the driver and for the well-formedness hypothesis -/

abbrev FTree := List (Id × Entry)

def FTree.get (t : FTree) : Tree := fun i => (t.find? fun e => e.1 == i).map (·.2)

def execNormB (ids : List Id) (t : Tree) : Bool :=
  ids.all fun i => match t i with
    | some e => e.kind == .file || e.exec == false
    | none => true

/-- ancestors of `i` up to `fuel` steps reach a root (parent = none) without meeting `i` again -/
def reachesRoot (t : Tree) : Nat → Id → Bool
  | 0, _ => false
  | fuel + 1, i =>
    match t i with
    | none => false
    | some e =>
      match e.parent with
      | none => true
      | some p => (match t p with | some pe => pe.kind == .dir | none => false) && reachesRoot t fuel p

/-- well-formed over the finite id universe `ids`: every present entry hangs
below a root through existing directories (hence no cycle), exactly one root,
sibling names unique -/
def wf (ids : List Id) (t : Tree) : Bool :=
  let present := ids.filter fun i => (t i).isSome
  present.all (fun i => reachesRoot t (ids.length + 1) i) &&
  (present.filter fun i => match t i with | some e => e.parent.isNone | none => false).length == 1 &&
  present.all (fun i => present.all fun j =>
    i == j || match t i, t j with
      | some a, some b => !(a.parent == b.parent && a.name == b.name)
      | _, _ => true)

end BreezyVerif.C17
