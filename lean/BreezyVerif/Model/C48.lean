/-
C48 — ignore patterns (breezy/globbing.py: Globster, ExceptionGlobster,
_OrderedGlobster; bzrformats normalize_pattern).

Python `re` is not modelled.  A normalised pattern is lexed into a small glob
AST (`Tok`) exactly along the alternatives of the `Replacer`s `_sub_fullpath` /
`_sub_basename` / `_sub_extension` (in their order), and matched by a
reference matcher `matchToks`.  The Globster selection logic (pattern type
order, groups of `g` patterns — 99 in the code —, `lastindex`, the regex
prefixes and their backtracking order) is modelled literally over the matcher
with the group size `g` as a parameter.

Outside the modelled grammar (answer `none` from `lexRun`/`compile`): `RE:`
patterns, backslashes that survive normalisation, `[`/`]` that do not form a
plain character class `[` (`!`|`^`)? item+ `]` with items `c` or `lo-hi`.
File names are assumed to contain no newline (`.` and `$` of Python `re`).
-/
namespace BreezyVerif.C48

/-! ## glob AST and reference matcher -/

inductive Tok where
  | lit (c : Char)
  | any1                      -- `?`
  | star                      -- `*+`
  | starstar                  -- `**+/` at the start of a path segment: `(?:.*/)?`
  | cls (neg : Bool) (items : List (Char × Char))   -- `[...]`, items are inclusive ranges
  deriving DecidableEq, Repr

def clsMatch (neg : Bool) (items : List (Char × Char)) (x : Char) : Bool :=
  (items.any fun it => decide (it.1 ≤ x) && decide (x ≤ it.2)) != neg

/-- which characters `*` / `?` may consume: `[^/]` in full-path mode, `.` in
basename / extension mode (no newlines in file names) -/
def charOk (full : Bool) (x : Char) : Bool := !full || x != '/'

/-- `k` holds for some suffix reached by dropping a prefix of `ok` characters -/
def starLoop (ok : Char → Bool) (k : List Char → Bool) : List Char → Bool
  | [] => k []
  | x :: s => k (x :: s) || (ok x && starLoop ok k s)

/-- `k` holds for some suffix that follows a `/` -/
def afterSlash (k : List Char → Bool) : List Char → Bool
  | [] => false
  | x :: s => (x == '/' && k s) || afterSlash k s

/-- the whole of `s` is matched by the token list -/
def matchToks (full : Bool) : List Tok → List Char → Bool
  | [], s => s.isEmpty
  | .lit c :: ts, s =>
    match s with
    | x :: s' => x == c && matchToks full ts s'
    | [] => false
  | .any1 :: ts, s =>
    match s with
    | x :: s' => charOk full x && matchToks full ts s'
    | [] => false
  | .cls neg items :: ts, s =>
    match s with
    | x :: s' => clsMatch neg items x && matchToks full ts s'
    | [] => false
  | .star :: ts, s => starLoop (charOk full) (matchToks full ts) s
  | .starstar :: ts, s => matchToks full ts s || afterSlash (matchToks full ts) s

/-! ## lexer: the `Replacer` alternatives as a one-pass state machine -/

structure ClsSt where
  neg : Bool
  first : Bool                 -- nothing read after `[` yet
  items : List (Char × Char)   -- reversed
  pend : Option Char
  dash : Bool
  deriving DecidableEq, Repr

inductive LexSt where
  | seg                  -- at the start of a path segment (full-path mode only)
  | mid                  -- elsewhere
  | segDot               -- segment start, one `.` read: `./` is dropped, otherwise a literal
  | segStars (n : Nat)   -- segment start, `n + 1` stars read
  | stars                -- inside a run of `*` whose `star` token is already emitted
  | inCls (c : ClsSt)
  deriving DecidableEq, Repr

/-- characters allowed as members of a modelled character class -/
def clsChar (c : Char) : Bool :=
  c.isAlphanum || c == '.' || c == '_' || c == '/' || c == '*' || c == '?' || c == '+' ||
  c == ',' || c == '=' || c == '@' || c == ' ' || c == '#' || c == '~' || c.toNat ≥ 128

def stepCls (cs : ClsSt) (c : Char) : Option (LexSt × List Tok) :=
  if cs.first && (c == '!' || c == '^') then
    some (.inCls { cs with neg := true, first := false }, [])
  else if c == ']' then
    if cs.dash then none else
    let items := match cs.pend with
      | some a => (a, a) :: cs.items
      | none => cs.items
    if items.isEmpty then none else some (.mid, [.cls cs.neg items.reverse])
  else if c == '-' then
    match cs.pend with
    | some _ => if cs.dash then none else some (.inCls { cs with dash := true, first := false }, [])
    | none => none
  else if clsChar c then
    match cs.pend with
    | some a =>
      if cs.dash then
        if a ≤ c then some (.inCls { cs with items := (a, c) :: cs.items, pend := none, dash := false, first := false }, [])
        else none
      else some (.inCls { cs with items := (a, a) :: cs.items, pend := some c, first := false }, [])
    | none => some (.inCls { cs with pend := some c, first := false }, [])
  else none

/-- one character in state `mid` (also the fall-back of the pending states) -/
def stepMid (full : Bool) (c : Char) : Option (LexSt × List Tok) :=
  if c == '[' then some (.inCls ⟨false, true, [], none, false⟩, [])
  else if c == ']' || c == '\\' then none
  else if c == '*' then some (.stars, [.star])
  else if c == '?' then some (.mid, [.any1])
  else if c == '/' then some (if full then .seg else .mid, [.lit '/'])
  else some (.mid, [.lit c])

def pre (t : List Tok) : Option (LexSt × List Tok) → Option (LexSt × List Tok)
  | some (st, ts) => some (st, t ++ ts)
  | none => none

def step (full : Bool) : LexSt → Char → Option (LexSt × List Tok)
  | .seg, c =>
    if c == '/' then some (.seg, [])            -- canonicalise: `(?:\.?/)+` → ""
    else if c == '.' then some (.segDot, [])
    else if c == '*' then some (.segStars 0, [])
    else stepMid full c
  | .segDot, c =>
    if c == '/' then some (.seg, [])            -- `./` dropped
    else pre [.lit '.'] (stepMid full c)
  | .segStars n, c =>
    if c == '*' then some (.segStars (n + 1), [])
    else if c == '/' then
      (if n ≥ 1 then some (.seg, [.starstar]) else some (.seg, [.star, .lit '/']))
    else pre [.star] (stepMid full c)
  | .stars, c => if c == '*' then some (.stars, []) else stepMid full c
  | .mid, c => stepMid full c
  | .inCls cs, c => stepCls cs c

def finish : LexSt → Option (List Tok)
  | .seg => some []
  | .mid => some []
  | .stars => some []
  | .segDot => some [.lit '.']
  | .segStars _ => some [.star]
  | .inCls _ => none

def lexRun (full : Bool) (st : LexSt) : List Char → Option (List Tok)
  | [] => finish st
  | c :: s =>
    match step full st c with
    | none => none
    | some (st', ts) =>
      match lexRun full st' s with
      | none => none
      | some r => some (ts ++ r)

/-! ## normalisation, classification, compilation -/

def startsWith (p s : List Char) : Bool := p.isPrefixOf s

def reP : List Char := ['R', 'E', ':']
def nreP : List Char := ['!', 'R', 'E', ':']
def extP : List Char := ['*', '.']

def isSlash (c : Char) : Bool := c == '/' || c == '\\'

/-- `re.sub(r'[\\/]+', '/', p)`; `prev` = the previous character was a slash -/
def collapseAux (prev : Bool) : List Char → List Char
  | [] => []
  | c :: s =>
    if isSlash c then (if prev then collapseAux true s else '/' :: collapseAux true s)
    else c :: collapseAux false s

def collapse (s : List Char) : List Char := collapseAux false s

def rstripSlash (s : List Char) : List Char := (s.reverse.dropWhile (· == '/')).reverse

def normalize (p : List Char) : List Char :=
  let q := if startsWith reP p || startsWith nreP p then p else collapse p
  if q.length > 1 then rstripSlash q else q

inductive Kind where
  | ext | base | full
  deriving DecidableEq, Repr

def Kind.toString : Kind → String
  | .ext => "extension" | .base => "basename" | .full => "fullpath"

def identify (p : List Char) : Kind :=
  if startsWith reP p || p.contains '/' then .full
  else if startsWith extP p then .ext
  else .base

/-- a compiled pattern: the (normalised) source that `match` reports, its
category, and the token list its translator yields -/
structure CPat where
  src : List Char
  kind : Kind
  toks : List Tok
  deriving DecidableEq, Repr

def compile (p : List Char) : Option CPat :=
  if startsWith reP p then none else
  match identify p with
  | .full => (lexRun true .seg p).map fun t => ⟨p, .full, t⟩
  | .base => (lexRun false .mid p).map fun t => ⟨p, .base, t⟩
  | .ext => (lexRun false .mid (p.drop 2)).map fun t => ⟨p, .ext, t⟩

def compileAll (ps : List (List Char)) : Option (List CPat) :=
  ps.mapM fun p => compile (normalize p)

/-! ## matching one pattern -/

/-- the part after the last `/` -/
def basename : List Char → List Char
  | [] => []
  | c :: s => if s.contains '/' then basename s else if c == '/' then s else c :: s

/-- the suffixes that follow a `.`, leftmost dot first -/
def dotSuffixes : List Char → List (List Char)
  | [] => []
  | c :: s => if c == '.' then s :: dotSuffixes s else dotSuffixes s

/-- does the pattern body match subject `s` (already cut down by the prefix) -/
def bodyMatch (p : CPat) (s : List Char) : Bool :=
  matchToks (p.kind == .full) p.toks s

/-- the documented meaning of one pattern on a path -/
def cpMatches (p : CPat) (name : List Char) : Bool :=
  match p.kind with
  | .full => bodyMatch p name
  | .base => bodyMatch p (basename name)
  | .ext => (dotSuffixes (basename name)).any (bodyMatch p)

/-- what the regex of a group of kind `k` demands of one of its alternatives -/
def kindMatches (k : Kind) (p : CPat) (name : List Char) : Bool :=
  match k with
  | .full => bodyMatch p name
  | .base => bodyMatch p (basename name)
  | .ext => (dotSuffixes (basename name)).any (bodyMatch p)

/-! ## Globster -/

/-- `while patterns: … patterns[:g] …; patterns = patterns[g:]` (fuel = length) -/
def chunksF {α : Type} (g : Nat) : Nat → List α → List (List α)
  | 0, _ => []
  | n + 1, l => if l.isEmpty then [] else l.take g :: chunksF g n (l.drop g)

def chunks {α : Type} (g : Nat) (l : List α) : List (List α) := chunksF g l.length l

/-- one `(regex, patterns)` entry: `regex.match(filename)` and `patterns[lastindex-1]`.
The prefix of the basename type has exactly one way to match; the extension
prefix `(?:.*\.)` is greedy, so the regex engine tries the LAST dot first and,
for each dot, the alternatives in order. -/
def groupMatch (k : Kind) (grp : List CPat) (name : List Char) : Option CPat :=
  match k with
  | .full => grp.find? fun p => bodyMatch p name
  | .base => grp.find? fun p => bodyMatch p (basename name)
  | .ext => (dotSuffixes (basename name)).reverse.findSome? fun suf => grp.find? fun p => bodyMatch p suf

/-- VARIANT (not the current code): the group regex when every extension
alternative carries its own `.*\.` instead of sharing a greedy prefix — the
alternatives are then tried strictly in order for every type.  Selected by the
harness only if the source has that shape (see harness/checks/c48.py). -/
def groupMatchO (k : Kind) (grp : List CPat) (name : List Char) : Option CPat :=
  grp.find? fun p => kindMatches k p name

def ofKind (k : Kind) (cps : List CPat) : List CPat := cps.filter fun p => p.kind == k

def typeOrder : List Kind := [.ext, .base, .full]

/-- `Globster(patterns)._regex_patterns` with group size `g` -/
def groups (g : Nat) (cps : List CPat) : List (Kind × List CPat) :=
  typeOrder.flatMap fun k => (chunks g (ofKind k cps)).map fun grp => (k, grp)

/-- `Globster.match` -/
def globsterMatch (g : Nat) (cps : List CPat) (name : List Char) : Option CPat :=
  (groups g cps).findSome? fun kg => groupMatch kg.1 kg.2 name

def globsterMatchO (g : Nat) (cps : List CPat) (name : List Char) : Option CPat :=
  (groups g cps).findSome? fun kg => groupMatchO kg.1 kg.2 name

/-- `_OrderedGlobster`: one group per pattern, in the given order -/
def orderedMatch (cps : List CPat) (name : List Char) : Option CPat :=
  cps.findSome? fun p => groupMatch p.kind [p] name

/-! ## ExceptionGlobster -/

/-- Python truthiness of a `match` result (`None` and `""` are false) -/
def truthy : Option CPat → Bool
  | some p => !p.src.isEmpty
  | none => false

/-- `ExceptionGlobster.match` over the three compiled lists
(`p0` plain, `p1` from `!…`, `p2` from `!!…`) -/
def exceptionMatch (g : Nat) (p0 p1 p2 : List CPat) (name : List Char) : Option (List Char) :=
  let dn := globsterMatch g p2 name
  if truthy dn then dn.map fun p => '!' :: '!' :: p.src
  else if truthy (globsterMatch g p1 name) then none
  else (globsterMatch g p0 name).map (·.src)

def exceptionMatchO (g : Nat) (p0 p1 p2 : List CPat) (name : List Char) : Option (List Char) :=
  let dn := globsterMatchO g p2 name
  if truthy dn then dn.map fun p => '!' :: '!' :: p.src
  else if truthy (globsterMatchO g p1 name) then none
  else (globsterMatchO g p0 name).map (·.src)

/-- the constructor's classification of the raw patterns -/
def splitExc : List (List Char) → List (List Char) × List (List Char) × List (List Char)
  | [] => ([], [], [])
  | p :: ps =>
    let r := splitExc ps
    match p with
    | '!' :: '!' :: x => (r.1, r.2.1, x :: r.2.2)
    | '!' :: x => (r.1, x :: r.2.1, r.2.2)
    | _ => (p :: r.1, r.2.1, r.2.2)

/-- string level: `Globster(pats).match(name)`; outer `none` = some pattern is
outside the modelled grammar -/
def globster (inOrder : Bool) (g : Nat) (pats : List (List Char)) (name : List Char) : Option (Option (List Char)) :=
  (compileAll pats).map fun cps =>
    ((if inOrder then globsterMatchO g cps name else globsterMatch g cps name)).map (·.src)

def ordered (pats : List (List Char)) (name : List Char) : Option (Option (List Char)) :=
  (compileAll pats).map fun cps => (orderedMatch cps name).map (·.src)

def exceptionGlobster (inOrder : Bool) (g : Nat) (pats : List (List Char)) (name : List Char) :
    Option (Option (List Char)) :=
  let s := splitExc pats
  match compileAll s.1, compileAll s.2.1, compileAll s.2.2 with
  | some p0, some p1, some p2 =>
    some (if inOrder then exceptionMatchO g p0 p1 p2 name else exceptionMatch g p0 p1 p2 name)
  | _, _, _ => none

end BreezyVerif.C48
