/-
C14 — transform previews match their applied result.

Executable model of the `TreeTransform` bookkeeping of `breezy/transform.py`,
`breezy/bzr/transform.py` and `breezy/git/transform.py`:

* the maps `_new_name / _new_parent / _new_contents / _removed_contents /
  _new_executability / _new_id (git: _versioned) / _removed_id` over trans-ids,
  on top of a base tree whose paths all have a trans-id (the harness registers
  every path with `trans_id_tree_path` first, so `_tree_path_ids` is total);
* the `final_*` accessors, `by_parent`, `find_raw_conflicts` (all detectors, in
  the order of the source), the seven `CONFLICT_RESOLVERS`, `conflict_pass` and
  the fuelled loop of `resolve_conflicts`;
* `PreviewTree` / `InventoryPreviewTree` / `GitPreviewTree` accessors (`kind`,
  `get_file_text`, `get_symlink_target`, `is_executable`, `is_versioned`)
  behind `_path2trans_id`;
* `apply`: `_check_malformed`, the removal / insertion / chmod phases over an
  inode table (an entry is a directory entry `(parent, name)` plus a node, which
  is what `os.rename` manipulates), `_inventory_altered`,
  `_generate_inventory_delta`, `apply_inventory_delta` (bzr) and
  `_generate_index_changes` / `_apply_index_changes` (git).

Python dicts are insertion-ordered association lists (assignment to an
existing key keeps its position), Python sets are duplicate-free lists.
-/
namespace BreezyVerif.C14

abbrev Tid := Nat

inductive Kind where
  | file | dir | symlink
  deriving DecidableEq, Repr

/-- one registered tree path (`_tree_path_ids` entry); `kind = none` is a path
that does not exist on disk -/
structure Base where
  parent : Option Tid        -- `none` = ROOT_PARENT (only for the root)
  name : String
  kind : Option Kind
  data : String              -- file text / symlink target
  exec : Bool
  fid : Option String        -- file id if versioned (git: `some ""`)
  deriving DecidableEq, Repr

/-- which variant of the code is modelled (regenerated from the source by T1) -/
structure Flags where
  git : Bool
  /-- `get_file` / `get_symlink_target` of the preview tree read an unmodified
  entry at its *tree* path (true) or at the path it has in the preview (false) -/
  dataByTreePath : Bool
  /-- the same for `PreviewTree.is_executable` -/
  execByTreePath : Bool
  /-- resolvers read `by_parent().get(id, ())` (true) or `by_parent()[id]` (false) -/
  childrenGet : Bool
  /-- `resolve_duplicate` (two directories in a tree without versioned directories) calls
  `cancel_creation(existing)` only when `existing` has new contents (true) or always (false) -/
  cancelGuarded : Bool
  /-- `resolve_parent_loop` leaves a loop whose changed entry has no tree path (a loop of new
  entries) alone (true) or calls `get_tree_parent` on it, which raises KeyError (false) -/
  loopGuarded : Bool
  /-- `resolve_unversioned_parent` leaves a parent that has no inactive file id alone (true: the
  conflict stays and ends as MalformedTransform) or calls `version_file(file_id=None)`, which
  raises ValueError (false) -/
  upSkipsIdless : Bool := false
  /-- `resolve_non_directory_parent` releases the file id of the parent (`cancel_versioning`,
  `unversion_file`) *before* it creates the replacement directory with that id (true), or only
  unversions it afterwards (false: DuplicateKey when the id was assigned in this transform) -/
  npReleasesId : Bool := false
  /-- bzr: `_add_tree_children` catches the NoSuchFile of `stored_kind` for an unversioned path in
  `_removed_id`, and `_generate_inventory_delta` skips such paths (true); false: NoSuchFile -/
  unversionTolerant : Bool := false
  /-- bzr: `_generate_inventory_delta` also removes the tree file id of an entry that is given
  another id without `unversion_file` (true) -/
  deltaDropsOldId : Bool := false
  deriving DecidableEq, Repr

/-- the preview accessors read an unmodified entry at its tree path -/
def Flags.previewFixed (fl : Flags) : Bool := fl.dataByTreePath && fl.execByTreePath

/-- the resolvers use `by_parent().get`, guard `cancel_creation` and leave loops of new entries alone -/
def Flags.resolversFixed (fl : Flags) : Bool := fl.childrenGet && fl.cancelGuarded && fl.loopGuarded

structure TT where
  base : List Base
  next : Nat
  newName : List (Tid × String) := []
  newParent : List (Tid × Option Tid) := []
  newContents : List (Tid × (Kind × String)) := []
  removedContents : List Tid := []
  newExec : List (Tid × Bool) := []
  newId : List (Tid × String) := []
  removedId : List Tid := []
  deriving Repr

/-! ### association lists -/

def alookup {β : Type} (l : List (Tid × β)) (k : Tid) : Option β :=
  (l.find? (fun e => e.1 == k)).map (·.2)

def ahas {β : Type} (l : List (Tid × β)) (k : Tid) : Bool := l.any (fun e => e.1 == k)

/-- `d[k] = v` -/
def aset {β : Type} : List (Tid × β) → Tid → β → List (Tid × β)
  | [], k, v => [(k, v)]
  | (k', v') :: rest, k, v => if k' == k then (k, v) :: rest else (k', v') :: aset rest k v

def aerase {β : Type} (l : List (Tid × β)) (k : Tid) : List (Tid × β) := l.filter (fun e => e.1 != k)

def sadd (l : List Tid) (k : Tid) : List Tid := if l.contains k then l else l ++ [k]

/-! ### tree side -/

def TT.nbase (tt : TT) : Nat := tt.base.length

def TT.treeKind (tt : TT) (t : Tid) : Option Kind := (tt.base[t]?).bind (·.kind)
def TT.treeFid (tt : TT) (t : Tid) : Option String := (tt.base[t]?).bind (·.fid)
def TT.treeExec (tt : TT) (t : Tid) : Bool := ((tt.base[t]?).map (·.exec)).getD false
def TT.treeData (tt : TT) (t : Tid) : String := ((tt.base[t]?).map (·.data)).getD ""

/-! ### `final_*` -/

def TT.pathChanged (tt : TT) (t : Tid) : Bool := ahas tt.newName t || ahas tt.newParent t

/-- `final_name`; `none` = `NoFinalPath` -/
def TT.finalName (tt : TT) (t : Tid) : Option String :=
  match alookup tt.newName t with
  | some n => some n
  | none => (tt.base[t]?).map (·.name)

/-- `final_parent`: `none` = `KeyError`, `some none` = ROOT_PARENT -/
def TT.finalParent (tt : TT) (t : Tid) : Option (Option Tid) :=
  match alookup tt.newParent t with
  | some p => some p
  | none => (tt.base[t]?).map (·.parent)

def TT.finalKind (tt : TT) (t : Tid) : Option Kind :=
  match alookup tt.newContents t with
  | some (k, _) => some k
  | none => if tt.removedContents.contains t then none else tt.treeKind t

/-- `final_file_id` (git: `some ""` iff `final_is_versioned`) -/
def TT.finalFid (tt : TT) (t : Tid) : Option String :=
  match alookup tt.newId t with
  | some f => some f
  | none => if tt.removedId.contains t then none else tt.treeFid t

def TT.finalVersioned (tt : TT) (t : Tid) : Bool := (tt.finalFid t).isSome

/-- all trans-ids the transform knows -/
def TT.ids (tt : TT) : List Tid := List.range tt.next

/-- an entry that exists in the result: it has contents or is versioned -/
def TT.live (tt : TT) (t : Tid) : Bool := (tt.finalKind t).isSome || tt.finalVersioned t

/-! ### `by_parent` -/

def insertSorted (x : Tid) : List Tid → List Tid
  | [] => [x]
  | y :: ys => if x < y then x :: y :: ys else if x = y then y :: ys else y :: insertSorted x ys

def bpAdd (bp : List (Option Tid × List Tid)) (p : Option Tid) (c : Tid) : List (Option Tid × List Tid) :=
  match bp with
  | [] => [(p, [c])]
  | (p', cs) :: rest => if p' = p then (p', insertSorted c cs) :: rest else (p', cs) :: bpAdd rest p c

/-- `by_parent()`: keys in first-insertion order (`_new_parent` items, then the
tree ids with their `final_parent`); the children sets are kept sorted -/
def TT.byParent (tt : TT) : List (Option Tid × List Tid) :=
  let items := tt.newParent ++ (List.range tt.nbase).filterMap (fun t => (tt.finalParent t).map (fun p => (t, p)))
  items.foldl (fun bp e => bpAdd bp e.2 e.1) []

def TT.children (tt : TT) (p : Tid) : Option (List Tid) :=
  (tt.byParent.find? (fun e => e.1 == some p)).map (·.2)

/-! ### conflicts -/

inductive Conflict where
  | unversionedParent (p : Tid)
  | parentLoop (t : Tid)
  | duplicate (last cur : Tid) (name : String)
  | missingParent (p : Tid)
  | nonDirParent (p : Tid)
  | versioningNoContents (t : Tid)
  | unversionedExec (t : Tid)
  | nonFileExec (t : Tid)
  | overwrite (t : Tid) (name : String)
  | duplicateId (old new : Tid)
  deriving DecidableEq, Repr

def TT.unversionedParents (tt : TT) : List Conflict :=
  tt.byParent.filterMap fun e =>
    match e.1 with
    | none => none
    | some p =>
      if tt.finalVersioned p then none
      else if e.2.any tt.finalVersioned then some (.unversionedParent p) else none

/-- the walk of `_parent_loops` from `t`: does following `final_parent` come back to `t`? -/
def TT.loopWalk (tt : TT) (t : Tid) : Nat → Tid → List Tid → Bool
  | 0, _, _ => false
  | fuel + 1, cur, seen =>
    match tt.finalParent cur with
    | none => false                    -- KeyError: break
    | some none => false               -- reached ROOT_PARENT
    | some (some p) =>
      if p = t then true
      else if (cur :: seen).contains p then false
      else tt.loopWalk t fuel p (cur :: seen)

def TT.parentLoops (tt : TT) : List Conflict :=
  tt.newParent.filterMap fun e =>
    if tt.loopWalk e.1 (tt.next + 2) e.1 [] then some (.parentLoop e.1) else none

/-- order of trans-id strings `new-<n>` -/
def tidLe (a b : Tid) : Bool := decide (toString a ≤ toString b)

def nameIdLe (x y : String × Tid) : Bool :=
  if x.1 < y.1 then true else if x.1 = y.1 then tidLe x.2 y.2 else false

def insertBy {α : Type} (le : α → α → Bool) (x : α) : List α → List α
  | [] => [x]
  | y :: ys => if le x y then x :: y :: ys else y :: insertBy le x ys

/-- `name_ids.sort()` (insertion sort: structurally recursive, so the kernel can evaluate it) -/
def isort {α : Type} (le : α → α → Bool) : List α → List α
  | [] => []
  | x :: xs => insertBy le x (isort le xs)

def dupScan (tt : TT) : Option (String × Tid) → List (String × Tid) → List Conflict
  | _, [] => []
  | last, (n, t) :: rest =>
    if (tt.finalKind t).isNone && !tt.finalVersioned t then dupScan tt last rest
    else
      let here := match last with
        | some (ln, lt) => if ln = n then [Conflict.duplicate lt t n] else []
        | none => []
      here ++ dupScan tt (some (n, t)) rest

def TT.duplicateEntries (tt : TT) : List Conflict :=
  if tt.newName.isEmpty && tt.newParent.isEmpty then []
  else tt.byParent.flatMap fun e =>
    let nameIds := (e.2.filterMap fun c => (tt.finalName c).map fun n => (n, c)) |> isort nameIdLe
    dupScan tt none nameIds

def TT.parentTypeConflicts (tt : TT) : List Conflict :=
  tt.byParent.filterMap fun e =>
    match e.1 with
    | none => none
    | some p =>
      if e.2.all (fun c => (tt.finalKind c).isNone) then none
      else match tt.finalKind p with
        | none => some (.missingParent p)
        | some .dir => none
        | some _ => some (.nonDirParent p)

def TT.improperVersioning (tt : TT) : List Conflict :=
  tt.newId.filterMap fun e => if (tt.finalKind e.1).isNone then some (.versioningNoContents e.1) else none

def TT.executabilityConflicts (tt : TT) : List Conflict :=
  tt.newExec.filterMap fun e =>
    if !tt.finalVersioned e.1 then some (.unversionedExec e.1)
    else if tt.finalKind e.1 ≠ some .file then some (.nonFileExec e.1) else none

def TT.overwriteConflicts (tt : TT) : List Conflict :=
  tt.newContents.filterMap fun e =>
    if (tt.treeKind e.1).isNone then none
    else if tt.removedContents.contains e.1 then none
    else some (.overwrite e.1 ((tt.finalName e.1).getD ""))

/-- the tree trans-id that carries file id `f` -/
def TT.tidOfTreeFid (tt : TT) (f : String) : Option Tid :=
  (List.range tt.nbase).find? (fun t => tt.treeFid t == some f)

def TT.duplicateIds (tt : TT) : List Conflict :=
  let removed := tt.removedId.filterMap tt.treeFid
  tt.newId.filterMap fun e =>
    match tt.tidOfTreeFid e.2 with
    | some old => if removed.contains e.2 then none else some (.duplicateId old e.1)
    | none => none

/-- `_add_tree_children` (bzr) asks `self._tree.stored_kind(path)` for every tree
path in `_removed_id`; that raises NoSuchFile when the path is not versioned
(the git variant catches it) -/
def TT.addTreeChildrenRaises (fl : Flags) (tt : TT) : Bool :=
  !fl.git && !fl.unversionTolerant && tt.removedId.any (fun t => t < tt.nbase && (tt.treeFid t).isNone)

/-- `find_raw_conflicts` (bzr: `InventoryTreeTransform`, git: `TreeTransformBase` of git/transform.py) -/
def TT.findRawConflicts (fl : Flags) (tt : TT) : List Conflict :=
  (if fl.git then [] else tt.unversionedParents) ++ tt.parentLoops ++ tt.duplicateEntries ++
  tt.parentTypeConflicts ++ tt.improperVersioning ++ tt.executabilityConflicts ++ tt.overwriteConflicts ++
  (if fl.git then [] else tt.duplicateIds)

/-! ### operations -/

inductive Err where
  | duplicateKey | cantMoveRoot | keyError | noFinalPath | malformed | valueError | isADirectory | fileExists
  | renameFailed | inconsistentDelta
  deriving DecidableEq, Repr

def TT.root : Tid := 0

/-- `create_path` -/
def TT.createPath (tt : TT) (name : String) (parent : Tid) : TT × Tid :=
  ({ tt with next := tt.next + 1, newName := tt.newName ++ [(tt.next, name)],
             newParent := tt.newParent ++ [(tt.next, some parent)] }, tt.next)

/-- `version_file(trans_id, file_id=f)` -/
def TT.versionFile (fl : Flags) (tt : TT) (t : Tid) (f : String) : Except Err TT :=
  if ahas tt.newId t then .error .duplicateKey
  else if !fl.git && tt.newId.any (fun e => e.2 == f) then .error .duplicateKey   -- `_r_new_id`
  else .ok { tt with newId := tt.newId ++ [(t, if fl.git then "" else f)] }

def TT.createContents (tt : TT) (t : Tid) (k : Kind) (d : String) : Except Err TT :=
  if ahas tt.newContents t then .error .duplicateKey
  else .ok { tt with newContents := tt.newContents ++ [(t, (k, d))] }

def TT.setExec (tt : TT) (b : Bool) (t : Tid) : Except Err TT :=
  if ahas tt.newExec t then .error .duplicateKey
  else .ok { tt with newExec := tt.newExec ++ [(t, b)] }

def TT.adjustPath (tt : TT) (name : String) (parent : Tid) (t : Tid) : Except Err TT :=
  if t = TT.root then .error .cantMoveRoot
  else .ok { tt with newName := aset tt.newName t name, newParent := aset tt.newParent t (some parent) }

def TT.deleteContents (tt : TT) (t : Tid) : TT :=
  if (tt.treeKind t).isSome then { tt with removedContents := sadd tt.removedContents t } else tt

def TT.unversionFile (tt : TT) (t : Tid) : TT := { tt with removedId := sadd tt.removedId t }

/-- `cancel_versioning` -/
def TT.cancelVersioning (tt : TT) (t : Tid) : Except Err TT :=
  if ahas tt.newId t then .ok { tt with newId := aerase tt.newId t } else .error .keyError

/-- `new_file` / `new_directory` / `new_symlink` -/
def TT.newEntry (fl : Flags) (tt : TT) (name : String) (parent : Tid) (k : Kind) (d : String)
    (fid : Option String) (exec : Option Bool) : Except Err (TT × Tid) := do
  let (tt, t) := tt.createPath name parent
  let tt ← match fid with
    | some f => tt.versionFile fl t f
    | none => pure tt
  let tt ← tt.createContents t k d
  let tt ← match exec with
    | some b => tt.setExec b t
    | none => pure tt
  pure (tt, t)

inductive Op where
  | newFile (name : String) (parent : Tid) (data : String) (fid : Option String) (exec : Option Bool)
  | newDir (name : String) (parent : Tid) (fid : Option String)
  | newSymlink (name : String) (parent : Tid) (target : String) (fid : Option String)
  | deleteContents (t : Tid)
  | adjustPath (name : String) (parent : Tid) (t : Tid)
  | versionFile (t : Tid) (fid : String)
  | unversionFile (t : Tid)
  | setExec (b : Bool) (t : Tid)
  | createFile (data : String) (t : Tid)
  | createDir (t : Tid)
  deriving Repr

def TT.step (fl : Flags) (tt : TT) : Op → Except Err TT
  | .newFile n p d f e => (tt.newEntry fl n p .file d f e).map (·.1)
  | .newDir n p f => (tt.newEntry fl n p .dir "" f none).map (·.1)
  | .newSymlink n p d f => (tt.newEntry fl n p .symlink d f none).map (·.1)
  | .deleteContents t => .ok (tt.deleteContents t)
  | .adjustPath n p t => tt.adjustPath n p t
  | .versionFile t f => tt.versionFile fl t f
  | .unversionFile t => .ok (tt.unversionFile t)
  | .setExec b t => tt.setExec b t
  | .createFile d t =>
    -- `open(limbo_name, "wb")` comes before `unique_add`
    if (alookup tt.newContents t).map (·.1) = some .dir then .error .isADirectory else tt.createContents t .file d
  | .createDir t =>
    -- `os.mkdir(limbo_name)` comes before `unique_add`
    if ahas tt.newContents t then .error .fileExists else tt.createContents t .dir ""

/-- run the operations until the first one that raises; returns the log -/
def TT.steps (fl : Flags) (tt : TT) : List Op → TT × Option Err
  | [] => (tt, none)
  | op :: rest =>
    match tt.step fl op with
    | .ok tt' => tt'.steps fl rest
    | .error e => (tt, some e)

/-! ### resolvers (`CONFLICT_RESOLVERS`) -/

/-- `by_parent()[id]` / `by_parent().get(id, ())` -/
def TT.childrenOf (fl : Flags) (tt : TT) (p : Tid) : Except Err (List Tid) :=
  match tt.children p with
  | some cs => .ok cs
  | none => if fl.childrenGet then .ok [] else .error .keyError

/-- `_reparent_transform_children` -/
def TT.reparentChildren (fl : Flags) (tt : TT) (old new : Tid) : Except Err TT := do
  let cs ← tt.childrenOf fl old
  cs.foldlM (fun (tt : TT) c =>
    match tt.finalName c with
    | some n => tt.adjustPath n new c
    | none => .error .noFinalPath) tt

def TT.resolveDuplicateId (tt : TT) (old : Tid) : Except Err TT := .ok (tt.unversionFile old)

def TT.resolveDuplicate (fl : Flags) (tt : TT) (last cur : Tid) : Except Err TT :=
  match tt.finalParent last with
  | none => .error .keyError
  | some none => .error .valueError           -- adjust_path(parent=None)
  | some (some fp) =>
    let (existing, new) := if tt.pathChanged last then (cur, last) else (last, cur)
    if fl.git && tt.finalKind cur = some .dir && tt.finalKind last = some .dir then do
      let tt ← tt.reparentChildren fl existing new
      let tt := (tt.deleteContents existing).unversionFile existing
      -- cancel_creation: `del self._new_contents[trans_id]`
      if ahas tt.newContents existing then .ok { tt with newContents := aerase tt.newContents existing }
      else if fl.cancelGuarded then .ok tt
      else .error .keyError
    else
      match tt.finalName existing with
      | some n => tt.adjustPath (n ++ ".moved") fp existing
      | none => .error .noFinalPath

/-- the `while not tt.path_changed(cur): cur = tt.final_parent(cur)` walk -/
def TT.findChanged (tt : TT) : Nat → Tid → Except Err Tid
  | 0, _ => .error .keyError
  | fuel + 1, cur =>
    if tt.pathChanged cur then .ok cur
    else match tt.finalParent cur with
      | some (some p) => tt.findChanged fuel p
      | _ => .error .keyError          -- walked past the root: final_parent(ROOT_PARENT) raises KeyError

def TT.resolveParentLoop (fl : Flags) (tt : TT) (cur : Tid) : Except Err TT := do
  let cur ← tt.findChanged (tt.next + 2) cur
  if fl.loopGuarded && (tt.base[cur]?).isNone then return tt     -- no tree position to move back to
  -- adjust_path(final_name(cur), get_tree_parent(cur), cur)
  match tt.finalName cur, (tt.base[cur]?).map (·.parent) with
  | some n, some (some p) => tt.adjustPath n p cur
  | some _, some none => .error .valueError
  | _, _ => .error .keyError

def TT.resolveMissingParent (fl : Flags) (tt : TT) (t : Tid) : Except Err TT :=
  if tt.removedContents.contains t then do
    -- `_get_potential_orphans` reads by_parent()[t]; with the default orphan
    -- policy ("conflict") every outcome cancels the deletion
    let _ ← tt.childrenOf fl t
    pure { tt with removedContents := tt.removedContents.filter (· != t) }
  else
    match tt.finalName t with
    | none => .error .noFinalPath
    | some _ => tt.createContents t .dir ""

def TT.resolveUnversionedParent (fl : Flags) (tt : TT) (t : Tid) : Except Err TT :=
  match tt.treeFid t with
  | none =>
    if fl.upSkipsIdless then .ok tt         -- nothing to re-activate: the conflict stays
    else .error .valueError               -- version_file(trans_id, file_id=None)
  | some f => tt.versionFile fl t f

def TT.resolveNonDirParent (fl : Flags) (tt : TT) (p : Tid) : Except Err TT :=
  match tt.finalParent p, tt.finalName p with
  | some (some pp), some n => do
    let fid := if fl.git then some "" else tt.finalFid p
    if fl.npReleasesId then
      let tt := if fid.isSome then
          (match tt.cancelVersioning p with | .ok tt' => tt' | .error _ => tt).unversionFile p
        else tt
      let (tt, nd) ← tt.newEntry fl (n ++ ".new") pp .dir "" fid none
      tt.reparentChildren fl p nd
    else
      let (tt, nd) ← tt.newEntry fl (n ++ ".new") pp .dir "" fid none
      let tt ← tt.reparentChildren fl p nd
      pure (if fid.isSome then tt.unversionFile p else tt)
  | some none, some _ => .error .valueError
  | _, _ => .error .keyError

def TT.resolveOne (fl : Flags) (tt : TT) : Conflict → Except Err TT
  | .duplicateId old _ => tt.resolveDuplicateId old
  | .duplicate last cur _ => tt.resolveDuplicate fl last cur
  | .parentLoop t => tt.resolveParentLoop fl t
  | .missingParent p => tt.resolveMissingParent fl p
  | .unversionedParent p => tt.resolveUnversionedParent fl p
  | .nonDirParent p => tt.resolveNonDirParent fl p
  | .versioningNoContents t => tt.cancelVersioning t
  | _ => .ok tt                          -- no resolver registered: `continue`

/-- `conflict_pass`: every conflict found at the start of the pass is handed to
its resolver, in order, on the transform as changed by the earlier ones -/
def TT.conflictPass (fl : Flags) (tt : TT) (cs : List Conflict) : Except Err TT :=
  cs.foldlM (fun tt c => tt.resolveOne fl c) tt

inductive Resolved where
  | clean (tt : TT)                      -- `find_raw_conflicts() == []`: returned
  | malformed (cs : List Conflict)       -- MalformedTransform(conflicts=cs)
  | crashed (e : Err)                    -- a resolver raised

/-- `resolve_conflicts`: `fuel` passes (10 in the source) -/
def TT.resolve (fl : Flags) : Nat → TT → List Conflict → Resolved
  | 0, _, last => .malformed last
  | fuel + 1, tt, _ =>
    let cs := tt.findRawConflicts fl
    if cs.isEmpty then .clean tt
    else match tt.conflictPass fl cs with
      | .ok tt' => TT.resolve fl fuel tt' cs
      | .error e => .crashed e

def passCount : Nat := 10

def TT.resolveConflicts (fl : Flags) (tt : TT) : Resolved := TT.resolve fl passCount tt []

/-- the key of a raw conflict in `CONFLICT_RESOLVERS` -/
def Conflict.key : Conflict → String
  | .unversionedParent _ => "unversioned parent"
  | .parentLoop _ => "parent loop"
  | .duplicate _ _ _ => "duplicate"
  | .missingParent _ => "missing parent"
  | .nonDirParent _ => "non-directory parent"
  | .versioningNoContents _ => "versioning no contents"
  | .unversionedExec _ => "unversioned executability"
  | .nonFileExec _ => "non-file executability"
  | .overwrite _ _ => "overwrite"
  | .duplicateId _ _ => "duplicate id"

/-- the conflict types `resolveOne` has a resolver for -/
def Conflict.hasResolver : Conflict → Bool
  | .unversionedExec _ | .nonFileExec _ | .overwrite _ _ => false
  | _ => true

/-! ### the result as a tree: entries per trans-id, then the path walk -/

/-- what a tree shows for one entry -/
structure Entry where
  kind : Option Kind
  data : String := ""
  exec : Bool := false
  versioned : Bool := false
  deriving DecidableEq, Repr

/-- the path of a trans-id: names from the root down (`FinalPaths`), `none` on a
loop / missing name -/
def TT.finalPath (tt : TT) : Nat → Tid → Option (List String)
  | 0, _ => none
  | fuel + 1, t =>
    if t = TT.root then some []
    else match tt.finalParent t, tt.finalName t with
      | some (some p), some n => (tt.finalPath fuel p).map (· ++ [n])
      | _, _ => none

def TT.pathOf (tt : TT) (t : Tid) : Option (List String) := tt.finalPath (tt.next + 1) t

/-- the registered tree path of a tree id -/
def TT.treePath (tt : TT) : Nat → Tid → Option (List String)
  | 0, _ => none
  | fuel + 1, t =>
    if t = TT.root then some []
    else match tt.base[t]? with
      | some b => match b.parent with
        | some p => (tt.treePath fuel p).map (· ++ [b.name])
        | none => none
      | none => none

/-- the tree id registered for a tree path -/
def TT.tidOfTreePath (tt : TT) (p : List String) : Option Tid :=
  (List.range tt.nbase).find? (fun t => tt.treePath (tt.nbase + 1) t == some p)

/-! #### preview -/

/-- what `_tree.get_file(path)` / `get_symlink_target(path)` / `is_executable(path)`
give for a path of the *base* tree -/
def TT.baseDataAt (tt : TT) (k : Kind) (p : List String) : Option String :=
  match tt.tidOfTreePath p with
  | some t => if tt.treeKind t = some k then some (tt.treeData t) else none
  | none => none

def TT.baseExecAt (tt : TT) (p : List String) : Bool :=
  match tt.tidOfTreePath p with
  | some t => tt.treeKind t = some .file && tt.treeExec t
  | none => false

/-- `data = none` models an exception (NoSuchFile, IsADirectoryError, …) -/
structure PEntry where
  kind : Option Kind
  data : Option String
  exec : Bool
  versioned : Bool
  deriving DecidableEq, Repr

/-- the preview tree's answers for trans-id `t` found at path `p` -/
def TT.previewEntry (fl : Flags) (tt : TT) (t : Tid) (p : List String) : PEntry :=
  let kind := tt.finalKind t
  let newData := (alookup tt.newContents t).map (·.2)
  let treeData : Option String := if tt.removedContents.contains t then none else
    match kind with
    | some k => if tt.treeKind t = some k then some (tt.treeData t) else none
    | none => none
  let baseData : Option String := match kind with
    | some k => tt.baseDataAt k p
    | none => none
  let data : Option String :=
    match kind with
    | none | some .dir => some ""
    | some _ =>
      if fl.dataByTreePath then (match newData with | some d => some d | none => treeData)
      else if fl.git then (match newData with | some d => some d | none => treeData)
      else if newData.isSome && tt.finalVersioned t then newData     -- `_content_change(file_id)`
      else baseData
  let exec : Bool :=
    if kind ≠ some .file then false
    else match alookup tt.newExec t with
      | some b => b
      | none => if fl.execByTreePath then (tt.treeKind t = some .file && tt.treeExec t) else tt.baseExecAt p
  { kind := kind, data := data, exec := exec, versioned := tt.finalVersioned t }

/-! #### apply: disk -/

/-- an inode with its directory entry -/
structure Inode where
  parent : Option Tid      -- the directory entry: parent inode …
  name : String            -- … and name
  attached : Bool          -- has a directory entry in the tree (not in limbo / pending-deletion)
  kind : Option Kind
  data : String
  exec : Bool
  deriving DecidableEq, Repr

/-- one inode per trans-id (index = trans-id); ids without anything on disk have `kind = none` -/
abbrev Disk := List Inode

def Inode.empty : Inode := { parent := none, name := "", attached := false, kind := none, data := "", exec := false }

def TT.baseInode (tt : TT) (t : Tid) : Inode :=
  match tt.base[t]? with
  | some b => { parent := b.parent, name := b.name, attached := b.kind.isSome, kind := b.kind, data := b.data, exec := b.exec }
  | none => Inode.empty

def TT.baseDisk (tt : TT) : Disk := tt.ids.map tt.baseInode

/-- one step of `_apply_removals`: deleted contents go to pending-deletion,
an entry whose path changes goes to limbo (the root is skipped) -/
def TT.removalStep (tt : TT) (t : Tid) (i : Inode) : Inode :=
  if t = TT.root ∨ t ≥ tt.nbase then i
  else if tt.removedContents.contains t then { i with attached := false, kind := none }
  else if tt.pathChanged t then { i with attached := false }
  else i

def TT.applyRemovals (tt : TT) (d : Disk) : Disk := d.mapIdx (fun t i => tt.removalStep t i)

/-- the limbo file of a trans-id with new contents (`create_file` + `_set_mode`: the
mode of an existing regular file at the tree path is copied) -/
def TT.limboInode (tt : TT) (t : Tid) (i : Inode) (k : Kind) (data : String) : Inode :=
  { i with attached := false, kind := some k, data := data,
           exec := k = .file && tt.treeKind t = some .file && tt.treeExec t }

/-- one step of `_apply_insertions`: what is in limbo (new contents, or the entry
moved there by the removal phase) is renamed to its final place; a rename of
something that does not exist fails with ENOENT, which is swallowed -/
def TT.insertionStep (tt : TT) (t : Tid) (i : Inode) : Inode :=
  let i := match alookup tt.newContents t with
    | some (k, d) => tt.limboInode t i k d
    | none => i
  if ahas tt.newContents t || tt.pathChanged t then
    match tt.finalParent t, tt.finalName t with
    | some p, some n => { i with parent := p, name := n, attached := i.kind.isSome }
    | _, _ => i
  else i

/-- `_set_executability` for the ids in `_new_executability` -/
def TT.chmodStep (tt : TT) (t : Tid) (i : Inode) : Inode :=
  match alookup tt.newExec t with
  | some b => { i with exec := b }
  | none => i

def TT.applyInsertions (tt : TT) (d : Disk) : Disk :=
  (d.mapIdx (fun t i => tt.insertionStep t i)).mapIdx (fun t i => tt.chmodStep t i)

def TT.applyDisk (tt : TT) : Disk := tt.applyInsertions (tt.applyRemovals tt.baseDisk)

/-- the path of a trans-id read off a disk: names along the directory entries (`parent`, `name`)
of the inode table, from the root down -/
def diskPath (d : Disk) : Nat → Tid → Option (List String)
  | 0, _ => none
  | fuel + 1, t =>
    if t = TT.root then some []
    else match d[t]? with
      | some i => match i.parent with
        | some p => (diskPath d fuel p).map (· ++ [i.name])
        | none => none
      | none => none

/-! #### apply: bzr inventory -/

structure InvEntry where
  parentFid : Option String
  name : String
  kind : Option Kind
  deriving DecidableEq, Repr

abbrev Inv := List (String × InvEntry)

def TT.baseInv (tt : TT) : Inv :=
  (List.range tt.nbase).filterMap fun t =>
    match tt.base[t]? with
    | some b => b.fid.map fun f => (f, { parentFid := b.parent.bind tt.treeFid, name := b.name, kind := b.kind })
    | none => none

/-- `_inventory_altered` (as a set of trans-ids) -/
def TT.inventoryAltered (tt : TT) : List Tid :=
  let newFileId := tt.newId.filterMap fun e => if tt.treeFid e.1 = some e.2 then none else some e.1
  let changedKind := tt.removedContents.filter fun t => ahas tt.newContents t && tt.treeKind t ≠ tt.finalKind t
  let kids := newFileId.flatMap fun p => (List.range tt.nbase).filter fun c => (tt.base[c]?).bind (·.parent) = some p && (tt.treeKind c).isSome
  tt.ids.filter fun t =>
    ahas tt.newName t || ahas tt.newParent t || newFileId.contains t || ahas tt.newExec t ||
    changedKind.contains t || kids.contains t

inductive DeltaItem where
  | remove (fid : String)
  | put (fid : String) (e : InvEntry)
  deriving DecidableEq, Repr

/-- the new inventory entry `_generate_inventory_delta` builds for trans-id `t` with final file id `f`;
`none` = `final_name` raises NoFinalPath / `final_parent` raises KeyError -/
def TT.deltaEntry (tt : TT) (t : Tid) (f : String) : Option InvEntry :=
  match tt.finalParent t, tt.finalName t with
  | some pp, some n =>
    let kind := match tt.finalKind t with
      | some k => some k
      | none => (tt.tidOfTreeFid f).bind tt.treeKind     -- stored_kind(id2path(file_id))
    some { parentFid := pp.bind tt.finalFid, name := n, kind := kind }
  | _, _ => none

/-- trans-ids that are versioned in the tree, keep that file id (no `unversion_file`) and get
another one by `version_file`: the delta adds the new id at a path the old id still occupies -/
def TT.reversioned (tt : TT) : List Tid :=
  tt.ids.filter fun t =>
    match alookup tt.newId t, tt.treeFid t with
    | some f, some g => f != g && !tt.removedId.contains t
    | _, _ => false

/-- the removal items of `_generate_inventory_delta` -/
def TT.deltaRemovals (fl : Flags) (tt : TT) : List DeltaItem :=
  (tt.removedId.filterMap fun t =>
    match tt.treeFid t with
    | some f => if tt.newId.any (fun e => e.2 == f) then none else some (DeltaItem.remove f)
    | none => none) ++
  (if fl.deltaDropsOldId then
    tt.reversioned.filterMap fun t =>
      match tt.treeFid t with
      | some g => if tt.newId.any (fun e => e.2 == g) then none else some (DeltaItem.remove g)
      | none => none
   else [])

/-- the new-entry items of `_generate_inventory_delta`; an altered id without a final path makes
`FinalPaths.get_paths` (in `_inventory_altered`) raise NoFinalPath -/
def TT.deltaPuts (tt : TT) : Except Err (List DeltaItem) :=
  if tt.inventoryAltered.any (fun t => (tt.pathOf t).isNone) then .error .noFinalPath
  else .ok (tt.inventoryAltered.filterMap fun t =>
    match tt.finalFid t with
    | none => none
    | some f => (tt.deltaEntry t f).map (DeltaItem.put f))

/-- `_generate_inventory_delta` -/
def TT.generateDelta (fl : Flags) (tt : TT) : Except Err (List DeltaItem) :=
  match tt.deltaPuts with
  | .ok puts => .ok (tt.deltaRemovals fl ++ puts)
  | .error e => .error e

def applyDelta (inv : Inv) : List DeltaItem → Inv
  | [] => inv
  | .remove f :: rest => applyDelta (inv.filter (fun e => e.1 != f)) rest
  | .put f e :: rest => applyDelta (inv.filter (fun x => x.1 != f) ++ [(f, e)]) rest

/-- the inventory after `apply_inventory_delta` (the base inventory when no delta can be generated) -/
def TT.appliedInv (fl : Flags) (tt : TT) : Inv :=
  match tt.generateDelta fl with
  | .ok d => applyDelta tt.baseInv d
  | .error _ => tt.baseInv

/-- what `update_by_delta` checks of the result: no two entries share a directory entry
(parent file id, name), and every parent file id is present and a directory -/
def invConsistent (inv : Inv) : Bool :=
  inv.all fun e =>
    (inv.all fun e' => e'.1 == e.1 || !(e'.2.parentFid == e.2.parentFid && e'.2.name == e.2.name)) &&
    (match e.2.parentFid with
     | none => true
     | some pf => inv.any fun e' => e'.1 == pf && e'.2.kind == some .dir)

/-! #### apply: git index (paths of versioned non-directories) -/

/-- is a proper ancestor of `t` in the *base* tree a directory the transform renames or re-parents? -/
def TT.belowMovedDir (tt : TT) : Nat → Tid → Bool
  | 0, _ => false
  | fuel + 1, t =>
    match (tt.base[t]?).bind (·.parent) with
    | none => false
    | some p => (p != TT.root && tt.pathChanged p && tt.treeKind p == some .dir) || tt.belowMovedDir fuel p

/-- versioned non-directories below a moved directory: `_generate_index_changes` re-keys them -/
def TT.reindexed (tt : TT) : List Tid :=
  (List.range tt.nbase).filter fun t =>
    (tt.treeFid t).isSome && (tt.treeKind t).isSome && tt.treeKind t != some .dir && tt.belowMovedDir (tt.nbase + 1) t

/-- `removed_id` of `_generate_index_changes` -/
def TT.gitRemoved (tt : TT) : List Tid :=
  tt.ids.filter fun t =>
    tt.removedId.contains t || tt.removedContents.contains t || ahas tt.newName t || ahas tt.newParent t ||
    tt.reindexed.contains t

/-- `changed_ids` of `_generate_index_changes` -/
def TT.gitChanged (tt : TT) : List Tid :=
  tt.ids.filter fun t =>
    ahas tt.newName t || ahas tt.newParent t || ahas tt.newExec t || ahas tt.newContents t || ahas tt.newId t ||
    tt.reindexed.contains t

def TT.gitBaseIndex (tt : TT) : List (List String) :=
  (List.range tt.nbase).filterMap fun t =>
    if (tt.treeFid t).isSome && tt.treeKind t ≠ some .dir then tt.treePath (tt.nbase + 1) t else none

/-- paths `_apply_index_changes` adds: changed ids that end versioned, as a file or symlink -/
def TT.gitAdded (tt : TT) : List (List String) :=
  tt.gitChanged.filterMap fun t =>
    match tt.finalKind t with
    | none => none
    | some .dir => none               -- `_index_add_entry`: git indexes don't contain directories
    | some _ => if tt.finalVersioned t then tt.pathOf t else none

/-- paths `_apply_index_changes` deletes: tree paths of `removed_id`, and changed ids that end as
versioned directories -/
def TT.gitDeleted (tt : TT) : List (List String) :=
  tt.gitRemoved.filterMap (tt.treePath (tt.nbase + 1)) ++
  tt.gitChanged.filterMap fun t =>
    if tt.finalKind t = some .dir && tt.finalVersioned t then tt.pathOf t else none

/-- `_generate_index_changes` + `_apply_index_changes`: the index after apply (an added path
overrides a deletion of the same path: `changes` is a dict keyed by path, additions come last) -/
def TT.gitIndex (tt : TT) : List (List String) :=
  (tt.gitBaseIndex.filter fun p => !tt.gitDeleted.contains p && !tt.gitAdded.contains p) ++ tt.gitAdded

/-- `_generate_index_changes` as it was before fix a33311f: ids that only become versioned and the
children of moved directories are not looked at -/
def TT.gitIndexPinned (tt : TT) : List (List String) :=
  let treeP (t : Tid) := tt.treePath (tt.nbase + 1) t
  let removedIds := tt.ids.filter fun t =>
    tt.removedId.contains t || tt.removedContents.contains t || ahas tt.newName t || ahas tt.newParent t
  let removedPaths := removedIds.filterMap treeP
  let changed := tt.ids.filter fun t =>
    ahas tt.newName t || ahas tt.newParent t || ahas tt.newExec t || ahas tt.newContents t
  let added := changed.filterMap fun t =>
    match tt.finalKind t with
    | none => none
    | some .dir => none
    | some _ => if tt.finalVersioned t then tt.pathOf t else none
  let addedDirsDel := changed.filterMap fun t =>
    if tt.finalKind t = some .dir && tt.finalVersioned t then tt.pathOf t else none
  (tt.gitBaseIndex.filter fun p => !removedPaths.contains p && !addedDirsDel.contains p && !added.contains p) ++ added

/-! #### the applied tree, per trans-id -/

/-- the path of a file id in an inventory: names along the parent file ids -/
def invPath (inv : Inv) : Nat → String → Option (List String)
  | 0, _ => none
  | fuel + 1, f =>
    match (inv.find? (fun e => e.1 == f)).map (·.2) with
    | none => none
    | some e =>
      match e.parentFid with
      | none => if e.name.isEmpty then some [] else none
      | some pf => (invPath inv fuel pf).map (· ++ [e.name])

/-- is path `p` versioned in inventory `inv`? -/
def invHasPath (inv : Inv) (p : List String) : Bool :=
  inv.any fun e => invPath inv (inv.length + 1) e.1 == some p

def TT.appliedEntry (fl : Flags) (tt : TT) (t : Tid) (p : List String) : Entry :=
  match tt.applyDisk[t]? with
  | none => { kind := none, versioned := false }
  | some i =>
    let versioned := if fl.git then tt.gitIndex.any (fun q => p.isPrefixOf q) else invHasPath (tt.appliedInv fl) p
    let kind := if i.attached then i.kind else none
    { kind := kind, data := if kind = some .file ∨ kind = some .symlink then i.data else "",
      exec := kind = some .file && i.exec, versioned := versioned }

/-- the entry the `final_*` functions describe (the specification both sides are compared with) -/
def TT.finalEntry (tt : TT) (t : Tid) : Entry :=
  let kind := tt.finalKind t
  let data := if kind = some .file ∨ kind = some .symlink then
      (match alookup tt.newContents t with
        | some (_, d) => d
        | none => tt.treeData t)
    else ""
  let exec := kind = some .file && (match alookup tt.newExec t with
    | some b => b
    | none => tt.treeKind t = some .file && tt.treeExec t)
  { kind := kind, data := data, exec := exec, versioned := tt.finalVersioned t }

/-! #### apply as a whole: the phases and where they can fail -/

/-- tree ids without contents whose path changes and whose final parent is a file: nothing is in
limbo for them, and `os.rename(limbo/<id>, <file>/<name>)` fails with ENOTDIR (not the ENOENT that
`_apply_insertions` swallows) -/
def TT.dangling (tt : TT) : List Tid :=
  tt.ids.filter fun t =>
    t != TT.root && decide (t < tt.nbase) && tt.pathChanged t && (tt.finalKind t).isNone &&
    !tt.removedContents.contains t &&
    (match tt.finalParent t with
     | some (some p) => tt.finalKind p == some .file
     | _ => false)

/-- trans-ids without final contents that are versioned, below a final parent that is a file or a
symlink: `_parent_type_conflicts` does not look at children without contents, the inventory delta
puts the entry below a non-directory -/
def TT.versionedBelowNonDir (tt : TT) : List Tid :=
  tt.ids.filter fun t =>
    t != TT.root && (tt.finalKind t).isNone && tt.finalVersioned t &&
    (match tt.finalParent t with
     | some (some p) => (tt.finalKind p).isSome && tt.finalKind p != some .dir
     | _ => false)

inductive Outcome where
  | applied (tt : TT) (disk : Disk)      -- `apply()` returned
  | raised (e : Err) (disk : Disk)       -- an exception; `disk` is what is left behind

/-- `tt.apply()`: `_check_malformed`, `_generate_inventory_delta` (bzr), the removal and
insertion phases (a failing rename is rolled back by the `_FileMover`), then — outside the
rollback — `apply_inventory_delta` (bzr), which refuses an inconsistent delta *after* the files
have been moved.  `d0` is the disk before. -/
def TT.apply (fl : Flags) (tt : TT) (d0 : Disk) : Outcome :=
  if !(tt.findRawConflicts fl).isEmpty then .raised .malformed d0
  else match (if fl.git then .ok [] else tt.generateDelta fl) with
    | .error e => .raised e d0
    | .ok d =>
      if !tt.dangling.isEmpty then .raised .renameFailed d0
      else if !fl.git && !invConsistent (applyDelta tt.baseInv d) then .raised .inconsistentDelta tt.applyDisk
      else .applied tt tt.applyDisk

/-- `resolve_conflicts(tt); tt.apply()` on the disk the transform was made for -/
def TT.resolveAndApply (fl : Flags) (tt : TT) : Outcome :=
  match tt.resolveConflicts fl with
  | .clean tt' => tt'.apply fl tt.baseDisk
  | .malformed _ => .raised .malformed tt.baseDisk
  | .crashed e => .raised e tt.baseDisk

/-- `tt.apply()` when the file system fails during the removal / insertion phases (an `OSError`
out of an `os.rename` of the `_FileMover`, or any `BaseException` raised there).  The checks made
before the mover phases come first; then `apply` runs `mover.rollback()` and re-raises, and the
metadata update is never reached.  That `rollback` restores names, kinds, contents and — the mode
changes of `_set_executability` being journalled — executable bits, i.e. that the disk left behind
is `d0`, is property C13 (`rollback_restores`); here it is the definition, compared on every run
with real applies in which every `os.rename` in turn fails. -/
def TT.applyFaulted (fl : Flags) (tt : TT) (d0 : Disk) : Outcome :=
  if !(tt.findRawConflicts fl).isEmpty then .raised .malformed d0
  else match (if fl.git then .ok [] else tt.generateDelta fl) with
    | .error e => .raised e d0
    | .ok _ => .raised .renameFailed d0

/-- `resolve_conflicts(tt); tt.apply()` with a failing file system -/
def TT.resolveAndApplyFaulted (fl : Flags) (tt : TT) : Outcome :=
  match tt.resolveConflicts fl with
  | .clean tt' => tt'.applyFaulted fl tt.baseDisk
  | .malformed _ => .raised .malformed tt.baseDisk
  | .crashed e => .raised e tt.baseDisk

def Outcome.disk : Outcome → Disk
  | .applied _ d => d
  | .raised _ d => d

/-- the disk after `resolve_conflicts(tt); tt.apply()` -/
def TT.diskAfter (fl : Flags) (tt : TT) : Disk := (tt.resolveAndApply fl).disk

/-- what can be seen of an inode from outside: nothing but "not there" unless it has a directory entry -/
def Inode.observe (i : Inode) : Inode := if i.attached && i.kind.isSome then i else Inode.empty

/-- do two disks show the same tree? (ids beyond the shorter table have no inode) -/
def diskSame (a b : Disk) : Bool :=
  (List.range (max a.length b.length)).all fun t =>
    ((a[t]?).getD Inode.empty).observe == ((b[t]?).getD Inode.empty).observe

/-- the paths found on the applied disk: every inode with a directory entry, at the path its
directory entries spell -/
def TT.appliedPaths (tt : TT) : List (Tid × List String) :=
  tt.ids.filterMap fun t =>
    if t = TT.root then none
    else match tt.applyDisk[t]? with
      | some i => if i.attached && i.kind.isSome then (diskPath tt.applyDisk (tt.next + 1) t).map (fun p => (t, p)) else none
      | none => none

/-- well-formed transform state (what the operations of `TT.step` and the resolvers keep): tree
ids come first, the maps `_new_name` / `_new_parent` only mention known ids, and an id that is
not a tree id was made by `create_path` (it has a name and a parent) -/
def TT.wf (tt : TT) : Bool :=
  decide (0 < tt.nbase) && decide (tt.nbase ≤ tt.next) &&
  tt.newName.all (fun e => decide (e.1 < tt.next)) && tt.newParent.all (fun e => decide (e.1 < tt.next)) &&
  (tt.ids.all fun t => decide (t < tt.nbase) || (ahas tt.newName t && ahas tt.newParent t))

/-- well-formed base tree: the root is entry 0, every other registered path has its parent
directory registered before it (the harness registers paths in sorted order) -/
def TT.baseWf (tt : TT) : Bool :=
  (tt.base[0]?).map (·.parent) == some none &&
  (List.range tt.nbase).all fun t => t == 0 ||
    (match (tt.base[t]?).bind (·.parent) with
     | some p => decide (p < t)
     | none => false)

/-! #### path walk (what a dump of either tree enumerates) -/

/-- trans-ids with their paths, for everything below the root that exists -/
def TT.livePaths (tt : TT) : List (Tid × List String) :=
  tt.ids.filterMap fun t =>
    if t = TT.root then none
    else if tt.live t then (tt.pathOf t).map (fun p => (t, p)) else none

/-- paths at which `_path2trans_id` may bind a name to an entry that does not
exist in the result although another entry with that name does (the result
depends on set iteration order) -/
def TT.shadowed (tt : TT) : List (List String) :=
  let dead := tt.ids.filterMap fun t =>
    if t ≠ TT.root && !tt.live t && (tt.finalParent t).isSome then tt.pathOf t else none
  (tt.livePaths.filter fun e => dead.any (fun d => d.isPrefixOf e.2)).map (·.2)

/-- every registered path that exists has a parent directory that exists (a real tree) -/
def TT.baseDirs (tt : TT) : Bool :=
  (List.range tt.nbase).all fun c => c == 0 || !(tt.treeKind c).isSome ||
    (match (tt.base[c]?).bind (·.parent) with
     | some p => tt.treeKind p == some .dir
     | none => false)

/-- versioned tree paths exist on disk (the harness versions what it created) -/
def TT.versionedExist (tt : TT) : Bool :=
  (List.range tt.nbase).all fun c => !(tt.treeFid c).isSome || (tt.treeKind c).isSome

/-- distinct trans-ids are registered for distinct tree paths -/
def TT.treePathsInj (tt : TT) : Bool :=
  (List.range tt.nbase).all fun a => (List.range tt.nbase).all fun b =>
    a == b || (tt.treePath (tt.nbase + 1) a).isNone || tt.treePath (tt.nbase + 1) a != tt.treePath (tt.nbase + 1) b

/-- no two live trans-ids end at the same path (what `_duplicate_entries` is there to ensure) -/
def TT.livePathsInj (tt : TT) : Bool :=
  tt.livePaths.all fun a => tt.livePaths.all fun b => a.1 == b.1 || a.2 != b.2

/-- the hypotheses of `gitIndex_eq_final`, evaluated by the driver on every conflict-free
transform the harness reaches -/
def TT.gitHyps (tt : TT) : Bool :=
  tt.wf && tt.baseWf && tt.baseDirs && tt.versionedExist && tt.treePathsInj && tt.livePathsInj &&
  tt.finalKind TT.root == some .dir

/-- the fuels of `pathOf` and of the `_parent_loops` walk are enough for this state: twice the
fuel gives the same answers (by `finalPath_mono` / `loopWalk_mono` more fuel can only turn "no
answer" into an answer; the driver evaluates this on every transform the harness reaches) -/
def TT.fuelOk (tt : TT) : Bool :=
  (tt.ids.all fun t => tt.finalPath (tt.next + 1) t == tt.finalPath (2 * tt.next + 2) t) &&
  (tt.newParent.all fun e => tt.loopWalk e.1 (tt.next + 2) e.1 [] == tt.loopWalk e.1 (2 * tt.next + 4) e.1 [])

/-- distinct tree paths carry distinct file ids -/
def TT.baseFidsInj (tt : TT) : Bool :=
  (List.range tt.nbase).all fun a => (List.range tt.nbase).all fun b =>
    a == b || (tt.treeFid a).isNone || tt.treeFid a != tt.treeFid b

/-- no two trans-ids end with the same file id (what `_duplicate_ids` and `_r_new_id` are there to ensure) -/
def TT.finalFidInj (tt : TT) : Bool :=
  tt.ids.all fun a => tt.ids.all fun b => a == b || (tt.finalFid a).isNone || tt.finalFid a != tt.finalFid b

/-- a versioned entry has a versioned parent (what `_unversioned_parents` is there to ensure) -/
def TT.parentsVersioned (tt : TT) : Bool :=
  tt.ids.all fun t => !tt.finalVersioned t ||
    (match tt.finalParent t with
     | some (some p) => tt.finalVersioned p
     | _ => true)

/-- `_new_id` is a dict over known trans-ids: one entry per key -/
def TT.newIdFunctional (tt : TT) : Bool :=
  tt.newId.all fun e => decide (e.1 < tt.next) && alookup tt.newId e.1 == some e.2

/-- new contents only where there are none or where they are deleted (what `_overwrite_conflicts` ensures) -/
def TT.noOverwrite (tt : TT) : Bool :=
  tt.newContents.all fun e => (tt.treeKind e.1).isNone || tt.removedContents.contains e.1

/-- the root stays the root (no name, no parent) and nothing else is parentless -/
def TT.rootHyps (tt : TT) : Bool :=
  tt.finalParent TT.root == some none && tt.finalName TT.root == some "" &&
  tt.ids.all fun t => t == TT.root || tt.finalParent t != some none

/-- the hypotheses of `delta_sound`, evaluated by the driver on every conflict-free bzr
transform the harness reaches -/
def TT.bzrHyps (tt : TT) : Bool :=
  tt.wf && tt.baseFidsInj && tt.finalFidInj && tt.parentsVersioned && tt.newIdFunctional && tt.noOverwrite &&
  tt.versionedExist && tt.reversioned.isEmpty

end BreezyVerif.C14
