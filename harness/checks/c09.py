"""C09 — working trees behave like an abstract versioned file system.

Mechanism: breezy/bzr/workingtree_4.py (DirStateWorkingTree._add, unversion,
move, rename_one, set_parent_trees, flush; InterDirStateTree.iter_changes),
breezy/bzr/workingtree.py (remove, _move, revert via transform), breezy/git/tree.py
(MutableGitIndexTree.add/unversion/rename_one/move, InterGitTrees.iter_changes),
breezy/git/workingtree.py (_flush, _rename_one), breezy/mutabletree.py, breezy/workingtree.py.

T2 (the statement is the correspondence): random operation sequences —
mkdir, add, remove(keep_files | force), rename_one, move, file creation / edits
/ chmod on disk, commit, revert(backups=False), re-open — are generated
*adaptively* from the observed state of a real working tree (2a dirstate and
git index), executed on the real tree and replayed on the Lean step machine
(Model/C09.lean, `step : Flavour -> State -> Op -> State x Out`).  After every
step both sides are compared on: outcome (ok / error), all versioned paths with
kind, file text / symlink target and executable bit, and the canonical status
against the basis (bzr: iter_changes records without ids, i.e. renames keep
their identity; git: path-space added / removed / modified).  One tree object is
kept alive across the whole sequence (re-opened only by the occasional `reopen`
op); names vacated by earlier renames / removals are reused on purpose.  The model's own
invariant (disk tree, basis and working tree well-formed) is evaluated by the
driver after every step.
Oracle (independent of the model, on the real tree): an operation that raises
leaves listing, status and the directory contents unchanged; after EVERY step, for
every path the sequence has touched (present or just vacated, parents included),
is_versioned / path2id / stored_kind of the live tree object agree with
all_versioned_paths and with a freshly opened tree ("re-open is the identity on
every query"); after commit the
status is empty; after revert the listing equals the listing at the last
commit and the status is empty; re-opening changes nothing; the status is sound
and complete with respect to the listings (the paths whose entry differs
between the last commit and now are exactly the paths named by the status).
A failing sequence is delta-debugged to a minimal op list before it is reported.

Known findings (family slugs computed from the concrete failing step; entries in
known_findings.json):
 git-rename-detection-pairs-modified-file-with-added-copy (git: status reports a modified file also as renamed
     to a new file with its old content; revert then versions `c.moved` and loses the added file)
 (the same family covers every case where the rename detector has two candidates for one committed file: its old
     content in a new file while the file is still there modified, or in two new files; iter_changes then names the
     same source twice and revert leaves `<name>.moved` versioned)
 git-status-reports-root-renamed-to-directory       (git, NOT YET TRIAGED: all files of the basis moved into one
     directory with the same names: iter_changes reports the root directory as renamed to that directory)
 git-revert-raises-after-remove-keep                (git: revert raises KeyError when a committed file was removed with
     keep_files and its directory is no longer versioned)
Found by this check and FIXED in /repo (no family any more: a regression is a plain VIOLATION; the minimal
sequences stay in corpus/C09 and run first):
 1f6467c add of a path below a directory that was removed from versioning but is still in the basis succeeded
 011e662 mkdir below an unversioned directory raised but left the directory on disk
 5189316 git rename_one of a path that does not exist onto an unversioned file versioned the file

Mutants tried (scratch worktree, known findings treated as known):
 s1 (seeded by the coordinator) git rename_one keeps stale `_versioned_dirs` cache entries: live is_versioned('d') /
    path2id / stored_kind say "directory" after the rename, a re-opened tree says gone -> oracle (reopen-query), every seed,
    minimal ['mkfile:c', 'add:c', 'rename:c:d']; pinned in corpus/C09/git-versioned-dirs-cache-after-rename.json
 f1/f2/f3 each of the three fix: commits reverted                                  -> oracle, minimal sequences (see report)
 m2 InventoryWorkingTree._move_entry: inv.rename(..., entry.from_tail)             -> oracle (error not atomic / status)
 m4 MutableGitIndexTree.rename_one: index entry of the old path kept               -> oracle (status vs listing) + T2
 m5 transform._alter_files (revert): content of added files not kept               -> oracle (revert deleted files outside the basis)
 m6 InventoryWorkingTree.remove: keep_files ignored for directories                -> T2 (minimal: ['remove:b:k'])
 m1 DirStateWorkingTree.unversion children / m3 MutableGitIndexTree._unversion_path directory branch: NOT reached
    by the operations generated here (remove() goes through apply_inventory_delta / per-file unversion) - not caught
 harmless (stays clean): reordered comparison and reworded message in _move_entry
"""
import os
import shutil

from vlib import env

THEOREMS = [
    "reopen_id", "run_append", "step_error_unchanged", "mkdir_error_no_leftover", "rename_missing_source_fails",
    "changesOf_self", "commit_status_empty", "status_sound_complete", "revert_restores", "revert_only_basis",
]
RULE = ("case = (format, op sequence generated adaptively from the real tree, with re-open at random points); compared after "
        "every step; distinct by (format, canonical op list); non-trivial = at least 3 successful mutating ops and one of "
        "commit / revert / reopen")
ASSUMPTIONS = [
    "names from {a,b,c,d}, depth <= 3, contents from 4 values; sequences <= 25 ops (70 per quick run, 400 per thorough run); theorems are unbounded",
    "files are never replaced by directories on disk behind the tree's back (kind changes) and versioned files are only deleted through remove",
    "bzr rename_one / move of a path that is not versioned any more but still in the basis (resurrects the basis entry) is outside the model: such operations are skipped",
    "revert is run with backups=False; conflicts of revert other than 'unversioned object in the way -> .moved' are avoided by the generator",
    "case-sensitive UTF-8 file system",
]
TRUSTED = ["dirstate and git index byte formats (bzrformats / dulwich) are exercised through re-opening, not modelled"]

NAMES = ["a", "b", "c", "d"]
CONTENTS = ["", "x", "y", "xy"]


def hx(s):
    return s.encode().hex() or "-"


class Real:
    """operation interpreter on a real working tree"""

    def __init__(self, fmt):
        self.fmt = fmt
        self.wt = env.make_tree("2a" if fmt == "bzr" else "git")
        self.base = self.wt.basedir
        self.ctl = ".bzr" if fmt == "bzr" else ".git"

    def close(self):
        shutil.rmtree(self.base, ignore_errors=True)

    def full(self, p):
        return os.path.join(self.base, p)

    def do(self, op):
        from breezy.workingtree import WorkingTree
        k = op[0]
        wt = self.wt
        try:
            if k == "mkfile":
                with open(self.full(op[1]), "xb") as f:
                    f.write(op[2].encode())
            elif k == "write":
                if not os.path.isfile(self.full(op[1])) or os.path.islink(self.full(op[1])):
                    raise FileNotFoundError(op[1])
                with open(self.full(op[1]), "wb") as f:
                    f.write(op[2].encode())
            elif k == "chmod":
                if not os.path.isfile(self.full(op[1])) or os.path.islink(self.full(op[1])):
                    raise FileNotFoundError(op[1])
                os.chmod(self.full(op[1]), 0o755 if op[2] else 0o644)
            elif k == "mkdir":
                wt.mkdir(op[1])
            elif k == "add":
                wt.add([op[1]])
            elif k == "remove":
                wt.remove([op[1]], keep_files=(op[2] == "k"), force=(op[2] == "f"))
            elif k == "rename":
                wt.rename_one(op[1], op[2])
            elif k == "move":
                wt.move([op[1]], op[2])
            elif k == "commit":
                wt.commit("c")
            elif k == "revert":
                wt.revert(backups=False)
            elif k == "reopen":
                self.wt = WorkingTree.open(self.base)
            else:
                raise ValueError(k)
            return "ok"
        except (KeyboardInterrupt, SystemExit):
            raise
        except BaseException as e:      # pyo3 panics are BaseExceptions
            return "err:" + type(e).__name__

    def listing(self):
        wt = self.wt
        out = []
        with wt.lock_read():
            for p in sorted(wt.all_versioned_paths()):
                try:
                    kind = wt.kind(p)
                except Exception as e:
                    out.append("%s|!%s|-|F" % (p or ".", type(e).__name__))
                    continue
                txt, ex = "-", False
                if kind == "file":
                    txt = wt.get_file_text(p).hex() or "-"
                    ex = bool(wt.is_executable(p))
                elif kind == "symlink":
                    txt = hx(wt.get_symlink_target(p))
                out.append("%s|%s|%s|%s" % (p or ".", kind, txt, "T" if ex else "F"))
        return sorted(out)

    def changes(self):
        wt = self.wt
        with wt.lock_read():
            basis = wt.basis_tree()
            with basis.lock_read():
                return [(c.path, c.changed_content, c.versioned, c.kind, c.executable) for c in wt.iter_changes(basis)]

    def queries(self, paths, fresh=False):
        """is_versioned / path2id / stored kind for every given path, on the live tree
        object or on a freshly opened one"""
        from breezy.workingtree import WorkingTree
        wt = WorkingTree.open(self.base) if fresh else self.wt
        out = {}
        with wt.lock_read():
            for p in paths:
                q = "" if p == "." else p
                try:
                    v = bool(wt.is_versioned(q))
                except Exception as e:
                    v = "!" + type(e).__name__
                try:
                    i = wt.path2id(q) is not None
                except Exception as e:
                    i = "!" + type(e).__name__
                k = None
                if v is True:
                    try:
                        k = wt.stored_kind(q)
                    except Exception as e:
                        k = "!" + type(e).__name__
                out[p] = (v, i, k)
        return out

    def disk(self):
        out = []
        for d, ds, fs in os.walk(self.base):
            rel = os.path.relpath(d, self.base)
            if rel == ".":
                ds[:] = [x for x in ds if x != self.ctl]
                rel = ""
            for n in ds:
                out.append((os.path.join(rel, n), "d"))
            for n in fs:
                out.append((os.path.join(rel, n), "f"))
        return sorted(out)


def _moved_variants(q):
    """q itself, or q below / as an object that revert renamed to `<name>.moved`"""
    parts = q.split("/")
    out = {q}
    for k in range(1, len(parts) + 1):
        out.add("/".join(parts[:k - 1] + [parts[k - 1] + ".moved"] + parts[k:]))
    return out


def _prefixes(p):
    parts = p.split("/")
    return ["/".join(parts[:k]) for k in range(1, len(parts))]


def _s(x):
    if x is None:
        return "~"
    if isinstance(x, bool):
        return "T" if x else "F"
    return x or "."


def status_bzr(changes):
    return sorted("|".join([_s(p[0]), _s(p[1]), _s(cc), _s(v[0]) + _s(v[1]), _s(k[0]), _s(k[1]), _s(e[0]), _s(e[1])])
                  for p, cc, v, k, e in changes)


def status_paths(changes, committed, current):
    """path-space canonical status from real change records: renames are split"""
    minus, plus, mod = {}, {}, set()
    implied_minus, implied_plus = {}, {}
    for p, cc, v, k, e in changes:
        if v == (False, True):
            plus[p[1] or "."] = k[1]
        elif v == (True, False):
            minus[p[0] or "."] = k[0]
        elif v == (True, True):
            if p[0] != p[1]:
                minus[p[0] or "."] = k[0]
                plus[p[1] or "."] = k[1]
                if k[0] == "directory":
                    # the children of a renamed directory move with it without a record of their own
                    for l in committed:
                        q = l.split("|")[0]
                        if q.startswith(p[0] + "/") and q not in minus:
                            implied_minus[q] = l.split("|")[1]
                    for l in current:
                        q = l.split("|")[0]
                        if q.startswith(p[1] + "/") and q not in plus:
                            implied_plus[q] = l.split("|")[1]
            elif cc or e[0] != e[1] or k[0] != k[1]:
                mod.add(p[0] or ".")
    cb = {l.split("|")[0]: l for l in committed}
    cw = {l.split("|")[0]: l for l in current}
    explicit = {(p[0] or ".") for p, cc, v, k, e in changes if p[0] is not None} | {
        (p[1] or ".") for p, cc, v, k, e in changes if p[1] is not None}
    for q, k in implied_minus.items():
        if q not in explicit:
            minus.setdefault(q, k)
    for q, k in implied_plus.items():
        if q not in explicit:
            plus.setdefault(q, k)
    for p in set(minus) & set(plus):
        del minus[p], plus[p]
        if cb.get(p) != cw.get(p):
            mod.add(p)
    return sorted(["+|%s|%s" % (p, k) for p, k in plus.items()] + ["-|%s|%s" % (p, k) for p, k in minus.items()] +
                  ["M|%s" % p for p in mod])


def expected_status(committed, current):
    """path-space status recomputed from two listings (oracle for the status)"""
    cb = {l.split("|")[0]: l for l in committed}
    cw = {l.split("|")[0]: l for l in current}
    out = []
    for p in set(cb) | set(cw):
        if p not in cw:
            out.append("-|%s|%s" % (p, cb[p].split("|")[1]))
        elif p not in cb:
            out.append("+|%s|%s" % (p, cw[p].split("|")[1]))
        elif cb[p] != cw[p]:
            out.append("M|%s" % p)
    return sorted(out)


def git_copy_of_modified(committed, current):
    """the rename detector has two candidates for one committed file, so iter_changes names the
    same source path in two records: the old content of a committed file is found in a new file
    while the file itself is still there modified, or in two (or more) new files"""
    cb = {l.split("|")[0]: l.split("|") for l in committed}
    cw = {l.split("|")[0]: l.split("|") for l in current}
    for p, f in cb.items():
        if f[1] != "file":
            continue
        copies = [q for q, g in cw.items() if q not in cb and g[1] == "file" and g[2] == f[2]]
        still_there_modified = p in cw and cw[p][1] == "file" and cw[p] != f
        if (copies and still_there_modified) or (len(copies) >= 2 and p not in cw):
            return True
    return False


def git_dir_holds_whole_basis(committed, current):
    """some directory of the working tree contains exactly the files of the basis root (same
    relative names and contents) while they are gone from the top: git's tree-level rename
    detection then reports the *root* as renamed to that directory"""
    cb = {l.split("|")[0]: l.split("|")[1:] for l in committed if l.split("|")[1] != "directory"}
    cw = {l.split("|")[0]: l.split("|")[1:] for l in current if l.split("|")[1] != "directory"}
    if not cb:
        return False
    for l in current:
        f = l.split("|")
        if f[1] == "directory" and f[0] != ".":
            under = {q[len(f[0]) + 1:]: v for q, v in cw.items() if q.startswith(f[0] + "/")}
            if under == cb and not any(q in cw for q in cb):
                return True
    return False


def enc_op(op):
    k = op[0]
    P = lambda p: p or "."
    if k in ("mkfile", "write"):
        return "%s:%s:%s" % (k, P(op[1]), hx(op[2]))
    if k == "chmod":
        return "chmod:%s:%s" % (P(op[1]), "T" if op[2] else "F")
    if k in ("mkdir", "add"):
        return "%s:%s" % (k, P(op[1]))
    if k == "remove":
        return "remove:%s:%s" % (P(op[1]), op[2])
    if k == "rename":
        return "rename:%s:%s" % (P(op[1]), P(op[2]))
    if k == "move":
        # move([a], d) == rename_one(a, d/basename(a))
        base = op[1].rsplit("/", 1)[-1]
        return "rename:%s:%s" % (P(op[1]), (op[2] + "/" + base) if op[2] else base)
    return k


# --------------------------------------------------------------------------
# adaptive generator

def gen_op(rng, listing, disk, vacated=()):
    ver = {l.split("|")[0]: l.split("|")[1] for l in listing}
    ver_paths = sorted(p for p in ver if p != ".")
    ver_dirs = sorted(("" if p == "." else p) for p, k in ver.items() if k == "directory")
    disk_dirs = [""] + [p for p, k in disk if k == "d"]
    disk_files = [p for p, k in disk if k == "f"]
    disk_all = [p for p, k in disk]
    unver = [p for p in disk_all if p not in ver]

    on_disk = set(disk_all)
    # names that were versioned earlier and are free now (a renamed directory, the last
    # file moved out of a directory, ...): reused on purpose
    free = sorted(p for p in vacated if p not in ver and p not in on_disk and
                  (("/" not in p) or p.rsplit("/", 1)[0] in on_disk))

    def child(d):
        n = rng.choice(NAMES)
        return (d + "/" + n) if d else n

    def target(d):
        if free and rng.random() < 0.4:
            return rng.choice(free)
        return child(d)

    def shallow(ds):
        ds = [d for d in ds if d.count("/") < 2]
        return rng.choice(ds) if ds else ""
    r = rng.random()
    if r < 0.08:
        # malformed / error stream
        return rng.choice([
            ("add", "zz"), ("remove", "zz", "k"), ("rename", "zz", "a"), ("mkdir", "zz/a"), ("rename", child(""), "zz/q"),
            ("remove", "", "k"), ("rename", "", "a"), ("add", child(shallow(disk_dirs))), ("move", child(""), child("")),
            ("write", "zz", "x"), ("remove", rng.choice(unver) if unver else "zz", "k"),
            ("rename", rng.choice(unver) if unver else "zz", child("")),
        ])
    k = rng.choices(["mkfile", "mkdir", "add", "remove", "rename", "move", "write", "chmod", "commit", "revert", "reopen"],
                    [14, 9, 16, 9, 14, 7, 8, 4, 8, 5, 5])[0]
    if k == "mkfile":
        return ("mkfile", target(shallow(disk_dirs)), rng.choice(CONTENTS))
    if k == "mkdir":
        return ("mkdir", target(shallow(ver_dirs if rng.random() < 0.85 else disk_dirs)))
    if k == "add":
        if unver and rng.random() < 0.85:
            return ("add", rng.choice(unver))
        return ("add", rng.choice(disk_all) if disk_all else "a")
    if k == "remove":
        if not ver_paths:
            return ("mkdir", child(""))
        return ("remove", rng.choice(ver_paths), rng.choice(["k", "k", "f"]))
    if k == "rename":
        if not ver_paths:
            return ("mkfile", child(""), "x")
        a = rng.choice(ver_paths)
        d = shallow(ver_dirs if rng.random() < 0.85 else disk_dirs)
        return ("rename", a, target(d))
    if k == "move":
        if not ver_paths:
            return ("mkfile", child(""), "x")
        if free and rng.random() < 0.3:
            # move something to where a freed name was (its parent directory)
            f = rng.choice(free)
            cands = [p for p in ver_paths if p.rsplit("/", 1)[-1] == f.rsplit("/", 1)[-1]]
            if cands:
                return ("move", rng.choice(cands), f.rsplit("/", 1)[0] if "/" in f else "")
        return ("move", rng.choice(ver_paths), shallow(ver_dirs if rng.random() < 0.9 else disk_dirs))
    if k == "write":
        return ("write", rng.choice(disk_files), rng.choice(CONTENTS)) if disk_files else ("mkfile", child(""), "y")
    if k == "chmod":
        return ("chmod", rng.choice(disk_files), rng.random() < 0.6) if disk_files else ("mkfile", child(""), "y")
    return (k,)


def risky_revert(listing, committed, disk):
    """revert situations the model does not cover (documented in ASSUMPTIONS): an
    unversioned object in the way whose `.moved` name is taken"""
    names = {p for p, k in disk}
    return any((p + ".moved") in names for p in names)


# --------------------------------------------------------------------------
# running one sequence on the real tree (and checking the oracle)

def run_real(fmt, ops=None, rng=None, length=0, gen=True):
    """execute `ops` (or generate `length` ops adaptively).  Returns dict(ops, steps, problems)."""
    r = Real(fmt)
    try:
        steps = []
        problems = []
        done = []
        listing = r.listing()
        committed = []            # listing at the last commit (empty tree)
        disk = r.disk()
        prev_status = status_bzr(r.changes())
        i = 0
        skipped = 0
        known = {"."}
        vacated = set()
        while True:
            if ops is not None:
                if i >= len(ops):
                    break
                op = tuple(ops[i])
            else:
                if i >= length:
                    break
                op = gen_op(rng, listing, disk, vacated)
                if op[0] == "revert" and risky_revert(listing, committed, disk):
                    op = ("reopen",)
            i += 1
            if fmt == "bzr" and op[0] in ("rename", "move") and (op[1] or ".") not in {
                    l.split("|")[0] for l in listing} and (op[1] or ".") in {l.split("|")[0] for l in committed}:
                # outside the modelled envelope (documented bzr feature: rename_one of a path that
                # is no longer versioned but still in the basis puts the basis entry back): skipped
                skipped += 1
                continue
            res = r.do(op)
            new_listing = r.listing()
            ch = r.changes()
            new_disk = r.disk()
            sb = status_bzr(ch)
            st = sb if fmt == "bzr" else status_paths(ch, committed, new_listing)
            # ---- oracle ----------------------------------------------------
            where = "step %d %r" % (i - 1, op)
            if res != "ok" and op[0] in ("revert", "commit", "reopen"):
                fam = None
                on_disk = {q for q, k in disk}
                if fmt == "git" and op[0] == "revert" and any(
                        l.split("|")[1] == "file" and l.split("|")[0] not in {x.split("|")[0] for x in listing}
                        and l.split("|")[0] in on_disk for l in committed):
                    fam = "git-revert-raises-after-remove-keep"
                problems.append((where, "%s raised %s" % (op[0], res), "must-not-raise", fam))
            elif res != "ok":
                if new_listing != listing or sb != prev_status:
                    problems.append((where, "operation raised %s but the tree changed: versioned %r -> %r" % (
                        res, sorted(set(listing) ^ set(new_listing))[:4], sorted(set(sb) ^ set(prev_status))[:3]), "error-not-atomic", None))
                elif new_disk != disk:
                    problems.append((where, "operation raised %s but the directory contents changed: %r" % (
                        res, sorted(set(disk) ^ set(new_disk))[:4]), "error-not-atomic-disk", None))
            else:
                if op[0] == "commit":
                    committed = new_listing
                    if ch:
                        problems.append((where, "status not empty after commit: %r" % (sb[:3],), "commit-status", None))
                if op[0] == "revert":
                    # (before the first commit the basis is the empty tree: only the root stays)
                    if new_listing != (committed or [".|directory|-|F"]):
                        problems.append((where, "revert did not restore the versioned part: %r" % (
                            sorted(set(new_listing) ^ set(committed))[:4],), "revert-restore",
                            "git-rename-detection-pairs-modified-file-with-added-copy"
                            if fmt == "git" and git_copy_of_modified(committed, listing) else None))
                    # unversioned files and files that were only added stay on disk
                    cb = {l.split("|")[0] for l in committed}
                    verp = {l.split("|")[0]: l.split("|")[1] for l in listing}
                    nd = {q for q, k in new_disk}
                    renames = [(f[0], f[1]) for f in (x.split("|") for x in prev_status)
                               if f[3] == "TT" and f[0] != f[1]]

                    def back(q):
                        # where a path ends up when the renames are undone
                        for old, new_ in sorted(renames, key=lambda r: -len(r[1])):
                            if q == new_ or q.startswith(new_ + "/"):
                                return old + q[len(new_):]
                        return q
                    lost = [q for q, k in disk if k == "f" and (q not in verp or q not in cb)
                            and q not in {r[1] for r in renames}
                            and not (_moved_variants(q) | _moved_variants(back(q))) & nd
                            and not any(x in cb and x not in verp for x in _prefixes(q))]
                    if lost:
                        problems.append((where, "revert deleted files that are not part of the basis: %r" % (lost[:4],),
                                         "revert-deletes-unversioned", None))
                    if ch and (committed or sb != ["~|.|T|FT|~|directory|~|F"]):
                        problems.append((where, "status not empty after revert: %r" % (sb[:3],), "revert-status", None))
                if op[0] == "reopen" and (new_listing != listing or sb != prev_status):
                    problems.append((where, "re-opening changed the tree: %r / %r" % (
                        sorted(set(new_listing) ^ set(listing))[:4], sorted(set(sb) ^ set(prev_status))[:3]), "reopen", None))
            # an operation on a source path that is not versioned must not change what is versioned
            if res == "ok" and op[0] in ("rename", "move", "remove") and (op[1] or ".") not in {
                    l.split("|")[0] for l in listing} and (new_listing != listing or sb != prev_status):
                problems.append((where, "%s of the unversioned path %r changed the tree: %r" % (
                    op[0], op[1], sorted(set(listing) ^ set(new_listing))[:4]), "unversioned-source", None))
            # status sound and complete w.r.t. the listings
            exp = expected_status(committed, new_listing)
            got = status_paths(ch, committed, new_listing)
            if exp != got:
                fam = None
                if fmt == "git" and git_copy_of_modified(committed, new_listing):
                    fam = "git-rename-detection-pairs-modified-file-with-added-copy"
                elif fmt == "git" and git_dir_holds_whole_basis(committed, new_listing):
                    fam = "git-status-reports-root-renamed-to-directory"
                problems.append((where, "status says %r, the listings differ by %r" % (
                    sorted(set(got) - set(exp))[:4], sorted(set(exp) - set(got))[:4]), "status-sound-complete", fam))
            # every query agrees with all_versioned_paths, on the live object and after re-opening
            for l in listing + new_listing:
                known.add(l.split("|")[0])
            for q, k in disk + new_disk:
                known.add(q)
            for a in op[1:3]:
                if isinstance(a, str) and a and not a.startswith("zz") and len(a) < 40 and op[0] not in ("mkfile", "write"):
                    known.add(a)
            if op[0] in ("mkfile", "write"):
                known.add(op[1])
            for q in list(known):
                known.update(_prefixes(q))
            vnow = {l.split("|")[0]: l.split("|")[1] for l in new_listing}
            for l in listing:
                if l.split("|")[0] not in vnow:
                    vacated.add(l.split("|")[0])
            kp = sorted(known)
            live = r.queries(kp)
            fresh = r.queries(kp, fresh=True)
            bad_live = [(q, live[q]) for q in kp if live[q][:2] != (q in vnow, q in vnow) or
                        (q in vnow and live[q][2] != vnow[q] and not vnow[q].startswith("!"))]
            bad_fresh = [(q, live[q], fresh[q]) for q in kp if live[q] != fresh[q]]
            if bad_fresh:
                fam = None
                problems.append((where, "the live tree object and a freshly opened tree disagree on (is_versioned, path2id, kind): %r" % (
                    [(q, "live=%r" % (a,), "reopened=%r" % (b,)) for q, a, b in bad_fresh[:3]],), "reopen-query", fam))
            elif bad_live:
                problems.append((where, "is_versioned / path2id / stored_kind disagree with all_versioned_paths: %r (versioned: %r)" % (
                    bad_live[:3], sorted(vnow)), "query-consistency", None))
            steps.append("%s@%s@%s" % ("ok" if res == "ok" else "err", ";".join(new_listing) or "-", ";".join(st) or "-"))
            done.append((list(op), res))
            listing, disk, prev_status = new_listing, new_disk, sb
        return dict(ops=[d[0] for d in done], results=[d[1] for d in done], steps=steps, problems=problems, skipped=skipped)
    finally:
        r.close()


def _job(job):
    import random
    fmt, seed, length = job
    try:
        return run_real(fmt, rng=random.Random(seed), length=length)
    except (KeyboardInterrupt, SystemExit):
        raise
    except BaseException as e:
        import traceback
        return dict(error="%s: %s" % (type(e).__name__, e), tb=traceback.format_exc()[-1200:], ops=[], steps=[], problems=[])


def model_steps(ctx, fmt, ops):
    line = "run %s %s" % ("b" if fmt == "bzr" else "g", ",".join(enc_op(tuple(o)) for o in ops) or "-")
    rep = ctx.model([line])[0]
    if rep == "bad-op":
        return None
    return rep.split("#") if rep else []


def strip_inv(m):
    f = m.split("@")
    return "@".join([f[0]] + f[2:]), f[1]


def first_diff(real_steps, model):
    """index of the first step where model and implementation differ, or None"""
    if model is None:
        return 0
    for i, (a, b) in enumerate(zip(real_steps, model)):
        mb, inv = strip_inv(b)
        if a != mb or inv != "T":
            return i
    return None


def fails(ctx, fmt, ops, kind):
    """re-run `ops` on a fresh real tree; does it still fail in the same way?"""
    res = run_real(fmt, ops=ops)
    if kind.startswith("oracle:"):
        return any(p[2] == kind[7:] for p in res["problems"])
    return first_diff(res["steps"], model_steps(ctx, fmt, res["ops"])) is not None


def ddmin(ctx, fmt, ops, kind, budget=70):
    """delta debugging over the op list"""
    ops = list(ops)
    n = 2
    while len(ops) >= 2 and budget > 0:
        chunk = max(1, len(ops) // n)
        reduced = False
        for i in range(0, len(ops), chunk):
            cand = ops[:i] + ops[i + chunk:]
            budget -= 1
            if cand and fails(ctx, fmt, cand, kind):
                ops = cand
                n = max(n - 1, 2)
                reduced = True
                break
            if budget <= 0:
                break
        if not reduced:
            if chunk == 1:
                break
            n = min(len(ops), n * 2)
    return ops


SHRINK_LIMIT = 8      # failing sequences delta-debugged per run (the others are reported as generated)


def check_result(ctx, fmt, res, shrink=True):
    ops = res["ops"]
    case = dict(fmt=fmt, ops=ops)
    if "error" in res:
        ctx.count("harness-error:" + res["error"].split(":")[0])
        ctx.extra.setdefault("harness_errors", []).append(res["error"][:200])
        return
    good = sum(1 for o, r in zip(ops, res["results"]) if r == "ok" and o[0] not in ("reopen", "write", "chmod", "mkfile"))
    ctx.case(dict(fmt=fmt, ops=[enc_op(tuple(o)) for o in ops]),
             nontrivial=good >= 3 and any(o[0] in ("commit", "revert", "reopen") for o in ops))
    for o, r in zip(ops, res["results"]):
        ctx.count("op:%s:%s" % (o[0], "ok" if r == "ok" else "err"))
        if r != "ok":
            ctx.count("%s:%s" % (fmt, r))
    ctx.count("len:%d" % (len(ops) // 5 * 5))
    if res.get("skipped"):
        ctx.count("skipped:bzr-rename-of-removed-basis-path", res["skipped"])
    # oracle
    # only the first problem of a sequence is reported: later ones are consequences
    for where, what, slug, fam in res["problems"][:1]:
        # unknown problems are always minimised (up to the limit); known families once each
        seen_fams = ctx.extra.setdefault("families_shrunk", [])
        do_shrink = shrink and ((fam is None and ctx.extra.get("shrunk", 0) < SHRINK_LIMIT) or
                                (fam is not None and fam not in seen_fams))
        small = ddmin(ctx, fmt, ops, "oracle:" + slug) if do_shrink else ops
        if do_shrink and fam is None:
            ctx.extra["shrunk"] = ctx.extra.get("shrunk", 0) + 1
        if do_shrink and fam is not None:
            seen_fams.append(fam)
        r2 = run_real(fmt, ops=small)
        w2 = next((p for p in r2["problems"] if p[2] == slug), (where, what, slug, fam))
        ctx.violation(dict(fmt=fmt, ops=small), "%s: %s: %s" % (fmt, w2[0], w2[1]), family=w2[3])
    if res["problems"]:
        return      # the real tree left the abstract state space: nothing to compare after that
    # T2
    model = model_steps(ctx, fmt, ops)
    ctx.traces += len(ops)
    d = first_diff(res["steps"], model)
    if d is not None:
        do_shrink = shrink and ctx.extra.get("shrunk", 0) < SHRINK_LIMIT
        small = ddmin(ctx, fmt, ops, "t2") if do_shrink else ops
        if do_shrink:
            ctx.extra["shrunk"] = ctx.extra.get("shrunk", 0) + 1
        r2 = run_real(fmt, ops=small)
        m2 = model_steps(ctx, fmt, r2["ops"])
        d2 = first_diff(r2["steps"], m2)
        if d2 is None:
            small, r2, m2, d2 = ops, res, model, d
        ctx.mismatch(dict(fmt=fmt, ops=small, step=d2), impl=r2["steps"][d2], model=(m2[d2] if m2 else "bad-op"),
                     line="run %s %s" % (fmt, ",".join(enc_op(tuple(o)) for o in small)))


def run(ctx, nseq=None):
    os.environ["RUST_BACKTRACE"] = "0"
    nseq = nseq or ctx.pick(70, 400)
    maxlen = 25      # longer sequences mostly add revert conflicts outside the modelled envelope
    jobs = []
    for k in range(nseq):
        fmt = "bzr" if k % 2 == 0 else "git"
        jobs.append((fmt, ctx.rng.randrange(1 << 30), ctx.rng.randint(6, maxlen)))
    for c in corpus():
        res = run_real(c["fmt"], ops=c["ops"])
        check_result(ctx, c["fmt"], res, shrink=False)
    results = ctx.pmap(_job, jobs)
    for (fmt, seed, length), res in zip(jobs, results):
        check_result(ctx, fmt, res)


def widen(ctx):
    run(ctx, nseq=200)


def corpus():
    import glob
    import json
    out = []
    for f in sorted(glob.glob(os.path.join(env.VERIF, "corpus", "C09", "*.json"))):
        out.append(json.load(open(f)))
    return out


def replay(ctx, case):
    fmt, ops = case["fmt"], case["ops"]
    res = run_real(fmt, ops=ops)
    model = model_steps(ctx, fmt, res["ops"])
    for where, what, slug, fam in res["problems"][:1]:
        ctx.violation(dict(fmt=fmt, ops=ops), "%s: %s: %s" % (fmt, where, what), family=fam)
    return dict(ops=res["ops"], results=res["results"], impl=res["steps"], model=model,
                first_difference=first_diff(res["steps"], model), oracle_failures=[p[:2] for p in res["problems"]])
