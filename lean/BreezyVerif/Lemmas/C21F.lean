import BreezyVerif.Lemmas.C21E
/-! C21 — left-hand chains are transitive; append-only along operation sequences;
bound operations in terms of `_update_revisions`. -/
namespace BreezyVerif.C21

/-- members of a left-hand chain are entries of the graph -/
theorem lhChain_mentioned (g : Graph) : ∀ (r x : Rev), x ∈ lhChain g r → x ∈ mentioned g := by
  induction g with
  | nil => intro r x h; simp [lhChain] at h
  | cons e g ih =>
    obtain ⟨n, ps⟩ := e
    intro r x h
    rw [mentioned_cons]
    unfold lhChain at h
    split at h
    · rename_i hn
      cases ps with
      | nil => simp at h; subst h; simp [hn]
      | cons p rest =>
        simp only [List.mem_cons] at h
        rcases h with h | h
        · subst h; simp [hn]
        · have := ih p x h
          simp [this]
    · have := ih r x h
      simp [this]

/-- on a DAG the left-hand chain of a member of a left-hand chain is a part of it -/
theorem lhChain_trans (g : Graph) (hwf : wf g = true) :
    ∀ (r x y : Rev), x ∈ lhChain g r → y ∈ lhChain g x → y ∈ lhChain g r := by
  induction g with
  | nil => intro r x y h; simp [lhChain] at h
  | cons e g ih =>
    obtain ⟨n, ps⟩ := e
    obtain ⟨_, hn2, hwf'⟩ := wf_cons hwf
    intro r x y hx hy
    by_cases hnr : n = r
    · -- r is the newest entry
      by_cases hxr : x = r
      · subst hxr; exact hy
      · -- x lies in the older part
        have hx' : ∃ p rest, ps = p :: rest ∧ x ∈ lhChain g p := by
          unfold lhChain at hx
          simp only [hnr, if_true] at hx
          cases ps with
          | nil => simp at hx; exact absurd hx hxr
          | cons p rest =>
            simp only [List.mem_cons] at hx
            rcases hx with hx | hx
            · exact absurd hx hxr
            · exact ⟨p, rest, rfl, hx⟩
        obtain ⟨p, rest, hps, hxp⟩ := hx'
        have hxm := lhChain_mentioned g p x hxp
        have hnx : ¬ n = x := fun e => hn2 (e ▸ hxm)
        have hy' : y ∈ lhChain g x := by
          unfold lhChain at hy
          simpa only [hnx, if_false] using hy
        have := ih hwf' p x y hxp hy'
        unfold lhChain
        simp only [hnr, if_true, hps, List.mem_cons]
        exact Or.inr this
    · have hx' : x ∈ lhChain g r := by
        unfold lhChain at hx
        simpa only [hnr, if_false] using hx
      have hxm := lhChain_mentioned g r x hx'
      have hnx : ¬ n = x := fun e => hn2 (e ▸ hxm)
      have hy' : y ∈ lhChain g x := by
        unfold lhChain at hy
        simpa only [hnx, if_false] using hy
      have := ih hwf' r x y hx' hy'
      unfold lhChain
      simpa only [hnr, if_false] using this

/-- the walk of `_check_history_violation` finds every member of the left-hand history -/
theorem lhFind_of_mem_lefthand (g : Graph) : ∀ (r : Rev) (l : List Rev) (o : Rev),
    lefthand g r = some l → o ∈ l → lhFind g r o = .found := by
  induction g with
  | nil => intro r l o h; simp [lefthand] at h
  | cons e g ih =>
    obtain ⟨n, ps⟩ := e
    intro r l o h ho
    unfold lefthand at h
    unfold lhFind
    by_cases hn : n = r
    · simp only [hn, if_true] at h ⊢
      by_cases hro : r = o
      · simp [hro]
      · simp only [hro, if_false]
        cases ps with
        | nil => simp at h; subst h; simp at ho; exact absurd ho.symm hro
        | cons p rest =>
          simp only at h ⊢
          cases hlp : lefthand g p with
          | none => rw [hlp] at h; simp at h
          | some l' =>
            rw [hlp] at h; simp at h; subst h
            simp only [List.mem_cons] at ho
            rcases ho with ho | ho
            · exact absurd ho.symm hro
            · exact ih p l' o hlp ho
    · simp only [hn, if_false] at h ⊢
      exact ih r l o h ho

/-- `set_last_revision_info` accepts when the branch is not append-only, has no
tip yet, or finds its tip in the left-hand history of the new tip -/
theorem setLast_accepts (g : Graph) (b : Br) (n : Nat) (t : Tip)
    (h : b.appendOnly = true → b.tip = none ∨
      ∃ o r l, b.tip = some o ∧ t = some r ∧ lefthand g r = some l ∧ o ∈ l) :
    setLast g b n t = .ok { b with tip := t, revno := n } := by
  rcases Bool.eq_false_or_eq_true b.appendOnly with hao | hao
  · rcases h hao with h0 | ⟨o, r, l, h1, h2, h3, h4⟩
    · simp [setLast, hao, checkHistoryViolation, h0]
    · simp [setLast, hao, checkHistoryViolation, h1, h2, lhFind_of_mem_lefthand g r l o h3 h4]
  · exact setLast_free g b n t hao

/-- what happens to one branch in one step as far as append-only is concerned:
the setting is kept, and when it is on, the tip stays, or there was no tip, or
the old tip lies on the left-hand chain of the new one -/
def AoStep (g : Graph) (b b' : Br) : Prop :=
  b'.appendOnly = b.appendOnly ∧
  (b.appendOnly = true → b'.tip = b.tip ∨ b.tip = none ∨
    ∃ o r, b.tip = some o ∧ b'.tip = some r ∧ o ∈ lhChain g r)

theorem AoStep.refl (g : Graph) (b : Br) : AoStep g b b := ⟨rfl, fun _ => Or.inl rfl⟩

theorem AoStep.trans (g : Graph) (hwf : wf g = true) {a b c : Br} (h1 : AoStep g a b) (h2 : AoStep g b c) :
    AoStep g a c := by
  refine ⟨h2.1.trans h1.1, ?_⟩
  intro hao
  have hb : b.appendOnly = true := h1.1.trans hao
  rcases h1.2 hao with e1 | e1 | ⟨o, r, ho, hr, hor⟩
  · -- a → b kept the tip
    rcases h2.2 hb with e2 | e2 | ⟨o', r', ho', hr', hor'⟩
    · exact Or.inl (e2.trans e1)
    · exact Or.inr (Or.inl (e1 ▸ e2))
    · exact Or.inr (Or.inr ⟨o', r', e1 ▸ ho', hr', hor'⟩)
  · exact Or.inr (Or.inl e1)
  · rcases h2.2 hb with e2 | e2 | ⟨o', r', ho', hr', hor'⟩
    · exact Or.inr (Or.inr ⟨o, r, ho, e2.trans hr, hor⟩)
    · rw [hr] at e2; cases e2
    · rw [hr] at ho'; cases ho'
      exact Or.inr (Or.inr ⟨o, r', ho, hr', lhChain_trans g hwf r' r o hor' hor⟩)

/-- every accepted `_update_revisions` either changes nothing or ends in an
accepted `set_last_revision_info` -/
theorem update_ok_cases (g : Graph) (src tgt : Br) (stop : Option Tip) (ow : Bool) (t' : Br)
    (h : updateRevisions g src tgt stop ow = .ok t') : t' = tgt ∨ ∃ n s, setLast g tgt n s = .ok t' := by
  unfold updateRevisions at h
  split at h
  · cases h; exact Or.inl rfl
  · split at h
    · cases h
    · simp only at h
      split at h
      · cases h
      · cases h; exact Or.inl rfl
      · split at h
        · exact Or.inr ⟨_, _, h⟩
        · split at h
          · cases h
          · exact Or.inr ⟨_, _, h⟩

theorem setLast_aoStep (g : Graph) (b : Br) (n : Nat) (t : Tip) (b' : Br) (h : setLast g b n t = .ok b') :
    AoStep g b b' := by
  have he := setLast_ok g b n t b' h
  refine ⟨by rw [he], ?_⟩
  intro hao
  rcases setLast_append_only g b n t b' hao h with h0 | ⟨o, r, h1, h2, h3⟩
  · exact Or.inr (Or.inl h0)
  · exact Or.inr (Or.inr ⟨o, r, h1, by rw [he]; exact h2, h3⟩)

theorem update_aoStep (g : Graph) (src tgt : Br) (stop : Option Tip) (ow : Bool) (t' : Br)
    (h : updateRevisions g src tgt stop ow = .ok t') : AoStep g tgt t' := by
  rcases update_ok_cases g src tgt stop ow t' h with h0 | ⟨n, s, hs⟩
  · rw [h0]; exact AoStep.refl g tgt
  · exact setLast_aoStep g tgt n s t' hs

theorem basicPush_aoStep (g : Graph) (src tgt : Br) (stop : Option Tip) (ow : Bool) (t' : Br)
    (h : basicPush g src tgt stop ow = .ok t') : AoStep g tgt t' := by
  unfold basicPush at h
  split at h
  · cases h; exact AoStep.refl g tgt
  · exact update_aoStep g src tgt stop ow t' h

theorem applyOp_aoStep (g : Graph) (isPull : Bool) (src tgt : Br) (m : Option Br) (stop : Option Tip) (ow : Bool) :
    AoStep g tgt (applyOp g isPull src tgt m stop ow).tgt ∧
      ∀ mb, m = some mb → ∃ mb', (applyOp g isPull src tgt m stop ow).master = some mb' ∧ AoStep g mb mb' := by
  cases isPull
  · exact bound2_pres (AoStep g) (AoStep.refl g) _ (fun b b' h => basicPush_aoStep g src b stop ow b' h) tgt m
  · exact bound2_pres (AoStep g) (AoStep.refl g) _ (fun b b' h => update_aoStep g src b stop ow b' h) tgt m

theorem run_aoStep (g : Graph) (hwf : wf g = true) (ops : List Op) :
    ∀ (s : List Br) (i : Nat) (b : Br), s[i]? = some b →
      ∃ b', (run g s ops)[i]? = some b' ∧ AoStep g b b' := by
  induction ops with
  | nil => intro s i b hb; exact ⟨b, hb, AoStep.refl g b⟩
  | cons op ops ih =>
    intro s i b hb
    obtain ⟨b1, hb1, h1⟩ := step_pointwise (AoStep g) (AoStep.refl g) g s op
      (fun isPull src tgt m stop _ => applyOp_aoStep g isPull src tgt m stop op.ow) i b hb
    obtain ⟨b2, hb2, h2⟩ := ih (step g s op) i b1 hb1
    exact ⟨b2, hb2, AoStep.trans g hwf h1 h2⟩

/-- without overwrite and with the requested revision present, `_basic_push`'s
short cut (`old_revid == stop_revision`) agrees with `_update_revisions` -/
theorem basicPush_eq_update (g : Graph) (hwf : wf g = true) (src tgt : Br) (stop : Option Tip)
    (s : Tip) (rn : Option Nat) (hreq : requested src stop = some (s, rn)) (hp : tipPresent g s = true) :
    basicPush g src tgt stop false = updateRevisions g src tgt stop false := by
  unfold basicPush
  split
  · rename_i hst
    subst hst
    obtain ⟨h1, _⟩ := requested_some src tgt.tip s rn hreq
    subst h1
    rw [update_eq_spec g hwf, hreq]
    simp [updateSpec, hp, isAnc_refl']
  · rfl

end BreezyVerif.C21
