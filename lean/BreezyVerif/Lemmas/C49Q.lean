import BreezyVerif.Model.C49
/-! helper lemmas for the store round trip (configobj quoting / parsing) of Props/C49.lean -/
namespace BreezyVerif.C49

/-! ### characters -/

theorem toNat_ne {c d : Char} (h : c.toNat ≠ d.toNat) : c ≠ d := fun e => h (e ▸ rfl)

theorem keyChar_facts {c : Char} (h : keyChar c = true) :
    isSpace c = false ∧ isLineBreak c = false ∧ c ≠ '=' ∧ c ≠ '#' ∧ c ≠ '[' ∧ c ≠ '"' ∧ c ≠ '\'' := by
  have hn : (48 ≤ c.toNat ∧ c.toNat ≤ 57) ∨ (65 ≤ c.toNat ∧ c.toNat ≤ 90) ∨ (97 ≤ c.toNat ∧ c.toNat ≤ 122) ∨
      c.toNat = 95 ∨ c.toNat = 46 ∨ c.toNat = 45 := by
    simpa [keyChar, or_assoc] using h
  refine ⟨?_, ?_, ?_, ?_, ?_, ?_, ?_⟩
  · simp only [isSpace, Bool.or_eq_false_iff, Bool.and_eq_false_iff, decide_eq_false_iff_not, beq_eq_false_iff_ne]
    omega
  · simp only [isLineBreak, Bool.or_eq_false_iff, Bool.and_eq_false_iff, decide_eq_false_iff_not, beq_eq_false_iff_ne]
    omega
  all_goals
    apply toNat_ne
    have : ('='.toNat = 61) ∧ ('#'.toNat = 35) ∧ ('['.toNat = 91) ∧ ('"'.toNat = 34) ∧ ('\''.toNat = 39) := by decide
    omega

theorem keyStart_keyChar {c : Char} (h : keyStart c = true) : keyChar c = true := by
  have hn : (65 ≤ c.toNat ∧ c.toNat ≤ 90) ∨ (97 ≤ c.toNat ∧ c.toNat ≤ 122) ∨ c.toNat = 95 := by
    simpa [keyStart, or_assoc] using h
  simp only [keyChar, Bool.or_eq_true, Bool.and_eq_true, decide_eq_true_eq, beq_iff_eq]
  omega

theorem secNameChar_facts {c : Char} (h : secNameChar c = true) :
    isSpace c = false ∧ isLineBreak c = false ∧ c ≠ '#' ∧ c ≠ ']' := by
  have hn : (48 ≤ c.toNat ∧ c.toNat ≤ 57) ∨ (65 ≤ c.toNat ∧ c.toNat ≤ 90) ∨ (97 ≤ c.toNat ∧ c.toNat ≤ 122) ∨
      c.toNat = 95 ∨ c.toNat = 46 ∨ c.toNat = 45 ∨ c.toNat = 47 := by
    simpa [secNameChar, keyChar, or_assoc] using h
  refine ⟨?_, ?_, ?_, ?_⟩
  · simp only [isSpace, Bool.or_eq_false_iff, Bool.and_eq_false_iff, decide_eq_false_iff_not, beq_eq_false_iff_ne]
    omega
  · simp only [isLineBreak, Bool.or_eq_false_iff, Bool.and_eq_false_iff, decide_eq_false_iff_not, beq_eq_false_iff_ne]
    omega
  all_goals
    apply toNat_ne
    have : ('#'.toNat = 35) ∧ (']'.toNat = 93) := by decide
    omega

/-- a blank that is not a line boundary and not one of the two ASCII blanks
configobj knows about is one of the "Unicode blanks" -/
theorem wspacePlus_of_ascii_blank {c : Char} (h : c = ' ' ∨ c = '\t') : wspacePlus c = true := by
  rcases h with h | h <;> subst h <;> decide

/-! ### `tailOk`, `lazyPlain` -/

theorem tailOk_nil : tailOk [] = true := rfl

theorem tailOk_cons_space {c : Char} {s : Str} (h : isSpace c = true) : tailOk (c :: s) = tailOk s := by
  simp [tailOk, h]

theorem tailOk_cons_nonspace {c : Char} {s : Str} (h : isSpace c = false) : tailOk (c :: s) = (c == '#') := by
  simp [tailOk, h]

/-- a non-empty text without `#` whose last character is not a blank is neither blank nor a comment -/
theorem tailOk_false_of_last : ∀ (s : Str), s ≠ [] → (∀ l, s.getLast? = some l → isSpace l = false) → '#' ∉ s →
    tailOk s = false
  | [], h, _, _ => absurd rfl h
  | [c], _, hl, hh => by
    have hc : isSpace c = false := hl c rfl
    have hne : c ≠ '#' := fun e => hh (by simp [e])
    rw [tailOk_cons_nonspace hc]; simpa using hne
  | c :: d :: r, _, hl, hh => by
    have hh' : '#' ∉ d :: r := fun h => hh (List.mem_cons_of_mem _ h)
    have hl' : ∀ l, (d :: r).getLast? = some l → isSpace l = false := by
      intro l h; apply hl; simpa [List.getLast?_cons_cons] using h
    by_cases hc : isSpace c = true
    · rw [tailOk_cons_space hc]; exact tailOk_false_of_last (d :: r) (by simp) hl' hh'
    · have hc' : isSpace c = false := by simpa using hc
      have hne : c ≠ '#' := fun e => hh (by simp [e])
      rw [tailOk_cons_nonspace hc']; simpa using hne

theorem lazyPlain_eq_self : ∀ (t : Str), (∀ l, t.getLast? = some l → isSpace l = false) → '#' ∉ t → lazyPlain t = t
  | [], _, _ => rfl
  | c :: r, hl, hh => by
    have h1 : tailOk (c :: r) = false := tailOk_false_of_last (c :: r) (by simp) hl hh
    have hh' : '#' ∉ r := fun h => hh (List.mem_cons_of_mem _ h)
    have hl' : ∀ l, r.getLast? = some l → isSpace l = false := by
      intro l h
      cases r with
      | nil => simp at h
      | cons d r' => apply hl; simpa [List.getLast?_cons_cons] using h
    simp only [lazyPlain, h1, Bool.false_eq_true, if_false]
    rw [lazyPlain_eq_self r hl' hh']

/-! ### `lazyUntil` -/

/-- `".*?"` on a text without the quote: the group is the whole text -/
theorem lazyUntil_single (W : Char) : ∀ (v : Str), W ∉ v → lazyUntil [W] (v ++ [W]) = some v
  | [], _ => by simp [lazyUntil, List.isPrefixOf, tailOk_nil]
  | x :: t, h => by
    have hx : x ≠ W := fun e => h (by simp [e])
    have ht : W ∉ t := fun m => h (List.mem_cons_of_mem _ m)
    have ih := lazyUntil_single W t ht
    have hxW : (W == x) = false := by simpa using fun e : W = x => hx e.symm
    simp only [List.cons_append, lazyUntil, List.isPrefixOf, hxW, Bool.false_and, Bool.false_eq_true, if_false, ih,
      Option.map_some]

/-- three quotes `W` after a text without `W` that is itself followed by one `W`:
the lazy group ends at the LAST possible place, because a fourth quote is neither
blank nor a comment -/
theorem lazyUntil_triple_same (W : Char) (hW1 : isSpace W = false) (hW2 : W ≠ '#') :
    ∀ (v : Str), W ∉ v → lazyUntil [W, W, W] (v ++ [W, W, W, W]) = some (v ++ [W])
  | [], _ => by
    have h1 : tailOk [W] = false := by rw [tailOk_cons_nonspace hW1]; simpa using hW2
    simp [lazyUntil, List.isPrefixOf, h1, tailOk_nil]
  | x :: t, h => by
    have hx : x ≠ W := fun e => h (by simp [e])
    have ht : W ∉ t := fun m => h (List.mem_cons_of_mem _ m)
    have ih := lazyUntil_triple_same W hW1 hW2 t ht
    have hxW : (W == x) = false := by simpa using fun e : W = x => hx e.symm
    simp only [List.cons_append, lazyUntil, List.isPrefixOf, hxW, Bool.false_and, Bool.false_eq_true, if_false, ih,
      Option.map_some]

/-- the whole single-quoted (with `W`) text `W v W` inside triple `W` quotes -/
theorem lazyUntil_wrapped_same (W : Char) (hW1 : isSpace W = false) (hW2 : W ≠ '#') (v : Str) (hne : v ≠ [])
    (h : W ∉ v) : lazyUntil [W, W, W] ((W :: v ++ [W]) ++ [W, W, W]) = some (W :: v ++ [W]) := by
  cases v with
  | nil => exact absurd rfl hne
  | cons x t =>
    have hx : x ≠ W := fun e => h (by simp [e])
    have hxW : (W == x) = false := by simpa using fun e : W = x => hx e.symm
    have ih := lazyUntil_triple_same W hW1 hW2 (x :: t) h
    have e : (W :: (x :: t) ++ [W]) ++ [W, W, W] = W :: ((x :: t) ++ [W, W, W, W]) := by simp
    rw [e]
    have hp : ([W, W, W] : Str).isPrefixOf (W :: ((x :: t) ++ [W, W, W, W])) = false := by
      simp [List.isPrefixOf, hxW]
    rw [lazyUntil, hp, ih]; simp

/-! ### substrings -/

theorem dq3_prefix_sq (u w : Str) : dq3.isPrefixOf (u ++ '\'' :: w) = dq3.isPrefixOf u := by
  match u with
  | [] => simp [dq3, List.isPrefixOf]
  | [a] => simp [dq3, List.isPrefixOf]
  | [a, b] => simp [dq3, List.isPrefixOf]
  | a :: b :: c :: r => simp [dq3, List.isPrefixOf]

/-- `W v W` with a non-empty `v` without `W` does not contain `WWW` -/
theorem hasSub_triple_tail (W : Char) : ∀ (v : Str), W ∉ v → hasSub [W, W, W] (v ++ [W]) = false
  | [], _ => by simp [hasSub, List.isPrefixOf]
  | x :: t, h => by
    have hx : x ≠ W := fun e => h (by simp [e])
    have ht : W ∉ t := fun m => h (List.mem_cons_of_mem _ m)
    have hxW : (W == x) = false := by simpa using fun e : W = x => hx e.symm
    simp [hasSub, List.isPrefixOf, hxW, hasSub_triple_tail W t ht]

theorem hasSub_triple_wrapped (W : Char) (v : Str) (hne : v ≠ []) (h : W ∉ v) :
    hasSub [W, W, W] (W :: v ++ [W]) = false := by
  cases v with
  | nil => exact absurd rfl hne
  | cons x t =>
    have hx : x ≠ W := fun e => h (by simp [e])
    have hxW : (W == x) = false := by simpa using fun e : W = x => hx e.symm
    have := hasSub_triple_tail W (x :: t) h
    have e : hasSub [W, W, W] (W :: (x :: t) ++ [W]) =
        (([W, W, W] : Str).isPrefixOf (W :: ((x :: t) ++ [W])) || hasSub [W, W, W] ((x :: t) ++ [W])) := rfl
    rw [e, this]
    simp [List.isPrefixOf, hxW]

/-- `'v'` inside `"""`: the lazy group is all of `'v'` when `'v'` has no `"""` -/
theorem lazyUntil_dq3_cross : ∀ (v : Str), hasSub dq3 (v ++ ['\'']) = false →
    lazyUntil dq3 (v ++ '\'' :: dq3) = some (v ++ ['\''])
  | [], _ => by simp [lazyUntil, dq3, List.isPrefixOf, tailOk_nil]
  | x :: t, h => by
    have h' : dq3.isPrefixOf (x :: (t ++ ['\''])) = false ∧ hasSub dq3 (t ++ ['\'']) = false := by
      simpa [hasSub] using h
    have hp : dq3.isPrefixOf (x :: (t ++ '\'' :: dq3)) = false := by
      have e1 := dq3_prefix_sq (x :: t) dq3
      have e2 := dq3_prefix_sq (x :: t) []
      simp only [List.cons_append] at e1 e2
      rw [e1, ← e2]; exact h'.1
    have ih := lazyUntil_dq3_cross t h'.2
    simp only [List.cons_append, lazyUntil, hp, Bool.false_and, Bool.false_eq_true, if_false, ih, Option.map_some]

theorem lazyUntil_dq3_wrapped_sq (v : Str) (h : hasSub dq3 ('\'' :: v ++ ['\'']) = false) :
    lazyUntil dq3 (('\'' :: v ++ ['\'']) ++ dq3) = some ('\'' :: v ++ ['\'']) := by
  have h' : hasSub dq3 (v ++ ['\'']) = false := by
    have : dq3.isPrefixOf ('\'' :: (v ++ ['\''])) = false ∧ hasSub dq3 (v ++ ['\'']) = false := by
      simpa [hasSub] using h
    exact this.2
  have ih := lazyUntil_dq3_cross v h'
  have e : ('\'' :: v ++ ['\'']) ++ dq3 = '\'' :: (v ++ '\'' :: dq3) := by simp
  rw [e]
  have hp : dq3.isPrefixOf ('\'' :: (v ++ '\'' :: dq3)) = false := by simp [dq3, List.isPrefixOf]
  simp only [lazyUntil, hp, Bool.false_and, Bool.false_eq_true, if_false, ih, Option.map_some]
  simp

/-! ### `_quote` -/

/-- the values for which the store round trip is proved: no line boundary, not
both quote kinds, and an end character that is a blank is one of the blanks
configobj quotes for (wspace_plus) -/
def okValue (v : Str) : Bool :=
  v.all (fun c => !isLineBreak c) && !(v.contains '\'' && v.contains '"') &&
  (match v.head?, v.getLast? with
   | some h, some l => (!isSpace h || wspacePlus h) && (!isSpace l || wspacePlus l)
   | _, _ => true)

/-- a stored string that a save + load reproduces: `ConfigObj.write` turns it
into `q2` (no line boundary inside), and the parser reads `q2` back as `raw`, on
one line, without inline comment, whatever follows -/
def Reloadable (raw : Str) : Prop :=
  ∃ q2, cquote false raw = some q2 ∧ (∀ c ∈ q2, isLineBreak c = false) ∧
    ∀ rest, parseOptValue (q2.dropWhile isSpace) rest = some (raw, 0, [])

theorem getLast?_wrap (W : Char) (v : Str) : (W :: v ++ [W]).getLast? = some W := by
  exact List.getLast?_concat

theorem exists_getLast? {x : Char} {t : Str} : ∃ l, (x :: t).getLast? = some l := by
  cases h : (x :: t).getLast? with
  | none => simp at h
  | some l => exact ⟨l, rfl⟩

/-- `write` leaves a stored string alone unless it has `#` and both quote kinds (or a newline) -/
theorem cquote_false_plain (raw : Str) (hne : raw ≠ []) (hnl : '\n' ∉ raw)
    (h : '#' ∉ raw ∨ ¬ ('\'' ∈ raw ∧ '"' ∈ raw)) : cquote false raw = some raw := by
  cases raw with
  | nil => exact absurd rfl hne
  | cons x t =>
    obtain ⟨l, hl⟩ := @exists_getLast? x t
    simp only [cquote, List.head?_cons, hl]
    rcases h with h | h
    · simp [hnl, h]
    · by_cases hs : '\'' ∈ x :: t
      · have hd : '"' ∉ x :: t := fun hd => h ⟨hs, hd⟩
        simp [hnl, hs, hd]
      · simp [hnl, hs]

theorem cquote_false_triple (raw : Str) (hne : raw ≠ []) (hnl : '\n' ∉ raw)
    (hh : '#' ∈ raw) (hs : '\'' ∈ raw) (hd : '"' ∈ raw) : cquote false raw = tripleQuote raw := by
  cases raw with
  | nil => exact absurd rfl hne
  | cons x t =>
    obtain ⟨l, hl⟩ := @exists_getLast? x t
    simp only [cquote, List.head?_cons, hl]
    simp [hnl, hh, hs, hd]

theorem cquote_true_eval (x : Char) (t : Str) (l : Char) (hl : (x :: t).getLast? = some l) (hnl : '\n' ∉ x :: t)
    (hb : ¬ ('\'' ∈ x :: t ∧ '"' ∈ x :: t)) :
    cquote true (x :: t) =
      if !wspacePlus x && !wspacePlus l && !(x :: t).contains ',' then
        (if (x :: t).contains '#' then singleQuote (x :: t) else some (x :: t))
      else singleQuote (x :: t) := by
  simp only [cquote, List.head?_cons, hl]
  by_cases hs : '\'' ∈ x :: t
  · have hd : '"' ∉ x :: t := fun hd => hb ⟨hs, hd⟩
    simp [hnl, hs, hd]
  · simp [hnl, hs]

theorem not_lineBreak_quote : isLineBreak '"' = false ∧ isLineBreak '\'' = false := by decide

theorem not_space_quote : isSpace '"' = false ∧ isSpace '\'' = false := by decide

/-! ### a single-quoted string survives write + parse -/

/-- `W v W` (one quote kind `W`, absent from the non-empty `v`), written as it is -/
theorem parse_wrapped_plain (W : Char) (hW : W = '"' ∨ W = '\'') (v : Str) (hne : v ≠ []) (h : W ∉ v) (rest : List Str) :
    parseOptValue ((W :: v ++ [W]).dropWhile isSpace) rest = some (W :: v ++ [W], 0, []) := by
  cases v with
  | nil => exact absurd rfl hne
  | cons x t =>
    have hx : x ≠ W := fun e => h (by simp [e])
    have hsp : isSpace W = false := by rcases hW with e | e <;> subst e <;> decide
    have hd : ((W :: (x :: t) ++ [W]).dropWhile isSpace) = W :: (x :: t) ++ [W] := by
      simp [hsp]
    rw [hd]
    have hlazy := lazyUntil_single W (x :: t) h
    rcases hW with e | e
    · subst e
      have hxq : ('"' == x) = false := by simpa using fun e : '"' = x => hx e.symm
      have hp1 : dq3.isPrefixOf ('"' :: (x :: t) ++ ['"']) = false := by simp [dq3, List.isPrefixOf, hxq]
      have hp2 : sq3.isPrefixOf ('"' :: (x :: t) ++ ['"']) = false := by simp [sq3, List.isPrefixOf]
      simp only [parseOptValue, hp1, hp2, Bool.false_eq_true, if_false]
      have : nolistValue ('"' :: (x :: t) ++ ['"']) = some ('"' :: (x :: t) ++ ['"']) := by
        simp only [List.cons_append] at hlazy ⊢
        simp [nolistValue, hlazy]
      rw [this]; simp
    · subst e
      have hxq : ('\'' == x) = false := by simpa using fun e : '\'' = x => hx e.symm
      have hp1 : dq3.isPrefixOf ('\'' :: (x :: t) ++ ['\'']) = false := by simp [dq3, List.isPrefixOf]
      have hp2 : sq3.isPrefixOf ('\'' :: (x :: t) ++ ['\'']) = false := by simp [sq3, List.isPrefixOf, hxq]
      simp only [parseOptValue, hp1, hp2, Bool.false_eq_true, if_false]
      have : nolistValue ('\'' :: (x :: t) ++ ['\'']) = some ('\'' :: (x :: t) ++ ['\'']) := by
        simp only [List.cons_append] at hlazy ⊢
        simp [nolistValue, hlazy]
      rw [this]; simp

theorem drop_len_append (a b : Str) : (a ++ b).drop (a.length + b.length) = [] := by
  rw [← List.length_append]; exact List.drop_length

/-- `W v W` wrapped in three more `W` on each side (written by `write` when the stored
string has `#` and both quote kinds, and `W` is the kind `_get_triple_quote` picks) -/
theorem parse_wrapped_triple_same (W : Char) (hW : W = '"' ∨ W = '\'') (v : Str) (hne : v ≠ []) (h : W ∉ v)
    (rest : List Str) :
    parseOptValue (([W, W, W] ++ (W :: v ++ [W]) ++ [W, W, W]).dropWhile isSpace) rest = some (W :: v ++ [W], 0, []) := by
  have hsp : isSpace W = false := by rcases hW with e | e <;> subst e <;> decide
  have hhash : W ≠ '#' := by rcases hW with e | e <;> subst e <;> decide
  have hd : (([W, W, W] ++ (W :: v ++ [W]) ++ [W, W, W]).dropWhile isSpace) = [W, W, W] ++ (W :: v ++ [W]) ++ [W, W, W] := by
    simp [hsp]
  rw [hd]
  have hlazy := lazyUntil_wrapped_same W hsp hhash v hne h
  have hdrop : ([W, W, W] ++ (W :: v ++ [W]) ++ [W, W, W]).drop 3 = (W :: v ++ [W]) ++ [W, W, W] := by simp
  have htail : ((W :: v ++ [W]) ++ [W, W, W]).drop ((W :: v ++ [W]).length + 3) = [] :=
    drop_len_append (W :: v ++ [W]) [W, W, W]
  rcases hW with e | e
  · subst e
    have hp1 : dq3.isPrefixOf (['"', '"', '"'] ++ ('"' :: v ++ ['"']) ++ ['"', '"', '"']) = true := by
      simp [dq3, List.isPrefixOf]
    simp only [parseOptValue, hp1, if_true, tripleValue, hdrop]
    have hl : lazyUntil dq3 (('"' :: v ++ ['"']) ++ ['"', '"', '"']) = some ('"' :: v ++ ['"']) := hlazy
    rw [hl]; simp only [htail]
  · subst e
    have hp1 : dq3.isPrefixOf (['\'', '\'', '\''] ++ ('\'' :: v ++ ['\'']) ++ ['\'', '\'', '\'']) = false := by
      simp [dq3, List.isPrefixOf]
    have hp2 : sq3.isPrefixOf (['\'', '\'', '\''] ++ ('\'' :: v ++ ['\'']) ++ ['\'', '\'', '\'']) = true := by
      simp [sq3, List.isPrefixOf]
    simp only [parseOptValue, hp1, hp2, if_true, Bool.false_eq_true, if_false, tripleValue, hdrop]
    have hl : lazyUntil sq3 (('\'' :: v ++ ['\'']) ++ ['\'', '\'', '\'']) = some ('\'' :: v ++ ['\'']) := hlazy
    rw [hl]; simp only [htail]

/-- `'v'` (with `"` somewhere in `v`, but not three in a row) wrapped in `"""` -/
theorem parse_wrapped_triple_cross (v : Str) (h : hasSub dq3 ('\'' :: v ++ ['\'']) = false) (rest : List Str) :
    parseOptValue ((dq3 ++ ('\'' :: v ++ ['\'']) ++ dq3).dropWhile isSpace) rest = some ('\'' :: v ++ ['\''], 0, []) := by
  have hd : ((dq3 ++ ('\'' :: v ++ ['\'']) ++ dq3).dropWhile isSpace) = dq3 ++ ('\'' :: v ++ ['\'']) ++ dq3 := by
    simp [dq3, show isSpace '"' = false by decide]
  rw [hd]
  have hlazy := lazyUntil_dq3_wrapped_sq v h
  have hdrop : (dq3 ++ ('\'' :: v ++ ['\'']) ++ dq3).drop 3 = ('\'' :: v ++ ['\'']) ++ dq3 := by simp [dq3]
  have htail : (('\'' :: v ++ ['\'']) ++ dq3).drop (('\'' :: v ++ ['\'']).length + 3) = [] :=
    drop_len_append ('\'' :: v ++ ['\'']) dq3
  have hp1 : dq3.isPrefixOf (dq3 ++ ('\'' :: v ++ ['\'']) ++ dq3) = true := by simp [dq3, List.isPrefixOf]
  simp only [parseOptValue, hp1, if_true, tripleValue, hdrop]
  rw [hlazy]; simp only [htail]

theorem mem_wrap {c W : Char} {v : Str} : c ∈ W :: v ++ [W] ↔ c = W ∨ c ∈ v := by
  simp only [List.cons_append, List.mem_cons, List.mem_append]
  constructor
  · intro hh
    rcases hh with hh | hh | hh | hh
    · exact Or.inl hh
    · exact Or.inr hh
    · exact Or.inl hh
    · cases hh
  · intro hh
    rcases hh with hh | hh
    · exact Or.inl hh
    · exact Or.inr (Or.inl hh)

/-- a single-quoted string `W v W` is reloadable -/
theorem reloadable_wrapped (W : Char) (hW : W = '"' ∨ W = '\'') (v : Str) (hne : v ≠ []) (h : W ∉ v)
    (hlb : ∀ c ∈ v, isLineBreak c = false) : Reloadable (W :: v ++ [W]) := by
  have hWlb : isLineBreak W = false := by rcases hW with e | e <;> subst e <;> decide
  have hQlb : ∀ c ∈ W :: v ++ [W], isLineBreak c = false := by
    intro c hc
    rcases mem_wrap.mp hc with e | e
    · rw [e]; exact hWlb
    · exact hlb c e
  have hnl : '\n' ∉ W :: v ++ [W] := fun m => by
    have := hQlb _ m
    exact absurd this (by decide)
  have hQne : W :: v ++ [W] ≠ [] := by simp
  by_cases hplain : '#' ∉ (W :: v ++ [W]) ∨ ¬ ('\'' ∈ (W :: v ++ [W]) ∧ '"' ∈ (W :: v ++ [W]))
  · exact ⟨_, cquote_false_plain _ hQne hnl hplain, hQlb, parse_wrapped_plain W hW v hne h⟩
  · have hh : '#' ∈ W :: v ++ [W] := by
      exact Decidable.byContradiction fun hc => hplain (Or.inl hc)
    have hsd : '\'' ∈ (W :: v ++ [W]) ∧ '"' ∈ (W :: v ++ [W]) := by
      exact Decidable.byContradiction fun hc => hplain (Or.inr hc)
    have hq := cquote_false_triple _ hQne hnl hh hsd.1 hsd.2
    have hsame : hasSub [W, W, W] (W :: v ++ [W]) = false := hasSub_triple_wrapped W v hne h
    have hq3lb : ∀ (q : Str), (∀ c ∈ q, isLineBreak c = false) → ∀ c ∈ q ++ (W :: v ++ [W]) ++ q, isLineBreak c = false := by
      intro q hq c hc
      rcases List.mem_append.mp hc with hc | hc
      · rcases List.mem_append.mp hc with hc | hc
        · exact hq c hc
        · exact hQlb c hc
      · exact hq c hc
    rcases hW with e | e
    · subst e
      -- `"v"`: no `"""` inside, so it is wrapped in `"""`
      have hs' : hasSub dq3 ('"' :: v ++ ['"']) = false := hsame
      refine ⟨dq3 ++ ('"' :: v ++ ['"']) ++ dq3, ?_, ?_, ?_⟩
      · rw [hq]; simp only [tripleQuote, hs', Bool.false_and, Bool.false_eq_true, if_false]
      · apply hq3lb dq3; intro c hc; simp [dq3] at hc; subst hc; decide
      · exact parse_wrapped_triple_same '"' (Or.inl rfl) v hne h
    · subst e
      have hs' : hasSub sq3 ('\'' :: v ++ ['\'']) = false := hsame
      by_cases hd3 : hasSub dq3 ('\'' :: v ++ ['\'']) = true
      · refine ⟨sq3 ++ ('\'' :: v ++ ['\'']) ++ sq3, ?_, ?_, ?_⟩
        · rw [hq]; simp only [tripleQuote, hd3, hs', Bool.and_false, Bool.false_eq_true, if_false, if_true]
        · apply hq3lb sq3; intro c hc; simp [sq3] at hc; subst hc; decide
        · exact parse_wrapped_triple_same '\'' (Or.inr rfl) v hne h
      · have hd3' : hasSub dq3 ('\'' :: v ++ ['\'']) = false := by simpa using hd3
        refine ⟨dq3 ++ ('\'' :: v ++ ['\'']) ++ dq3, ?_, ?_, ?_⟩
        · rw [hq]; simp only [tripleQuote, hd3', Bool.false_and, Bool.false_eq_true, if_false]
        · apply hq3lb dq3; intro c hc; simp [dq3] at hc; subst hc; decide
        · exact parse_wrapped_triple_cross v hd3'

/-- a string written and read without any quoting: no `#`, ends that are neither blanks nor quotes -/
theorem reloadable_plain (x : Char) (t : Str) (l : Char) (hl : (x :: t).getLast? = some l)
    (hx : isSpace x = false) (hxq : x ≠ '"' ∧ x ≠ '\'') (hls : isSpace l = false) (hh : '#' ∉ x :: t)
    (hlb : ∀ c ∈ x :: t, isLineBreak c = false) : Reloadable (x :: t) := by
  have hnl : '\n' ∉ x :: t := fun m => absurd (hlb _ m) (by decide)
  refine ⟨x :: t, cquote_false_plain _ (by simp) hnl (Or.inl hh), hlb, ?_⟩
  intro rest
  have hd : (x :: t).dropWhile isSpace = x :: t := by simp [hx]
  rw [hd]
  have hxd : ('"' == x) = false := by simpa using fun e : '"' = x => hxq.1 e.symm
  have hxs : ('\'' == x) = false := by simpa using fun e : '\'' = x => hxq.2 e.symm
  have hp1 : dq3.isPrefixOf (x :: t) = false := by simp [dq3, List.isPrefixOf, hxd]
  have hp2 : sq3.isPrefixOf (x :: t) = false := by simp [sq3, List.isPrefixOf, hxs]
  have hxh : x ≠ '#' := fun e => hh (by simp [e])
  have hlazy : lazyPlain t = t := by
    apply lazyPlain_eq_self
    · intro l' h'
      cases t with
      | nil => simp at h'
      | cons d r =>
        have : (x :: d :: r).getLast? = some l' := by simpa [List.getLast?_cons_cons] using h'
        rw [hl] at this; cases this; exact hls
    · exact fun m => hh (List.mem_cons_of_mem _ m)
  simp only [parseOptValue, hp1, hp2, Bool.false_eq_true, if_false]
  have : nolistValue (x :: t) = some (x :: t) := by
    simp [nolistValue, hxq.1, hxq.2, hxh, hlazy]
  rw [this]; simp

theorem okValue_facts {v : Str} (h : okValue v = true) :
    (∀ c ∈ v, isLineBreak c = false) ∧ ¬ ('\'' ∈ v ∧ '"' ∈ v) ∧
    (∀ x l, v.head? = some x → v.getLast? = some l →
      (isSpace x = true → wspacePlus x = true) ∧ (isSpace l = true → wspacePlus l = true)) := by
  simp only [okValue, Bool.and_eq_true, List.all_eq_true, Bool.not_eq_true'] at h
  obtain ⟨⟨h1, h2⟩, h3⟩ := h
  refine ⟨?_, ?_, ?_⟩
  · intro c hc; simpa using h1 c hc
  · intro hb
    simp [hb.1, hb.2] at h2
  · intro x l hx hl
    rw [hx, hl] at h3
    simp only [Bool.and_eq_true, Bool.or_eq_true, Bool.not_eq_true'] at h3
    constructor
    · intro hs; rcases h3.1 with h' | h'
      · rw [hs] at h'; cases h'
      · exact h'
    · intro hs; rcases h3.2 with h' | h'
      · rw [hs] at h'; cases h'
      · exact h'

theorem unquote_wrap (W : Char) (hW : W = '"' ∨ W = '\'') (v : Str) : unquote (W :: v ++ [W]) = v := by
  have hl : (W :: (v ++ [W])).getLast? = some W := getLast?_wrap W v
  rcases hW with e | e <;> subst e <;> simp [unquote, hl]

theorem unquote_plain (x : Char) (t : Str) (hxq : x ≠ '"' ∧ x ≠ '\'') : unquote (x :: t) = x :: t := by
  simp [unquote, hxq.1, hxq.2]

theorem singleQuote_eval (v : Str) (hb : ¬ ('\'' ∈ v ∧ '"' ∈ v)) :
    singleQuote v = if '"' ∈ v then some ('\'' :: v ++ ['\'']) else some ('"' :: v ++ ['"']) := by
  by_cases hd : '"' ∈ v
  · have hs : '\'' ∉ v := fun hs => hb ⟨hs, hd⟩
    simp [singleQuote, hd, hs]
  · simp [singleQuote, hd]

theorem reloadable_singleQuote (v : Str) (hne : v ≠ []) (hb : ¬ ('\'' ∈ v ∧ '"' ∈ v))
    (hlb : ∀ c ∈ v, isLineBreak c = false) :
    ∃ q1, singleQuote v = some q1 ∧ unquote q1 = v ∧ Reloadable q1 := by
  rw [singleQuote_eval v hb]
  by_cases hd : '"' ∈ v
  · have hs : '\'' ∉ v := fun hs => hb ⟨hs, hd⟩
    exact ⟨_, by simp [hd], unquote_wrap '\'' (Or.inr rfl) v, reloadable_wrapped '\'' (Or.inr rfl) v hne hs hlb⟩
  · exact ⟨_, by simp [hd], unquote_wrap '"' (Or.inl rfl) v, reloadable_wrapped '"' (Or.inl rfl) v hne hd hlb⟩

theorem reloadable_empty : Reloadable ['"', '"'] := by
  refine ⟨['"', '"'], by decide, by decide, ?_⟩
  intro rest
  have hd : (['"', '"'] : Str).dropWhile isSpace = ['"', '"'] := by decide
  rw [hd]
  have hp1 : dq3.isPrefixOf ['"', '"'] = false := by decide
  have hp2 : sq3.isPrefixOf ['"', '"'] = false := by decide
  simp only [parseOptValue, hp1, hp2, Bool.false_eq_true, if_false]
  have : nolistValue ['"', '"'] = some ['"', '"'] := by decide
  rw [this]; rfl

/-- what `Stack.set` stores for an `okValue` unquotes to the value and is reloadable -/
theorem quote_reloadable (v : Str) (h : okValue v = true) :
    ∃ q1, cquote true v = some q1 ∧ unquote q1 = v ∧ Reloadable q1 := by
  obtain ⟨hlb, hb, hends⟩ := okValue_facts h
  cases v with
  | nil => exact ⟨['"', '"'], rfl, by decide, reloadable_empty⟩
  | cons x t =>
    obtain ⟨l, hl⟩ := @exists_getLast? x t
    have hnl : '\n' ∉ x :: t := fun m => absurd (hlb _ m) (by decide)
    rw [cquote_true_eval x t l hl hnl hb]
    obtain ⟨hex, hel⟩ := hends x l rfl hl
    by_cases hc : (!wspacePlus x && !wspacePlus l && !(x :: t).contains ',') = true
    · rw [if_pos hc]
      by_cases hh : (x :: t).contains '#' = true
      · rw [if_pos hh]; exact reloadable_singleQuote _ (by simp) hb hlb
      · rw [if_neg hh]
        simp only [Bool.and_eq_true, Bool.not_eq_true'] at hc
        have hxs : isSpace x = false := by
          cases hs : isSpace x with
          | false => rfl
          | true => have := hex hs; rw [hc.1.1] at this; cases this
        have hls : isSpace l = false := by
          cases hs : isSpace l with
          | false => rfl
          | true => have := hel hs; rw [hc.1.2] at this; cases this
        have hxq : x ≠ '"' ∧ x ≠ '\'' := by
          constructor <;> intro e <;> subst e <;> exact absurd hc.1.1 (by decide)
        have hh' : '#' ∉ x :: t := by simpa using hh
        exact ⟨x :: t, rfl, unquote_plain x t hxq, reloadable_plain x t l hl hxs hxq hls hh' hlb⟩
    · rw [if_neg hc]; exact reloadable_singleQuote _ (by simp) hb hlb

/-! ### `IniFileStore.quote` in its two variants -/

/-- the values for which the round trip is proved when the blank fix is in:
no line boundary, not both quote kinds -/
def okValueFix (v : Str) : Bool :=
  v.all (fun c => !isLineBreak c) && !(v.contains '\'' && v.contains '"')

/-- the hypothesis on a value for each variant of `storeQuote` -/
def okFor (blankfix : Bool) (v : Str) : Bool := if blankfix then okValueFix v else okValue v

theorem wrap_ne_self (W : Char) (v : Str) : (W :: v ++ [W] == v) = false := by
  have : W :: v ++ [W] ≠ v := fun e => by
    have := congrArg List.length e
    simp at this
    omega
  simpa using this

theorem singleQuote_ne_self (v q : Str) (h : singleQuote v = some q) : (q == v) = false := by
  unfold singleQuote at h
  split at h
  · cases h
  · split at h <;> (cases h; exact wrap_ne_self _ v)

/-- without the fix `storeQuote` is `_quote` with list_values on -/
theorem storeQuote_false (v : Str) : storeQuote false v = cquote true v := by
  unfold storeQuote
  cases cquote true v <;> simp

/-- what `Stack.set` stores, with the blank fix, unquotes to the value and is reloadable -/
theorem storeQuote_fix_reloadable (v : Str) (h : okValueFix v = true) :
    ∃ q1, storeQuote true v = some q1 ∧ unquote q1 = v ∧ Reloadable q1 := by
  simp only [okValueFix, Bool.and_eq_true, List.all_eq_true, Bool.not_eq_true'] at h
  have hlb : ∀ c ∈ v, isLineBreak c = false := fun c hc => by simpa using h.1 c hc
  have hb : ¬ ('\'' ∈ v ∧ '"' ∈ v) := by
    intro hb
    have := h.2
    simp [hb.1, hb.2] at this
  cases v with
  | nil => exact ⟨['"', '"'], by decide, by decide, reloadable_empty⟩
  | cons x t =>
    obtain ⟨l, hl⟩ := @exists_getLast? x t
    have hnl : '\n' ∉ x :: t := fun m => absurd (hlb _ m) (by decide)
    have hq := cquote_true_eval x t l hl hnl hb
    have hsq : ∀ (_ : Unit), cquote true (x :: t) = singleQuote (x :: t) →
        ∃ q1, storeQuote true (x :: t) = some q1 ∧ unquote q1 = x :: t ∧ Reloadable q1 := by
      intro _ he
      obtain ⟨q1, h1, h2, h3⟩ := reloadable_singleQuote (x :: t) (by simp) hb hlb
      refine ⟨q1, ?_, h2, h3⟩
      unfold storeQuote
      rw [he, h1]
      simp [singleQuote_ne_self _ _ h1]
    by_cases hc : (!wspacePlus x && !wspacePlus l && !(x :: t).contains ',') = true
    · rw [if_pos hc] at hq
      by_cases hh : (x :: t).contains '#' = true
      · rw [if_pos hh] at hq; exact hsq () hq
      · rw [if_neg hh] at hq
        by_cases hsp : (isSpace x || isSpace l) = true
        · -- left alone by `_quote`, but a blank at an end: the fix quotes it
          obtain ⟨q1, h1, h2, h3⟩ := reloadable_singleQuote (x :: t) (by simp) hb hlb
          refine ⟨q1, ?_, h2, h3⟩
          unfold storeQuote
          rw [hq]
          simp only [Bool.true_and, beq_self_eq_true, List.head?_cons, hl, Option.any_some, hsp, if_true, h1]
        · simp only [Bool.or_eq_true, not_or, Bool.not_eq_true] at hsp
          simp only [Bool.and_eq_true, Bool.not_eq_true'] at hc
          have hxq : x ≠ '"' ∧ x ≠ '\'' := by
            constructor <;> intro e <;> subst e <;> exact absurd hc.1.1 (by decide)
          have hh' : '#' ∉ x :: t := by simpa using hh
          refine ⟨x :: t, ?_, unquote_plain x t hxq, reloadable_plain x t l hl hsp.1 hxq hsp.2 hh' hlb⟩
          unfold storeQuote
          rw [hq]
          simp [hl, hsp.1, hsp.2]
    · rw [if_neg hc] at hq; exact hsq () hq

/-- either variant, under its hypothesis -/
theorem storeQuote_reloadable (fix : Bool) (v : Str) (h : okFor fix v = true) :
    ∃ q1, storeQuote fix v = some q1 ∧ unquote q1 = v ∧ Reloadable q1 := by
  cases fix with
  | true => exact storeQuote_fix_reloadable v (by simpa [okFor] using h)
  | false =>
    rw [storeQuote_false]
    exact quote_reloadable v (by simpa [okFor] using h)

end BreezyVerif.C49
