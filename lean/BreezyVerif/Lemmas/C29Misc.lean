import BreezyVerif.Lemmas.C29V3
/-! tuples, protocol-1 request decoding, bencoded argument lists, response handler -/
namespace BreezyVerif.C29

/-! ### `\x01` tuples -/

theorem splitSoh_ne_nil (b : Bytes) : splitSoh b ≠ [] := by
  induction b with
  | nil => simp [splitSoh]
  | cons c cs ih =>
    unfold splitSoh
    split
    · simp
    · split <;> simp

theorem splitSoh_cons (c : UInt8) (cs : Bytes) :
    splitSoh (c :: cs) = if c = 1 then [] :: splitSoh cs
      else match splitSoh cs with
        | [] => [[c]]
        | f :: fs => (c :: f) :: fs := by
  rw [splitSoh]
  split
  · rfl
  · split <;> simp_all

theorem splitSoh_of_notMem {a : Bytes} (h : (1 : UInt8) ∉ a) : splitSoh a = [a] := by
  induction a with
  | nil => rfl
  | cons c cs ih =>
    simp only [List.mem_cons, not_or] at h
    have hc : c ≠ 1 := fun e => h.1 e.symm
    rw [splitSoh_cons]
    simp [hc, ih h.2]

theorem splitSoh_append {a : Bytes} (r : Bytes) (h : (1 : UInt8) ∉ a) :
    splitSoh (a ++ 1 :: r) = a :: splitSoh r := by
  induction a with
  | nil => rw [List.nil_append, splitSoh_cons]; simp
  | cons c cs ih =>
    simp only [List.mem_cons, not_or] at h
    have hc : c ≠ 1 := fun e => h.1 e.symm
    simp only [List.cons_append]
    rw [splitSoh_cons]
    simp [hc, ih h.2]

/-- arguments that can travel in a protocol 1/2 tuple: at least one, none
containing the separator `\x01` -/
def tupleOk (args : List Bytes) : Bool := !args.isEmpty && args.all (fun a => !a.contains 1)

theorem splitSoh_joinSoh {args : List Bytes} (h : tupleOk args = true) :
    splitSoh (joinSoh args) = args := by
  induction args with
  | nil => simp [tupleOk] at h
  | cons a rest ih =>
    simp only [tupleOk, List.isEmpty_cons, Bool.not_false, List.all_cons, Bool.true_and,
      Bool.and_eq_true, Bool.not_eq_true', List.contains_eq_mem, decide_eq_false_iff_not] at h
    cases rest with
    | nil => simp only [joinSoh]; exact splitSoh_of_notMem h.1
    | cons b rest' =>
      simp only [joinSoh]
      rw [splitSoh_append _ h.1, ih]
      simp only [tupleOk, List.isEmpty_cons, Bool.not_false, Bool.true_and]
      simpa using h.2

theorem decodeTuple_encodeTuple {args : List Bytes} (h : tupleOk args = true) :
    decodeTuple (encodeTuple args) = .ok args := by
  unfold decodeTuple encodeTuple
  have h1 : (joinSoh args ++ [10]).isEmpty = false := by
    cases joinSoh args <;> rfl
  simp only [h1, Bool.false_eq_true, if_false, List.getLast?_append, List.getLast?_singleton,
    Option.some_or, if_true, List.dropLast_concat]
  rw [splitSoh_joinSoh h]

/-! ### protocol-1 server request -/

namespace Req

theorem feed_line (w : List Bytes → Bool) (buf x : Bytes) :
    feed w (.line buf) x = lineStep w (buf ++ x) := rfl
theorem feed_body (w : List Bytes → Bool) (args : List Bytes) (d : LP) (x : Bytes) :
    feed w (.body args d) x = afterBody args (d.feed x) := rfl
theorem feed_done (w : List Bytes → Bool) (a : List Bytes) (b : Option Bytes) (u x : Bytes) :
    feed w (.done a b u) x = .done a b (u ++ x) := rfl

theorem feed_afterBody (w : List Bytes → Bool) (args : List Bytes) (d : LP) (y : Bytes) :
    feed w (afterBody args d) y = afterBody args (d.feed y) := by
  cases d <;> rfl

theorem feed_lineStep (w : List Bytes → Bool) (u y : Bytes) :
    feed w (lineStep w u) y = lineStep w (u ++ y) := by
  unfold lineStep
  cases h : splitLine u with
  | none => simp only [feed_line]; rfl
  | some lr =>
    obtain ⟨l, rest⟩ := lr
    rw [splitLine_append_some y h]
    simp only
    by_cases hw : w (splitSoh l) = true
    · simp only [hw, if_true, feed_afterBody, LP.feed_append]
    · simp only [hw, Bool.false_eq_true, if_false, feed_done]

theorem feed_append (w : List Bytes → Bool) (s : Req) (a b : Bytes) :
    feed w (feed w s a) b = feed w s (a ++ b) := by
  cases s with
  | line buf => rw [feed_line, feed_lineStep, feed_line, List.append_assoc]
  | body args d => rw [feed_body, feed_afterBody, feed_body, LP.feed_append]
  | done a' b' u => rw [feed_done, feed_done, feed_done, List.append_assoc]
  | failed => rfl

/-- request arguments that survive the line framing: a valid tuple with no newline inside -/
def argsOk (args : List Bytes) : Bool := tupleOk args && args.all (fun a => !a.contains 10)

theorem joinSoh_no_nl {args : List Bytes} (h : args.all (fun a => !a.contains 10) = true) :
    (10 : UInt8) ∉ joinSoh args := by
  induction args with
  | nil => simp [joinSoh]
  | cons a rest ih =>
    simp only [List.all_cons, Bool.and_eq_true, Bool.not_eq_true', List.contains_eq_mem,
      decide_eq_false_iff_not] at h
    cases rest with
    | nil => simpa [joinSoh] using h.1
    | cons b rest' =>
      simp only [joinSoh, List.mem_append, List.mem_cons, not_or]
      refine ⟨h.1, by decide, ?_⟩
      apply ih
      simpa using h.2

theorem feed_init_encode (w : List Bytes → Bool) (args : List Bytes) (body : Option Bytes)
    (rest : Bytes) (hok : argsOk args = true) (hw : w args = body.isSome) :
    feed w (.line []) (reqEncode args body ++ rest) = .done args body rest := by
  simp only [argsOk, Bool.and_eq_true] at hok
  have hsplit : ∀ tail, splitLine (encodeTuple args ++ tail) = some (joinSoh args, tail) := by
    intro tail
    simp only [encodeTuple, List.append_assoc, List.singleton_append]
    exact splitLine_of_notMem _ (joinSoh_no_nl hok.2)
  rw [feed_line, List.nil_append, lineStep]
  simp only [reqEncode, List.append_assoc, hsplit]
  simp only [splitSoh_joinSoh hok.1, hw]
  cases body with
  | none => simp
  | some b =>
    simp only [Option.isSome_some, if_true, LP.feed_init_encode]
    rfl

end Req

/-! ### bencoded argument lists -/

theorem splitColon_of_notMem {l : Bytes} (r : Bytes) (h : (58 : UInt8) ∉ l) :
    splitColon (l ++ 58 :: r) = some (l, r) := by
  induction l with
  | nil => simp [splitColon]
  | cons c cs ih =>
    simp only [List.mem_cons, not_or] at h
    have hc : c ≠ 58 := fun e => h.1 e.symm
    simp only [List.cons_append]
    unfold splitColon
    simp [hc, ih h.2]

theorem bdecodeItems_item (a tail : Bytes) :
    bdecodeItems (natDigits 10 a.length ++ 58 :: (a ++ tail)) = (bdecodeItems tail).map (a :: ·) := by
  rw [bdecodeItems]
  have hne : natDigits 10 a.length ++ 58 :: (a ++ tail) ≠ [101] := by
    intro h
    have := congrArg List.length h
    have h0 := natDigits_ne_nil 10 a.length
    cases hd : natDigits 10 a.length with
    | nil => exact h0 hd
    | cons c cs => rw [hd] at this; simp at this
  simp only [hne, if_false]
  split
  · rename_i h2
    rw [splitColon_of_notMem _ (natDigits_notMem (by omega) (by omega) _ 58 (by simp))] at h2
    cases h2
  · rename_i ds rest h2
    rw [splitColon_of_notMem _ (natDigits_notMem (by omega) (by omega) _ 58 (by simp))] at h2
    cases h2
    simp only [parseNat_natDigits (base := 10) (by omega) (by omega)]
    have : ¬ (a.length + tail.length < a.length) := by omega
    simp [this]

theorem bdecodeItems_encode (args : List Bytes) :
    bdecodeItems (args.flatMap (fun a => natDigits 10 a.length ++ 58 :: a) ++ [101]) = some args := by
  induction args with
  | nil => rw [bdecodeItems]; simp
  | cons a rest ih =>
    simp only [List.flatMap_cons, List.append_assoc, List.cons_append]
    rw [bdecodeItems_item, ih]
    rfl

theorem bdecodeArgs_bencodeArgs (args : List Bytes) : bdecodeArgs (bencodeArgs args) = some args := by
  simp only [bencodeArgs, bdecodeArgs]
  exact bdecodeItems_encode args

/-! ### conventional response handler on the decoded events -/

theorem Resp.run_append (fx : Bool) (r : Resp) (xs ys : List Ev) :
    r.run fx (xs ++ ys) = (match r.run fx xs with | .error e => .error e | .ok r' => r'.run fx ys) := by
  induction xs generalizing r with
  | nil => simp [Resp.run]
  | cons e es ih =>
    simp only [List.cons_append, Resp.run]
    cases r.step fx e with
    | error x => rfl
    | ok r' => exact ih r'

theorem Resp.run_bytes (fx : Bool) (r : Resp) (cs : List Bytes) (h : cs ≠ [] ∨ r.bodyStarted = true) :
    r.run fx (cs.map Ev.bytes) = .ok { r with bodyStarted := true, parts := r.parts ++ cs } := by
  induction cs generalizing r with
  | nil =>
    rcases h with h | h
    · exact absurd rfl h
    · cases r; simp_all [Resp.run]
  | cons c cs ih =>
    simp only [List.map_cons, Resp.run, Resp.step]
    rw [ih _ (Or.inr rfl)]
    simp

end BreezyVerif.C29
