"""C04 — pack repositories are crash-atomic.

Mechanism (breezy/bzr/pack_repo.py): RepositoryPackCollection._commit_write_group
(finish the new pack, allocate, autopack or save), _save_pack_names (names lock,
_diff_pack_names, atomic put_file of pack-names, _clear_obsolete_packs(preserve),
_obsolete_packs afterwards), _execute_pack_operations / pack(), the autopack
planner, and their ERROR paths (try/finally in _save_pack_names, @only_raises on
unlock, the per-call `except (PathError, TransportError)` of _obsolete_packs and
_clear_obsolete_packs, abort_write_group -> NewPack.abort).  NewPack.finish /
abort themselves are compiled code outside /repo (bzrformats): their transport
calls are observed, not mutated.

T2a (trace equality): a logging transport decorator (`verifc04+`, defined here)
    wraps the repository's transports; every mutating call below
    .bzr/repository (open_write_stream / stream close / move / rename / delete /
    put_file / lock directory protocol) of a real fetch-into (a write group with
    k revisions), working-tree commit, forced autopack, pack() and
    pack(clean_obsolete_packs=True) on 2a and pack-0.92 is canonicalised (pack
    names numbered, upload names numbered) and must equal the operation list of
    the Lean model (`commitOps` / `packOps`, which contain the model of the
    autopack planner, of the three-way pack-names merge, of the obsolete-pack
    bookkeeping).  A `Plan.error` of the model's planner yields only the new
    pack's operations, so any occurrence on the real code is a mismatch.
T2b (crash enumeration): the directory is copied BEFORE every mutating call (a
    crash at that point: nothing after it ran, no finally/abort code), and after
    the last one.  The listing of every copy (pack-names content, the four
    directories, which files are still open for writing, lock held) must equal
    the model state after the corresponding prefix.
T2c (fault injection): the same operation is re-run from a copy of the same
    initial directory with ONE transport call failing: the decorator raises
    OSError(ENOSPC) / TransportError / KeyboardInterrupt instead of the call
    ("before") or right after it returned ("after"), or from a non-mutating call
    (get / readv / has / stat / list_dir) made between two mutating calls.  The
    exception travels through the real error handling.  The list of calls that
    were executed, whether the exception left the operation, the final
    directory state and the state of every copy taken before a call made
    DURING the error handling must equal the Lean model of the error paths
    (`commitFault` / `packFault`, driver ops cfault / pfault).  Fault points:
    always the pack-names put_file (before and after) and a failing read between
    taking the names lock and the put_file; a sample (all in the thorough tier)
    of lock, unlock, the rename finishing a pack, first obsoleting move, first
    deletion in obsolete_packs/, lock-directory sub-steps, and of all other calls
    and reads.  Not compared with the model (oracle only): runs in which the
    stream sink swallowed the exception and suspended the write group, reads
    after the last mutating call.
Oracle (independent of the model): every copy — plus variants in which each file
    that was open for writing is truncated (torn write), plus a variant with the
    half-written temporary file of the atomic put_file(pack-names) left behind —
    is opened with the real Repository.open: all_revision_ids() must be exactly
    the old or exactly the new set, every revision, its tree and every file text
    must be readable and equal to the source of truth, check() must be clean.
    The same for the directory left by every fault-injected run and for every
    copy taken during its error handling; a fault-injected operation that
    returned normally must show the new set; after a failed operation a fresh
    process (lock broken) must be able to fetch one more revision.
Initial states include directories left behind by earlier crashes (a crash copy
of one operation is the start state of the next: leftovers in upload/, unlisted
packs and indices, stale obsolete_packs/).  A scenario whose build script fails
inside breezy is a VIOLATION (the repository became unusable without any crash
of the operation under test); a failure inside the harness is exit 2.

Finding made with this check (repaired by fix: commit 24f6bb3): `pack(hint=[p])` on pack-0.92 when
the repacked content of `p` hashes to `p`'s own name: KnitPacker finished the new pack ONTO the listed
pack (indices rewritten in place, torn during the write), then allocate() raised "Pack already
exists".  The pack(hint) stream keeps exercising exactly that input (the packer must now abort like
GCCHKPacker does: upload file closed and deleted); theorem pack_hint_collision_witness is the model's
witness of why the freshness hypothesis is needed.  A regression is a plain VIOLATION.

Mutants this was built against (scratch worktrees):
 A  _execute_pack_operations: _obsolete_packs(...) before _save_pack_names  -> oracle, crash index inside the moves
 B  _save_pack_names: put_file -> put_file_non_atomic                        -> oracle, torn pack-names variant
 B2 _save_pack_names: delete("pack-names") before put_file                   -> oracle, crash between the two calls
 C  _diff_pack_names: deleted nodes not removed from disk_nodes              -> oracle (already while building a history)
 Q  _execute_pack_operations: `if result is None: return` dropped            -> oracle (pack of an optimal single pack loses all revisions)
 G  GCCHKPacker: already-optimal test inverted (finish onto the listed pack) -> oracle, torn listed index + raised error
 N  _obsolete_packs: ".rix" missing from the suffix list                      -> T2a only (property not violated): no-failing-input-found
 F  fix 24f6bb3 reverted (KnitPacker without the listed-name guard)          -> oracle: pack(hint) raises, torn listed index
 S  _save_pack_names: _obsolete_packs(...) moved into the `finally:` clause   -> oracle, fault at put_file(pack-names) /
    (seeded change C04b)                                                        failing read after lock_names: NoSuchFile on reopen
 S2 _execute_pack_operations: `except: self._obsolete_packs(...); raise`     -> oracle, same fault points
    around _save_pack_names
 U  _save_pack_names: `finally: self._unlock_names()` dropped                -> T2c only (lock left held; property not violated)
 W  _commit_write_group: exception of autopack() swallowed (`return []`)     -> oracle: operation returned normally, new revisions not listed
 harmless: builder created before lock_names(), comprehension for to_be_obsoleted, renamed locals in
 _clear_obsolete_packs -> clean.
"""
import hashlib
import os
import shutil

from vlib import env

THEOREMS = [
    "step_safe'", "run_take_safe", "finish_ready'", "txn_crash_atomic", "safe_crash_atomic",
    "commit_crash_atomic", "commit_crash_atomic_planned", "pack_crash_atomic",
    "commit_final_names", "commit_visible", "autopack_final_names", "autopack_visible",
    "pack_final_names", "pack_visible", "commit_ops_enabled", "commit_ops_enabled_all", "pack_ops_enabled",
    "leftovers_harmless", "leftovers_harmless_unlisted", "name_collision_witness",
    "shape_crash_atomic", "save_ctx_atomic", "commit_fault_atomic", "commit_fault_atomic_planned",
    "packSel_fault_atomic", "pack_fault_atomic", "save_fault_names", "obsolete_in_finally_witness",
    "crash_then_retry", "fault_then_retry",
]
RULE = ("scenario = (format, build script: chunk sizes fetched / commits / packs, optional start from a crash copy, "
        "operation under test: fetch k revisions | commit | pack | pack+clean | pack(hint)); case = (scenario, crash "
        "index) for EVERY mutating transport call of the operation, plus torn-write variants, plus (scenario, fault = "
        "(mutating call index | read number between two calls, before/after, OSError | TransportError | "
        "KeyboardInterrupt)) for the sampled fault points (always the pack-names put_file and a read after taking "
        "the names lock); non-trivial = the operation performs a pack-names replacement; distinct by (canonical "
        "operation list, initial listing, crash index or fault)")
ASSUMPTIONS = [
    "transport.move / rename and put_file(pack-names) are atomic (LocalTransport: os.rename / write-to-temp + rename)",
    "a crash leaves exactly the effects of the transport calls completed so far; a file being written may be torn "
    "(tested: truncated to half and to zero length), a closed file is durable",
    "pack names (md5 of content) of newly written packs are not already listed in pack-names (hypothesis of the "
    "theorems; theorem name_collision_witness shows what happens otherwise)",
    "fault model: exactly one transport call (mutating or reading) of the operation raises, either instead of being "
    "performed or right after it returned; failing stream writes between open_write_stream and close, and a second "
    "fault inside the error handling, are not injected (a CRASH inside the error handling is)",
]
TRUSTED = [
    "NewPack.finish / abort / index writing are compiled code in bzrformats: their call sequence is observed through "
    "the transport decorator and compared with the model on every run (fault-free and fault-injected), not verified",
    "a pack's revision set is a function of its name; the packer copies all revisions (validated per crash copy by the oracle)",
    "LockDir's own retry behaviour on TransportError (treated as contention) is not modelled: TransportError is not "
    "injected into lock-directory calls",
]

PREFIX = "verifc04+"
SUBDIRS = (("upload", "u"), ("packs", "p"), ("indices", "i"), ("obsolete_packs", "o"))
EXTS = ("pack", "autopack", "rix", "iix", "tix", "six", "cix")
NONATOMIC = ("put_file_non_atomic", "put_bytes_non_atomic", "append_file", "append_bytes", "copy")


# --------------------------------------------------------------------------
# logging / snapshotting transport decorator

class Recorder:
    def __init__(self):
        self.active = False
        self.repo_dir = None
        self.events = []
        self.snaps = []
        self.open = []
        self.base = None
        self.hook = None     # optional callable(event index) -> None (C05 batons)
        self.fault = None    # fault injection: dict(at="w"|"r", k=event index, n=read number, mode=, kind=)
        self.fired = None    # index of the event at which the fault was raised
        self.reads = []      # reads[k] = number of read calls seen before mutating event k (after event k-1)
        self.read_paths = [] # their relative paths
        self.post_snaps = [] # (event index, copy) taken before every mutating call AFTER the fault fired

    def start(self, repo_dir, snap_base, snapshots=True, fault=None):
        self.repo_dir = os.path.realpath(repo_dir)
        self.events = []
        self.snaps = []
        self.open = []
        self.base = snap_base
        self.snapshots = snapshots
        self.fault = fault
        self.fired = None
        self.reads = [0]
        self.read_paths = [[]]
        self.post_snaps = []
        self.active = True

    def stop(self):
        self.active = False
        final = self._snap(len(self.events)) if (self.snapshots or self.fault is not None) else None
        return final

    def _raise(self):
        kind = self.fault["kind"]
        if kind == "interrupt":
            raise KeyboardInterrupt("injected by the C04 check")
        if kind == "transport":
            from breezy import errors
            raise errors.TransportError("injected by the C04 check")
        import errno
        raise OSError(errno.ENOSPC, "No space left on device (injected by the C04 check)")

    def read(self, t, a):
        """called before a non-mutating transport call (get / get_bytes / readv / has / stat / list_dir)"""
        if not self.active:
            return
        ra = self._rel(t, a)
        if ra is None:
            return
        self.reads[-1] += 1
        self.read_paths[-1].append(ra)
        f = self.fault
        if (f is not None and self.fired is None and f["at"] == "r" and f["k"] == len(self.events)
                and f["n"] == self.reads[-1]):
            self.fired = len(self.events)
            self._raise()

    def after(self, k):
        """called after the transport call of event `k` has returned"""
        f = self.fault
        if (k is not None and f is not None and self.fired is None and f["at"] == "w" and f["k"] == k
                and f["mode"] == "after"):
            self.fired = k
            self._raise()

    def _snap(self, k):
        """copy of the control directory's repository.  Files of the four pack
        directories that are not open for writing are immutable (they are only
        renamed or deleted), so they are hard-linked; everything else is copied.
        `_unshare` keeps that sound when a call is about to rewrite such a file
        in place."""
        d = os.path.join(self.base, "s%d" % k)
        os.makedirs(os.path.join(d, ".bzr"))
        ctl = os.path.dirname(self.repo_dir)
        for fn in ("branch-format", "README"):
            p = os.path.join(ctl, fn)
            if os.path.exists(p):
                shutil.copy2(p, os.path.join(d, ".bzr", fn))
        dst = os.path.join(d, ".bzr", "repository")
        os.mkdir(dst)
        linkable = {sub for sub, _ in SUBDIRS}
        for fn in os.listdir(self.repo_dir):
            sp = os.path.join(self.repo_dir, fn)
            if fn in linkable and os.path.isdir(sp):
                os.mkdir(os.path.join(dst, fn))
                for g in os.listdir(sp):
                    gp = os.path.join(sp, g)
                    if fn + "/" + g in self.open or not os.path.isfile(gp):
                        if os.path.isdir(gp):
                            shutil.copytree(gp, os.path.join(dst, fn, g))
                        else:
                            shutil.copy2(gp, os.path.join(dst, fn, g))
                    else:
                        os.link(gp, os.path.join(dst, fn, g))
            elif os.path.isdir(sp):
                shutil.copytree(sp, os.path.join(dst, fn))
            else:
                shutil.copy2(sp, os.path.join(dst, fn))
        return d

    def _unshare(self, rel):
        """give `rel` a fresh inode so that earlier hard-linked copies keep the old content"""
        p = os.path.join(self.repo_dir, rel)
        if os.path.isfile(p) and os.stat(p).st_nlink > 1:
            tmp = p + ".verif-unshare"
            shutil.copy2(p, tmp)
            os.replace(tmp, p)

    def _rel(self, t, relpath):
        from breezy import urlutils
        try:
            p = os.path.realpath(urlutils.local_path_from_url(t._decorated.abspath(relpath)))
        except Exception:
            return None
        if p == self.repo_dir or not p.startswith(self.repo_dir + os.sep):
            return None
        return p[len(self.repo_dir) + 1:]

    def event(self, kind, t, a, b=None):
        """called BEFORE the transport call is performed"""
        if not self.active:
            return
        ra = self._rel(t, a)
        rb = self._rel(t, b) if b is not None else None
        if ra is None and rb is None:
            return
        k = len(self.events)
        if self.snapshots:
            self.snaps.append(self._snap(k))
        elif self.fired is not None and len(self.post_snaps) < self.fault.get("post", 0):
            # a crash inside the error handling: copy before the calls made after the fault
            self.post_snaps.append((k, self._snap(k)))
        self.events.append((kind, ra, rb, tuple(self.open)))
        self.reads.append(0)
        self.read_paths.append([])
        f = self.fault
        if (f is not None and self.fired is None and f["at"] == "w" and f["k"] == k and f["mode"] == "before"):
            # the call is not performed at all
            self.fired = k
            self._raise()
        if kind in ("ows", "append_file", "append_bytes", "put_bytes_non_atomic", "put_file_non_atomic", "copy") \
                and (self.snapshots or self.post_snaps):
            self._unshare(rb if kind == "copy" else ra)
        if kind == "ows":
            self.open.append(ra)
        elif kind == "close":
            if ra in self.open:
                self.open.remove(ra)
        return k


REC = Recorder()
_registered = False


class _Stream:
    def __init__(self, s, t, rel):
        self._s, self._t, self._rel = s, t, rel
        self._closed = False

    def write(self, b):
        return self._s.write(b)

    def close(self, *a, **k):
        if self._closed:
            return self._s.close(*a, **k)
        ev = REC.event("close", self._t, self._rel)    # an injected fault leaves the stream open
        self._closed = True
        r = self._s.close(*a, **k)
        REC.after(ev)
        return r

    def __getattr__(self, n):
        return getattr(self._s, n)


def register():
    """define and register the `verifc04+` decorator (idempotent)"""
    global _registered, CrashLogTransport
    if _registered:
        return
    from dromedary import decorator
    from breezy import transport as bt

    class CrashLogTransport(decorator.TransportDecorator):
        @classmethod
        def _get_url_prefix(cls):
            return PREFIX

        def _mut(self, kind, fn, a, b=None):
            ev = REC.event(kind, self, a, b)
            r = fn()
            REC.after(ev)
            return r

        def rename(self, a, b):
            return self._mut("rename", lambda: self._decorated.rename(a, b), a, b)

        def move(self, a, b):
            return self._mut("move", lambda: self._decorated.move(a, b), a, b)

        def copy(self, a, b):
            return self._mut("copy", lambda: self._decorated.copy(a, b), a, b)

        def delete(self, a):
            return self._mut("delete", lambda: self._decorated.delete(a), a)

        def delete_tree(self, a):
            return self._mut("delete_tree", lambda: self._decorated.delete_tree(a), a)

        def mkdir(self, a, mode=None):
            return self._mut("mkdir", lambda: self._decorated.mkdir(a, mode), a)

        def rmdir(self, a):
            return self._mut("rmdir", lambda: self._decorated.rmdir(a), a)

        def put_file(self, a, f, mode=None):
            return self._mut("put_file", lambda: self._decorated.put_file(a, f, mode), a)

        def put_bytes(self, a, b, mode=None):
            return self._mut("put_bytes", lambda: self._decorated.put_bytes(a, b, mode), a)

        def put_bytes_non_atomic(self, a, b, mode=None, create_parent_dir=False, dir_mode=None):
            return self._mut("put_bytes_non_atomic", lambda: self._decorated.put_bytes_non_atomic(
                a, b, mode=mode, create_parent_dir=create_parent_dir, dir_mode=dir_mode), a)

        def put_file_non_atomic(self, a, f, mode=None, create_parent_dir=False, dir_mode=None):
            return self._mut("put_file_non_atomic", lambda: self._decorated.put_file_non_atomic(
                a, f, mode=mode, create_parent_dir=create_parent_dir, dir_mode=dir_mode), a)

        def append_file(self, a, f, mode=None):
            return self._mut("append_file", lambda: self._decorated.append_file(a, f, mode=mode), a)

        def append_bytes(self, a, b, mode=None):
            return self._mut("append_bytes", lambda: self._decorated.append_bytes(a, b, mode=mode), a)

        def open_write_stream(self, a, mode=None):
            ev = REC.event("ows", self, a)
            st = _Stream(self._decorated.open_write_stream(a, mode=mode), self, a)
            REC.after(ev)
            return st

        # non-mutating calls: counted (and possibly failed) but not part of the trace
        def get(self, a):
            REC.read(self, a)
            return self._decorated.get(a)

        def _readv(self, a, offsets):
            REC.read(self, a)
            return self._decorated._readv(a, offsets)

        def has(self, a):
            REC.read(self, a)
            return self._decorated.has(a)

        def stat(self, a):
            REC.read(self, a)
            return self._decorated.stat(a)

        def list_dir(self, a):
            REC.read(self, a)
            return self._decorated.list_dir(a)

    bt.register_transport_proto(PREFIX)
    bt.register_transport(PREFIX, CrashLogTransport)
    _registered = True


def durl(path):
    return PREFIX + "file://" + path


# --------------------------------------------------------------------------
# plan-order hook: the order in which plan_autopack_combinations processes packs

_plan_log = []


def install_plan_hook():
    from breezy.bzr import pack_repo
    cls = pack_repo.RepositoryPackCollection
    if getattr(cls, "_verif_c04_hook", False):
        return
    orig = cls.plan_autopack_combinations

    def plan_autopack_combinations(self, existing_packs, pack_distribution):
        try:
            _plan_log.append([(p.name, c) for c, p in sorted(existing_packs, reverse=True)])
        except Exception as e:   # pragma: no cover
            _plan_log.append(repr(e))
        return orig(self, existing_packs, pack_distribution)

    cls.plan_autopack_combinations = plan_autopack_combinations
    cls._verif_c04_hook = True


# --------------------------------------------------------------------------
# reading a directory copy

def split_name(fn):
    stem, _, ext = fn.partition(".")
    return stem, ext


def listing(root):
    """{(dirchar, stem, ext)} of the four pack directories of the repository in `root`"""
    rd = os.path.join(root, ".bzr", "repository")
    out = []
    for sub, ch in SUBDIRS:
        p = os.path.join(rd, sub)
        if not os.path.isdir(p):
            continue
        for fn in os.listdir(p):
            stem, ext = split_name(fn)
            out.append((ch, stem, ext))
    return out


def digest_tree(repo, rev, tree):
    items = []
    want = []
    for path, ie in tree.iter_entries_by_dir():
        if ie.kind == "file":
            want.append((path, path))
        else:
            items.append((path, ie.kind, ""))
    for path, chunks in tree.iter_files_bytes(want):
        items.append((path, "file", hashlib.sha1(b"".join(chunks)).hexdigest()))
    return (rev.message, tuple(rev.parent_ids), tuple(sorted(items)))


def digest_all(repo, ids):
    out = {}
    revs = repo.get_revisions(ids)
    for rev, tree in zip(revs, repo.revision_trees(ids)):
        out[rev.revision_id] = digest_tree(repo, rev, tree)
    return out


def inspect(root, truth=None, do_check=True):
    """open the copy with the real code -> dict(names, revs, problems)"""
    from breezy.repository import Repository
    res = dict(names=None, revs=None, problems=[])
    try:
        repo = Repository.open(root)
    except Exception as e:
        res["problems"].append("open: %s" % type(e).__name__)
        return res
    try:
        with repo.lock_read():
            res["names"] = list(repo._pack_collection.names())
            ids = sorted(repo.all_revision_ids())
            res["revs"] = ids
            try:
                dg = digest_all(repo, ids)
            except Exception as e:
                res["problems"].append("read: %s: %s" % (type(e).__name__, str(e)[:120]))
                dg = {}
            if truth is not None:
                for rid, v in dg.items():
                    if rid in truth and truth[rid] != v:
                        res["problems"].append("content of %s differs" % rid.decode())
                    if rid not in truth:
                        res["problems"].append("unknown revision %s" % rid.decode())
            if do_check:
                try:
                    chk = repo.check(None, check_repo=True)
                    bad = []
                    for attr in ("missing_inventory_sha_cnt", "missing_revision_cnt"):
                        if getattr(chk, attr, 0):
                            bad.append("%s=%d" % (attr, getattr(chk, attr)))
                    for attr in ("ghosts", "missing_parent_links", "inconsistent_parents",
                                 "revs_with_bad_parents_in_index"):
                        v = getattr(chk, attr, None)
                        if v:
                            bad.append("%s=%d" % (attr, len(v)))
                    if chk.checked_rev_cnt != len(ids):
                        bad.append("checked %d of %d revisions" % (chk.checked_rev_cnt, len(ids)))
                    if bad:
                        res["problems"].append("check: " + ",".join(bad))
                except Exception as e:
                    res["problems"].append("check: %s: %s" % (type(e).__name__, str(e)[:120]))
    except Exception as e:
        res["problems"].append("lock/list: %s: %s" % (type(e).__name__, str(e)[:120]))
    return res


# --------------------------------------------------------------------------
# building repositories

_sources = {}
NREV = 64


def source(fmt):
    """a linear history of NREV revisions (small trees), built once per format"""
    if fmt in _sources:
        return _sources[fmt]
    wt = env.make_tree(fmt)
    root = wt.basedir
    ids = []
    for i in range(NREV):
        fn = "f%d" % (i % 3)
        new = not os.path.exists(os.path.join(root, fn))
        with open(os.path.join(root, fn), "a") as f:
            f.write("line %d of %s\n" % (i, fn))
        if i == 5:
            os.mkdir(os.path.join(root, "d"))
            with open(os.path.join(root, "d", "g"), "w") as f:
                f.write("g\n")
            wt.add(["d", "d/g"])
        if new:
            wt.add([fn])
        ids.append(wt.commit("rev %d" % i, rev_id=("r%03d-%s" % (i, fmt)).encode()))
    repo = wt.branch.repository
    with repo.lock_read():
        truth = digest_all(repo, ids)
    _sources[fmt] = dict(root=root, ids=ids, truth=truth)
    return _sources[fmt]


def new_target(fmt):
    from breezy.controldir import ControlDir, format_registry
    path = env.fresh_dir("c04t")
    cd = ControlDir.create(path, format=format_registry.make_controldir(fmt))
    cd.create_repository()
    return path


def do_fetch(path, fmt, upto, decorated=False):
    """fetch the source's history up to revision index `upto` (inclusive) into the repository at path"""
    from breezy.repository import Repository
    src = source(fmt)
    s = Repository.open(src["root"])
    t = Repository.open(durl(path) if decorated else path)
    t.fetch(s, revision_id=src["ids"][upto])


def do_pack(path, clean, decorated=False, hint=None):
    from breezy.repository import Repository
    t = Repository.open(durl(path) if decorated else path)
    t.pack(hint=hint, clean_obsolete_packs=clean)


def repo_state(path):
    """(names sorted, {name: revision count}, all revision ids) read with a fresh, undecorated open"""
    from breezy.repository import Repository
    r = Repository.open(path)
    with r.lock_read():
        pc = r._pack_collection
        names = list(pc.names())
        counts = {p.name: p.get_revision_count() for p in pc.all_packs()}
        return names, counts, sorted(r.all_revision_ids())


# --------------------------------------------------------------------------
# canonicalisation

class Numbering:
    def __init__(self, listed, initial_listing):
        self.map = {}
        for n in listed:
            self.map[n] = len(self.map)
        for st in sorted({s for (_, s, _) in initial_listing}):
            if st not in self.map:
                self.map[st] = len(self.map)
        self.fresh = []

    def num(self, stem):
        if stem not in self.map:
            self.map[stem] = len(self.map)
            self.fresh.append(self.map[stem])
        return self.map[stem]

    def tok(self, ch, stem, ext):
        if ext not in EXTS:
            return "%s?%s.%s" % (ch, stem, ext)
        return "%s%d.%s" % (ch, self.num(stem), ext)

    def rel(self, relpath):
        sub, _, fn = relpath.partition("/")
        ch = dict(SUBDIRS).get(sub)
        if ch is None or "/" in fn:
            return "?%s" % relpath
        stem, ext = split_name(fn)
        return self.tok(ch, stem, ext)


def canon_event(nb, ev):
    """real transport call -> model operation token, or None (lock-directory sub step)"""
    kind, a, b, _open = ev
    if a is not None and a.startswith("lock/") or (a == "lock"):
        if kind == "rename" and b == "lock/held":
            return "lk"
        if kind == "rename" and a == "lock/held":
            return "ul"
        return None
    if kind == "ows":
        return "bw:" + nb.rel(a)
    if kind == "close":
        return "ew:" + nb.rel(a)
    if kind in ("move", "rename") and a is not None and b is not None:
        return "mv:%s>%s" % (nb.rel(a), nb.rel(b))
    if kind == "delete":
        return "rm:" + nb.rel(a)
    if kind == "put_file" and a == "pack-names":
        return "pn"
    return "??%s:%s:%s" % (kind, a, b)


def fmt_state(nb, names, lst, open_rel, locked):
    opened = {nb.rel(o) for o in open_rel}
    toks = [nb.tok(*e) for e in lst]
    files = sorted(t for t in toks if t not in opened)
    torn = sorted(t for t in toks if t in opened)
    ns = sorted(nb.num(n) for n in names)
    return "%s|%s|%s|%s" % (",".join(map(str, ns)) or "-", ",".join(files) or "-", ",".join(torn) or "-",
                            "L" if locked else "U")


# --------------------------------------------------------------------------
# fault injection: the operation FAILS with an exception at one transport call

FAULT_KINDS = ("oserror", "transport", "interrupt")
MODEL_KIND = dict(oserror="io", transport="transport", interrupt="interrupt")


def tok_class(t):
    if t is None:
        return "lock-substep"
    if t in ("lk", "ul"):
        return t
    if t.startswith("pn"):
        return "pn"
    if t.startswith("mv:u"):
        return "finish-move"
    if t.startswith("mv:"):
        return "obsolete-move"
    if t.startswith("rm:o"):
        return "clear-delete"
    if t.startswith("rm:"):
        return "upload-delete"
    return "stream-" + t[:2]


def choose_faults(sc, toks, reads, read_paths, thorough):
    """the fault points of one scenario, a deterministic function of the scenario and its fault-free
    trace.  Always: the pack-names replacement (call not performed / exception right after it) and a
    failing read between taking the names lock and the replacement; then a sample (all, in the thorough
    tier) of the other structurally distinct points (lock, unlock, first obsoleting move, first deletion
    in obsolete_packs/, the rename that finishes a pack, lock-directory sub-steps) and of all the rest."""
    import random
    rng = random.Random(1000003 * sc["idx"] + 7919 * sc.get("fseed", 0) + len(toks))
    always, crit, rest = [], [], []
    prev = None
    for k, t in enumerate(toks):
        c = tok_class(t)
        lockish = c in ("lock-substep", "lk", "ul")
        kinds = [x for x in FAULT_KINDS if not (lockish and x == "transport")]
        if c == "pn":
            always.append(dict(at="w", k=k, mode="before", kind=rng.choice(kinds)))
            always.append(dict(at="w", k=k, mode="after", kind=rng.choice(kinds)))
        elif c in ("lk", "ul", "finish-move"):
            crit.append(dict(at="w", k=k, mode="before", kind=rng.choice(kinds)))
            crit.append(dict(at="w", k=k, mode="after", kind=rng.choice(kinds)))
        elif c in ("obsolete-move", "clear-delete", "upload-delete") and c != prev:
            crit.append(dict(at="w", k=k, mode="before", kind="transport"))
            crit.append(dict(at="w", k=k, mode=rng.choice(["before", "after"]), kind=rng.choice(["oserror", "interrupt"])))
        elif c == "lock-substep" and prev != "lock-substep":
            crit.append(dict(at="w", k=k, mode=rng.choice(["before", "after"]), kind=rng.choice(kinds)))
        else:
            rest.append(dict(at="w", k=k, mode=rng.choice(["before", "after"]), kind=rng.choice(kinds)))
        prev = c
    rcrit, rrest = [], []
    for k, n in enumerate(reads):
        if not n:
            continue
        spec = dict(at="r", k=k, n=rng.randint(1, n), mode="before", kind=rng.choice(FAULT_KINDS))
        if any(pth.startswith("lock") for pth in read_paths[k]) and spec["kind"] == "transport":
            spec["kind"] = "oserror"
        if k < len(toks) and tok_class(toks[k]) == "pn":
            rcrit.append(spec)
        else:
            rrest.append(spec)
    if thorough:
        return always + crit + rcrit + rng.sample(rest, min(len(rest), 8)) + rng.sample(rrest, min(len(rrest), 3))
    return (always + rcrit + rng.sample(crit, min(len(crit), 2)) + rng.sample(rest, min(len(rest), 1))
            + rng.sample(rrest, min(len(rrest), 1)))


def _mask(t):
    """the order in which an autopack obsoletes the packs it combined follows the planner's sort of equal
    revision counts, which compares Pack objects by identity: not reproducible between two runs (the
    fault-injected run is compared with the model using its OWN plan and deletion order)"""
    if tok_class(t) == "obsolete-move":
        return "mv:%s>%s" % tuple(x[0] + x[x.index("."):] for x in t[3:].split(">"))
    if tok_class(t) == "clear-delete":
        return "rm:o"      # list_dir order: not reproducible on every file system
    return t


def prepare_op(B, root):
    """open what the operation needs (outside the recorder) -> thunk performing the operation under test"""
    sc = B["sc"]
    op = sc["op"]
    fmt = sc["fmt"]
    if sc["style"] == "tree":
        if op[0] == "c":
            from breezy.branch import Branch
            from breezy.workingtree import WorkingTree
            wt2 = WorkingTree.open(root)
            wt2._branch = Branch.open(durl(root))
            return lambda: wt2.commit("last", rev_id=("tlast-%d" % sc["idx"]).encode())
        return lambda: do_pack(root, op[1], decorated=True)
    if op[0] == "f":
        return lambda: do_fetch(root, fmt, B["upto"] + op[1], decorated=True)
    if op[0] == "ph":
        return lambda: do_pack(root, False, decorated=True, hint=sc["hint"])
    return lambda: do_pack(root, op[1], decorated=True)


def _oracle(info, revs0, revs_new):
    what = []
    if info["revs"] is None:
        what.append("repository cannot be opened/listed")
    elif info["revs"] != revs0 and info["revs"] != revs_new:
        what.append("revision set is neither the old one (%d) nor the new one (%s): %d revisions"
                    % (len(revs0), len(revs_new) if revs_new is not None else None, len(info["revs"])))
    return what + info["problems"]


def retry_fetch(root, fmt, truth, n):
    """a fresh process continues on the directory `root` (a stale lock is broken first, as `brz break-lock`
    would): fetch revision number n (the next one) -> list of problems"""
    lock = os.path.join(root, ".bzr", "repository", "lock")
    if os.path.isdir(lock):
        for fn in os.listdir(lock):
            shutil.rmtree(os.path.join(lock, fn), ignore_errors=True)
    try:
        do_fetch(root, fmt, n)
        ri = inspect(root, truth)
        want = sorted(source(fmt)["ids"][:n + 1])
        w = list(ri["problems"])
        if ri["revs"] != want:
            w.insert(0, "%s revisions listed, expected %d" % (None if ri["revs"] is None else len(ri["revs"]), n + 1))
    except Exception as e:
        w = ["raised %s: %s" % (type(e).__name__, str(e)[:160])]
    return w


def run_fault(B, spec, retry):
    """ONE fault-injected run of the scenario's operation, starting from a copy of the initial state.
    The exception is raised by the transport decorator (instead of / right after the call, or by a
    read), travels through the real error handling, and is caught here.  Oracle: the directory left
    behind - and every directory a crash DURING the error handling would leave behind - opens, lists
    the old or the new revisions, reads completely, passes check(); an operation that returned normally
    must have produced the new state; a following fetch by a fresh process must work."""
    sc = B["sc"]
    res = dict(spec=spec, violations=[], skipped=None)
    root = env.fresh_dir("c04f")
    os.rmdir(root)
    shutil.copytree(B["pristine"], root, symlinks=True)
    snapbase = env.fresh_dir("c04s")
    thunk = prepare_op(B, root)
    del _plan_log[:]
    REC.start(os.path.join(root, ".bzr", "repository"), snapbase, snapshots=False, fault=dict(spec, post=B["post"]))
    raised = None
    try:
        thunk()
    except BaseException as e:
        if REC.fired is None and not isinstance(e, Exception):
            REC.stop()
            raise
        raised = "%s: %s" % (type(e).__name__, str(e)[:160])
    finally:
        if REC.active:
            final = REC.stop()
    events, fired, open_now, post = list(REC.events), REC.fired, list(REC.open), list(REC.post_snaps)
    plan_log = list(_plan_log)
    try:
        if fired is None:
            res["skipped"] = "fault-not-reached"
            return res
        k = spec["k"]
        nb = Numbering(B["names0"], B["lst0"])
        toks = [canon_event(nb, e) for e in events]
        if [_mask(t) for t in toks[:k]] != [_mask(t) for t in B["toks"][:k]]:
            res["skipped"] = "trace-differs-before-fault"
            res["detail"] = "prefix of the faulted run differs from the fault-free run: %r vs %r" % (
                toks[:k][-3:], B["toks"][:k][-3:])
            return res
        before_w = spec["at"] == "w" and spec["mode"] == "before"
        skip = k if before_w else None
        executed = [(i, t) for i, t in enumerate(toks) if t is not None and i != skip]
        info = inspect(final, B["truth"])
        locked = os.path.isdir(os.path.join(final, ".bzr", "repository", "lock", "held"))
        st_final = fmt_state(nb, info["names"] or [], listing(final), open_now, locked)
        ex = [("pn:" + st_final.split("|")[0]) if t == "pn" else t for _, t in executed]
        res["raised"] = raised
        res["vis"] = "?" if info["revs"] is None else "O" if info["revs"] == B["revs0"] else \
            "N" if info["revs"] == B["revs_new"] else "X"
        case_at = list(events[k][:3]) if (spec["at"] == "w" and k < len(events)) else "read %d before call %d" % (spec.get("n", 0), k)
        # oracle: final state
        what = _oracle(info, B["revs0"], B["revs_new"])
        if not raised and sc["op"][0] in ("f", "c") and info["revs"] is not None and info["revs"] != B["revs_new"] \
                and not what:
            what.append("the operation returned normally but the new revisions are not listed")
        if what:
            res["violations"].append(dict(fault=spec, at=case_at, crash_in_handler=None,
                                          what="%s: %s" % ("after the operation failed with %s" % raised if raised else
                                                           "the injected exception was swallowed", "; ".join(what[:3]))))
        # oracle + state of every crash copy taken during the error handling
        snaps_states = []
        for pj, (e, sd) in enumerate(post):
            pi = inspect(sd, B["truth"], do_check=(pj == 0 or sc.get("thorough", False)))
            lk = os.path.isdir(os.path.join(sd, ".bzr", "repository", "lock", "held"))
            w = _oracle(pi, B["revs0"], B["revs_new"])
            if w:
                res["violations"].append(dict(fault=spec, at=case_at, crash_in_handler=e - k,
                                              what="crash %d call(s) into the error handling after %s: %s"
                                              % (e - k, raised, "; ".join(w[:3]))))
            nex = sum(1 for i, _ in executed if i < e)
            snaps_states.append((nex, fmt_state(nb, pi["names"] or [], listing(sd), events[e][3], lk)))
        res["crash_copies"] = len(post)
        # model request: position in the fault-free operation list.  Calls and reads of the lock
        # directory protocol are sub-steps of the model's `lock` / `unlock`: before the rename that takes
        # the lock = `lock` not performed; after it = exception raised by lock_names() after the lock
        # was taken; before the rename that releases it = `unlock` not performed; after it = exception
        # raised by unlock after it took effect.
        base_toks = B["toks"]
        pos = sum(1 for t in base_toks[:k] if t is not None)
        j = k - 1
        while j >= 0 and base_toks[j] is None:
            j -= 1
        prev_tok = base_toks[j] if j >= 0 else None
        next_tok = next((t for t in base_toks[k:] if t is not None), None)
        t2_skip = None

        def lock_phase():
            if prev_tok in ("ul", "lk"):
                return pos - 1, "A"
            if next_tok in ("ul", "lk"):
                return pos, "B"
            return None

        if spec["at"] == "w":
            mmode = "A" if spec["mode"] == "after" else "B"
            mkind = MODEL_KIND[spec["kind"]]
            if k < len(base_toks) and base_toks[k] is None:
                ph = lock_phase()
                if ph is None:
                    t2_skip = "lock-substep-unplaced"
                else:
                    pos, mmode = ph
        else:
            pth = B["read_paths"][k][spec["n"] - 1] if spec["n"] - 1 < len(B["read_paths"][k]) else ""
            mmode, mkind = "B", "read"
            if pth.startswith("lock"):
                ph = lock_phase()
                if ph is None:
                    t2_skip = "lock-read-unplaced"
                else:
                    (pos, mmode), mkind = ph, MODEL_KIND[spec["kind"]]
            elif next_tok is None:
                # a read after the last mutating call: everything was executed; whether the exception
                # leaves the operation is decided outside pack_repo.py
                t2_skip = "read-after-last-call"
        if spec["at"] == "r" and not raised and t2_skip is None and mkind == "read":
            # the exception of a read issued by the index / knit layer never reached the operation (it was
            # handled there, e.g. a missing compression parent on pack-0.92): outside pack_repo.py's error
            # handling; the oracle (a completed operation must show the new state) still applies
            t2_skip = "read-fault-handled-upstream"
        if any(t is not None and t[:4] in ("bw:u", "ew:u") and t.split(".")[-1] in ("rix", "iix", "tix", "six", "cix")
               for t in toks):
            # the stream sink swallowed the exception and SUSPENDED the write group (indices written
            # into upload/): resumable write groups are not part of the model
            t2_skip = "write-group-suspended"
        ordt = [t[3:] for t in toks if t is not None and t.startswith("rm:o")]
        res["cls"] = ("read:" if spec["at"] == "r" else spec["mode"] + ":") + \
            (tok_class(base_toks[k]) if k < len(base_toks) else "end")
        if len(set(ordt)) != len(ordt):
            t2_skip = "duplicate-delete"      # the same file deleted twice: the list_dir order is not a permutation
        res["t2_skip"] = t2_skip
        if t2_skip:
            res["t2"] = None
        else:
            req = model_request(sc, nb, B["names0"], B["counts0"], B["lst0"], events, plan_log, ex, base=B["req"])
            res["t2"] = dict(line=request_line(req, fault=(ordt, pos, mmode, mkind)),
                             flag="R" if raised else "C", ops=ex, final=st_final, snaps=snaps_states)
        # a fresh process continues after the failure
        if retry and sc["style"] != "tree" and info["revs"] is not None and not what and len(info["revs"]) < NREV:
            w = retry_fetch(final, sc["fmt"], B["truth"], len(info["revs"]))
            res["retried"] = True
            if w:
                res["violations"].append(dict(fault=spec, at=case_at, crash_in_handler=None,
                                              what="fetching one more revision after the failed operation (%s): %s"
                                              % (raised, "; ".join(w[:3]))))
        return res
    finally:
        shutil.rmtree(snapbase, ignore_errors=True)
        shutil.rmtree(root, ignore_errors=True)


def fault_runs(B):
    sc = B["sc"]
    thorough = sc.get("thorough", False)
    B["post"] = 16 if thorough else 4
    specs = choose_faults(sc, B["toks"], B["reads"], B["read_paths"], thorough)
    if sc.get("only_fault") is not None:
        specs = [sc["only_fault"]]
    out = []
    nretry = 0
    for spec in specs:
        retry = nretry < (8 if thorough else 1)
        r = run_fault(B, spec, retry)
        nretry += 1 if r.get("retried") else 0
        out.append(r)
    return out


# --------------------------------------------------------------------------
# one scenario

def build_initial(ctx_seed, sc):
    """run the build script of a scenario; returns the repository path"""
    fmt = sc["fmt"]
    path = new_target(fmt)
    upto = -1
    for step in sc["build"]:
        if step[0] == "f":
            upto += step[1]
            do_fetch(path, fmt, upto)
        elif step[0] == "p":
            do_pack(path, step[1])
        elif step[0] == "crash":
            # perform an operation under the recorder and continue from the crash copy number step[2]
            op = step[1]
            snapbase = env.fresh_dir("c04s")
            register()
            REC.start(os.path.join(path, ".bzr", "repository"), snapbase)
            try:
                if op[0] == "f":
                    do_fetch(path, fmt, upto + op[1], decorated=True)
                else:
                    do_pack(path, op[1], decorated=True)
            finally:
                final = REC.stop()
            snaps = REC.snaps + [final]
            k = step[2] % len(snaps)
            newpath = env.fresh_dir("c04t")
            os.rmdir(newpath)
            shutil.copytree(snaps[k], newpath)
            # a crashed process leaves its lock directory behind only if it held it; break it
            lock = os.path.join(newpath, ".bzr", "repository", "lock")
            for fn in os.listdir(lock):
                shutil.rmtree(os.path.join(lock, fn), ignore_errors=True)
            shutil.rmtree(snapbase, ignore_errors=True)
            shutil.rmtree(path, ignore_errors=True)
            path = newpath
            _n, _c, revs = repo_state(path)
            upto = len(revs) - 1
    return path, upto


def gen_scenario(rng, i):
    fmt = "2a" if i % 3 != 2 else "pack-0.92"
    build = []
    total = 0
    style = rng.choice(["ones", "chunks", "chunks", "mixed", "tree"])
    if style == "tree":
        n = rng.choice([0, 1, 2, 8, 9, 9, 10])
        return dict(fmt=fmt, style="tree", ncommits=n, op=rng.choice([["c"], ["c"], ["p", False], ["p", True]]), idx=i,
                    fseed=rng.randrange(1 << 20))
    budget = rng.choice([0, 3, 9, 9, 12, 19, 19, 24, 29])
    while total < budget:
        if style == "ones":
            k = 1
        elif style == "chunks":
            k = rng.choice([1, 1, 2, 3, 5, 8])
        else:
            k = rng.choice([1, 1, 1, 2, 4])
        k = min(k, budget - total)
        build.append(["f", k])
        total += k
        if rng.random() < 0.07:
            build.append(["p", rng.random() < 0.5])
    if rng.random() < 0.3 and total + 12 < NREV:
        # continue from a crash copy of an operation
        cop = rng.choice([["f", rng.choice([1, 1, 2, 10 - total % 10 if total % 10 else 1])], ["p", False], ["p", True]])
        build.append(["crash", cop, rng.randrange(0, 200)])
    r = rng.random()
    if r < 0.55:
        # aim at the autopack trigger
        k = rng.choice([1, 1, 2, 3, max(1, 10 - total % 10), max(1, 10 - total % 10)])
        op = ["f", k]
    elif r < 0.70:
        op = ["p", False]
    elif r < 0.84:
        op = ["p", True]
    else:
        # pack(hint=[one pack]); `twice`: the hinted pack is the result of a previous pack(hint)
        op = ["ph", rng.randrange(0, 50), rng.random() < 0.6]
    return dict(fmt=fmt, style=style, build=build, op=op, idx=i, fseed=rng.randrange(1 << 20))


def run_scenario(sc):
    """executes one scenario; returns a dict with everything the comparison needs (picklable)"""
    register()
    install_plan_hook()
    fmt = sc["fmt"]
    out = dict(sc=sc, error=None)
    try:
        if sc["style"] == "tree":
            return run_tree_scenario(sc, out)
        path, upto = build_initial(0, sc)
        src = source(fmt)
        truth = src["truth"]
        op = sc["op"]
        if op[0] == "f":
            if upto + op[1] >= NREV:
                op = sc["op"] = ["f", max(1, NREV - 1 - upto)]
            if upto + op[1] >= NREV:
                out["error"] = "history exhausted"
                return out
        hint = None
        if op[0] == "ph":
            names_b, _c, _r = repo_state(path)
            if not names_b:
                out["error"] = "no pack to hint at"
                return out
            hint = [names_b[op[1] % len(names_b)]]
            if op[2]:
                try:
                    do_pack(path, False, hint=hint)
                except Exception as e:
                    out["prep_raised"] = "%s: %s" % (type(e).__name__, str(e)[:200])
                names_a, _c, _r = repo_state(path)
                new = [n for n in names_a if n not in names_b]
                hint = [new[0]] if new else hint
        names0, counts0, revs0 = repo_state(path)
        lst0 = listing(path)
        snapbase = env.fresh_dir("c04s")
        pristine = env.fresh_dir("c04p")
        os.rmdir(pristine)
        shutil.copytree(path, pristine, symlinks=True)
        del _plan_log[:]
        REC.start(os.path.join(path, ".bzr", "repository"), snapbase)
        raised = None
        sc = dict(sc, hint=hint)
        out["sc"] = sc
        try:
            if op[0] == "f":
                do_fetch(path, fmt, upto + op[1], decorated=True)
            elif op[0] == "ph":
                do_pack(path, False, decorated=True, hint=hint)
            else:
                do_pack(path, op[1], decorated=True)
        except Exception as e:
            raised = "%s: %s" % (type(e).__name__, str(e)[:200])
        finally:
            final = REC.stop()
        base_events, base_reads, base_paths = list(REC.events), list(REC.reads), [list(x) for x in REC.read_paths]
        out.update(analyse(sc, path, names0, counts0, revs0, lst0, base_events, REC.snaps + [final],
                           list(_plan_log), truth, raised))
        revs_new = out.pop("revs_new_ids")
        if not raised and not sc.get("no_faults"):
            nb0 = Numbering(names0, lst0)
            out["faults"] = fault_runs(dict(
                sc=sc, pristine=pristine, names0=names0, counts0=counts0, lst0=lst0, revs0=revs0, revs_new=revs_new,
                truth=truth, toks=[canon_event(nb0, e) for e in base_events], reads=base_reads,
                read_paths=base_paths, req=out["req"], upto=upto))
        shutil.rmtree(pristine, ignore_errors=True)
        if out.get("prep_raised"):
            out["violations"].append(dict(k=None, what="pack(hint=%r) on the freshly built repository raised %s"
                                          % (hint, out["prep_raised"])))
        shutil.rmtree(snapbase, ignore_errors=True)
        shutil.rmtree(path, ignore_errors=True)
    except Exception as e:
        import traceback
        out["error"] = "%s: %s\n%s" % (type(e).__name__, e, traceback.format_exc()[-1500:])
    return out


def run_tree_scenario(sc, out):
    """real working-tree commits (one revision per pack)"""
    from breezy.branch import Branch
    from breezy.workingtree import WorkingTree
    fmt = sc["fmt"]
    wt = env.make_tree(fmt)
    root = wt.basedir
    for i in range(sc["ncommits"]):
        with open(os.path.join(root, "f"), "a") as f:
            f.write("%d\n" % i)
        if i == 0:
            wt.add(["f"])
        wt.commit("t%d" % i, rev_id=("t%03d-%d" % (i, sc["idx"])).encode())
    names0, counts0, revs0 = repo_state(root)
    lst0 = listing(root)
    op = sc["op"]
    snapbase = env.fresh_dir("c04s")
    del _plan_log[:]
    raised = None
    with open(os.path.join(root, "f"), "a") as f:
        f.write("last\n")
    if sc["ncommits"] == 0:
        wt.add(["f"])
    pristine = env.fresh_dir("c04p")
    os.rmdir(pristine)
    shutil.copytree(root, pristine, symlinks=True)
    wt2 = WorkingTree.open(root)
    if op[0] == "c":
        wt2._branch = Branch.open(durl(root))
    REC.start(os.path.join(root, ".bzr", "repository"), snapbase)
    try:
        if op[0] == "c":
            wt2.commit("last", rev_id=("tlast-%d" % sc["idx"]).encode())
        else:
            do_pack(root, op[1], decorated=True)
    except Exception as e:
        raised = "%s: %s" % (type(e).__name__, str(e)[:200])
    finally:
        final = REC.stop()
    # source of truth: the finished repository, read by a fresh plain open
    truth = None
    try:
        from breezy.repository import Repository
        r = Repository.open(root)
        with r.lock_read():
            truth = digest_all(r, sorted(r.all_revision_ids()))
    except Exception as e:
        raised = (raised or "") + " final state unreadable: %s" % type(e).__name__
    base_events, base_reads, base_paths = list(REC.events), list(REC.reads), [list(x) for x in REC.read_paths]
    out.update(analyse(sc, root, names0, counts0, revs0, lst0, base_events, REC.snaps + [final],
                       list(_plan_log), truth, raised))
    revs_new = out.pop("revs_new_ids")
    if not raised and not sc.get("no_faults"):
        nb0 = Numbering(names0, lst0)
        out["faults"] = fault_runs(dict(
            sc=sc, pristine=pristine, names0=names0, counts0=counts0, lst0=lst0, revs0=revs0, revs_new=revs_new,
            truth=truth, toks=[canon_event(nb0, e) for e in base_events], reads=base_reads,
            read_paths=base_paths, req=out["req"], upto=None))
    shutil.rmtree(pristine, ignore_errors=True)
    shutil.rmtree(snapbase, ignore_errors=True)
    shutil.rmtree(root, ignore_errors=True)
    return out


def _J(l):
    return ",".join(map(str, l)) or "-"


def model_request(sc, nb, names0, counts0, lst0, events, plan_log, ops, base=None):
    """the arguments of the model request describing the operation of a run.  `base` = the request of
    the fault-free run of the same scenario: a run cut short by an injected fault takes from it what
    it did not get to (names of packs not yet created, the plan, whether the packer found the pack
    already optimal); the canonical numbering of both runs agrees up to the fault."""
    fmt = sc["fmt"]
    op = sc["op"]
    req = dict(chk="T" if fmt == "2a" else "F", listed=[nb.map[n] for n in names0],
               files=sorted(nb.tok(*e) for e in lst0))
    # roles: the k-th upload stream and the pack whose indices are written right after it
    fresh = []
    for ev in events:
        if ev[0] == "ows" and ev[1] is not None:
            sub, _, fn = ev[1].partition("/")
            stem = split_name(fn)[0]
            if sub == "upload":
                fresh.append(nb.num(stem))
            elif sub == "indices" and len(fresh) % 2 == 1:
                fresh.append(nb.num(stem))
    if base is not None:
        fresh = fresh + base["fresh"][len(fresh):]
    if len(fresh) % 2 == 1:
        fresh.append(len(nb.map) + 50)
    basen = len(nb.map)
    if op[0] in ("f", "c"):
        req["kind"] = "commit"
        while len(fresh) < 4:
            fresh.append(basen + len(fresh) + 100)
        new0 = fresh[1]
        newcount = op[1] if op[0] == "f" else 1
        if plan_log and isinstance(plan_log[-1], list):
            counts = [(nb.map.get(n, new0), c) for (n, c) in plan_log[-1]]
            seen = {n for n, _ in counts}
            counts += [(nb.map[n], counts0.get(n, 0)) for n in names0 if nb.map[n] not in seen]
        elif base is not None:
            counts = base["counts"]
        else:
            counts = [(nb.map[n], counts0.get(n, 0)) for n in names0] + [(new0, newcount)]
        req["counts"] = [list(c) for c in counts]
        req["fresh"] = fresh[:4]
    else:
        req["kind"] = "pack"
        while len(fresh) < 2:
            fresh.append(basen + len(fresh) + 100)
        # the packer aborted (single pack already optimal): upload file deleted, no new pack
        req["optimal"] = base["optimal"] if base is not None else any(t.startswith("rm:u") for t in ops)
        req["hint"] = "~" if op[0] == "p" else _J([nb.map[h] for h in sc["hint"] if h in nb.map])
        req["clean"] = bool(op[0] == "p" and op[1])
        req["fresh"] = fresh[:2]
    return req


def request_line(req, fault=None):
    """protocol line of the driver; `fault` = (ord tokens, pos, "B"|"A", kind) for the fault variant"""
    T = lambda b: "T" if b else "F"
    if req["kind"] == "commit":
        line = "commit %s %s %s - %s %s %s %s" % (req["chk"], _J(req["listed"]), _J(req["files"]), _J(req["listed"]),
                                                  _J(req["listed"]), ",".join("%d:%d" % tuple(c) for c in req["counts"]),
                                                  _J(req["fresh"]))
    else:
        line = "pack %s %s %s - %s %s %s %s %s %s" % (req["chk"], _J(req["listed"]), _J(req["files"]), _J(req["listed"]),
                                                      _J(req["listed"]), req["hint"], T(req["optimal"]), T(req["clean"]),
                                                      _J(req["fresh"]))
    if fault is not None:
        ordt, pos, mode, kind = fault
        line = ("cfault" if req["kind"] == "commit" else "pfault") + line[line.index(" "):] + " %s %d %s %s" % (
            _J(ordt), pos, mode, kind)
    return line


def analyse(sc, path, names0, counts0, revs0, lst0, events, snaps, plan_log, truth, raised):
    """oracle on every crash copy + canonical trace / states for the model comparison"""
    fmt = sc["fmt"]
    res = dict(raised=raised, violations=[], nsnaps=len(snaps))
    nb = Numbering(names0, lst0)
    # final state
    fin = inspect(snaps[-1], truth)
    revs_new = fin["revs"]
    res["revs_old"] = len(revs0)
    res["revs_new"] = len(revs_new) if revs_new is not None else None
    res["revs_new_ids"] = revs_new
    if raised:
        res["violations"].append(dict(k=len(snaps) - 1, what="operation raised %s" % raised))
    if fin["problems"]:
        res["violations"].append(dict(k=len(snaps) - 1, what="final state: %s" % "; ".join(fin["problems"][:3])))
    op = sc["op"]
    if op[0] in ("f", "c") and revs_new is not None and not raised:
        exp = len(revs0) + (op[1] if op[0] == "f" else 1)
        if len(revs_new) != exp or not set(revs0) <= set(revs_new):
            res["violations"].append(dict(k=len(snaps) - 1, what="after the operation %d revisions are listed, expected %d"
                                          % (len(revs_new), exp)))
    if op[0] in ("p", "ph") and revs_new is not None and revs_new != revs0:
        res["violations"].append(dict(k=len(snaps) - 1, what="pack changed the revision set"))
    # every crash copy
    ops = []
    states = []          # state string for each model prefix
    per_snap = []
    nops = 0
    thorough = sc.get("thorough", False)
    near = set()
    for k, ev in enumerate(events):
        if ev[0] == "put_file" or (ev[1] or "").startswith("lock") or ev[0] in ("ows", "close", "delete"):
            near.update(range(k - 2, k + 4))
    # crash-then-retry copies: right before and right after the pack-names replacement
    retry_at = set()
    for k, ev in enumerate(events):
        if ev[0] == "put_file" and ev[1] == "pack-names":
            retry_at.update((k, k + 1))
    for k, snap in enumerate(snaps):
        ev = events[k] if k < len(events) else None
        open_rel = ev[3] if ev is not None else ()
        # check() on every copy near a pack-names replacement / lock step and on every third copy of the
        # long obsolete-move phases (all of them in the thorough tier); revisions, trees and texts are
        # read on every copy
        full_check = thorough or k in near or k % 3 == 0 or k >= len(snaps) - 2
        info = inspect(snap, truth, do_check=full_check)
        locked = os.path.isdir(os.path.join(snap, ".bzr", "repository", "lock", "held"))
        what = []
        if info["revs"] is None:
            what.append("repository cannot be opened/listed")
        elif info["revs"] != revs0 and info["revs"] != revs_new:
            what.append("revision set is neither the old one (%d) nor the new one (%s): %d revisions"
                        % (len(revs0), res["revs_new"], len(info["revs"])))
        what += info["problems"]
        if what:
            res["violations"].append(dict(k=k, at=(list(ev[:3]) if ev else "end"), what="; ".join(what[:3])))
        # torn-write variants: every file that is open for writing truncated (to zero / to half its
        # length) in place in the copy (open files are real copies, not links), then restored
        torn_now = [(o, (0, 2)[(k + oi) % 2]) for oi, o in enumerate(open_rel)]
        if k >= 1 and events[k - 1][0] in NONATOMIC:
            # the previous call rewrote a file in place: a crash inside that call leaves it truncated
            tgt = events[k - 1][2] if events[k - 1][0] == "copy" else events[k - 1][1]
            if tgt is not None:
                torn_now += [(tgt, 0), (tgt, 2)]
        for o, frac in torn_now:
            p = os.path.join(snap, ".bzr", "repository", o)
            try:
                with open(p, "rb") as f:
                    data = f.read()
                if os.stat(p).st_nlink != 1:
                    os.unlink(p)
                with open(p, "wb") as f:
                    f.write(data[: (len(data) // frac if frac else 0)])
            except OSError:
                continue
            vi = inspect(snap, truth, do_check=full_check)
            with open(p, "wb") as f:
                f.write(data)
            w = []
            if vi["revs"] is None:
                w.append("repository cannot be opened/listed")
            elif vi["revs"] != revs0 and vi["revs"] != revs_new:
                w.append("revision set is neither old nor new (%d revisions)" % len(vi["revs"]))
            w += vi["problems"]
            if w:
                res["violations"].append(dict(k=k, torn=o, frac=frac, at=(list(ev[:3]) if ev else "end"),
                                              what="torn %s: %s" % (o, "; ".join(w[:3]))))
            res["torn_variants"] = res.get("torn_variants", 0) + 1
        if ev is not None and ev[0] == "put_file" and ev[1] == "pack-names" and k + 1 < len(snaps):
            # a crash INSIDE the atomic put_file: LocalTransport writes `.tmpXXXXXX` next to pack-names and
            # renames it; the temporary file (half written) is left behind, pack-names is still the old one
            tmpf = os.path.join(snap, ".bzr", "repository", ".tmpVerif0")
            try:
                with open(os.path.join(snaps[k + 1], ".bzr", "repository", "pack-names"), "rb") as f:
                    data = f.read()
            except OSError:
                data = b""
            with open(tmpf, "wb") as f:
                f.write(data[: len(data) // 2])
            vi = inspect(snap, truth, do_check=True)
            os.unlink(tmpf)
            w = _oracle(vi, revs0, revs_new)
            if vi["revs"] is not None and vi["revs"] != info["revs"]:
                w.append("the leftover temporary file changes the listed revisions")
            if w:
                res["violations"].append(dict(k=k, torn=".tmp (put_file)", at=list(ev[:3]),
                                              what="temporary file of put_file(pack-names) left behind: %s" % "; ".join(w[:3])))
            res["putfile_tmp_variants"] = res.get("putfile_tmp_variants", 0) + 1
        if (sc["style"] != "tree" and info["revs"] is not None and not what and len(info["revs"]) < NREV
                and (k in retry_at or (thorough and k % 4 == 1))):
            # crash, then retry: a fresh process fetches the next revision into a real copy of this crash copy
            rc = env.fresh_dir("c04r")
            os.rmdir(rc)
            shutil.copytree(snap, rc)
            w = retry_fetch(rc, fmt, truth, len(info["revs"]))
            shutil.rmtree(rc, ignore_errors=True)
            res["retries"] = res.get("retries", 0) + 1
            if w:
                res["violations"].append(dict(k=k, at=(list(ev[:3]) if ev else "end"),
                                              what="fetching one more revision after this crash: %s" % "; ".join(w[:3])))
        st = fmt_state(nb, info["names"] or [], listing(snap), open_rel, locked)
        vis = "?" if info["revs"] is None else ("O" if info["revs"] == revs0 else "N" if info["revs"] == revs_new else "X")
        per_snap.append((nops, st, vis))
        if ev is not None:
            tok = canon_event(nb, ev)
            if tok is not None:
                ops.append(tok)
                nops += 1
    # pn tokens get the names of the following state
    states = {}
    inconsistent = []
    for (j, st, vis) in per_snap:
        if j in states and states[j] != st:
            inconsistent.append(j)
        states.setdefault(j, st)
    for j, tok in enumerate(ops):
        if tok == "pn":
            nxt = states.get(j + 1, "?|")
            ops[j] = "pn:" + nxt.split("|")[0]
    res["ops"] = ops
    res["states"] = [states.get(j, "?") for j in range(nops + 1)]
    res["vis"] = "".join(v for (_, _, v) in per_snap)
    res["inconsistent"] = inconsistent
    # model request
    req = model_request(sc, nb, names0, counts0, lst0, events, plan_log, ops)
    line = request_line(req)
    res["req"] = req
    if req["kind"] == "pack" and req["fresh"][1] in req["listed"]:
        res["collision"] = True     # distribution counter only: a pack was finished onto a listed name
    res["line"] = line
    # the order in which _clear_obsolete_packs deletes is the order of list_dir: runs of deletions in
    # obsolete_packs/ are compared as sets (after checking that each one removes exactly its file)
    for j, tok in enumerate(ops):
        if tok.startswith("rm:o"):
            a, b = res["states"][j].split("|"), res["states"][j + 1].split("|")
            fa = [x for x in a[1].split(",") if x != tok[3:]]
            if a[0] != b[0] or (",".join(fa) or "-") != b[1] or a[2:] != b[2:]:
                res["inconsistent"].append(j)
    cops, cstates = collapse(ops, res["states"])
    res["impl"] = "%s %s" % (";".join(cops) or "-", "/".join(cstates))
    res["autopack"] = bool(plan_log)
    res["pn"] = sum(1 for t in ops if t.startswith("pn"))
    return res


# --------------------------------------------------------------------------

def collapse(ops, states):
    out_ops, out_states = [], [states[0]]
    i = 0
    while i < len(ops):
        if ops[i].startswith("rm:o"):
            j = i
            while j < len(ops) and ops[j].startswith("rm:o"):
                j += 1
            out_ops.append("rmset:" + ",".join(sorted(t[3:] for t in ops[i:j])))
            out_states.append(states[j])
            i = j
        else:
            out_ops.append(ops[i])
            out_states.append(states[i + 1])
            i += 1
    return out_ops, out_states


def collapse_reply(m):
    o, _, st = m.partition(" ")
    if not st:
        return m
    ops = [] if o == "-" else o.split(";")
    states = st.split("/")
    if len(states) != len(ops) + 1:
        return m
    cops, cstates = collapse(ops, states)
    return "%s %s" % (";".join(cops) or "-", "/".join(cstates))


def _first_diff(a, b):
    ao, _, as_ = a.partition(" ")
    bo, _, bs = b.partition(" ")
    if ao != bo:
        x, y = ao.split(";"), bo.split(";")
        for i in range(max(len(x), len(y))):
            xi = x[i] if i < len(x) else None
            yi = y[i] if i < len(y) else None
            if xi != yi:
                return "op %d: impl=%s model=%s" % (i, xi, yi)
    x, y = as_.split("/"), bs.split("/")
    for i in range(max(len(x), len(y))):
        xi = x[i] if i < len(x) else None
        yi = y[i] if i < len(y) else None
        if xi != yi:
            return "state after %d ops: impl=%s model=%s" % (i, xi, yi)
    return "equal"


BENIGN_ERRORS = ("history exhausted", "no pack to hint at")


def scenario_error(ctx, sc, err):
    """a scenario that could not be run at all.  Benign: the generator asked for more history than the
    source has / a hint on an empty repository.  Raised inside breezy (last traceback frame outside the
    harness): building a history by fetches / packs / continuing from a crash copy failed without any
    crash of the operation under test -> the property fails for that scenario.  Anything else is an
    infrastructure problem (exit 2)."""
    if err in BENIGN_ERRORS:
        ctx.count("scenario-skipped:" + err.replace(" ", "-"))
        return
    ctx.count("scenario-error")
    ctx.extra.setdefault("scenario_errors", []).append(err[:300])
    import re
    frames = re.findall(r'File "([^"]+)", line', err)
    if frames and "/harness/" not in frames[-1]:
        ctx.violation(dict(scenario=dict(sc, no_faults=True)),
                      "running the scenario (no crash injected) raised %s" % err.split("\n")[0][:300])
    else:
        raise env.InfraError("C04 scenario %r failed inside the harness: %s" % (sc.get("idx"), err[-600:]))


def process(ctx, results):
    cases, lines, impls = [], [], []
    fcases, flines, fimpls = [], [], []
    for r in results:
        sc = r["sc"]
        if r.get("error"):
            scenario_error(ctx, sc, r["error"])
            continue
        case = dict(scenario=sc)
        ctx.count("op:%s" % ("fetch" if sc["op"][0] == "f" else "commit" if sc["op"][0] == "c" else
                             "pack-hint" if sc["op"][0] == "ph" else "pack-clean" if sc["op"][1] else "pack"))
        if r.get("collision"):
            ctx.count("new-pack-name-already-listed")
        ctx.count("fmt:%s" % sc["fmt"])
        ctx.count("autopack" if r["autopack"] else "no-autopack")
        ctx.count("crash-copies", r["nsnaps"])
        ctx.count("torn-variants", r.get("torn_variants", 0))
        ctx.count("put_file-temp-variants", r.get("putfile_tmp_variants", 0))
        ctx.count("crash-then-fetch", r.get("retries", 0))
        ctx.count("ops:%d" % (10 * (len(r["ops"]) // 10)))
        if any(s[0] == "crash" for s in sc.get("build", [])):
            ctx.count("starts-from-crash-copy")
        for k in range(r["nsnaps"]):
            ctx.case(dict(ops=r["ops"], init=r["states"][0] if r["states"] else "", k=k), nontrivial=r["pn"] > 0)
        for v in r["violations"]:
            ctx.violation(dict(scenario=dict(sc, no_faults=True), crash_index=v.get("k"), at=v.get("at"),
                               torn=v.get("torn")), v["what"])
        if r["inconsistent"]:
            ctx.mismatch(case, "directory changed during lock sub-steps at prefixes %r" % r["inconsistent"], "-")
        if "X" in r["vis"] or "?" in r["vis"]:
            pass   # already a violation
        cases.append(case)
        lines.append(r["line"])
        impls.append(r["impl"])
        # fault-injected runs of the same operation
        for fr in r.get("faults", []):
            spec = fr["spec"]
            fcase = dict(scenario=dict(sc, only_fault=spec), fault=spec)
            ctx.count("fault-runs")
            if fr.get("skipped"):
                ctx.count("fault-skipped:" + fr["skipped"])
                if fr["skipped"] == "trace-differs-before-fault":
                    ctx.mismatch(fcase, fr.get("detail"), "(deterministic prefix expected)")
                continue
            ctx.count("fault-at:" + fr["cls"])
            ctx.count("fault-kind:" + spec["kind"])
            ctx.count("fault-outcome:%s-%s" % ("raised" if fr["raised"] else "completed", fr["vis"]))
            ctx.count("fault-handler-crash-copies", fr.get("crash_copies", 0))
            if fr.get("retried"):
                ctx.count("fault-then-fetch")
            ctx.case(dict(ops=r["ops"], init=r["states"][0] if r["states"] else "", fault=spec),
                     nontrivial=r["pn"] > 0)
            for v in fr["violations"]:
                ctx.violation(dict(scenario=dict(sc, only_fault=spec), fault=spec, at=v.get("at"),
                                   crash_in_handler=v.get("crash_in_handler")), v["what"])
            if fr.get("t2") is None:
                ctx.count("fault-t2-skipped:%s" % fr.get("t2_skip"))
                continue
            fcases.append(fcase)
            flines.append(fr["t2"]["line"])
            fimpls.append(fr["t2"])
    if lines and ctx.model_available:
        outs = ctx.model(lines + flines)
        for c, l, i, m in zip(cases, lines, impls, outs):
            ctx.traces += 1
            m = collapse_reply(m)
            if i != m:
                ctx.mismatch(c, _first_diff(i, m), "(see impl)", line=l[:400])
        for c, l, i, m in zip(fcases, flines, fimpls, outs[len(lines):]):
            ctx.traces += 1
            d = fault_diff(i, m)
            if d:
                ctx.mismatch(c, d, "(see impl)", line=l[:400])


def fault_diff(i, m):
    """impl (dict flag/ops/final/snaps) against the model reply `R|C op;op;… state/state/…`"""
    parts = m.split(" ")
    if len(parts) != 3 or parts[0] not in ("R", "C"):
        return "model reply: %s" % m[:100]
    mops = [] if parts[1] == "-" else parts[1].split(";")
    mstates = parts[2].split("/")
    if mops != i["ops"]:
        for j in range(max(len(mops), len(i["ops"]))):
            a = i["ops"][j] if j < len(i["ops"]) else None
            b = mops[j] if j < len(mops) else None
            if a != b:
                return "executed operation %d: impl=%s model=%s (impl executed %d, model %d)" % (
                    j, a, b, len(i["ops"]), len(mops))
    if parts[0] != i["flag"]:
        return "impl %s, model %s" % ("raised" if i["flag"] == "R" else "completed",
                                      "raises" if parts[0] == "R" else "completes")
    if mstates[-1] != i["final"]:
        return "final state: impl=%s model=%s" % (i["final"], mstates[-1])
    for nex, st in i["snaps"]:
        if nex >= len(mstates) or mstates[nex] != st:
            return "state after %d executed operations (crash in the error handling): impl=%s model=%s" % (
                nex, st, mstates[nex] if nex < len(mstates) else None)
    return None


def run(ctx, n=None):
    register()
    n = n or ctx.pick(22, 150)
    rng = ctx.rng
    scs = [gen_scenario(rng, i) for i in range(n)]
    for sc in scs:
        sc["thorough"] = ctx.tier == "thorough"
    # the sources are built before forking
    for fmt in ("2a", "pack-0.92"):
        try:
            source(fmt)
        except Exception as e:
            # plain commits / reading back what was committed fail: the property fails without any crash
            ctx.violation(dict(scenario=dict(fmt=fmt, style="source", op=["c"], note="%d successive working-tree "
                                             "commits, then reading every revision back" % NREV)),
                          "a linear history cannot be built and read back: %s: %s" % (type(e).__name__, str(e)[:200]))
            return
    results = ctx.pmap(run_scenario, scs, chunksize=1)
    process(ctx, results)


def widen(ctx):
    run(ctx, n=48)


def replay(ctx, case):
    register()
    if case["scenario"].get("style") == "source":
        try:
            source(case["scenario"]["fmt"])
            return dict(scenario=case["scenario"], oracle_failures=[])
        except Exception as e:
            ctx.violation(case, "a linear history cannot be built and read back: %s" % type(e).__name__)
            return dict(scenario=case["scenario"], oracle_failures=[repr(e)[:300]])
    for fmt in ("2a", "pack-0.92"):
        source(fmt)
    r = run_scenario(case["scenario"])
    process(ctx, [r])
    faults = [dict(fault=fr["spec"], raised=fr.get("raised"), revisions_after={"O": "old", "N": "new", "X": "NEITHER",
                                                                                "?": "UNREADABLE"}.get(fr.get("vis")),
                   executed=(fr.get("t2") or {}).get("ops"), oracle_failures=fr.get("violations"),
                   skipped=fr.get("skipped")) for fr in r.get("faults", [])]
    return dict(scenario=case["scenario"], impl_ops=r.get("ops"), model_line=r.get("line"),
                visibility_per_crash_copy=r.get("vis"), oracle_failures=r.get("violations"),
                fault_injected_runs=faults,
                error=r.get("error"), mismatches=[m for m in ctx.mismatches if m][:3])
