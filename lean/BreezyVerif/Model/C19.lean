import BreezyVerif.Common
import BreezyVerif.Model.C18
/-
C19 — text conflicts are reported exactly when conflict markers are written.

Model of

* `breezy/merge.py: Merge3Merger.text_merge` — the *sentinel* start marker,
  extended with `!` until no BASE/OTHER/THIS line starts with it, the call of
  `merge3.Merge3.merge_lines` with that marker, the `iter_merge3` post-pass
  (`line.startswith(start_marker)` sets the `text_conflicts` flag and the line
  becomes `b"<" * 7 + line[len(start_marker):]`), the conflict record and the
  `_dump_conflicts` / `_conflict_file` helper files `.BASE/.THIS/.OTHER`;
* the content decision of `_do_merge_contents` / `merge_contents` in front of
  it (`_three_way` on the three contents; text merge only when both sides
  changed differently; `BinaryFile` ⇒ contents conflict);
* `merge3.Merge3.merge_lines` itself (external package): how a list of merge
  regions is turned into lines and marker lines.  The *region computation*
  (`merge_regions`, `reprocess_merge_regions`, cherrypick refinement) is NOT
  modelled: regions are an input, resolved to the line lists they denote;
* `breezy/bzr/conflicts.py: TextConflict._resolve`, `ContentsConflict._resolve`
  followed by `Conflict.cleanup` and the record removal of
  `breezy/conflicts.py: resolve`, as a step function on the per-file slot
  (file, three helper files, conflict record, which name carries the file id);
* WHERE all this goes: `_merge_names` (name and parent directory merged
  independently with `_three_way`, `winner_idx`), `tt.final_name/final_parent`
  feeding `_dump_conflicts` / `_conflict_file` (`name + "." + suffix`),
  `cook_conflicts` (record under the final path; path conflict dropped beside a
  contents conflict) and resolution BY PATH (`self.path + "." + winner_suffix`,
  `associated_filenames`), for a file renamed / moved by either side or added by
  both sides (absent from BASE): `mergeLoc`, `place`, `mergeFileOpt`,
  `mergeEntry`, `Placed.view`, `resolvePlaced`.
-/
namespace BreezyVerif.C19

abbrev Line := Bytes

/-- one merge region with the lines it denotes
(`merge3`: `('unchanged', z, zend)`, `('a', ia, amatch)`, `('same', ia, amatch)`,
`('b', ib, bmatch)`, `('conflict', iz|None, zmatch|None, ia, amatch, ib, bmatch)`) -/
inductive Region where
  | unchanged (ls : List Line)
  | a (ls : List Line)
  | same (ls : List Line)
  | b (ls : List Line)
  | conflict (base : Option (List Line)) (a b : List Line)
  deriving DecidableEq, Repr

def Region.isConflict : Region → Bool
  | .conflict .. => true
  | _ => false

/-- `b"!START OF MERGE CONFLICT!" + b"I HOPE THIS IS UNIQUE"` -/
def sentinel : Bytes :=
  [33, 83, 84, 65, 82, 84, 32, 79, 70, 32, 77, 69, 82, 71, 69, 32, 67, 79, 78, 70, 76, 73, 67, 84, 33,
   73, 32, 72, 79, 80, 69, 32, 84, 72, 73, 83, 32, 73, 83, 32, 85, 78, 73, 81, 85, 69]
/-- `b"<" * 7` -/
def lt7 : Bytes := [60, 60, 60, 60, 60, 60, 60]
/-- merge3's default mid marker `b"======="` -/
def eq7 : Bytes := [61, 61, 61, 61, 61, 61, 61]
/-- merge3's default end marker `b">>>>>>>"` -/
def gt7 : Bytes := [62, 62, 62, 62, 62, 62, 62]
/-- `b"|" * 7` -/
def bar7 : Bytes := [124, 124, 124, 124, 124, 124, 124]
/-- `name_a=b"TREE"` -/
def nameA : Bytes := [84, 82, 69, 69]
/-- `name_b=b"MERGE-SOURCE"` -/
def nameB : Bytes := [77, 69, 82, 71, 69, 45, 83, 79, 85, 82, 67, 69]
/-- `name_base=b"BASE-REVISION"` -/
def nameBase : Bytes := [66, 65, 83, 69, 45, 82, 69, 86, 73, 83, 73, 79, 78]

def withName (marker name : Bytes) : Bytes := marker ++ 32 :: name

/-- the newline merge3 appends to marker lines: taken from the first line of `a` (= THIS) -/
def newlineOf : List Line → Bytes
  | [] => [10]
  | l :: _ =>
    if [13, 10].isSuffixOf l then [13, 10]
    else if [13].isSuffixOf l then [13]
    else [10]

inductive Err where
  | cantReprocessAndShowBase
  /-- `assert iz is not None` in merge_lines: a reprocessed conflict region under show-base -/
  | assertion
  /-- TextConflict._resolve: the winner helper does not exist (`MalformedTransform: versioning no contents`) -/
  | malformed
  deriving DecidableEq, Repr

instance {ε α : Type} [DecidableEq ε] [DecidableEq α] : DecidableEq (Except ε α) := fun x y =>
  match x, y with
  | .ok a, .ok b => if h : a = b then isTrue (by rw [h]) else isFalse (fun e => h (by cases e; rfl))
  | .error a, .error b => if h : a = b then isTrue (by rw [h]) else isFalse (fun e => h (by cases e; rfl))
  | .ok _, .error _ => isFalse (fun e => by cases e)
  | .error _, .ok _ => isFalse (fun e => by cases e)

/-- lines yielded by `merge_lines` for one region -/
def renderRegion (start : Bytes) (baseMarker : Option Bytes) (nl : Bytes) : Region → Except Err (List Line)
  | .unchanged ls => .ok ls
  | .a ls => .ok ls
  | .same ls => .ok ls
  | .b ls => .ok ls
  | .conflict base ta tb =>
    match baseMarker, base with
    | none, _ => .ok ((start ++ nl) :: ta ++ (eq7 ++ nl) :: tb ++ [withName gt7 nameB ++ nl])
    | some bm, some bl =>
      .ok ((start ++ nl) :: ta ++ (bm ++ nl) :: bl ++ (eq7 ++ nl) :: tb ++ [withName gt7 nameB ++ nl])
    | some _, none => .error .assertion

/-- `merge3.Merge3.merge_lines(name_a=TREE, name_b=MERGE-SOURCE, name_base=BASE-REVISION,
start_marker=start, base_marker=…)` over an explicit region list -/
def mergeLines (start : Bytes) (baseMarker : Option Bytes) (nl : Bytes) : List Region → Except Err (List Line)
  | [] => .ok []
  | r :: rs =>
    match renderRegion start baseMarker nl r with
    | .error e => .error e
    | .ok h =>
      match mergeLines start baseMarker nl rs with
      | .error e => .error e
      | .ok t => .ok (h ++ t)

/-- `while any(line.startswith(start_marker) …): start_marker += b"!"`.
The loop ends at the latest when the marker is longer than every line; `fuel`
is chosen accordingly (`freshMarker`), `extendMarker_fresh` proves it suffices. -/
def extendMarker (lines : List Line) : Nat → Bytes → Bytes
  | 0, m => m
  | fuel + 1, m => if lines.any (fun l => m.isPrefixOf l) then extendMarker lines fuel (m ++ [33]) else m

def maxLen : List Line → Nat
  | [] => 0
  | l :: ls => max l.length (maxLen ls)

/-- the start marker `text_merge` hands to merge3 for the given BASE, OTHER, THIS lines -/
def freshMarker (base other this : List Line) : Bytes :=
  extendMarker (base ++ other ++ this) (maxLen (base ++ other ++ this) + 1) sentinel

/-- the body of `iter_merge3`'s loop for one line: (yielded line, sets the flag) -/
def fixLine (marker : Bytes) (l : Line) : Line × Bool :=
  if marker.isPrefixOf l then (lt7 ++ l.drop marker.length, true) else (l, false)

/-- `iter_merge3`: yielded lines and the final value of `retval["text_conflicts"]` -/
def iterMerge3 (marker : Bytes) (lines : List Line) : List Line × Bool :=
  (lines.map fun l => (fixLine marker l).1, lines.any fun l => (fixLine marker l).2)

structure Opts where
  reprocess : Bool
  showBase : Bool
  deriving DecidableEq, Repr

def baseMarkerOf (o : Opts) : Option Bytes :=
  if o.showBase then some (withName bar7 nameBase) else none

/-- `Merge3Merger.text_merge` up to the file content: lines written to the file
and the `text_conflicts` flag.  `this` = THIS lines (`a` of merge3). -/
def textMerge (o : Opts) (base this other : List Line) (regions : List Region) :
    Except Err (List Line × Bool) :=
  if o.showBase && o.reprocess then .error .cantReprocessAndShowBase
  else
    let marker := freshMarker base other this
    match mergeLines (withName marker nameA) (baseMarkerOf o) (newlineOf this) regions with
    | .error e => .error e
    | .ok lines => .ok (iterMerge3 marker lines)

/-- what a reader of the file expects: the same rendering with `<<<<<<< TREE` as start marker -/
def renderSpec (o : Opts) (this : List Line) (regions : List Region) : Except Err (List Line) :=
  mergeLines (withName lt7 nameA) (baseMarkerOf o) (newlineOf this) regions

/-- the lines a region contributes from the inputs (no marker lines) -/
def Region.emitted (showBase : Bool) : Region → List Line
  | .unchanged ls => ls
  | .a ls => ls
  | .same ls => ls
  | .b ls => ls
  | .conflict base ta tb =>
    ta ++ (match showBase, base with | true, some bl => bl | _, _ => []) ++ tb

/-- the cleanly merged text of a conflict-free region list -/
def Region.chosen : Region → List Line
  | .unchanged ls => ls
  | .a ls => ls
  | .same ls => ls
  | .b ls => ls
  | .conflict _ ta _ => ta

/-- explicit hypothesis: the regions denote lines of the inputs (they are
slices of BASE / THIS / OTHER — checked on every generated case) -/
def FromInputs (showBase : Bool) (base this other : List Line) (regions : List Region) : Prop :=
  ∀ r ∈ regions, ∀ l ∈ r.emitted showBase, l ∈ base ++ other ++ this

instance (sb : Bool) (b t o : List Line) (rs : List Region) : Decidable (FromInputs sb b t o rs) := by
  unfold FromInputs; infer_instance

/-- `osutils.split_lines`: split after every `\n` -/
def splitLinesAux : Bytes → Bytes → List Line
  | acc, [] => if acc.isEmpty then [] else [acc.reverse]
  | acc, c :: cs => if c = 10 then (c :: acc).reverse :: splitLinesAux [] cs else splitLinesAux (c :: acc) cs

def splitLines (t : Bytes) : List Line := splitLinesAux [] t

def joinLines (ls : List Line) : Bytes := ls.flatten

/-! ### the per-file outcome of the tree merge -/

/-- `textfile.check_text_lines` (Rust `osutils::textfile::check_text_lines`), literally: the lines
are scanned in order; a NUL in a scanned line ⇒ not text; scanning stops after the first line that
does not fit into the 1024-byte window any more (that line itself is still scanned). -/
def checkTextLines : Nat → List Line → Bool
  | _, [] => true
  | off, l :: ls =>
    if l.contains 0 then false
    else if off + l.length > 1024 then true
    else checkTextLines (off + l.length) ls

/-- `BinaryFile` is raised for these lines -/
def isBinary (ls : List Line) : Bool := !checkTextLines 0 ls

inductive Outcome where
  /-- no conflict: the file holds `content`; no helper files, no record -/
  | clean (content : Bytes)
  /-- text conflict recorded; file content and the `.BASE/.THIS/.OTHER` helper contents -/
  | textConflict (content base this other : Bytes)
  /-- contents conflict (binary): the file itself is gone, helpers hold the three versions -/
  | contentsConflict (base this other : Bytes)
  | error (e : Err)
  deriving DecidableEq, Repr

/-- `_do_merge_contents` + `merge_contents` + `text_merge` for a path that is a
file in all three trees. -/
def mergeFile (o : Opts) (base this other : List Line) (regions : List Region) : Outcome :=
  match C18.threeWay (joinLines base) (joinLines other) (joinLines this) with
  | .this => .clean (joinLines this)
  | .other => .clean (joinLines other)
  | .conflict =>
    if isBinary base || isBinary other || isBinary this then
      .contentsConflict (joinLines base) (joinLines this) (joinLines other)
    else
      match textMerge o base this other regions with
      | .error e => .error e
      | .ok (lines, false) => .clean (joinLines lines)
      | .ok (lines, true) =>
        .textConflict (joinLines lines) (joinLines base) (joinLines this) (joinLines other)

/-! ### resolution -/

inductive Kind where
  | text | contents
  deriving DecidableEq, Repr

inductive Side where
  | this | other
  deriving DecidableEq, Repr

/-- which name carries the file id -/
inductive IdLoc where
  | item | hThis | hOther | hBase | nowhere
  deriving DecidableEq, Repr

/-- everything the working tree holds for one merged path `p`:
`p`, `p.BASE`, `p.THIS`, `p.OTHER` (content or absent), the conflict record for
`p`, and which of the four names is versioned with the file id. -/
structure Slot where
  file : Option Bytes
  hBase : Option Bytes
  hThis : Option Bytes
  hOther : Option Bytes
  record : Option Kind
  idOn : IdLoc
  deriving DecidableEq, Repr

def Outcome.slot : Outcome → Option Slot
  | .clean c => some ⟨some c, none, none, none, none, .item⟩
  | .textConflict c b t o => some ⟨some c, some b, some t, some o, some .text, .item⟩
  | .contentsConflict b t o => some ⟨none, some b, some t, some o, some .contents, .hOther⟩
  | .error _ => none

def Slot.helper (s : Slot) : Side → Option Bytes
  | .this => s.hThis
  | .other => s.hOther

/-- `TextConflict._resolve(tt, winner)` (swap `p` and `p.WINNER`, move the file
id to the winner content) followed by `cleanup` (delete `p.THIS`, `p.BASE`,
`p.OTHER`) and the removal of the record.  A missing winner helper makes the
transform malformed: nothing changes and the record stays. -/
def resolveText (w : Side) (s : Slot) : Except Err Slot :=
  match s.helper w with
  | none => .error .malformed
  | some c => .ok ⟨some c, none, none, none, none, .item⟩

/-- `ContentsConflict._resolve(tt, suffix_to_remove)` for `take_this`
(`suffix_to_remove = OTHER`) / `take_other` (`= THIS`), then `cleanup`
(`associated_filenames` = `p.BASE`, `p.OTHER` only) and record removal.

Literal: (1) the contents of `p.<remove>` are deleted; (2) if the file id sits
on the helper just deleted and the other helper exists, the id is handed over
to the helper that is kept; (3) the name that carries the file id is renamed
to `p`. -/
def resolveContents (w : Side) (s : Slot) : Slot :=
  -- (1)
  let s1 : Slot := match w with
    | .this => { s with hOther := none }
    | .other => { s with hThis := none }
  -- (2)
  let s1' : Slot := match w with
    | .this => if s1.idOn = .hOther ∧ s1.hThis.isSome then { s1 with idOn := .hThis } else s1
    | .other => if s1.idOn = .hThis ∧ s1.hOther.isSome then { s1 with idOn := .hOther } else s1
  -- (3) rename the versioned name to `p`
  let s2 : Slot := match s1'.idOn with
    | .item => s1'
    | .hThis => { s1' with file := s1'.hThis, hThis := none, idOn := .item }
    | .hOther => { s1' with file := s1'.hOther, hOther := none, idOn := .item }
    | .hBase => { s1' with file := s1'.hBase, hBase := none, idOn := .item }
    | .nowhere => s1'
  -- cleanup + record removal
  { s2 with hBase := none, hOther := none, record := none }

/-! ### placement: WHERE the file, the helper files and the record go

The file being merged may sit at a different path in each of the three trees
(renamed and / or moved by either side).  `_merge_names` merges the name and
the parent directory as two independent attributes with `_three_way`
(`winner_idx = {"this": 2, "other": 1, "conflict": 1}`: on a conflict OTHER's
value is used and a path conflict is recorded); `text_merge` /
`_do_merge_contents` then take `tt.final_name(trans_id)` /
`tt.final_parent(trans_id)` for the helper files (`_conflict_file`:
`name + "." + suffix` in the same directory) and `cook_conflicts` records the
conflict under the final path.  Resolution works by PATH: `TextConflict._resolve`
looks for `self.path + "." + winner_suffix`, `cleanup` deletes
`self.path + suffix`.  The directory is an opaque identity (the file id of the
parent directory), so directory renames do not matter here. -/

abbrev Name := Bytes

structure Loc where
  parent : Nat
  name : Name
  deriving DecidableEq, Repr

/-- `".BASE"` -/
def sfxBase : Bytes := [46, 66, 65, 83, 69]
/-- `".THIS"` -/
def sfxThis : Bytes := [46, 84, 72, 73, 83]
/-- `".OTHER"` -/
def sfxOther : Bytes := [46, 79, 84, 72, 69, 82]

def Loc.suffixed (l : Loc) (sfx : Bytes) : Loc := ⟨l.parent, l.name ++ sfx⟩

/-- `names[winner_idx[winner]]` with `winner_idx = {"this": 2, "other": 1, "conflict": 1}` -/
def pickWinner {α : Type} (w : C18.Winner) (other this : α) : α :=
  match w with
  | .this => this
  | .other => other
  | .conflict => other

structure NameMerge where
  final : Loc
  /-- a `("path conflict", …)` raw conflict was appended -/
  pathConflict : Bool
  deriving DecidableEq, Repr

/-- `_merge_names` for an entry present in THIS and OTHER (in BASE or — added by both sides — not):
`tt.adjust_path(winning_name, winning_parent, trans_id)`; afterwards `final_name` / `final_parent`
are these.  An entry absent from BASE has `None` for its BASE name and parent. -/
def mergeLoc (base : Option Loc) (this other : Loc) : NameMerge :=
  let wn := C18.threeWay (base.map (·.name)) (some other.name) (some this.name)
  let wp := C18.threeWay (base.map (·.parent)) (some other.parent) (some this.parent)
  ⟨⟨pickWinner wp other.parent this.parent, pickWinner wn other.name this.name⟩,
   decide (wn = .conflict) || decide (wp = .conflict)⟩

/-- what one merged entry leaves in the working tree: files (path ↦ content),
the cooked content-level conflict record with its path, where the file id
sits, and whether a path conflict is reported -/
structure Placed where
  files : List (Loc × Bytes)
  record : Option (Kind × Loc)
  idAt : Option Loc
  pathConflict : Bool
  deriving DecidableEq, Repr

def optFile (l : Loc) : Option Bytes → List (Loc × Bytes)
  | some c => [(l, c)]
  | none => []

/-- `text_merge` / `_do_merge_contents` + `_dump_conflicts` + `_conflict_file` + `cook_conflicts`
for the final location `l`.  `hasBase = false`: the entry is not in BASE, `_dump_conflicts` skips
the `.BASE` helper (`if path is not None`).  (`cook_conflicts` drops the path conflict of an entry
that also has a contents conflict.) -/
def place (l : Loc) (pc hasBase : Bool) : Outcome → Option Placed
  | .clean c => some ⟨[(l, c)], none, some l, pc⟩
  | .textConflict c b t o =>
    some ⟨(l, c) :: optFile (l.suffixed sfxBase) (if hasBase then some b else none) ++
            [(l.suffixed sfxThis, t), (l.suffixed sfxOther, o)],
          some (.text, l), some l, pc⟩
  | .contentsConflict b t o =>
    some ⟨optFile (l.suffixed sfxBase) (if hasBase then some b else none) ++
            [(l.suffixed sfxThis, t), (l.suffixed sfxOther, o)],
          some (.contents, l), some (l.suffixed sfxOther), false⟩
  | .error _ => none

/-- `get_lines(tree, path)`: `[]` when the path is `None` -/
def baseLinesOf : Option (List Line) → List Line
  | some b => b
  | none => []

/-- `mergeFile` for an entry that may be absent from BASE (added by both sides): the content
decision then sees `(None, None)` for BASE, which differs from both sides; the text merge runs
with `get_lines(base_tree, None) = []`. -/
def mergeFileOpt (o : Opts) (base : Option (List Line)) (this other : List Line) (regions : List Region) :
    Outcome :=
  match C18.threeWay (base.map joinLines) (some (joinLines other)) (some (joinLines this)) with
  | .this => .clean (joinLines this)
  | .other => .clean (joinLines other)
  | .conflict =>
    if isBinary (baseLinesOf base) || isBinary other || isBinary this then
      .contentsConflict (joinLines (baseLinesOf base)) (joinLines this) (joinLines other)
    else
      match textMerge o (baseLinesOf base) this other regions with
      | .error e => .error e
      | .ok (lines, false) => .clean (joinLines lines)
      | .ok (lines, true) =>
        .textConflict (joinLines lines) (joinLines (baseLinesOf base)) (joinLines this) (joinLines other)

/-- one entry of the tree merge: name merge, then content merge at the merged location.
`base = none`: the file was added by both sides (same file id / same path). -/
def mergeEntry (o : Opts) (base : Option (Loc × List Line)) (tl ol : Loc) (this other : List Line)
    (regions : List Region) : Option Placed :=
  let nm := mergeLoc (base.map (·.1)) tl ol
  place nm.final nm.pathConflict base.isSome (mergeFileOpt o (base.map (·.2)) this other regions)

def lookupLoc (l : Loc) : List (Loc × Bytes) → Option Bytes
  | [] => none
  | (k, v) :: t => if k = l then some v else lookupLoc l t

def Placed.get (p : Placed) (l : Loc) : Option Bytes := lookupLoc l p.files

/-- which of the four names of the conflict at `l` carries the file id -/
def Placed.idLoc (p : Placed) (l : Loc) : IdLoc :=
  match p.idAt with
  | none => .nowhere
  | some x =>
    if x = l then .item
    else if x = l.suffixed sfxThis then .hThis
    else if x = l.suffixed sfxOther then .hOther
    else if x = l.suffixed sfxBase then .hBase
    else .nowhere

/-- what a conflict object with `path = l` sees of the tree: `l`, `l.BASE`, `l.THIS`, `l.OTHER` -/
def Placed.view (p : Placed) (l : Loc) : Slot :=
  ⟨p.get l, p.get (l.suffixed sfxBase), p.get (l.suffixed sfxThis), p.get (l.suffixed sfxOther),
   (match p.record with
    | some (k, l') => if l' = l then some k else none
    | none => none),
   p.idLoc l⟩

/-- write a slot back at `l`; files under other names are not touched -/
def Placed.putSlot (p : Placed) (l : Loc) (s : Slot) : Placed :=
  let rest := p.files.filter fun f =>
    !(decide (f.1 = l) || decide (f.1 = l.suffixed sfxBase) || decide (f.1 = l.suffixed sfxThis)
      || decide (f.1 = l.suffixed sfxOther))
  ⟨optFile l s.file ++ optFile (l.suffixed sfxBase) s.hBase ++ optFile (l.suffixed sfxThis) s.hThis
      ++ optFile (l.suffixed sfxOther) s.hOther ++ rest,
   s.record.map fun k => (k, l),
   (match s.idOn with
    | .item => some l
    | .hThis => some (l.suffixed sfxThis)
    | .hOther => some (l.suffixed sfxOther)
    | .hBase => some (l.suffixed sfxBase)
    | .nowhere => p.idAt),
   p.pathConflict⟩

/-- `breezy.conflicts.resolve(tree, [record path], action=take_this|take_other)`:
the conflict object resolves by its recorded path -/
def resolvePlaced (w : Side) (p : Placed) : Except Err Placed :=
  match p.record with
  | none => .ok p
  | some (.text, l) =>
    match resolveText w (p.view l) with
    | .error e => .error e
    | .ok s => .ok (p.putSlot l s)
  | some (.contents, l) => .ok (p.putSlot l (resolveContents w (p.view l)))

end BreezyVerif.C19
