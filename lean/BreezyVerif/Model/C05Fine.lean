import BreezyVerif.Model.C05
/-!
C05 — the same system at TRANSPORT-OPERATION granularity.  Core Lean only.

`Model/C05.lean` interleaves whole phases.  The two phases that REMOVE files
from where readers look for them are sequences of single transport calls,
between which any other process may run:

* `_save_pack_names(clear_obsolete_packs=True)`: take the names lock, merge,
  `put_file(pack-names)`, `list_dir(obsolete_packs)` — then one `delete` per
  file found there (except the preserved ones), then release the lock;
* `_obsolete_packs(packs)`: per pack one `move` of the `.pack` and one `move`
  per index;
* `_clear_obsolete_packs()` of `pack(clean_obsolete_packs=True)`: one `delete`
  per file.

Here a process *begins* a phase (`FAct.begin`): the part that is atomic in the
real code happens at once (for `save`: lock + merge + `put_file` + the listing
of `obsolete_packs/`, all under the names lock; the memory update of the
process, which nobody else can observe, is taken at the same point), the
removals are queued in `pend` and are performed one at a time by `FAct.op`, any
other process' steps in between.  A process is sequential: it cannot begin a
phase while it has queued operations.  What the names lock (C26) is needed for
is exactly the atomicity of read + merge + `put_file` in `beginSave`; the model
does not even forbid another process to begin its own save while the deletes
of this one are still queued (a superset of the real behaviours, where the
second process would wait for the lock).  `reload`, `finish` and `repack` stay
single steps: they create files of a name nobody lists yet, or none at all
(their operation-level prefixes are C04's subject).
-/
namespace BreezyVerif.C05
open BreezyVerif.C04

structure FSys where
  s : Sys
  /-- the transport operations the process still has to perform in its current phase -/
  pend : Nat → List Op
  /-- the queued operations are the moves of `_obsolete_packs` -/
  obsPhase : Nat → Bool

inductive FAct where
  | begin (a : Act)
  | op
  deriving Repr

def FSys.init (s : Sys) : FSys := ⟨s, fun _ => [], fun _ => false⟩

/-- the atomic part of `_save_pack_names`: lock, three-way merge, `put_file`;
memory synchronised; what is left to do: the deletes of
`_clear_obsolete_packs(preserve)` (the directory is listed now) and the unlock -/
def beginSave (f : FSys) (i : Nat) (clear : Bool) : FSys :=
  let s := f.s
  let p := s.procs i
  let merged := mergeNames s.disk.names p.atLoad p.names
  let already := alreadyObsolete s.disk
  { f with
    s := { s with
      disk := run s.disk [Op.lock, Op.putNames merged]
      procs := upd s.procs i
        { p with names := merged, atLoad := merged, combined := [],
                 toObsolete := p.toObsolete ++ p.combined.filter (fun n => !already.contains n) }
      ever := s.ever ++ merged
      committed := s.committed ++ (privateNames p).flatMap s.content }
    pend := upd f.pend i ((if clear then clearOps s.disk p.combined else []) ++ [Op.unlock]) }

def fstep (f : FSys) (i : Nat) : FAct → FSys
  | .op =>
    match f.pend i with
    | [] => f
    | o :: rest =>
      let s1 : Sys := { f.s with disk := C04.step f.s.disk o }
      if rest.isEmpty && f.obsPhase i then
        { s := { s1 with procs := upd s1.procs i { s1.procs i with toObsolete := [] } }
          pend := upd f.pend i []
          obsPhase := upd f.obsPhase i false }
      else { f with s := s1, pend := upd f.pend i rest }
  | .begin a =>
    if !(f.pend i).isEmpty then f
    else match a with
      | .save clear => beginSave f i clear
      | .obsolete =>
        let ops := (f.s.procs i).toObsolete.flatMap (obsoleteOps f.s.chk)
        if ops.isEmpty then
          { f with s := { f.s with procs := upd f.s.procs i { f.s.procs i with toObsolete := [] } } }
        else { f with pend := upd f.pend i ops, obsPhase := upd f.obsPhase i true }
      | .clearAll => { f with pend := upd f.pend i (clearOps f.s.disk []) }
      | a => { f with s := step f.s i a }

abbrev FSchedule := List (Nat × FAct)

def fexec (f : FSys) (sched : FSchedule) : FSys := sched.foldl (fun st a => fstep st a.1 a.2) f

/-- process `i` begins phase `a` and performs all its queued operations without
anybody running in between: the phase-granularity step -/
def phaseAsOps (i : Nat) (a : Act) (k : Nat) : FSchedule := (i, FAct.begin a) :: List.replicate k (i, FAct.op)

end BreezyVerif.C05
