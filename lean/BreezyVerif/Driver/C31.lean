import BreezyVerif.Common
import BreezyVerif.Model.C31
/-
C31 driver.  All byte strings travel as lowercase hex (`-` = empty).

  jp <p>                      urlutils.joinpath("/", p)              → ok:<hex> | E:…
  esc <p> | unesc <p>         urlutils.escape / unescape             → ok:<hex> | E:…
  tr <rcp> <cp>               SmartServerRequest.translate_client_path (rcp as given to __init__)
  vfs <fx T|F> <rcp> <cp>     VfsRequest.translate_client_path
  clone <rel>                 path part of backing.clone(rel).base   → <hex>
  xu <base> <tbl> <path>      _expand_userdirs with expanduser over <tbl>
                              (a base written `!<hex>` selects the proposed-fix variant, here and below)
  loc <rootdir> <base|~> <tbl> <clonerel> <rel>
                              → bk=<hex> os=<ok:hex|E:…> loc=<hex of "/"+segments>
  jail <~ | url,url…> <url>   _pre_open_hook                           → T | F

  canon <p> | mild <p> | nurl <p>   isCanon / isMild / normalisedUrl        → T | F
  jurl <rootdir> <base|~> <tbl> <pfx> <~ | clonerel,clonerel…> <p> <rel>
                              a transport built from the URL pfx++p, jail = transports cloned at the
                              given relpaths (`-` = the root) or none (`~`)
                              → norm=<T|F> base=<hex> allowed=<T|F> bk=<hex> os=<ok:hex|E:…> loc=<hex|E:…>

  tbl = name:home,name:home (hex each, `-` = no entry at all)
-/
namespace BreezyVerif.C31

def showR : Except Err Bytes → String
  | .ok b => "ok:" ++ toHex b
  | .error e => e.toString

def parseTbl (s : String) : Option (List (Bytes × Bytes)) :=
  if s == "-" then some [] else
  (s.splitOn ",").mapM fun e =>
    match e.splitOn ":" with
    | [n, h] => do pure ((← fromHex n), (← fromHex h))
    | _ => none

def parseBase (s : String) : Option (Option Bytes) :=
  if s == "~" then some none else (fromHex s).map some

/-- `!<hex>` selects the proposed-fix variant of `_expand_userdirs` -/
def parseBaseV (s : String) : Option (Option Bytes × Bool) :=
  if s.startsWith "!" then (parseBase (s.drop 1).toString).map (·, true) else (parseBase s).map (·, false)

def absPath (segs : List Seg) : Bytes := SL :: joinSl segs

def mkCfg (rootDir : Bytes) (basev : Option Bytes × Bool) (tbl : List (Bytes × Bytes)) : Cfg :=
  { rootDir := (splitSl rootDir).filter (· ≠ []),
    basePath := basev.1,
    filter := fun p => match basev.1 with
      | none => p
      | some b => if basev.2 then expandUserdirsFx (expanduser tbl) b p else expandUserdirs (expanduser tbl) b p }

/-- `s<tid>:<hex>+<hex>` (`-` = no roots) | `t<tid>` | `o<tid>:<hex>` -/
def parseJOp (s : String) : Option JOp :=
  match s.toList with
  | 's' :: rest =>
    match (String.ofList rest).splitOn ":" with
    | [t, roots] =>
      match t.toNat?, (if roots == "-" then some [] else (roots.splitOn "+").mapM fromHex) with
      | some t, some r => some (.setup t r)
      | _, _ => none
    | _ => none
  | 't' :: rest => (String.ofList rest).toNat?.map .teardown
  | 'o' :: rest =>
    match (String.ofList rest).splitOn ":" with
    | [t, url] =>
      match t.toNat?, fromHex url with
      | some t, some u => some (.open_ t u)
      | _, _ => none
    | _ => none
  | _ => none

def handle : List String → String
  | ["jp", p] => match fromHex p with
    | some p => showR (joinpathRoot p)
    | none => "bad-op"
  | ["esc", p] => match fromHex p with
    | some p => showR (.ok (escape p))
    | none => "bad-op"
  | ["unesc", p] => match fromHex p with
    | some p => showR (unescape p)
    | none => "bad-op"
  | ["tr", rcp, cp] => match fromHex rcp, fromHex cp with
    | some rcp, some cp => showR (translate (normRoot rcp) cp)
    | _, _ => "bad-op"
  | ["vfs", fx, rcp, cp] => match parseBool fx, fromHex rcp, fromHex cp with
    | some fx, some rcp, some cp => showR (vfsTranslate fx (normRoot rcp) cp)
    | _, _, _ => "bad-op"
  | ["clone", rel] => match fromHex rel with
    | some rel => toHex (stkPath (combine [] rel))
    | none => "bad-op"
  | ["xu", base, tbl, p] => match parseBaseV base, parseTbl tbl, fromHex p with
    | some (some base, fx2), some tbl, some p =>
      toHex (if fx2 then expandUserdirsFx (expanduser tbl) base p else expandUserdirs (expanduser tbl) base p)
    | _, _, _ => "bad-op"
  | ["loc", rootDir, base, tbl, crel, rel] =>
    match fromHex rootDir, parseBaseV base, parseTbl tbl, fromHex crel, fromHex rel with
    | some rootDir, some base, some tbl, some crel, some rel =>
      let cfg := mkCfg rootDir base tbl
      let stk := combine [] crel
      let bk := backingRel cfg stk rel
      let os := osRel bk
      let loc := match locate cfg stk rel with
        | .ok l => toHex (absPath l)
        | .error e => e.toString
      s!"bk={toHex bk} os={showR os} loc={loc}"
    | _, _, _, _, _ => "bad-op"
  | ["canon", p] => match fromHex p with
    | some p => showBool (isCanon p)
    | none => "bad-op"
  | ["mild", p] => match fromHex p with
    | some p => showBool (isMild p)
    | none => "bad-op"
  | ["nurl", p] => match fromHex p with
    | some p => showBool (normalisedUrl p)
    | none => "bad-op"
  | ["jurl", rootDir, base, tbl, pfx, jail, p, rel] =>
    match fromHex rootDir, parseBaseV base, parseTbl tbl, fromHex pfx, fromHex p, fromHex rel with
    | some rootDir, some base, some tbl, some pfx, some p, some rel =>
      let jl : Option (Option (List Bytes)) :=
        if jail == "~" then some none
        else ((splitList jail).mapM fromHex).map (fun l => some (l.map fun r => pfx ++ cloneBase (combine [] r)))
      match jl with
      | none => "bad-op"
      | some allowed =>
        let cfg := mkCfg rootDir base tbl
        let bk := urlBackingRel cfg p rel
        let loc := match urlLocate cfg p rel with
          | .ok l => toHex (absPath l)
          | .error e => e.toString
        s!"norm={showBool (normalisedUrl p)} base={toHex (urlBase p)} allowed={showBool (jailAllows allowed (pfx ++ urlBase p))} bk={toHex bk} os={showR (osRel bk)} loc={loc}"
    | _, _, _, _, _, _ => "bad-op"
  | ["jail", allowed, url] =>
    match fromHex url with
    | none => "bad-op"
    | some url =>
      if allowed == "~" then showBool (jailAllows none url)
      else match (splitList allowed).mapM fromHex with
        | some l => showBool (jailAllows (some l) url)
        | none => "bad-op"
  | ["jtrace", variant, ops] =>
    match (if ops == "-" then some [] else (ops.splitOn ";").mapM parseJOp) with
    | none => "bad-op"
    | some l =>
      let show_ (r : List (Tid × Bool)) : String :=
        if r.isEmpty then "-" else ",".intercalate (r.map fun (t, b) => toString t ++ showBool b)
      match variant with
      | "tl" => show_ (runTL JailTL.init l)
      | "sh" => show_ (runShared none l)
      | _ => "bad-op"
  | _ => "bad-op"

end BreezyVerif.C31

def main : IO Unit := BreezyVerif.runDriver BreezyVerif.C31.handle
